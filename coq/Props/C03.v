(* C03: focusing preserves Core semantics including the order of effects; afterwards all binders
   along every path of a definition are distinct and distinct from every free name.
   Only statements here; proofs live in Proof/.  Models: Model/Uniquify.v, Model/Focus.v;
   executable forms of the property: Model/FocusCheck.v. *)
From Coq Require Import List ZArith NArith String Bool.
From SCC Require Import Lang.CoreSyn Model.Backend Model.Uniquify Model.Focus Model.FocusCheck
     Sem.AxSem Sem.CoreSem Proof.SubstProof Proof.FocusTheorems Proof.FocusExtra Proof.FocusExamples Proof.FocusSem.
Import ListNotations.

(* ---- uniqueness of binders -------------------------------------------------------------------
   Precondition (boolean checkers, FocusCheck.v):
     pre_check p : per definition, every variable id <= max_id, the binders whose id is not 0 are
                   pairwise distinct, every occurrence with an id other than 0 lies below a binder
                   with that id.  (Output of fun2core: every id is 0 and max_id = 0.)
     focus_wf p  : no Literal/Op in a consumer position, no cut of two xtors, no cut of an operator
                   against a destructor (implied by well-typedness).
   Conclusion: the Rust-modelled `Prog::focus` returns (no panic), and unique_check holds: in every
   definition the binder ids (parameters, mu/mutilde variables, clause contexts) are pairwise distinct
   along every path; no free name has the id of a binder; every binder id not inherited from the
   input is > the input's max_id; the output's max_id is >= every id and >= the input's max_id. *)
Theorem C03_focus_unique :
  forall p, pre_check p = true -> focus_wf p = true ->
  exists q, focus_prog p = Ok q /\ unique_check p q = true.
Proof. exact focus_unique_thm. Qed.
Print Assumptions C03_focus_unique.

(* the same for the uniquify pass alone; its output again satisfies the precondition *)
Theorem C03_uniquify_unique :
  forall p, pre_check p = true -> focus_wf p = true ->
  exists q, uniquify_prog p = Ok q /\ uniquified_check p q = true /\ focus_wf q = true /\ pre_check q = true.
Proof. exact uniquify_unique_thm. Qed.
Print Assumptions C03_uniquify_unique.

(* real translation outputs satisfy the precondition (and, computed, the conclusion) *)
Theorem C03_real_inputs_satisfy_precondition :
  pre_ok ex_case_of = true /\ pre_ok ex_lists = true /\ pre_ok ex_gen3 = true.
Proof. exact (conj ex_case_of_pre (conj ex_lists_pre ex_gen3_pre)). Qed.
Print Assumptions C03_real_inputs_satisfy_precondition.

(* The precondition cannot be weakened to "every id <= max_id": uniquify renames only binders
   with id 0, so two binders that already share a non-zero id stay as they are.
   Witness:  def main() { <1 | mutilde x_1. <2 | mutilde x_1. exit x_1>> }  with max_id = 1
   (confirmed on the Rust code: harness case hand:dup-nonzero). *)
Theorem C03_focus_unique_ids_below_max_only_refuted :
  exists p, forallb (ids_le_def (cpmax p)) (cpdefs p) = true /\ focus_wf p = true /\
            exists q, focus_prog p = Ok q /\ unique_check p q = false.
Proof. exact focus_unique_ids_below_max_only_refuted. Qed.
Print Assumptions C03_focus_unique_ids_below_max_only_refuted.

(* ... and an id above max_id lets focusing invent an identifier that is already in use:
   def main() { <1 | mutilde x_1. exit (x_1 + 5)> } with max_id = 0 becomes
   <1 | mutilde x_1. <5 | mutilde x_1. <x_1 + x_1 | mutilde x_2. exit x_2>>>
   (confirmed on the Rust code: harness case hand:id-above-max). *)
Theorem C03_focus_captures_when_id_above_max_refuted :
  exists p q, focus_wf p = true /\ focus_prog p = Ok q /\ captured_sum q = true.
Proof. exact focus_captures_when_id_above_max_refuted. Qed.
Print Assumptions C03_focus_captures_when_id_above_max_refuted.

(* ---- no panic ---------------------------------------------------------------------------------
   None of the panics of subst_sim ("cannot happen"), focus ("Cannot happen", "Constructors and
   destructors should always be focused in cuts directly", "Arithmetic operators should always be
   focused in cuts directly") is reachable, and the fuel of the uniquify model suffices, on every
   program of the right shape - whatever its identifiers. *)
Theorem C03_focus_total :
  forall p, focus_wf p = true -> exists q, focus_prog p = Ok q.
Proof. exact focus_total_thm. Qed.
Print Assumptions C03_focus_total.

(* ---- shadow-aware substitution ------------------------------------------------------------------
   subst_sim stops at a binder with the same (name, id), whatever its chirality: below `mu v`
   (resp. a clause binding v) the pairs keyed by v are dropped from BOTH lists. *)
Theorem C03_subst_sim_shadow_mu :
  forall c c' v s ty ps cs,
    subst_term c (CMu c' v s ty) ps cs =
    rbind (subst_stmt s (subst_remove v ps) (subst_remove v cs)) (fun s' => Ok (CMu c' v s' ty)).
Proof. exact subst_shadow_mu. Qed.
Print Assumptions C03_subst_sim_shadow_mu.

Theorem C03_subst_sim_shadow_clause :
  forall c' x ctx body ps cs,
    subst_clause (CClause c' x ctx body) ps cs =
    rbind (subst_stmt body (subst_remove_ctx ctx ps) (subst_remove_ctx ctx cs))
          (fun b' => Ok (CClause c' x ctx b')).
Proof. exact subst_shadow_clause. Qed.
Print Assumptions C03_subst_sim_shadow_clause.

(* a key that a binder shadows is never looked up below it *)
Theorem C03_subst_sim_shadowed_key_irrelevant :
  forall v t ps cs, subst_find v (subst_remove v ((v, t) :: ps)) = subst_find v (subst_remove v ps) /\
                    subst_find v (subst_remove v cs) = None.
Proof. exact subst_shadowed_key. Qed.
Print Assumptions C03_subst_sim_shadowed_key_irrelevant.

(* substituting variables that do not occur free is the identity (arbitrary replacement terms) *)
Theorem C03_subst_sim_not_free_identity :
  forall s ps cs, wf_stmt s = true ->
    (forall k, In k (map fst ps ++ map fst cs) -> ~ In k (fv_stmt s)) ->
    subst_stmt s ps cs = Ok s.
Proof. exact subst_not_free_stmt. Qed.
Print Assumptions C03_subst_sim_not_free_identity.

(* ---- semantic preservation ----------------------------------------------------------------------
   Full statement (NOT proved; evaluated by modelrun `focus` on every case: run_core on the input vs
   run_fs on the Rust output, verdict classes order-of-effects / semantic-mismatch): a run of the
   original that ends defined (exit value or undefined arithmetic) is reproduced, prints in the same
   order, by the focused program. *)
Definition C03_focus_preserves_statement : Prop :=
  forall p q args fuel, pre_check p = true -> focus_wf p = true -> focus_prog p = Ok q ->
    let o := run_core fuel p args in
    ((exists z, snd o = OExit z) \/ (exists w, snd o = OUndef w)) ->
    exists fuel', run_fs fuel' q args = o.

(* Proved fragment ("arguments that are values or operators"): the entry definition is straight-line
   integer code - ifc / print / exit whose arguments are operator trees over literals and the
   parameters, no mu, no data/codata, no calls - closed over its producer parameters, whose ids are
   not 0 (e.g. a parameterless main; then uniquify leaves the definition alone).  For every
   argument tuple both machines stop within a bound and the observations (prints in order, exit value
   or undefined arithmetic) are EQUAL.
   Gap to the full statement: mu-abstractions (by value and by name), constructors/destructors,
   case/cocase, calls, parameters with id 0 (renamed by uniquify). *)
Theorem C03_focus_preserves_partial :
  forall p q args,
    pre_check p = true -> focus_wf p = true -> entry_ok p = true -> focus_prog p = Ok q ->
    exists n, forall fuel, (n <= fuel)%nat ->
      run_fs fuel q args = run_core fuel p args /\ snd (run_core fuel p args) <> OOutOfFuel.
Proof. exact focus_preserves_straight_line. Qed.
Print Assumptions C03_focus_preserves_partial.
