(* C03: focusing preserves Core semantics including the order of effects; afterwards all binders
   along every path of a definition are distinct and distinct from every free name.
   Only statements here; proofs live in Proof/.  Models: Model/Uniquify.v, Model/Focus.v;
   executable forms of the property: Model/FocusCheck.v. *)
From Coq Require Import List ZArith NArith String Bool.
From SCC Require Import Lang.CoreSyn Model.Backend Model.Uniquify Model.Focus Model.FocusCheck
     Sem.AxSem Sem.CoreSem Proof.SubstProof Proof.FocusTheorems Proof.FocusExtra Proof.FocusExamples Proof.FocusSem
     Proof.FocusKont Proof.FocusRel Proof.FocusSim Proof.FocusRun Proof.FocusFrag Proof.FocusPres Proof.FocusPresExamples
     Proof.UqAeq Proof.UqPres Proof.UqCompose Proof.FocusRefute Proof.FocusTyped.
From SCC Require Import Model.FocusGuard.
Import ListNotations.

(* ---- uniqueness of binders -------------------------------------------------------------------
   Precondition (boolean checkers, FocusCheck.v):
     pre_check p : per definition, every variable id <= max_id, the binders whose id is not 0 are
                   pairwise distinct, every occurrence with an id other than 0 lies below a binder
                   with that id.  (Output of fun2core: every id is 0 and max_id = 0.)
     focus_wf p  : no Literal/Op in a consumer position, no cut of two xtors, no cut of an operator
                   against a destructor (implied by well-typedness).
   Conclusion: the Rust-modelled `Prog::focus` returns (no panic), and unique_check holds: in every
   definition the binder ids (parameters, mu/mutilde variables, clause contexts) are pairwise distinct
   along every path; no free name has the id of a binder; every binder id not inherited from the
   input is > the input's max_id; the output's max_id is >= every id and >= the input's max_id. *)
Theorem C03_focus_unique :
  forall p, pre_check p = true -> focus_wf p = true ->
  exists q, focus_prog p = Ok q /\ unique_check p q = true.
Proof. exact focus_unique_thm. Qed.
Print Assumptions C03_focus_unique.

(* the same for the uniquify pass alone; its output again satisfies the precondition *)
Theorem C03_uniquify_unique :
  forall p, pre_check p = true -> focus_wf p = true ->
  exists q, uniquify_prog p = Ok q /\ uniquified_check p q = true /\ focus_wf q = true /\ pre_check q = true.
Proof. exact uniquify_unique_thm. Qed.
Print Assumptions C03_uniquify_unique.

(* real translation outputs satisfy the precondition (and, computed, the conclusion) *)
Theorem C03_real_inputs_satisfy_precondition :
  pre_ok ex_case_of = true /\ pre_ok ex_lists = true /\ pre_ok ex_gen3 = true.
Proof. exact (conj ex_case_of_pre (conj ex_lists_pre ex_gen3_pre)). Qed.
Print Assumptions C03_real_inputs_satisfy_precondition.

(* The precondition cannot be weakened to "every id <= max_id": uniquify renames only binders
   with id 0, so two binders that already share a non-zero id stay as they are.
   Witness:  def main() { <1 | mutilde x_1. <2 | mutilde x_1. exit x_1>> }  with max_id = 1
   (confirmed on the Rust code: harness case hand:dup-nonzero). *)
Theorem C03_focus_unique_ids_below_max_only_refuted :
  exists p, forallb (ids_le_def (cpmax p)) (cpdefs p) = true /\ focus_wf p = true /\
            exists q, focus_prog p = Ok q /\ unique_check p q = false.
Proof. exact focus_unique_ids_below_max_only_refuted. Qed.
Print Assumptions C03_focus_unique_ids_below_max_only_refuted.

(* ... and an id above max_id lets focusing invent an identifier that is already in use:
   def main() { <1 | mutilde x_1. exit (x_1 + 5)> } with max_id = 0 becomes
   <1 | mutilde x_1. <5 | mutilde x_1. <x_1 + x_1 | mutilde x_2. exit x_2>>>
   (confirmed on the Rust code: harness case hand:id-above-max). *)
Theorem C03_focus_captures_when_id_above_max_refuted :
  exists p q, focus_wf p = true /\ focus_prog p = Ok q /\ captured_sum q = true.
Proof. exact focus_captures_when_id_above_max_refuted. Qed.
Print Assumptions C03_focus_captures_when_id_above_max_refuted.

(* ---- no panic ---------------------------------------------------------------------------------
   None of the panics of subst_sim ("cannot happen"), focus ("Cannot happen", "Constructors and
   destructors should always be focused in cuts directly", "Arithmetic operators should always be
   focused in cuts directly") is reachable, and the fuel of the uniquify model suffices, on every
   program of the right shape - whatever its identifiers. *)
Theorem C03_focus_total :
  forall p, focus_wf p = true -> exists q, focus_prog p = Ok q.
Proof. exact focus_total_thm. Qed.
Print Assumptions C03_focus_total.

(* ---- shadow-aware substitution ------------------------------------------------------------------
   subst_sim stops at a binder with the same (name, id), whatever its chirality: below `mu v`
   (resp. a clause binding v) the pairs keyed by v are dropped from BOTH lists. *)
Theorem C03_subst_sim_shadow_mu :
  forall c c' v s ty ps cs,
    subst_term c (CMu c' v s ty) ps cs =
    rbind (subst_stmt s (subst_remove v ps) (subst_remove v cs)) (fun s' => Ok (CMu c' v s' ty)).
Proof. exact subst_shadow_mu. Qed.
Print Assumptions C03_subst_sim_shadow_mu.

Theorem C03_subst_sim_shadow_clause :
  forall c' x ctx body ps cs,
    subst_clause (CClause c' x ctx body) ps cs =
    rbind (subst_stmt body (subst_remove_ctx ctx ps) (subst_remove_ctx ctx cs))
          (fun b' => Ok (CClause c' x ctx b')).
Proof. exact subst_shadow_clause. Qed.
Print Assumptions C03_subst_sim_shadow_clause.

(* a key that a binder shadows is never looked up below it *)
Theorem C03_subst_sim_shadowed_key_irrelevant :
  forall v t ps cs, subst_find v (subst_remove v ((v, t) :: ps)) = subst_find v (subst_remove v ps) /\
                    subst_find v (subst_remove v cs) = None.
Proof. exact subst_shadowed_key. Qed.
Print Assumptions C03_subst_sim_shadowed_key_irrelevant.

(* substituting variables that do not occur free is the identity (arbitrary replacement terms) *)
Theorem C03_subst_sim_not_free_identity :
  forall s ps cs, wf_stmt s = true ->
    (forall k, In k (map fst ps ++ map fst cs) -> ~ In k (fv_stmt s)) ->
    subst_stmt s ps cs = Ok s.
Proof. exact subst_not_free_stmt. Qed.
Print Assumptions C03_subst_sim_not_free_identity.

(* ---- semantic preservation ----------------------------------------------------------------------
   Full statement (evaluated by modelrun `focus` on every case: run_core on the input vs
   run_fs on the Rust output, verdict classes order-of-effects / semantic-mismatch): a run of the
   original that ends defined (exit value or undefined arithmetic) is reproduced, prints in the same
   order, by the focused program.  As stated - with the shape predicates as the only hypotheses - it is
   FALSE (C03_focus_preserves_statement_refuted at the end of this file: an ill-typed witness); it is
   proved with the additional hypotheses cs_prog and clash_free_prog / sg_prog that typing implies
   (C03_uniquify_focus_preserves_partial / _fragment). *)
Definition C03_focus_preserves_statement : Prop :=
  forall p q args fuel, pre_check p = true -> focus_wf p = true -> focus_prog p = Ok q ->
    let o := run_core fuel p args in
    ((exists z, snd o = OExit z) \/ (exists w, snd o = OUndef w)) ->
    exists fuel', run_fs fuel' q args = o.

(* Proved fragment ("arguments that are values or operators"): the entry definition is straight-line
   integer code - ifc / print / exit whose arguments are operator trees over literals and the
   parameters, no mu, no data/codata, no calls - closed over its producer parameters, whose ids are
   not 0 (e.g. a parameterless main; then uniquify leaves the definition alone).  For every
   argument tuple both machines stop within a bound and the observations (prints in order, exit value
   or undefined arithmetic) are EQUAL.
   Gap to the full statement: mu-abstractions (by value and by name), constructors/destructors,
   case/cocase, calls, parameters with id 0 (renamed by uniquify). *)
Theorem C03_focus_preserves_partial :
  forall p q args,
    pre_check p = true -> focus_wf p = true -> entry_ok p = true -> focus_prog p = Ok q ->
    exists n, forall fuel, (n <= fuel)%nat ->
      run_fs fuel q args = run_core fuel p args /\ snd (run_core fuel p args) <> OOutOfFuel.
Proof. exact focus_preserves_straight_line. Qed.
Print Assumptions C03_focus_preserves_partial.

(* ---- semantic preservation, round 2 ---------------------------------------------------------------
   A simulation between the Core machine on a program whose identifiers are all <= max_id (what
   `uniquify` returns) and the same machine on the embedding of its focused form (run_fs).
   Relation (Proof/FocusRel.v): values component-wise; a closure over code s is related to the closure
   over `focus s`; the machine-internal continuation values have no homomorphic image, focusing turns
   them into code:  KRet m ~ mu~-closure over the statement `bind`'s continuation built,
   PDelay m ~ by-name thunk over it;  target environment = source environment + the fresh bindings.
   Each source transition is matched by zero or more target transitions (Proof/FocusMain.v sim_step:
   every constructor of the language, every arm of Cut::focus, every Bind impl).

   KIND CLASH (Proof/FocusSim.v clash_config): the untyped machine lets a by-name producer value
   (PThunk/PDelay/a mu at a codata cut) meet a by-value return continuation (KRet); the two machines
   treat that differently (after focusing KRet is a mu~-closure, which the machine serves before it
   forces a thunk).  Typing excludes it (KRet comes from a mu of a NON-codata type, by-name values have
   codata types) but the framework has no Core type system, so the theorems take either
     - the run-time hypothesis clash_free (no such configuration in the first `fuel` transitions), or
     - the static guard sg_prog bn kr with bn && kr = false (Proof/FocusFrag.v):
         sg_prog false _ : no mu-abstraction of a codata type in an argument position, no cut at a
                           codata type whose producer is a mu  (then no by-name value ever exists);
         sg_prog _ false : no producer mu-abstraction of a non-codata type in an argument position
                           (then no KRet ever exists).
   Everything else of the language is covered: operators nested to any depth with effects in the
   operands, constructor/destructor/call/ifc/print/exit arguments, mu/mu~, case/cocase, calls,
   recursion, data and codata values. *)

(* `Bind` as a lemma of its own: [bind a k] first evaluates the argument a exactly as the machine does
   (innermost non-values first, left to right, each once), then behaves as what k builds for the name
   of the value - provided k is the code of the machine continuation m (mk_rel). *)
Theorem C03_bind_correct :
  forall ps qt M0, focused_defs M0 ps qt ->
  forall a k c mc s' m2 e e' m fuel out,
    bind_arg a k mc = Ok (s', m2) -> (M0 <= c)%N -> (c <= mc)%N -> ids_le_arg M0 a = true ->
    env_rel ps M0 e e' -> mk_rel ps M0 c m k e' ->
    clash_free ps fuel (Arg a e m) = true -> good_end (snd (crun fuel ps (Arg a e m) out)) ->
    exists fuel', crun fuel' qt (Run (fs2c_stmt s') e') out = crun fuel ps (Arg a e m) out.
Proof. exact bind_correct. Qed.
Print Assumptions C03_bind_correct.

(* statements (every arm of Cut::focus, IfC, Call, PrintI64, Exit) *)
Theorem C03_focus_stmt_correct :
  forall ps qt M0, focused_defs M0 ps qt ->
  forall s mc s' m2 e e' fuel out,
    focus_stmt s mc = Ok (s', m2) -> (M0 <= mc)%N -> ids_le_stmt M0 s = true -> env_rel ps M0 e e' ->
    clash_free ps fuel (Run s e) = true -> good_end (snd (crun fuel ps (Run s e) out)) ->
    exists fuel', crun fuel' qt (Run (fs2c_stmt s') e') out = crun fuel ps (Run s e) out.
Proof. exact focus_stmt_correct. Qed.
Print Assumptions C03_focus_stmt_correct.

(* Prog::focus = uniquify, then focus: the focused program reproduces every defined run (exit value or
   undefined arithmetic, prints in order) of the UNIQUIFIED program p1 that meets no kind clash.
   Gap to C03_focus_preserves_statement: the clash hypothesis (typing), and run_core p1 = run_core p
   (C03_uniquify_preserves below). *)
Theorem C03_focus_preserves_uniquified_partial :
  forall p p1 q args fuel,
    pre_check p = true -> focus_wf p = true -> uniquify_prog p = Ok p1 -> focus_prog p = Ok q ->
    clash_free_prog fuel p1 args = true -> good_end (snd (run_core fuel p1 args)) ->
    exists fuel', run_fs fuel' q args = run_core fuel p1 args.
Proof. exact focus_prog_preserves_uniquified. Qed.
Print Assumptions C03_focus_preserves_uniquified_partial.

(* the same with the static guard in place of the run-time hypothesis *)
Theorem C03_focus_preserves_guarded_partial :
  forall bn kr p p1 q args fuel,
    pre_check p = true -> focus_wf p = true -> uniquify_prog p = Ok p1 -> focus_prog p = Ok q ->
    bn && kr = false -> sg_prog bn kr p1 = true ->
    good_end (snd (run_core fuel p1 args)) ->
    exists fuel', run_fs fuel' q args = run_core fuel p1 args.
Proof. exact focus_prog_preserves_guarded. Qed.
Print Assumptions C03_focus_preserves_guarded_partial.

(* the hypotheses are satisfiable by non-trivial programs: nested effectful operands whose print order
   1 2 3 is observable; effectful constructor and call arguments with a case; the fun2core output of
   examples/Lists/Lists.sc (guard "no by-name value", both programs run to the same exit) *)
Theorem C03_focus_preserves_nonvacuous :
  checks ex_order false true 100 200 [] ([(false, 1); (false, 2); (false, 3)], OExit 70)%Z = true /\
  checks ex_data false true 100 300 [] ([(false, 1); (false, 2); (false, 3); (true, 1)], OExit 1)%Z = true /\
  checks_str ex_lists (100 * 50) (100 * 200) = true.
Proof. exact (conj ex_order_ok (conj ex_data_ok ex_lists_ok)). Qed.
(* ... and a program mixing by-name and by-value mu-abstractions (outside both syntactic guards, typed) *)
Theorem C03_focus_preserves_typed_nonvacuous :
  negb (sg_prog false true ex_mixed) && negb (sg_prog true false ex_mixed) &&
  pre_check ex_mixed && focus_wf ex_mixed && cs_prog ex_mixed && tc_prog ex_mixed && tc_entry ex_mixed && static_ok ex_mixed &&
  match focus_prog ex_mixed with
  | Ok q => obs_eqb (run_core 100 ex_mixed []) ([(false, 1)], OExit 42)%Z && obs_eqb (run_fs 300 q []) ([(false, 1)], OExit 42)%Z
  | Err _ => false
  end = true.
Proof. exact ex_mixed_ok. Qed.
Print Assumptions C03_focus_preserves_typed_nonvacuous.
Print Assumptions C03_focus_preserves_nonvacuous.

(* ---- uniquify preserves behaviour -------------------------------------------------------------------
   alpha-renaming: the uniquified program has the SAME observation as the input for every fuel and every
   argument tuple (stuck and out-of-fuel runs included; lock-step simulation, Proof/UqSim.v).
   Hypotheses: every identifier <= max_id (part of pre_check; otherwise a fresh name can capture, see
   C03_focus_captures_when_id_above_max_refuted), the shape focus_wf (subst_sim does not panic), and
   cs_prog (Proof/UqAeq.v): every occurrence refers to a binder of its own chirality - implied by typing;
   uniquify keeps separate substitution lists for variables and covariables, so an occurrence of the
   wrong chirality is left un-renamed (both programs are then stuck, with different messages).
   Binder ids may be 0 or not, mixed (the stated precondition "all ids 0" is the special case). *)
Theorem C03_uniquify_preserves :
  forall p p1,
    uniquify_prog p = Ok p1 -> focus_wf p = true -> forallb (ids_le_def (cpmax p)) (cpdefs p) = true ->
    cs_prog p = true ->
    forall fuel args, run_core fuel p1 args = run_core fuel p args.
Proof. exact uniquify_preserves. Qed.
Print Assumptions C03_uniquify_preserves.

(* ---- uniquify + focus: C03_focus_preserves_statement on the fragment ----------------------------------
   `Prog::focus` reproduces every defined run of its input (exit value or undefined arithmetic, prints in
   order).  Beyond the hypotheses of C03_focus_preserves_statement: cs_prog (above) and the absence of
   kind clashes, either on the run (clash_free_prog) or by the static guard sg_prog bn kr with
   bn && kr = false (see the comment above C03_bind_correct).  Both are consequences of typing; what is
   missing for the unrestricted statement is a Core type system and its preservation by the machine. *)
Theorem C03_uniquify_focus_preserves_partial :
  forall p q args fuel,
    pre_check p = true -> focus_wf p = true -> cs_prog p = true -> focus_prog p = Ok q ->
    clash_free_prog fuel p args = true -> good_end (snd (run_core fuel p args)) ->
    exists fuel', run_fs fuel' q args = run_core fuel p args.
Proof. exact uniquify_focus_preserves. Qed.
Print Assumptions C03_uniquify_focus_preserves_partial.

Theorem C03_uniquify_focus_preserves_fragment :
  forall bn kr p q args fuel,
    pre_check p = true -> focus_wf p = true -> cs_prog p = true -> focus_prog p = Ok q ->
    bn && kr = false -> sg_prog bn kr p = true ->
    good_end (snd (run_core fuel p args)) ->
    exists fuel', run_fs fuel' q args = run_core fuel p args.
Proof. exact uniquify_focus_preserves_guarded. Qed.
Print Assumptions C03_uniquify_focus_preserves_fragment.

(* ---- typed programs --------------------------------------------------------------------------------------
   tc_prog (Model/FocusGuard.v) is a boolean type checker for Core with exact annotations (an occurrence
   carries the type of its binder, a cut the type of both sides, xtor arguments and clause contexts follow
   the declaration of the type, call arguments the parameters of the callee); typing of machine states is
   preserved by every transition and a typed configuration is no kind clash (Proof/FocusTyped.v). *)
Theorem C03_typed_clash_free :
  forall p, tc_prog p = true -> tc_entry p = true -> forall fuel args, clash_free_prog fuel p args = true.
Proof. exact tc_clash_free_prog. Qed.
Print Assumptions C03_typed_clash_free.

(* The preservation theorem with static hypotheses only: shape (pre_check, focus_wf), chirality-consistent
   scoping (cs_prog) and static_ok = simply typed (tc_prog && tc_entry) or inside a syntactic guard.
   Of the 919 in-precondition cases of the quick suite 903 satisfy all of them (the others: 11 fun2core
   outputs / hand-built programs with an occurrence of the wrong chirality - the capture defect). *)
Theorem C03_uniquify_focus_preserves_static :
  forall p q args fuel,
    pre_check p = true -> focus_wf p = true -> cs_prog p = true -> static_ok p = true -> focus_prog p = Ok q ->
    good_end (snd (run_core fuel p args)) ->
    exists fuel', run_fs fuel' q args = run_core fuel p args.
Proof. exact uniquify_focus_preserves_static. Qed.
Print Assumptions C03_uniquify_focus_preserves_static.

(* ---- the unrestricted statement is false ---------------------------------------------------------------
   C03_focus_preserves_statement has only the SHAPE predicates pre_check and focus_wf as hypotheses; they
   admit ill-typed programs, and on those focusing does change the behaviour on the reference machine.
   Witness (Proof/FocusRefute.v; a covariable of type i64 used as a consumer of a codata type):
       codata T { }   def main() { exit (mu a:i64. < mu b:T. (print 7; <5 | b>) | a >_T) }
   before: prints 7, exit 5;  after focusing: stuck ("exit-operand": the operand is an unforced thunk).
   It is exactly a kind clash (clash_free_prog = false on the witness).  The true statements are the
   _partial/_fragment theorems above; a Core type system would replace their clash/guard hypotheses.
   (The input is ill-typed, so this is no defect of the compiler: the property quantifies over well-typed
   programs.  But H_focus of Props/C01.v, which repeats this statement, is false as a universal
   hypothesis; C01_compile_correct_focus_discharged_partial does not use it.) *)
Theorem C03_focus_preserves_statement_refuted : ~ C03_focus_preserves_statement.
Proof. exact focus_preserves_statement_refuted. Qed.
Print Assumptions C03_focus_preserves_statement_refuted.
