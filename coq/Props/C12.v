(* C12: accepted programs stay well-typed at every stage; no internal failure.
   Only statements here.  Checkers: Sem/FunTyping.v + Model/Check.v (Fun), Sem/CoreCheck.v (Core:
   wt_core), Sem/FsCheck.v (focused Core: wt_fs, unique_binders, ids_bounded), Sem/AxCheck.v
   (non-linear AxCut: wt_ax), Model/LinCheck.v (prog_ok, lin_check_prog), Model/Capacity.v (the
   documented capacity limits of the back ends).  Proofs: Proof/WtPreserve.v, Proof/AxToLin.v,
   Proof/Codegen{Total,X86,A64,RV}.v, Proof/LinearizeProof.v; round 2: Proof/Fun2CoreTy*.v (fun2core),
   Proof/UqTy*.v + Proof/FocusTy*.v (uniquify + focus), Proof/ShrinkTy*.v (shrink), Proof/WtPipeline.v.

   ONE PRESERVATION STATEMENT PER PASS (full strength, `Definition ... : Prop`), then what is proved.
   "accepted" = the model of the real type checker returns COk (Model/Check.v, tied to the Rust
   checker by C15's correspondence). *)
From Coq Require Import List ZArith NArith String Bool.
From SCC Require Import Base.Sexp Lang.FunSyn Lang.CoreSyn Lang.AxSyn.
From SCC Require Import Sem.FunTyping Sem.FsCheck Sem.CoreCheck.
From SCC Require Sem.AxCheck.
From SCC Require Import Model.Check Model.Fun2Core Model.Backend Model.Focus Model.FocusCheck Model.Shrink
     Model.Linearize Model.LinCheck Model.Capacity Model.WtDefs Model.X86 Model.A64 Model.RV.
From SCC Require Import Proof.SubstGraph Proof.CodegenTotal Proof.CodegenX86 Proof.CodegenA64 Proof.CodegenRV
     Proof.AxToLin Proof.LinearizeProof Proof.ShrinkProof Proof.ShrinkSem Proof.ShrinkTyping Proof.WtPreserve Proof.FocusExamples Proof.WtExamples.
From SCC Require Import Sem.FsFrag2 Proof.ShrinkExample2 Proof.ShrinkTyTop.
From SCC Require Import Model.Fun2CoreTyGuard Proof.Fun2CoreTyRefute Proof.Fun2CoreTyChecked.
From SCC Require Proof.CheckFixed.
From SCC Require Import Model.Uniquify Model.FocusTyGuard Proof.Fun2CoreProof Proof.Fun2CoreExamples Proof.Fun2CoreTyProg Proof.Fun2CoreTyTotal
     Proof.Fun2CoreIds Proof.UqTyTop Proof.FocusTyTop Proof.FocusNamesTop Proof.WtPipeline Proof.WtExamples2 Proof.WtExamples3.
From SCC Require Sem.FunNames.
From SCC Require Import Proof.CheckTyGuardProg Proof.CheckTyGuardExamples Proof.CheckTyGuardPipeline.
Import ListNotations.

(* ======================================================================================== *)
(* The statements                                                                           *)
(* ======================================================================================== *)

(* Fun -> Core, as the property words it (every accepted program).  FALSE of the faithful model: before fix
   d5d4151 by variable capture (C12_fun2core_typing_refuted_before_fix), and before fix f929eb7 by a call of `main`
   (C12_fun2core_call_main_typing_refuted_before_fix). *)
Definition fun2core_preserves_typing_unguarded : Prop :=
  forall src p, Check.check src = COk p ->
  exists c, compile_prog p = Fun2Core.Ok c /\ wt_core c = true.
(* the guarded form of round 1: binders of each definition pairwise distinct and distinct from
   its parameters (no shadowing, so the capture defect of fun2core cannot strike).  It is hypothesis
   H_fun2core_wt of C12_pipeline_wt_partial.  Round 2: it was FALSE as it stands of the compiler before the fixes
   (C12_fun2core_call_main_typing_refuted_before_fix: a call of `main` is accepted and satisfies barendregt, until fix
   f929eb7 of /repo its translation was ill typed; until fix 5b8c76f also a `main` of a non-integer
   type: C12_regression_old_check_main_result); PROVED inside
   the boolean guard prog_tyguard (C12_fun2core_preserves_typing_fragment2 + C12_fun2core_total_fragment2 +
   C12_fun2core_pre_check). *)
Definition fun2core_preserves_typing : Prop :=
  forall src p, Check.check src = COk p -> barendregt p = true ->
  exists c, compile_prog p = Fun2Core.Ok c /\ wt_core c = true /\ pre_check c = true.

(* Core -> focused Core (uniquify + focus).  Totality is PROVED (C12_focus_total_on_typed).  The typing
   of the output (hypothesis H_focus_wt of the round-1 compositions) is FALSE as it stands and PROVED with
   two boolean side conditions (round 2: C12_focus_preserves_typing, C12_focus_preserves_typing_unguarded_refuted). *)
Definition focus_preserves_typing : Prop :=
  forall c, wt_core c = true -> pre_check c = true ->
  exists f, focus_prog c = Backend.Ok f /\ wt_fs f = true /\ unique_binders f = true /\ ids_bounded f = true.

(* focused Core -> AxCut.  Totality is PROVED (C04_shrink_total, re-exported below); the typing of the
   output is hypothesis H_shrink_wt, evaluated on every run. *)
Definition shrink_preserves_typing : Prop :=
  forall f, wt_fs f = true -> unique_binders f = true -> ids_bounded f = true ->
  exists a, shrink_prog f = SOk a /\ AxCheck.wt_ax a = true /\ pre_linear_prog a = true /\ binders_ok a = true.

(* AxCut -> linear AxCut (linearization is a total function).  PROVED. *)
Definition linearize_preserves_typing : Prop :=
  forall a, prog_ok a = true -> lin_check_prog (linearize a) = true.

(* linear AxCut -> assembly: no failure other than the capacity limits.  PROVED for all three. *)
Definition codegen_total_x86 : Prop :=
  forall l lc, lin_check_prog l = true -> within_capacity_x86 l = true ->
  exists code lc', x86_compile l lc = Backend.Ok (code, main_arity l, lc').
Definition codegen_total_a64 : Prop :=
  forall l lc, lin_check_prog l = true -> within_capacity_a64 l = true ->
  exists code lc', a64_compile l lc = Backend.Ok (code, main_arity l, lc').
Definition codegen_total_rv : Prop :=
  forall l lc, lin_check_prog l = true -> within_capacity_rv l = true ->
  exists code lc', rv_compile l lc = Backend.Ok (code, main_arity l, lc').

(* ======================================================================================== *)
(* Fun -> Core                                                                              *)
(* ======================================================================================== *)

(* REGRESSION (former finding capture-under-binder-typing, fixed in /repo by d5d4151: a continuation that mentions a
   name is kept outside of a let / pattern binder of that name).
   `def h(n: i64): i64 { label a { let a: i64 = n + 1; a * 2 } }` is accepted - by the model of the checker and by the
   declarative typing specification - and its translation BEFORE THE FIX ([compile_prog_before_fix])
   < mu a. < n + 1 | mu~ a. < a * 2 | a > > | a0 >  is ILL-TYPED: the consumer occurrence of the label's
   covariable a is captured by the mu~ binder of the let variable a.  The same defect as C02's
   capture-under-binder (known_findings.json), at the level of typing. *)
Theorem C12_fun2core_typing_refuted_before_fix :
  exists (src : fprog) (p : fcprog) (c : cprog),
    has_type_b src = true /\ Check.check src = COk p /\ annotated_fcprog p = true /\
    compile_prog_before_fix p = Fun2Core.Ok c /\ wt_core c = false /\
    shadowing_risk_prog p = true /\ barendregt p = false.
Proof. exact fun2core_typing_refuted_before_fix_lemma. Qed.
Print Assumptions C12_fun2core_typing_refuted_before_fix.
(* ... the repaired translation of the witness,  < mu a. < mu a1. < n + 1 | mu~ a. < a * 2 | a1 > > | a > | a0 >, is
   well typed - and the witness is INSIDE prog_tyguard, which has no capture clause any more
   (C12_fun2core_fragment2_examples), so this is an instance of C12_fun2core_preserves_typing_fragment2 *)
Theorem C12_capture_typing_witness_fixed :
  exists c, compile_prog capture_typing_witness = Fun2Core.Ok c /\ wt_core c = true /\
            shadowing_risk_prog capture_typing_witness = true.
Proof. exact capture_typing_witness_fixed_lemma. Qed.
Print Assumptions C12_capture_typing_witness_fixed.

(* REGRESSION (former finding main-non-integer-result, fixed in /repo by 5b8c76f: Def::check compares the declared
   return type of main with i64).  `data Bar { B }  def main(): Bar { B }` was accepted by the checker that never
   constrained the return type of main ([Check.old_check_main] = the code before the fix), and compile_main types the
   operand of the final `exit` with the annotation of the body:  < B | Bar | mu~ x0. exit x0 >  with x0 : Bar in an
   integer position.  The program satisfies the Barendregt condition, has no shadowing risk and calls no main.  The
   current checker rejects it with Mismatch, and the typing rules (Sem/FunTyping.v: main : i64) reject it too - the
   witness corpus/fun/c12_main_nonint.sc discriminates. *)
Theorem C12_regression_old_check_main_result :
  exists (src : fprog) (p : fcprog) (c : cprog),
    Check.old_check_main src = COk p /\ Check.check src = CErr EMismatch /\ has_type_b src = false /\
    annotated_fcprog p = true /\
    compile_prog p = Fun2Core.Ok c /\ wt_core c = false /\
    shadowing_risk_prog p = false /\ calls_main_prog p = false /\ barendregt p = true /\
    prog_tyguard p = false.
Proof. exact old_fun2core_main_result_refuted_lemma. Qed.
Print Assumptions C12_regression_old_check_main_result.
(* since the fix: in every checked program, every definition named main returns i64 (all programs, no guard) *)
Theorem C12_checked_main_is_integer : forall src p d,
  Check.check src = COk p -> In d (fcpdefs p) -> fdname d = "main"%string -> fdret d = FI64.
Proof. exact CheckFixed.check_main_i64. Qed.
Print Assumptions C12_checked_main_is_integer.

(* REGRESSION (former finding call-to-main-typing, repaired in /repo by f929eb7).  The unguarded statement (and its
   Barendregt-guarded form) was FALSE of the translation before the fix ([compile_prog_before_fix]):
   corpus/fun/call_main_nontail.sc is accepted, well-typed by the rules, satisfies the Barendregt condition and has no
   shadowing risk; its OLD translation called `main(0, mu~ r. ..)` against `def main(n: prd i64)`: wrong number of
   arguments.  The repaired translation of the witness is well typed (C12_call_main_typing_witness_fixed). *)
Theorem C12_fun2core_call_main_typing_refuted_before_fix :
  exists (src : fprog) (p : fcprog) (c : cprog),
    has_type_b src = true /\ Check.check src = COk p /\ annotated_fcprog p = true /\
    compile_prog_before_fix p = Fun2Core.Ok c /\ wt_core c = false /\
    shadowing_risk_prog p = false /\ calls_main_prog p = true /\ barendregt p = true /\
    prog_tyguard p = true.      (* the guard has no call-of-main exclusion any more: the witness is INSIDE *)
Proof. exact fun2core_call_main_typing_refuted_before_fix_lemma. Qed.
Print Assumptions C12_fun2core_call_main_typing_refuted_before_fix.
Theorem C12_call_main_typing_witness_fixed :
  exists c, compile_prog call_main_witness = Fun2Core.Ok c /\ wt_core c = true /\ calls_main_prog call_main_witness = true.
Proof. exact call_main_typing_witness_fixed_lemma. Qed.
Print Assumptions C12_call_main_typing_witness_fixed.
Theorem C12_fun2core_preserves_typing_refuted_before_fix :
  ~ (forall src p, Check.check src = COk p -> barendregt p = true ->
     exists c, compile_prog_before_fix p = Fun2Core.Ok c /\ wt_core c = true /\ pre_check c = true).
Proof.
  intro H. destruct fun2core_call_main_typing_refuted_before_fix_lemma as (src & p & c & _ & Hc & _ & Ec & Hw & _ & _ & Hb & _).
  destruct (H src p Hc Hb) as (c' & Ec' & Hw' & _). rewrite Ec in Ec'. inversion Ec'; subst. rewrite Hw in Hw'. discriminate.
Qed.
Print Assumptions C12_fun2core_preserves_typing_refuted_before_fix.

(* PROVED INSIDE A BOOLEAN GUARD ON THE ANNOTATED CHECKED PROGRAM (round 2).  [prog_tyguard p]
   (Model/Fun2CoreTyGuard.v) = for every definition
     tg   the annotated body is well typed at its own annotations, every type compared after compile_ty, every
          signature looked up in the COMPILED declarations (operands i64; branches / let body / case clauses at
          the type of the term; arguments follow the callee / the xtor; clauses follow the xtors of the type in
          declaration order with pairwise distinct parameters; the type of every let variable, goto target,
          label, argument position and definition parameter is declared) - ALL term forms: data and codata, `new`,
          destructors, labels/goto, consumer arguments;
     (NO capture clause: until fix d5d4151 of /repo the guard contained NOT shadowing_risk, the syntactic detector of
          the former finding capture-under-binder; the repaired translation never places a continuation under a let
          variable / clause parameter whose name is free in it - it names the continuation first -, and the proof follows
          it: lemma tw_guard of Proof/Fun2CoreTyMain.v, KT_rebind of Proof/Fun2CoreTyShare.v; shadowing is allowed);
     (NO call-of-main exclusion: until fix f929eb7 of /repo the guard contained NOT calls_main_prog and the call clause of
          tg excluded the callee `main` - former finding call-to-main; the repaired translation compiles a called main
          with a return continuation and starts at a fresh entry point  def main<n>(params) { main(params, mu~x. exit x) },
          and the proof follows it: Proof/Fun2CoreTyEntry.v entry_tg, Proof/Fun2CoreTyProg.v main_group_typed);
     the body of `main` has type i64, and when main is called its declared return type is i64 (for a program that comes
          out of the checker both clauses are implied since fix 5b8c76f: C12_fun2core_preserves_typing_checked below);
     parameters pairwise distinct and of declared types;
   and for the program: type names pairwise distinct and different from _Cont, xtor names distinct within a type,
   definition names distinct (what check_core asks of declarations).
   Key lemma (Proof/Fun2CoreTyShare.v share_ok, Proof/CoreTyFv.v typed_in_own_fvs): a lifted definition
   share_<f>_<n> is well typed - its parameter list, core_lang's TypedFreeVars of the body, holds each free name
   once with its binder's kind and type, the types are declared, the body is typed in it - and the call that replaces
   the continuation is typed wherever the continuation was.  The continuation's invariant under binders is
   Kripke-style (KT): it stays typed in every scope that agrees on its free user names and on the generated names.
   (tags f2c-guard / f2c-noguard:<why> of the wt-stages run say which inputs are inside). *)
Theorem C12_fun2core_preserves_typing_fragment2 : forall p c,
  prog_tyguard p = true -> compile_prog p = Fun2Core.Ok c -> wt_core c = true.
Proof. exact fun2core_preserves_typing_frag2. Qed.
Print Assumptions C12_fun2core_preserves_typing_fragment2.

(* ... and inside the guard the translation has no internal failure (the model's failures are
   `.expect("Types should be annotated before translation")` and the case that the fresh covariable naming a
   continuation is captured again - unbounded recursion in the Rust code; impossible because the state records all
   binders of the definition) *)
Theorem C12_fun2core_total_fragment2 : forall p, prog_tyguard p = true -> exists c, compile_prog p = Fun2Core.Ok c.
Proof. exact fun2core_total_guarded. Qed.
Print Assumptions C12_fun2core_total_fragment2.

(* FOR CHECKED PROGRAMS the clause about main's type is not needed (fix 5b8c76f: the checker enforces main : i64).
   [prog_tyguard_src p] (Proof/Fun2CoreTyChecked.v) = prog_tyguard with main treated like every other definition: the
   annotated body has the declared return type and that type is declared - nothing about i64.  For a program that
   Program::check produced the two guards coincide. *)
Theorem C12_tyguard_checked : forall src p,
  Check.check src = COk p -> (prog_tyguard_src p = true <-> prog_tyguard p = true).
Proof.
  intros src p H. pose proof (CheckFixed.check_gen_main_i64 true src p H) as Hm. split.
  - exact (tyguard_src_main p Hm).
  - exact (tyguard_main_src p Hm).
Qed.
Print Assumptions C12_tyguard_checked.
Theorem C12_fun2core_preserves_typing_checked : forall src p c,
  Check.check src = COk p -> prog_tyguard_src p = true -> compile_prog p = Fun2Core.Ok c -> wt_core c = true.
Proof. exact fun2core_preserves_typing_checked. Qed.
Print Assumptions C12_fun2core_preserves_typing_checked.
Theorem C12_fun2core_total_checked : forall src p,
  Check.check src = COk p -> prog_tyguard_src p = true -> exists c, compile_prog p = Fun2Core.Ok c.
Proof. exact fun2core_total_checked. Qed.
Print Assumptions C12_fun2core_total_checked.
(* non-vacuity: the five example programs satisfy the guard.  The guard ALONE does not exclude the former witness
   `def main(): Bar { B }` (as an annotated program its body has the declared type, so it is inside prog_tyguard_src and
   outside prog_tyguard): what excludes it from the theorem is the hypothesis `check src = COk p` - its source is
   rejected *)
Example C12_tyguard_src_examples :
  forallb prog_tyguard_src [ex_calls; ex_shared; ex_data; ex_labels; ex_codata] = true
  /\ prog_tyguard_src main_nonint_witness = true /\ prog_tyguard main_nonint_witness = false
  /\ Check.check main_nonint_source = CErr EMismatch.
Proof. split; [vm_compute; reflexivity|]. split; [vm_compute; reflexivity|]. split; vm_compute; reflexivity. Qed.
Print Assumptions C12_tyguard_src_examples.

(* Every output of fun2core satisfies C03's precondition pre_check (every variable identifier is Identifier::new,
   id 0, and max_id = 0) - for ALL programs, no guard.  Discharges the stage-output hypothesis `pre_check c` of the
   compositions (C01, C12) for fun2core outputs. *)
Theorem C12_fun2core_pre_check : forall p c, compile_prog p = Fun2Core.Ok c -> pre_check c = true.
Proof. exact fun2core_pre_check. Qed.
Print Assumptions C12_fun2core_pre_check.

(* non-vacuity: the five multi-definition programs of Proof/Fun2CoreExamples.v (recursion; shared continuations -
   at least two share_ definitions; data with case; labels/goto and a label passed as consumer argument; codata
   with `new`, destructors and by-name values) satisfy the guard; the conclusion and the side conditions of the
   focusing theorem are evaluated too.  The witness of the former finding
   main-non-integer-result is outside the guard; the witness of the former finding call-to-main (repaired by f929eb7; the
   guard has no call-of-main exclusion any more) is INSIDE although [calls_main_prog] fires on it; the two capture
   witnesses (former finding capture-under-binder, repaired by
   d5d4151; the guard has no capture clause any more) are INSIDE although [shadowing_risk_prog] fires on them. *)
Theorem C12_fun2core_fragment2_examples :
  (f2c_ok ex_calls = true /\ f2c_ok ex_shared = true /\ f2c_ok ex_data = true /\ f2c_ok ex_labels = true /\ f2c_ok ex_codata = true) /\
  (2 <= List.length (cpdefs (compiled_or_empty ex_shared)) - 2)%nat /\
  ((prog_tyguard call_main_witness = true /\ calls_main_prog call_main_witness = true /\ f2c_ok call_main_witness = true) /\
   prog_tyguard main_nonint_witness = false /\
   (prog_tyguard capture_witness = true /\ shadowing_risk_prog capture_witness = true /\ f2c_ok capture_witness = true) /\
   (prog_tyguard WtDefs.capture_typing_witness = true /\ shadowing_risk_prog WtDefs.capture_typing_witness = true /\
    f2c_ok WtDefs.capture_typing_witness = true)).
Proof. exact (conj f2c_examples_ok (conj shared_example_lifts guard_on_witnesses)). Qed.
Print Assumptions C12_fun2core_fragment2_examples.

(* CALLS OF MAIN ARE INSIDE THE GUARDS (fix f929eb7).  The two witnesses of the former finding call-to-main,
   corpus/fun/call_main_nontail.sc and corpus/fun/call_main_tail.sc as the checker annotates them (they are outputs of
   the model of the checker: C12_call_main_witnesses_checked), call main and satisfy prog_tyguard, prog_tyguard_src and
   xtor_tys_guard; the conclusions of the fun2core and of the focusing theorem are evaluated on them (f2c_ok, focus_ok);
   by the THEOREMS their translations exist and are well typed; the translation starts with the entry point main0 (main's
   parameters, no continuation) followed by main with a return continuation.  The guarded statement was FALSE of the
   translation before the fix. *)
Theorem C12_call_main_witnesses_checked :
  Check.check call_main_source = COk call_main_witness /\ Check.check call_main_tail_source = COk call_main_tail_witness.
Proof. exact call_main_witnesses_checked. Qed.
Print Assumptions C12_call_main_witnesses_checked.
Theorem C12_call_main_witnesses_in_guard :
  forallb (fun p => calls_main_prog p && prog_tyguard p && prog_tyguard_src p && xtor_tys_guard p && f2c_ok p && focus_ok p)
          [call_main_witness; call_main_tail_witness] = true.
Proof. exact call_main_witnesses_in_guard. Qed.
Print Assumptions C12_call_main_witnesses_in_guard.
Theorem C12_call_main_witnesses_typed : forall p, In p [call_main_witness; call_main_tail_witness] ->
  exists c, compile_prog p = Fun2Core.Ok c /\ wt_core c = true.
Proof. exact call_main_witnesses_typed. Qed.
Print Assumptions C12_call_main_witnesses_typed.
Theorem C12_call_main_witness_entry :
  match compile_prog call_main_witness with
  | Fun2Core.Ok c =>
      match cpdefs c with
      | e :: m :: _ => cident_eqb (cdname e) (new_id "main0") && cident_eqb (cdname m) (new_id "main")
                       && Nat.eqb (List.length (cdctx e)) 1 && Nat.eqb (List.length (cdctx m)) 2
      | _ => false
      end
  | Fun2Core.Err _ => false
  end = true.
Proof. exact call_main_witness_entry. Qed.
Print Assumptions C12_call_main_witness_entry.
Theorem C12_fun2core_fragment2_refuted_before_fix :
  ~ (forall p c, prog_tyguard p = true -> compile_prog_before_fix p = Fun2Core.Ok c -> wt_core c = true).
Proof. exact fun2core_guarded_typing_refuted_before_fix. Qed.
Print Assumptions C12_fun2core_fragment2_refuted_before_fix.


(* ======================================================================================== *)
(* Core -> focused Core                                                                     *)
(* ======================================================================================== *)

(* A well-typed Core program has none of the shapes on which focusing panics: literals and operators
   only in producer position; no cut of a constructor against a destructor (a constructor lives at a
   data type, a destructor at a codata type, type names are distinct); no cut of an operator against
   a destructor (i64 against a declared type). *)
Theorem C12_wt_core_focus_wf : forall c, wt_core c = true -> focus_wf c = true.
Proof. exact wt_core_focus_wf. Qed.
Print Assumptions C12_wt_core_focus_wf.

(* focus_preserves_typing, first half: no internal failure of uniquify + focus on a well-typed program
   ("Cannot happen", "Constructors and destructors should always be focused in cuts directly",
   "Arithmetic operators should always be focused in cuts directly", subst_sim's "cannot happen"). *)
Theorem C12_focus_total_on_typed : forall c, wt_core c = true -> exists f, focus_prog c = Backend.Ok f.
Proof. exact focus_total_wt. Qed.
Print Assumptions C12_focus_total_on_typed.

(* `uniquify` preserves typing (round 2): alpha-renaming of the binders whose id is 0, by the shadow-aware
   simultaneous substitution of variables for variables.  Hypothesis beyond typing: every variable id <= max_id
   (part of pre_check), so that the fresh names are new.  Calls are re-typed against the renamed parameter lists. *)
Theorem C12_uniquify_preserves_typing : forall c c1,
  wt_core c = true -> forallb (ids_le_def (cpmax c)) (cpdefs c) = true -> uniquify_prog c = Backend.Ok c1 -> wt_core c1 = true.
Proof. exact uniquify_preserves_typing. Qed.
Print Assumptions C12_uniquify_preserves_typing.

(* focus_preserves_typing, second half, PROVED (round 2) with two boolean side conditions:
     xtor_tys_ok c   the field types of all xtors are declared (wt_core does not ask; focusing cuts every non-variable
                     argument AT THE FIELD TYPE and wt_fs demands a declared type at every cut) - the second half of
                     decls_ok, which the shrinking theorem needs of the focused program anyway;
     names_le c      the ids of the definition NAMES are <= max_id (ids_bounded looks at them; fun2core emits 0).
   Conclusion: the focused program is typed by Sem/FsCheck.v (lookup by numeric id), its binders are distinct along
   every path, all ids are <= the new max_id, and the binders of each definition are GLOBALLY distinct (gub) - all that
   C12_shrink_preserves_typing_fragment2 consumes except names_ok and decls_ok.
   Proof: Proof/UqTy*.v (uniquify), Proof/FocusTy.v (the CPS of focus.rs with a typing invariant for continuations:
   a continuation built at counter m yields a typed statement in every extension of its scope by ids above m, for every
   binding of the right kind and type in scope; named continuations of pres03's Proof/FocusKont.v), binder facts from
   C03's specifications of the two passes. *)
Theorem C12_focus_preserves_typing : forall c f,
  wt_core c = true -> pre_check c = true -> xtor_tys_ok c = true -> names_le c = true ->
  focus_prog c = Backend.Ok f ->
  wt_fs f = true /\ unique_binders f = true /\ ids_bounded f = true /\ gub f = true.
Proof. exact focus_preserves_typing_thm. Qed.
Print Assumptions C12_focus_preserves_typing.

(* ... and the two remaining conjuncts of frag2t_prog, the fragment of the shrinking theorem:
   names_ok  after Prog::focus identifiers with the same id are spelled alike: every occurrence is, by id, the first
             binding of its scope with that id and carries its name (no side condition beyond typing and pre_check);
   decls_ok  parameter types stay declared through uniquify + focus (wt_core checks them), the field types are those of
             the input (xtor_tys_ok). *)
Theorem C12_focus_names_ok : forall c f,
  wt_core c = true -> pre_check c = true -> focus_prog c = Backend.Ok f -> FsFrag2.names_ok f = true.
Proof. exact focus_names_thm. Qed.
Print Assumptions C12_focus_names_ok.
Theorem C12_focus_decls_ok : forall c f,
  wt_core c = true -> pre_check c = true -> xtor_tys_ok c = true -> focus_prog c = Backend.Ok f -> FsFrag2.decls_ok f = true.
Proof. exact focus_decls_ok. Qed.
Print Assumptions C12_focus_decls_ok.

(* ... and without the two side conditions the statement - hypothesis H_focus_wt of C12_pipeline_wt_partial /
   _fragment2, and [focus_preserves_typing] above - is FALSE:
   (1) def main_5() { exit 0 } with max_id = 0 is wt_core and pre_check; the focused program is typed but the id of the
       definition name exceeds max_id (ids_bounded = false);
   (2) data T { K(x: U) } with U undeclared, def main() { < K(mu a. exit 0) | T | mu~ z. exit 0 > } is wt_core and
       pre_check; focusing emits a cut at U and wt_fs rejects it.
   Mismatches between the checkers (as for shrinking), not defects of focus.rs. *)
Theorem C12_focus_preserves_typing_unguarded_refuted :
  ~ H_focus_wt /\
  (wt_core focus_wt_witness1 = true /\ pre_check focus_wt_witness1 = true /\ names_le focus_wt_witness1 = false /\
   exists f, focus_prog focus_wt_witness1 = Backend.Ok f /\ wt_fs f = true /\ ids_bounded f = false) /\
  (wt_core focus_wt_witness2 = true /\ pre_check focus_wt_witness2 = true /\ xtor_tys_ok focus_wt_witness2 = false /\
   exists f, focus_prog focus_wt_witness2 = Backend.Ok f /\ wt_fs f = false).
Proof. exact (conj H_focus_wt_refuted focus_wt_witnesses). Qed.
Print Assumptions C12_focus_preserves_typing_unguarded_refuted.

(* non-vacuity: on the fun2core outputs of the five example programs all hypotheses hold and the conclusion, names_ok
   and decls_ok evaluate to true *)
Theorem C12_focus_examples :
  focus_ok ex_calls = true /\ focus_ok ex_shared = true /\ focus_ok ex_data = true /\ focus_ok ex_labels = true /\ focus_ok ex_codata = true.
Proof. exact focus_examples_ok. Qed.
Print Assumptions C12_focus_examples.


(* ======================================================================================== *)
(* focused Core -> AxCut                                                                    *)
(* ======================================================================================== *)

(* shrink_preserves_typing, first half (= C04_shrink_total): no internal failure of shrinking on a
   well-typed focused program. *)
Theorem C12_shrink_total_on_typed : forall f, wt_fs f = true -> exists a, shrink_prog f = SOk a.
Proof. exact shrink_total. Qed.
Print Assumptions C12_shrink_total_on_typed.

(* shrink_preserves_typing, second half, PROVED FOR A FRAGMENT: the first-order integer fragment of
   C04's semantic theorem ([frag_prog]: <n | mu~x.s>, <a op b | mu~x.s>, ifc, print, exit, calls with
   integer producer arguments, integer producer parameters) with definition names of id 0 (what
   fun2core emits; a name lift_.._k with k <> 0 is treated as a lifted definition by wt_ax).
   GAP to the full statement: every construct that involves a consumer - continuations at i64
   (_Cont/Ret), renaming cuts, data and codata (let/switch/create/invoke, known cuts), eta expansion of
   unknown cuts and critical pairs, lifted statements - and the conclusion binders_ok (global
   distinctness of binders; the input only has path uniqueness). *)
Theorem C12_shrink_preserves_typing_partial : forall f a,
  frag_prog f = true -> names_plain f = true -> wt_fs f = true -> unique_binders f = true ->
  shrink_prog f = SOk a ->
  AxCheck.check_prog a = None /\ pre_linear_prog a = true.
Proof. exact shrink_preserves_typing_frag. Qed.
Print Assumptions C12_shrink_preserves_typing_partial.

(* shrink_preserves_typing, second half, PROVED FOR THE WHOLE LANGUAGE on the fragment given by the boolean
   predicate  frag2t_prog f = names_ok f && decls_ok f && gub f  (Sem/FsFrag2.v):
     names_ok  identifiers with the same id are spelled alike (what `uniquify` establishes; wt_fs, the
               substitution of core2axcut and its free-variable computation key on the id only)
     decls_ok  parameter types of definitions and field types of xtors are declared (wt_fs does not ask;
               the AxCut checker demands declared parameter types, and a lifted statement can turn a clause
               parameter into a parameter of a definition).  NOTE: the real type checker's output is not
               closed under the types it mentions (an xtor that is never used can carry a field of a type
               that is never declared: corpus/fun/c15_unused_field_type.sc); such programs are OUTSIDE this
               fragment (tag not-decls_ok of the C04 run).
     gub       the binders of each definition are globally distinct (binders_ok asks for global distinctness;
               unique_binders gives distinctness along each path only)
   All constructs: continuations at i64 (_Cont/Ret), renaming cuts, data and codata (let/switch/create/invoke,
   known cuts), eta expansion of unknown cuts and critical pairs, lifted statements (the new definition is
   typed in the context of its parameters, its call in the context of the lifted statement; its free
   variables are parameters), definition names pairwise distinct, binders globally distinct and <= max_id.
   Proofs: Proof/ShrinkTy{A..J,Prog,Fv,Top}.v, ShrinkLabId.v, ShrinkOld.v, ShrinkBindersOk.v.
   This discharges hypothesis H_shrink_wt of the composition on the fragment (C12_pipeline_wt_fragment2). *)
Theorem C12_shrink_preserves_typing_fragment2 : forall f a,
  frag2t_prog f = true -> wt_fs f = true -> unique_binders f = true -> ids_bounded f = true ->
  shrink_prog f = SOk a ->
  AxCheck.wt_ax a = true /\ pre_linear_prog a = true /\ binders_ok a = true.
Proof. exact shrink_preserves_typing_frag2. Qed.
Print Assumptions C12_shrink_preserves_typing_fragment2.

(* ... and the UNGUARDED statement [shrink_preserves_typing] (hence hypothesis H_shrink_wt as it stands) is
   FALSE of the checkers as defined: a definition with a parameter of an undeclared type passes wt_fs,
   unique_binders and ids_bounded, shrinking succeeds, and the AxCut checker rejects the output ("parameter of
   undeclared type").  A mismatch between Sem/FsCheck.v and Sem/AxCheck.v, not a defect of core2axcut. *)
Theorem C12_shrink_preserves_typing_refuted :
  exists f a, wt_fs f = true /\ unique_binders f = true /\ ids_bounded f = true /\ shrink_prog f = SOk a /\
              AxCheck.wt_ax a = false /\ frag2t_prog f = false.
Proof. exact shrink_typing_unguarded_refuted. Qed.
Print Assumptions C12_shrink_preserves_typing_refuted.

(* non-vacuity: the real focused program of Proof/ShrinkExample2.v (lists, a lazy pair, recursion, two
   lifted statements) lies in the fragment; its image passes wt_ax, pre_linear, binders_ok, prog_ok *)
Theorem C12_example_fragment2 :
  match frag2_focused with
  | Some p =>
      match shrink_prog p with
      | SOk q => frag2t_prog p && decls_ok p && wt_fs p && unique_binders p && ids_bounded p
                 && AxCheck.wt_ax q && pre_linear_prog q && binders_ok q && prog_ok q
                 && Nat.eqb (List.length (filter (fun d => AxCheck.is_lifted_name (dname d)) (pdefs q))) 2
      | SErr _ => false
      end
  | None => false
  end = true.
Proof. exact frag2t_example_ok. Qed.
Print Assumptions C12_example_fragment2.

(* The checker run on the output of shrinking against the hypothesis of the linearization theorem:
   wt_ax implies the typing part of prog_ok; what prog_ok demands in addition is exactly
   [pre_linear_prog] (no explicit substitution, no annotated closure environment - wt_ax accepts
   both) and [binders_ok] (binders of a definition GLOBALLY distinct and <= max_id - wt_ax demands
   freshness along each path only). *)
Theorem C12_wt_ax_prog_ok : forall a,
  AxCheck.check_prog a = None -> pre_linear_prog a = true -> binders_ok a = true -> prog_ok a = true.
Proof. exact wt_ax_prog_ok. Qed.
Print Assumptions C12_wt_ax_prog_ok.
(* ... and the binder condition is not implied: two branches binding the same id *)
Theorem C12_wt_ax_alone_not_prog_ok :
  exists a, AxCheck.check_prog a = None /\ pre_linear_prog a = true /\ prog_ok a = false.
Proof. exists two_branches. exact wt_ax_not_prog_ok. Qed.
Print Assumptions C12_wt_ax_alone_not_prog_ok.

(* ======================================================================================== *)
(* AxCut -> linear AxCut                                                                    *)
(* ======================================================================================== *)

Theorem C12_linearize_preserves_typing : linearize_preserves_typing.
Proof. exact linearize_exact. Qed.
Print Assumptions C12_linearize_preserves_typing.

(* ======================================================================================== *)
(* linear AxCut -> assembly                                                                 *)
(* ======================================================================================== *)

(* THE GENERIC THEOREM.  For any back end whose Temporary order is a strict total order with an
   injective numbering (backend_ok) and whose temporary_from_position / store / load succeed within P
   positions (capacity_ok): on every statement accepted by the ordered linear discipline in a context
   c, when every context reaching a sub-statement has at most K variables with 2K + 2 <= P, the generic
   code generator returns Ok.  So "Variable not found in context", "Type not found", "User-defined type
   cannot be i64", "Xtor not found in type declaration", the underflow of split_off, "Closure
   environment must be annotated" and the recursion of the parallel-move algorithm are unreachable.
   (The generator is started in any context with the same ids as c: it reads ids and lengths only.) *)
Theorem C12_codegen_total_generic :
  forall (Code Temp : Type) (B : backend Code Temp) (P : N),
    backend_ok B -> capacity_ok B P ->
    forall K : nat, (2 * N.of_nat K + 2 <= P)%N ->
    forall (S : sigs) (s : stmt) (c c' : ctx),
      ids c' = ids c -> lin_check S c s = true -> cap_ok K c s = true ->
      forall lc, exists r, code_statement B (sg_types S) s c' lc = Backend.Ok r.
Proof. intros Code Temp B P OKB CO K HK S s. exact (code_statement_total B P OKB CO K HK S s). Qed.
Print Assumptions C12_codegen_total_generic.

(* the three instances; the capacities come from the constants regenerated from the crates on every
   run: 267 / 281 / 28 temporary positions, i.e. at most 132 / 139 / 13 variables in a context *)
Theorem C12_capacity_values :
  positions_x86 = 267%N /\ K_x86 = 132%nat /\ positions_a64 = 281%N /\ K_a64 = 139%nat /\
  positions_rv = 28%N /\ K_rv = 13%nat /\
  X86.temporary_from_position positions_x86 = Backend.Err "Out of temporaries" /\
  A64.temporary_from_position positions_a64 = Backend.Err "Out of temporaries" /\
  RV.temporary_from_position positions_rv = Backend.Err "Out of registers".
Proof. repeat split; reflexivity. Qed.
Print Assumptions C12_capacity_values.

Theorem C12_codegen_total_x86 : codegen_total_x86.
Proof. intros l lc. exact (x86_codegen_total l lc). Qed.
Print Assumptions C12_codegen_total_x86.
Theorem C12_codegen_total_a64 : codegen_total_a64.
Proof. intros l lc. exact (a64_codegen_total l lc). Qed.
Print Assumptions C12_codegen_total_a64.
Theorem C12_codegen_total_rv : codegen_total_rv.
Proof. intros l lc. exact (rv_codegen_total l lc). Qed.
Print Assumptions C12_codegen_total_rv.

(* ======================================================================================== *)
(* The composition                                                                          *)
(* ======================================================================================== *)

(* THE PROPERTY as composed in round 1, with the then unproved links as hypotheses (round 2: all three links are
   proved in guarded form and C12_pipeline_wt / C12_pipeline_wt_source below have no hypothesis of this kind; each of the
   three hypotheses is false as it stands, so this theorem is kept for the record only):
     H_fun2core_wt = fun2core_preserves_typing (guarded by barendregt),
     H_focus_wt    = the typing half of focus_preserves_typing,
     H_shrink_wt   = the typing half of shrink_preserves_typing.
   Discharged by proofs: totality of focusing and of shrinking on typed programs, wt_ax -> prog_ok,
   linearization, and all three code generators.  Every hypothesis is evaluated on every run of
   ./check C12 on the REAL output of the corresponding stage for corpus and generated programs. *)
Theorem C12_pipeline_wt_partial :
  H_fun2core_wt -> H_focus_wt -> H_shrink_wt ->
  forall src p, Check.check src = COk p -> barendregt p = true ->
  exists c f a,
    compile_prog p = Fun2Core.Ok c /\ wt_core c = true /\
    focus_prog c = Backend.Ok f /\ wt_fs f = true /\
    shrink_prog f = SOk a /\ AxCheck.wt_ax a = true /\ prog_ok a = true /\
    let l := linearize a in
    lin_check_prog l = true /\
    (forall lc, within_capacity_x86 l = true -> exists code lc', x86_compile l lc = Backend.Ok (code, main_arity l, lc')) /\
    (forall lc, within_capacity_a64 l = true -> exists code lc', a64_compile l lc = Backend.Ok (code, main_arity l, lc')) /\
    (forall lc, within_capacity_rv l = true -> exists code lc', rv_compile l lc = Backend.Ok (code, main_arity l, lc')).
Proof. exact pipeline_wt_partial_lemma. Qed.
Print Assumptions C12_pipeline_wt_partial.

(* THE COMPOSITION WITH THE SHRINK LINK DISCHARGED: instead of hypothesis H_shrink_wt (which is false as it
   stands, C12_shrink_preserves_typing_refuted) the boolean condition that the focused program lies in the
   fragment of C12_shrink_preserves_typing_fragment2. *)
Theorem C12_pipeline_wt_fragment2 :
  H_fun2core_wt -> H_focus_wt ->
  forall src p, Check.check src = COk p -> barendregt p = true ->
  (forall c f, compile_prog p = Fun2Core.Ok c -> focus_prog c = Backend.Ok f -> frag2t_prog f = true) ->
  exists c f a,
    compile_prog p = Fun2Core.Ok c /\ wt_core c = true /\
    focus_prog c = Backend.Ok f /\ wt_fs f = true /\
    shrink_prog f = SOk a /\ AxCheck.wt_ax a = true /\ prog_ok a = true /\
    let l := linearize a in
    lin_check_prog l = true /\
    (forall lc, within_capacity_x86 l = true -> exists code lc', x86_compile l lc = Backend.Ok (code, main_arity l, lc')) /\
    (forall lc, within_capacity_a64 l = true -> exists code lc', a64_compile l lc = Backend.Ok (code, main_arity l, lc')) /\
    (forall lc, within_capacity_rv l = true -> exists code lc', rv_compile l lc = Backend.Ok (code, main_arity l, lc')).
Proof. exact pipeline_wt_fragment2_lemma. Qed.
Print Assumptions C12_pipeline_wt_fragment2.

(* THE COMPOSITION WITH NO TYPING HYPOTHESIS LEFT (round 2).  Hypotheses: the boolean guard prog_tyguard on the
   annotated checked program, and two boolean conditions on ONE STAGE OUTPUT:
     names_ok f, decls_ok f      of the focused program (identifiers with equal ids spelled alike; parameter and field
                                 types declared - the checker's output is not closed under the types it mentions, C15).
   (pre_check of the Core program, a hypothesis of the older compositions, is proved: C12_fun2core_pre_check.)
   Conclusion: every stage succeeds (no internal failure), every intermediate program is accepted by its checker and
   each code generator returns Ok within its documented capacity.  Replaces H_fun2core_wt and H_focus_wt of
   C12_pipeline_wt_fragment2 (H_focus_wt is false as stated, see above; H_fun2core_wt is false by
   C12_fun2core_preserves_typing_refuted). *)
Theorem C12_pipeline_wt : forall p,
  prog_tyguard p = true ->
  (forall c f, compile_prog p = Fun2Core.Ok c -> focus_prog c = Backend.Ok f ->
     FsFrag2.names_ok f = true /\ FsFrag2.decls_ok f = true) ->
  exists c f a,
    compile_prog p = Fun2Core.Ok c /\ wt_core c = true /\
    focus_prog c = Backend.Ok f /\ wt_fs f = true /\
    shrink_prog f = SOk a /\ AxCheck.wt_ax a = true /\ prog_ok a = true /\
    let l := linearize a in
    lin_check_prog l = true /\
    (forall lc, within_capacity_x86 l = true -> exists code lc', x86_compile l lc = Backend.Ok (code, main_arity l, lc')) /\
    (forall lc, within_capacity_a64 l = true -> exists code lc', a64_compile l lc = Backend.Ok (code, main_arity l, lc')) /\
    (forall lc, within_capacity_rv l = true -> exists code lc', rv_compile l lc = Backend.Ok (code, main_arity l, lc')).
Proof. exact pipeline_wt_lemma. Qed.
Print Assumptions C12_pipeline_wt.

(* THE SAME WITH GUARDS ON THE SOURCE PROGRAM ONLY: names_ok and decls_ok of the focused program are proved
   (C12_focus_names_ok, C12_focus_decls_ok); what remains is the boolean xtor_tys_guard p - the field types of all
   (compiled) xtors are declared.  It is not implied by acceptance: the real checker's output is not closed under the
   types it mentions (C15: a never-used xtor can carry a field of a never-declared type), and such programs are outside
   (tag pipe-noguard:xtor-types).  So: for every annotated checked program that is well typed in the boolean sense of
   tg, has an integer main and declared field types (calls of main allowed since fix f929eb7), ALL stages succeed, every
   intermediate program is well-scoped and well-typed in its own language, and the three code generators return Ok
   within their documented capacities. *)
Theorem C12_pipeline_wt_source : forall p,
  prog_tyguard p = true -> xtor_tys_guard p = true ->
  exists c f a,
    compile_prog p = Fun2Core.Ok c /\ wt_core c = true /\
    focus_prog c = Backend.Ok f /\ wt_fs f = true /\
    shrink_prog f = SOk a /\ AxCheck.wt_ax a = true /\ prog_ok a = true /\
    let l := linearize a in
    lin_check_prog l = true /\
    (forall lc, within_capacity_x86 l = true -> exists code lc', x86_compile l lc = Backend.Ok (code, main_arity l, lc')) /\
    (forall lc, within_capacity_a64 l = true -> exists code lc', a64_compile l lc = Backend.Ok (code, main_arity l, lc')) /\
    (forall lc, within_capacity_rv l = true -> exists code lc', rv_compile l lc = Backend.Ok (code, main_arity l, lc')).
Proof. exact pipeline_wt_source_lemma. Qed.
Print Assumptions C12_pipeline_wt_source.
(* ... and for a program that comes out of the checker, with the guard that says nothing about main's type
   (fix 5b8c76f): *)
Theorem C12_pipeline_wt_checked : forall src p,
  Check.check src = COk p -> prog_tyguard_src p = true -> xtor_tys_guard p = true ->
  exists c f a,
    compile_prog p = Fun2Core.Ok c /\ wt_core c = true /\
    focus_prog c = Backend.Ok f /\ wt_fs f = true /\
    shrink_prog f = SOk a /\ AxCheck.wt_ax a = true /\ prog_ok a = true /\
    let l := linearize a in
    lin_check_prog l = true /\
    (forall lc, within_capacity_x86 l = true -> exists code lc', x86_compile l lc = Backend.Ok (code, main_arity l, lc')) /\
    (forall lc, within_capacity_a64 l = true -> exists code lc', a64_compile l lc = Backend.Ok (code, main_arity l, lc')) /\
    (forall lc, within_capacity_rv l = true -> exists code lc', rv_compile l lc = Backend.Ok (code, main_arity l, lc')).
Proof.
  intros src p H G X. exact (pipeline_wt_source_lemma p (tyguard_src_checked true src p H G) X).
Qed.
Print Assumptions C12_pipeline_wt_checked.
(* non-vacuity: the five example programs satisfy both source guards *)
Theorem C12_pipeline_wt_source_examples :
  forallb (fun p => prog_tyguard p && xtor_tys_guard p) [ex_calls; ex_shared; ex_data; ex_labels; ex_codata] = true.
Proof. vm_compute. reflexivity. Qed.
Print Assumptions C12_pipeline_wt_source_examples.
(* ... and so do the two programs that call main (former finding call-to-main) *)
Theorem C12_pipeline_wt_source_call_main_examples :
  forallb (fun p => calls_main_prog p && prog_tyguard p && xtor_tys_guard p) [call_main_witness; call_main_tail_witness] = true.
Proof. vm_compute. reflexivity. Qed.
Print Assumptions C12_pipeline_wt_source_call_main_examples.

(* the hypotheses are the statements above *)
Theorem C12_hypotheses_are_the_statements :
  (H_fun2core_wt <-> fun2core_preserves_typing) /\
  (focus_preserves_typing -> H_focus_wt) /\ (shrink_preserves_typing -> H_shrink_wt).
Proof. exact hypotheses_are_statements. Qed.
Print Assumptions C12_hypotheses_are_the_statements.

(* For three real outputs of fun2core (two repository programs, one generated program) the models of
   all passes compose inside Coq, every checker accepts every stage (wt_core, pre_check, wt_fs,
   unique_binders, ids_bounded, wt_core of the embedding, wt_ax, pre_linear, binders_ok, prog_ok,
   lin_check_prog, within capacity) and the x86-64 and AArch64 code generators return Ok. *)
Theorem C12_pipeline_examples :
  pipeline_ok ex_lists = true /\ pipeline_ok ex_case_of = true /\ pipeline_ok ex_gen3 = true.
Proof. exact pipeline_examples_ok. Qed.
Print Assumptions C12_pipeline_examples.

(* ======================================================================================== *)
(* C15 -> C12: every output of the type checker satisfies the typing guard tg                *)
(* ======================================================================================== *)

(* Until here the typing guard [prog_tyguard] of C12_pipeline_wt_source was MEASURED on every run for the outputs of
   the checker (tag f2c-guard of modelrun wt-stages).  Now proved: the output of the checker model satisfies it
   (Proof/CheckTyGuard.v: an induction over check_term_gen - the annotated output term satisfies tg in every scope
   that agrees with the checker's context, all term forms; Proof/CheckTyGuardProg.v: definitions, declarations, the
   final symbol table as the compiled declarations).  Hypotheses besides acceptance:
     [prog_names_ok src]   identifier-like names (the domain of C15's theorems; every parsed program),
     [no_cont_decl src]    no declared type is named `_Cont`, the reserved continuation type of the Core checker
                           (every parsed program: the lexer's type names start with a capital letter),
     [xtor_tys_guard p]    the field types of all xtors of the output are declared - the closure guard that
                           C12_pipeline_wt_source asks anyway: the checker's output is not closed under the types it
                           mentions (C15_output_closed_refuted).
   Both extra guards are needed (C12_checked_program_in_tyguard_closure_guard_needed: a used destructor whose return type
   is never instantiated, accepted by the real checker; ..._cont_guard_needed); xtor_tys_guard is not the weakest
   possible closure guard (what is used: the return types of destructors and the field types bound by clauses). *)
Theorem C12_checked_program_in_tyguard : forall src p,
  FunNames.prog_names_ok src = true -> no_cont_decl src = true ->
  Check.check src = COk p -> xtor_tys_guard p = true -> prog_tyguard p = true.
Proof. exact check_tyguard. Qed.
Print Assumptions C12_checked_program_in_tyguard.
(* ... for both versions of the checker, in the form without the main clause *)
Theorem C12_checked_program_in_tyguard_src : forall eager src p,
  FunNames.prog_names_ok src = true -> no_cont_decl src = true ->
  Check.check_gen eager src = COk p -> xtor_tys_guard p = true -> prog_tyguard_src p = true.
Proof. exact check_gen_tyguard_src. Qed.
Print Assumptions C12_checked_program_in_tyguard_src.
(* the declarations alone need no closure guard *)
Theorem C12_checked_program_decls_tyguard : forall eager src p,
  FunNames.prog_names_ok src = true -> no_cont_decl src = true -> Check.check_gen eager src = COk p -> decls_tyguard p = true.
Proof. exact check_gen_decls_tyguard. Qed.
Print Assumptions C12_checked_program_decls_tyguard.

(* THE COMPOSITION whose only program hypothesis is acceptance by the checker (plus the guards above) *)
Theorem C12_pipeline_wt_of_check : forall src p,
  FunNames.prog_names_ok src = true -> no_cont_decl src = true -> Check.check src = COk p -> xtor_tys_guard p = true ->
  exists c f a,
    compile_prog p = Fun2Core.Ok c /\ wt_core c = true /\
    focus_prog c = Backend.Ok f /\ wt_fs f = true /\
    shrink_prog f = SOk a /\ AxCheck.wt_ax a = true /\ prog_ok a = true /\
    let l := linearize a in
    lin_check_prog l = true /\
    (forall lc, within_capacity_x86 l = true -> exists code lc', x86_compile l lc = Backend.Ok (code, main_arity l, lc')) /\
    (forall lc, within_capacity_a64 l = true -> exists code lc', a64_compile l lc = Backend.Ok (code, main_arity l, lc')) /\
    (forall lc, within_capacity_rv l = true -> exists code lc', rv_compile l lc = Backend.Ok (code, main_arity l, lc')).
Proof. exact pipeline_wt_of_check_lemma. Qed.
Print Assumptions C12_pipeline_wt_of_check.

(* non-vacuity: the five example programs are outputs of the checker (on their own declarations and definitions
   as a source program) and satisfy all hypotheses *)
Example C12_pipeline_wt_of_check_examples :
  checked_in_guards ex_calls /\ checked_in_guards ex_shared /\ checked_in_guards ex_data
  /\ checked_in_guards ex_labels /\ checked_in_guards ex_codata.
Proof. exact examples_checked_in_guards. Qed.
Print Assumptions C12_pipeline_wt_of_check_examples.

(* the guards are needed *)
Theorem C12_checked_program_in_tyguard_closure_guard_needed :
  ~ (forall src p, FunNames.prog_names_ok src = true -> no_cont_decl src = true -> Check.check src = COk p -> prog_tyguard p = true).
Proof. exact tyguard_closure_guard_needed. Qed.
Print Assumptions C12_checked_program_in_tyguard_closure_guard_needed.
Example C12_checked_program_in_tyguard_closure_witness :
  FunNames.prog_names_ok p_undeclared_ret = true /\ no_cont_decl p_undeclared_ret = true /\ has_type_b p_undeclared_ret = true
  /\ exists q, Check.check p_undeclared_ret = COk q /\ xtor_tys_guard q = false /\ prog_tyguard q = false.
Proof. exact undeclared_ret_witness. Qed.
Print Assumptions C12_checked_program_in_tyguard_closure_witness.
Theorem C12_checked_program_in_tyguard_cont_guard_needed :
  ~ (forall src p, FunNames.prog_names_ok src = true -> Check.check src = COk p -> xtor_tys_guard p = true -> prog_tyguard p = true).
Proof. exact tyguard_cont_guard_needed. Qed.
Print Assumptions C12_checked_program_in_tyguard_cont_guard_needed.
