(* C17: compilation is deterministic.
   The models of the passes are Gallina functions, so each modelled stage is deterministic by
   construction; what has to be shown is that the implementation has no OTHER input than the
   source text.  The two candidates are hash-based containers and the process-global label counter.
   PROVED here: (1) the liveness sets of linearization (HashSet<ID> in Rust) influence the result
   only through membership, so their iteration order is irrelevant; (2) the ordered sets of the
   back ends (BTreeSet over temporaries) yield a sequence that depends only on the SET of inserted
   elements, for every total order, in particular for the x86-64 temporaries.
   REPAIRED: the one hash-order dependency that reached the output (type instances collected from
   a HashMap, fix: f423564).
   CHECKED BY EXECUTION: every printable stage (Core, focused Core, AxCut, linearized AxCut, the
   three assembly outputs) compared byte for byte, up to the numbering of generated labels in
   assembly code, between two compilations in one process, a compilation after unrelated
   compilations, and three fresh processes (fresh hash seeds).  Not proved: that the label
   counter only renumbers labels (checked by the normalising comparison). *)
From Coq Require Import List NArith Permutation.
From SCC Require Import Lang.AxSyn Model.Linearize Model.Backend Model.X86 Proof.Determinism.
Import ListNotations.

Theorem C17_liveness_sets_matter_only_by_membership :
  forall (c : ctx) (s s' : list N), (forall x, mem x s = mem x s') -> filter_by_set c s = filter_by_set c s'.
Proof. exact filter_by_set_membership_only. Qed.
Print Assumptions C17_liveness_sets_matter_only_by_membership.

Theorem C17_liveness_sets_iteration_order_irrelevant :
  forall (c : ctx) (s s' : list N), Permutation s s' -> filter_by_set c s = filter_by_set c s'.
Proof. exact filter_by_set_permutation. Qed.
Print Assumptions C17_liveness_sets_iteration_order_irrelevant.

Theorem C17_ordered_sets_insertion_order_irrelevant :
  forall (K : Type) (cmp : K -> K -> comparison),
    (forall a b, cmp a b = Datatypes.Eq <-> a = b) ->
    (forall a b c, cmp a b = Datatypes.Lt -> cmp b c = Datatypes.Lt -> cmp a c = Datatypes.Lt) ->
    (forall a b, cmp a b = Datatypes.Gt <-> cmp b a = Datatypes.Lt) ->
    forall l l', (forall x, In x l <-> In x l') -> set_of_list cmp l = set_of_list cmp l'.
Proof. exact @set_of_list_order_independent. Qed.
Print Assumptions C17_ordered_sets_insertion_order_irrelevant.

Theorem C17_x86_target_sets_order_independent :
  forall (l l' : list xtemp), (forall x, In x l <-> In x l') -> set_of_list xtemp_compare l = set_of_list xtemp_compare l'.
Proof. exact x86_target_sets_order_independent. Qed.
Print Assumptions C17_x86_target_sets_order_independent.
