(* C17: compilation is deterministic.
   The models of the passes are Gallina functions, so each modelled stage is deterministic by
   construction; what has to be shown is that the implementation has no OTHER input than the
   source text.  The two candidates are hash-based containers and the process-global label counter.
   PROVED here: (1) the liveness sets of linearization (HashSet<ID> in Rust) influence the result
   only through membership, so their iteration order is irrelevant; (2) the ordered sets of the
   back ends (BTreeSet over temporaries) yield a sequence that depends only on the SET of inserted
   elements, for every total order, in particular for the x86-64 temporaries.
   REPAIRED: the one hash-order dependency that reached the output (type instances collected from
   a HashMap, fix: f423564).
   CHECKED BY EXECUTION: every printable stage (Core, focused Core, AxCut, linearized AxCut, the
   three assembly outputs) compared byte for byte, up to the numbering of generated labels in
   assembly code, between two compilations in one process, a compilation after unrelated
   compilations, and three fresh processes (fresh hash seeds).  That the label counter only
   renumbers labels is proved in round 2 (end of this file). *)
From Coq Require Import List NArith Permutation.
From SCC Require Import Lang.AxSyn Model.Linearize Model.Backend Model.X86 Proof.Determinism.
From Coq Require Import String Bool.
From SCC Require Model.A64 Model.RV Sem.X86Wf Sem.A64Wf Sem.RVWf.
From SCC Require Import Sem.LabelGuard Proof.LabelStrings Proof.LabelGen Proof.LabelShift Proof.LabelsX86 Proof.LabelsA64 Proof.LabelsRV
  Proof.ShiftX86 Proof.ShiftA64 Proof.ShiftRV Proof.ShiftThms.
Import ListNotations.

Theorem C17_liveness_sets_matter_only_by_membership :
  forall (c : ctx) (s s' : list N), (forall x, mem x s = mem x s') -> filter_by_set c s = filter_by_set c s'.
Proof. exact filter_by_set_membership_only. Qed.
Print Assumptions C17_liveness_sets_matter_only_by_membership.

Theorem C17_liveness_sets_iteration_order_irrelevant :
  forall (c : ctx) (s s' : list N), Permutation s s' -> filter_by_set c s = filter_by_set c s'.
Proof. exact filter_by_set_permutation. Qed.
Print Assumptions C17_liveness_sets_iteration_order_irrelevant.

Theorem C17_ordered_sets_insertion_order_irrelevant :
  forall (K : Type) (cmp : K -> K -> comparison),
    (forall a b, cmp a b = Datatypes.Eq <-> a = b) ->
    (forall a b c, cmp a b = Datatypes.Lt -> cmp b c = Datatypes.Lt -> cmp a c = Datatypes.Lt) ->
    (forall a b, cmp a b = Datatypes.Gt <-> cmp b a = Datatypes.Lt) ->
    forall l l', (forall x, In x l <-> In x l') -> set_of_list cmp l = set_of_list cmp l'.
Proof. exact @set_of_list_order_independent. Qed.
Print Assumptions C17_ordered_sets_insertion_order_irrelevant.

Theorem C17_x86_target_sets_order_independent :
  forall (l l' : list xtemp), (forall x, In x l <-> In x l') -> set_of_list xtemp_compare l = set_of_list xtemp_compare l'.
Proof. exact x86_target_sets_order_independent. Qed.
Print Assumptions C17_x86_target_sets_order_independent.

(* ======================= round 2: the label counter only renumbers labels =======================
   The Rust label counter is a process-global static (axcut2backend/src/fresh_labels.rs): what was
   compiled before in the same process shifts every generated number.  PROVED (Proof/LabelShift.v,
   Shift{X86,A64,RV}.v, ShiftThms.v): for every back end whose emitters commute with a renaming of
   labels (shift_ok), `translate` / `compile` started at counter c2 return the code of the run started at
   c1 with every generated label lab<k>, <Type>_<k>, <Type>_<k>_<Xtor> renamed to the number k - c1 + c2
   (definition labels, `cleanup`, `asm_main` unchanged), the same error if any, and the final counter
   shifted; instantiated for the three back ends and their complete routines.  The renaming is a FUNCTION
   on label texts (rename_label, built on LabelStrings.decode) under renaming_guard = the name-digits guard
   of C14 plus "calls go to lower-case names"; without it no function on texts relates the two outputs
   (C17_translate_shift_refuted - the label texts are ambiguous, known finding label-collision-name-digits).
   Connection to the run-time check (harness/src/cmd_det.rs normalize_labels renumbers the numbers of
   generated labels by first occurrence before comparing): C17_normal_form - renumbering both outputs to
   base 0 gives IDENTICAL code, so any renumbering that depends only on the order of first occurrences
   (C17_first_occurrence_numbering_invariant) maps them to the same text.  The tokenisation of the printed
   text by the normaliser is not modelled (cmd_det.rs stays in the trusted list). *)

Theorem C17_translate_shift :
  forall (Code Temp : Type) (B : backend Code Temp) (cdefs crefs : Code -> list string),
    labels_ok B cdefs crefs ->
    forall (cmap : (string -> string) -> Code -> Code),
      (forall rho a b, (forall k, (a < k)%N -> rho (pr (GLab k)) = pr (GLab (sh a b k))) -> shift_ok B cmap rho a b) ->
      forall (types : list tydecl) (ds : list def) (c1 c2 : N),
        renaming_guard ds = true ->
        translate B types ds c2 = shift_result cmap ds c1 c2 (translate B types ds c1).
Proof. exact @translate_shift. Qed.
Print Assumptions C17_translate_shift.

Theorem C17_normal_form :
  forall (Code Temp : Type) (B : backend Code Temp) (cdefs crefs : Code -> list string),
    labels_ok B cdefs crefs ->
    forall (cmap : (string -> string) -> Code -> Code),
      (forall rho a b, (forall k, (a < k)%N -> rho (pr (GLab k)) = pr (GLab (sh a b k))) -> shift_ok B cmap rho a b) ->
      forall (types : list tydecl) (ds : list def) (c1 c2 : N),
        renaming_guard ds = true ->
        normalize cmap ds c1 (translate B types ds c1) = normalize cmap ds c2 (translate B types ds c2).
Proof. exact @normal_form. Qed.
Print Assumptions C17_normal_form.

Theorem C17_x86_shift_ok :
  forall rho a b, (forall k, (a < k)%N -> rho (X86.lab k) = X86.lab (sh a b k)) -> shift_ok x86_backend xmap rho a b.
Proof. exact x86_shift_ok. Qed.
Print Assumptions C17_x86_shift_ok.
Theorem C17_a64_shift_ok :
  forall rho a b, (forall k, (a < k)%N -> rho (A64.lab k) = A64.lab (sh a b k)) -> shift_ok A64.a64_backend amap rho a b.
Proof. exact a64_shift_ok. Qed.
Print Assumptions C17_a64_shift_ok.
Theorem C17_rv_shift_ok :
  forall rho a b, (forall k, (a < k)%N -> rho (RV.lab k) = RV.lab (sh a b k)) -> shift_ok RV.rv_backend rmap rho a b.
Proof. exact rv_shift_ok. Qed.
Print Assumptions C17_rv_shift_ok.

(* the complete routines of the three back ends *)
Theorem C17_x86_compile_shift :
  forall (p : prog) (c1 c2 : N),
    renaming_guard (pdefs p) = true ->
    x86_compile p c2 = match x86_compile p c1 with
                       | Ok (r, n, lc') => Ok (shift_labels xmap (pdefs p) c1 c2 r, n, renumber c1 c2 lc')
                       | Err m => Err m
                       end.
Proof. exact x86_compile_shift. Qed.
Print Assumptions C17_x86_compile_shift.
Theorem C17_a64_compile_shift :
  forall (p : prog) (c1 c2 : N),
    renaming_guard (pdefs p) = true ->
    A64.a64_compile p c2 = match A64.a64_compile p c1 with
                           | Ok (r, n, lc') => Ok (shift_labels amap (pdefs p) c1 c2 r, n, renumber c1 c2 lc')
                           | Err m => Err m
                           end.
Proof. exact a64_compile_shift. Qed.
Print Assumptions C17_a64_compile_shift.
Theorem C17_rv_compile_shift :
  forall (p : prog) (c1 c2 : N),
    renaming_guard (pdefs p) = true ->
    RV.rv_compile p c2 = match RV.rv_compile p c1 with
                         | Ok (r, n, lc') => Ok (shift_labels rmap (pdefs p) c1 c2 r, n, renumber c1 c2 lc')
                         | Err m => Err m
                         end.
Proof. exact rv_compile_shift. Qed.
Print Assumptions C17_rv_compile_shift.

(* without the name-digits guard: no function on label texts relates the outputs at counters 0 and 10 *)
Theorem C17_translate_shift_refuted :
  shift_guard_defs all_true all_true collide_defs = true /\
  forall f : string -> string,
    match translate x86_backend [] collide_defs 0, translate x86_backend [] collide_defs 10 with
    | Ok (c0, _), Ok (c10, _) => map (xmap f) c0 <> c10
    | _, _ => False
    end.
Proof. exact translate_shift_refuted. Qed.
Print Assumptions C17_translate_shift_refuted.
Theorem C17_renaming_guard_satisfiable :
  renaming_guard neutral_defs = true /\
  LabelGen.defs xdefs (match translate x86_backend [] neutral_defs 0 with Ok (c, _) => c | Err _ => [] end)
    = ["main_"; "Aa_1"; "Aa_1_Bx"; "List_i64_2"; "List_i64_2_Cy"]%string /\
  LabelGen.defs xdefs (match translate x86_backend [] neutral_defs 10 with Ok (c, _) => c | Err _ => [] end)
    = ["main_"; "Aa_11"; "Aa_11_Bx"; "List_i64_12"; "List_i64_12_Cy"]%string /\
  map (rename_label neutral_defs 0 10) ["main_"; "Aa_1"; "Aa_1_Bx"; "List_i64_2"; "List_i64_2_Cy"; "cleanup"; "lab7"]%string
    = ["main_"; "Aa_11"; "Aa_11_Bx"; "List_i64_12"; "List_i64_12_Cy"; "cleanup"; "lab17"]%string.
Proof. exact renaming_guard_satisfiable. Qed.
Print Assumptions C17_renaming_guard_satisfiable.

(* the numbering the run-time check applies before comparing (index of first occurrence) is invariant
   under every renumbering that is injective on the sequence; applied to the numbers of the generated
   labels of a run and of its shifted copy *)
Theorem C17_first_occurrence_numbering_invariant :
  forall (f : N -> N) (l : list N),
    (forall x y, In x l -> In y l -> f x = f y -> x = y) -> canon (map f l) = canon l.
Proof. exact canon_invariant. Qed.
Print Assumptions C17_first_occurrence_numbering_invariant.
Theorem C17_first_occurrence_numbering_of_shifted_labels :
  forall (okS okX : string -> bool) (cut : string -> option (string * string)),
    (forall T k, okS T = true -> decode_with cut (pr (GTL T k)) = Some (GTL T k)) ->
    (forall T k X, okS T = true -> okX X = true -> decode_with cut (pr (GCL T k X)) = Some (GCL T k X)) ->
    forall (c1 c2 : N) (ls : list string),
      (forall l, In l ls -> known okS okX l) -> (forall k, In k (numbers cut ls) -> (c1 <= k)%N) ->
      canon (numbers cut (map (rho cut (renumber c1 c2)) ls)) = canon (numbers cut ls).
Proof. exact canon_numbers_shift. Qed.
Print Assumptions C17_first_occurrence_numbering_of_shifted_labels.

(* ---------- round 2: the order of the emitted type instances (fix f423564) ----------
   The checker collects the monomorphic instances from `SymbolTable.types` (a HashMap: arbitrary iteration order;
   in the model: insertion order, i.e. the order in which the definitions first needed them) and sorts the data and
   the codata declarations by name (`sort_by`, byte-wise `String::cmp`).  The sorted list is a function of the SET
   of instances: [klt] is the strict order of `String::cmp`; uniqueness of a strictly sorted list is the ordered-set
   lemma of Proof/Determinism.v (as for the back ends' BTreeSets). *)
From Coq Require Import String Sorted.
From SCC Require Import Lang.FunSyn Model.Check Sem.FunNames Proof.InstOrder.

(* two lists with pairwise different names and the same elements sort to the same list *)
Theorem C17_sorted_instances_function_of_set :
  forall (X : Type) (key : X -> string) (l l' : list X),
    NoDup (map key l) -> NoDup (map key l') -> (forall x, In x l <-> In x l') ->
    sort_by_name key l = sort_by_name key l'.
Proof. exact @sort_by_name_set. Qed.
Print Assumptions C17_sorted_instances_function_of_set.

(* whatever the order in which the instance table is enumerated (any permutation of its entries: any hash
   iteration order, any order in which the definitions created the instances), the emitted lists are the same *)
Theorem C17_instance_collection_order_irrelevant :
  forall st l l' das cos das' cos',
    NoDup (map fst l) -> Permutation l l' ->
    collect_types st l = COk (das, cos) -> collect_types st l' = COk (das', cos') ->
    sort_by_name fdaname das = sort_by_name fdaname das' /\ sort_by_name fcoaname cos = sort_by_name fcoaname cos'.
Proof. exact collect_sorted_order_independent. Qed.
Print Assumptions C17_instance_collection_order_irrelevant.

(* the declaration lists of every accepted program are strictly sorted by name ... *)
Theorem C17_checked_instances_sorted : forall p q, prog_names_ok p = true -> check p = COk q ->
  StronglySorted klt (map fdaname (fcpdata q)) /\ StronglySorted klt (map fcoaname (fcpcodata q)).
Proof. exact (check_output_sorted true). Qed.
Print Assumptions C17_checked_instances_sorted.
(* ... so two accepted programs (e.g. the same declarations in another order) that need the same SET of
   instances emit the same LIST of instances *)
Theorem C17_checked_instances_function_of_set : forall p q p' q',
  prog_names_ok p = true -> prog_names_ok p' = true -> check p = COk q -> check p' = COk q' ->
  ((forall d, In d (fcpdata q) <-> In d (fcpdata q')) -> fcpdata q = fcpdata q')
  /\ ((forall d, In d (fcpcodata q) <-> In d (fcpcodata q')) -> fcpcodata q = fcpcodata q').
Proof. intros p q p' q'. exact (check_instances_function_of_set true p q true p' q'). Qed.
Print Assumptions C17_checked_instances_function_of_set.
(* the hypotheses are satisfiable and the statement is not vacuous: three instances inserted in two different
   orders (by name: "List[i64]" < "Pair[i64, i64]" < "Zed") *)
Example C17_sort_example :
  sort_by_name (fun s : string => s) ["Zed"; "List[i64]"; "Pair[i64, i64]"]%string
  = sort_by_name (fun s : string => s) ["Pair[i64, i64]"; "Zed"; "List[i64]"]%string
  /\ sort_by_name (fun s : string => s) ["Zed"; "List[i64]"; "Pair[i64, i64]"]%string = ["List[i64]"; "Pair[i64, i64]"; "Zed"]%string.
Proof. split; reflexivity. Qed.
Print Assumptions C17_sort_example.
