(* C17: compilation is deterministic.
   The models of the passes are Gallina functions, so each modelled stage is deterministic by
   construction; what has to be shown is that the implementation has no OTHER input than the
   source text.  The two candidates are hash-based containers and the process-global label counter.
   PROVED here: (1) the liveness sets of linearization (HashSet<ID> in Rust) influence the result
   only through membership, so their iteration order is irrelevant; (2) the ordered sets of the
   back ends (BTreeSet over temporaries) yield a sequence that depends only on the SET of inserted
   elements, for every total order, in particular for the x86-64 temporaries.
   REPAIRED: the one hash-order dependency that reached the output (type instances collected from
   a HashMap, fix: f423564).
   CHECKED BY EXECUTION: every printable stage (Core, focused Core, AxCut, linearized AxCut, the
   three assembly outputs) compared byte for byte, up to the numbering of generated labels in
   assembly code, between two compilations in one process, a compilation after unrelated
   compilations, and three fresh processes (fresh hash seeds).  Not proved: that the label
   counter only renumbers labels (checked by the normalising comparison). *)
From Coq Require Import List NArith Permutation.
From SCC Require Import Lang.AxSyn Model.Linearize Model.Backend Model.X86 Proof.Determinism.
Import ListNotations.

Theorem C17_liveness_sets_matter_only_by_membership :
  forall (c : ctx) (s s' : list N), (forall x, mem x s = mem x s') -> filter_by_set c s = filter_by_set c s'.
Proof. exact filter_by_set_membership_only. Qed.
Print Assumptions C17_liveness_sets_matter_only_by_membership.

Theorem C17_liveness_sets_iteration_order_irrelevant :
  forall (c : ctx) (s s' : list N), Permutation s s' -> filter_by_set c s = filter_by_set c s'.
Proof. exact filter_by_set_permutation. Qed.
Print Assumptions C17_liveness_sets_iteration_order_irrelevant.

Theorem C17_ordered_sets_insertion_order_irrelevant :
  forall (K : Type) (cmp : K -> K -> comparison),
    (forall a b, cmp a b = Datatypes.Eq <-> a = b) ->
    (forall a b c, cmp a b = Datatypes.Lt -> cmp b c = Datatypes.Lt -> cmp a c = Datatypes.Lt) ->
    (forall a b, cmp a b = Datatypes.Gt <-> cmp b a = Datatypes.Lt) ->
    forall l l', (forall x, In x l <-> In x l') -> set_of_list cmp l = set_of_list cmp l'.
Proof. exact @set_of_list_order_independent. Qed.
Print Assumptions C17_ordered_sets_insertion_order_irrelevant.

Theorem C17_x86_target_sets_order_independent :
  forall (l l' : list xtemp), (forall x, In x l <-> In x l') -> set_of_list xtemp_compare l = set_of_list xtemp_compare l'.
Proof. exact x86_target_sets_order_independent. Qed.
Print Assumptions C17_x86_target_sets_order_independent.

(* ---------- round 2: the order of the emitted type instances (fix f423564) ----------
   The checker collects the monomorphic instances from `SymbolTable.types` (a HashMap: arbitrary iteration order;
   in the model: insertion order, i.e. the order in which the definitions first needed them) and sorts the data and
   the codata declarations by name (`sort_by`, byte-wise `String::cmp`).  The sorted list is a function of the SET
   of instances: [klt] is the strict order of `String::cmp`; uniqueness of a strictly sorted list is the ordered-set
   lemma of Proof/Determinism.v (as for the back ends' BTreeSets). *)
From Coq Require Import String Sorted.
From SCC Require Import Lang.FunSyn Model.Check Sem.FunNames Proof.InstOrder.

(* two lists with pairwise different names and the same elements sort to the same list *)
Theorem C17_sorted_instances_function_of_set :
  forall (X : Type) (key : X -> string) (l l' : list X),
    NoDup (map key l) -> NoDup (map key l') -> (forall x, In x l <-> In x l') ->
    sort_by_name key l = sort_by_name key l'.
Proof. exact @sort_by_name_set. Qed.
Print Assumptions C17_sorted_instances_function_of_set.

(* whatever the order in which the instance table is enumerated (any permutation of its entries: any hash
   iteration order, any order in which the definitions created the instances), the emitted lists are the same *)
Theorem C17_instance_collection_order_irrelevant :
  forall st l l' das cos das' cos',
    NoDup (map fst l) -> Permutation l l' ->
    collect_types st l = COk (das, cos) -> collect_types st l' = COk (das', cos') ->
    sort_by_name fdaname das = sort_by_name fdaname das' /\ sort_by_name fcoaname cos = sort_by_name fcoaname cos'.
Proof. exact collect_sorted_order_independent. Qed.
Print Assumptions C17_instance_collection_order_irrelevant.

(* the declaration lists of every accepted program are strictly sorted by name ... *)
Theorem C17_checked_instances_sorted : forall p q, prog_names_ok p = true -> check p = COk q ->
  StronglySorted klt (map fdaname (fcpdata q)) /\ StronglySorted klt (map fcoaname (fcpcodata q)).
Proof. exact (check_output_sorted true). Qed.
Print Assumptions C17_checked_instances_sorted.
(* ... so two accepted programs (e.g. the same declarations in another order) that need the same SET of
   instances emit the same LIST of instances *)
Theorem C17_checked_instances_function_of_set : forall p q p' q',
  prog_names_ok p = true -> prog_names_ok p' = true -> check p = COk q -> check p' = COk q' ->
  ((forall d, In d (fcpdata q) <-> In d (fcpdata q')) -> fcpdata q = fcpdata q')
  /\ ((forall d, In d (fcpcodata q) <-> In d (fcpcodata q')) -> fcpcodata q = fcpcodata q').
Proof. intros p q p' q'. exact (check_instances_function_of_set true p q true p' q'). Qed.
Print Assumptions C17_checked_instances_function_of_set.
(* the hypotheses are satisfiable and the statement is not vacuous: three instances inserted in two different
   orders (by name: "List[i64]" < "Pair[i64, i64]" < "Zed") *)
Example C17_sort_example :
  sort_by_name (fun s : string => s) ["Zed"; "List[i64]"; "Pair[i64, i64]"]%string
  = sort_by_name (fun s : string => s) ["Pair[i64, i64]"; "Zed"; "List[i64]"]%string
  /\ sort_by_name (fun s : string => s) ["Zed"; "List[i64]"; "Pair[i64, i64]"]%string = ["List[i64]"; "Pair[i64, i64]"; "Zed"]%string.
Proof. split; reflexivity. Qed.
Print Assumptions C17_sort_example.
