(* C18  Any input yields a result or a diagnostic, never a crash.

   The substance of this property is an observation of the real code (harness `robust`, docs/C18.md): the models are
   total Gallina functions, so "terminates with a program or a reported error" holds of them by construction and is
   not restated.  What is proved here is what is NOT by construction:
     1. the literal conversion - the only semantic action of the grammar that can fail - maps every digit string to
        a value in [0, 2^63) or to the range error, and to the error exactly above i64::MAX (`-n` never overflows);
     2. the counters of the lexer and parser models never influence their answer: a `None` of [parse_text] is a
        genuine reject of the grammar model, not an exhausted counter;
     3. the stage-totality theorems of C03, C04, C05 and C12 (code generation) chained with their exact hypotheses. *)
From Coq Require Import List ZArith NArith String Ascii Bool.
From SCC Require Import Base.Sexp Lang.SynUtil Lang.FunSyn Model.Printer Model.Parser Model.NumLit.
From SCC Require Import Proof.Total Proof.ParseFuel Proof.ParseStable Proof.LexFuel.
From SCC Require Lang.CoreSyn Lang.AxSyn Model.Backend Model.Focus Model.FocusCheck Sem.FsCheck Model.Shrink
  Model.Linearize Model.LinCheck Model.Check Model.Fun2Core Model.Capacity Model.X86 Model.A64 Model.RV
  Proof.CodegenX86 Proof.CodegenA64 Proof.CodegenRV Proof.WtPreserve.
Import ListNotations.
Open Scope string_scope.

(* ---- 1. literals ------------------------------------------------------------------------------- *)
(* [num_of_digits] = `i64::from_str(s).map_err(|_| ParseError::User{..})` on the text of the terminal r"0|[1-9][0-9]*";
   [dec_value] = the decimal value of the digit string.  Compared with the real parser on every run (`robust-lit`). *)
Theorem C18_num_literal_total : forall s,
  s <> EmptyString -> all_digits s = true ->
  ((dec_value s <= 9223372036854775807)%N /\ num_of_digits s = NumOk (Z.of_N (dec_value s)))
  \/ ((9223372036854775807 < dec_value s)%N /\ num_of_digits s = NumRange).
Proof. exact num_of_digits_spec. Qed.
Print Assumptions C18_num_literal_total.

Theorem C18_num_literal_range : forall s z, num_of_digits s = NumOk z -> (0 <= z < 2 ^ 63)%Z.
Proof. exact num_of_digits_range. Qed.
Print Assumptions C18_num_literal_range.

(* the production  Lit = "-" Num  computes `-n` on a value that cannot be i64::MIN's magnitude *)
Theorem C18_negated_literal_in_range : forall s z, num_of_digits s = NumOk z -> (- 2 ^ 63 < - z <= 0)%Z.
Proof. exact neg_num_in_range. Qed.
Print Assumptions C18_negated_literal_in_range.

(* where the conversion sits in the models of C16: the lexer turns a maximal digit run into TNum (its value) ... *)
Theorem C18_lexer_number_token : forall c r,
  is_digit c = true -> c <> "0"%char ->
  scan (String c r) = LTok (TNum (dec_value (take_while is_digit (String c r)))) (skip_while is_digit (String c r)).
Proof. exact scan_number. Qed.
Print Assumptions C18_lexer_number_token.

(* ... and the two Lit productions of the parser accept it exactly when it is at most i64::MAX *)
Theorem C18_parser_literal : forall n k r,
  p_term1 (S n) (TNum k :: r) = (if lit_ok k then Some (FLit (Z.of_N k), r) else None) /\
  p_term1 (S n) (TSym SMinus :: TNum k :: r) = (if lit_ok k then Some (FLit (- Z.of_N k), r) else None).
Proof. exact parser_literal_both. Qed.
Print Assumptions C18_parser_literal.

Theorem C18_lex_then_action : forall c r n rest,
  is_digit c = true -> c <> "0"%char ->
  match scan (String c r) with
  | LTok t _ => p_term1 (S n) (t :: rest) =
                  match num_of_digits (take_while is_digit (String c r)) with NumOk z => Some (FLit z, rest) | NumRange => None end
  | _ => False
  end.
Proof. exact lex_then_action. Qed.
Print Assumptions C18_lex_then_action.

(* ---- 2. the counters of lexer and parser model suffice ------------------------------------------- *)
Theorem C18_lex_fuel_suffices : forall s n, String.length s < n -> lex n s = lex_string s.
Proof. exact lex_fuel_suffices. Qed.
Print Assumptions C18_lex_fuel_suffices.

(* any number of declaration iterations above |ts| and any descent fuel from 8|ts|+16 on give [parse]'s answer *)
Theorem C18_parse_fuel_suffices : forall ts m n,
  List.length ts < m -> fuel_of ts <= n -> parse_with m n ts = parse ts.
Proof. exact parse_fuel_suffices. Qed.
Print Assumptions C18_parse_fuel_suffices.

Theorem C18_parse_reject_is_genuine : forall ts,
  parse ts = None -> forall m n, List.length ts < m -> fuel_of ts <= n -> parse_with m n ts = None.
Proof. exact parse_reject_is_genuine. Qed.
Print Assumptions C18_parse_reject_is_genuine.

(* every parsing function consumes input: the reason the counters suffice *)
Theorem C18_parsers_consume : forall n,
  shorter (p_term n) /\ shorter (p_term3 n) /\ shorter (p_block n) /\ shorter (p_term2 n) /\ shorter (p_term1 n)
  /\ (forall e b, nolonger (p_postfix n e b)) /\ (forall pol, shorter (p_clause n pol)).
Proof. exact terms_shorter_all. Qed.
Print Assumptions C18_parsers_consume.

(* ---- 3. the stages after type checking ------------------------------------------------------------ *)
(* Focusing (C03_focus_total), shrinking (C04_shrink_total) and the ordered-linear discipline of the linearized
   program (C05_linearize_exact; [linearize] itself is a function without an error result), each with the hypothesis
   of its own theorem.  Fully proved as stated; what it does not say is that the hypothesis of one stage follows
   from the previous stage's output - see C18_pipeline_total_partial. *)
Theorem C18_middle_end_total :
  forall c : CoreSyn.cprog,
    FocusCheck.focus_wf c = true ->
    exists f, Focus.focus_prog c = Backend.Ok f /\
      (FsCheck.wt_fs f = true ->
       exists a, Shrink.shrink_prog f = Shrink.SOk a /\
         (LinCheck.prog_ok a = true -> LinCheck.lin_check_prog (Linearize.linearize a) = true)).
Proof. exact middle_end_total. Qed.
Print Assumptions C18_middle_end_total.

(* Code generation (theorems of C12): on a program accepted by the ordered linear discipline every code generator
   returns Ok within capacity.  [within_capacity_*] = the program has a definition, every context reaching a
   statement has at most K_backend variables (132 / 139 / 13: the "Out of temporaries"/"Out of registers"
   assertions), main has at most 5 (x86-64) resp. 7 (AArch64) parameters ("too many arguments for main"), and - RISC-V
   only - no print_i64/println_i64 occurs (the known finding rv64-print-unimplemented is OUTSIDE this predicate). *)
Theorem C18_codegen_total_x86 : forall (l : AxSyn.prog) (lc : N),
  LinCheck.lin_check_prog l = true -> Capacity.within_capacity_x86 l = true ->
  exists code lc', X86.x86_compile l lc = Backend.Ok (code, Capacity.main_arity l, lc').
Proof. exact CodegenX86.x86_codegen_total. Qed.
Print Assumptions C18_codegen_total_x86.
Theorem C18_codegen_total_a64 : forall (l : AxSyn.prog) (lc : N),
  LinCheck.lin_check_prog l = true -> Capacity.within_capacity_a64 l = true ->
  exists code lc', A64.a64_compile l lc = Backend.Ok (code, Capacity.main_arity l, lc').
Proof. exact CodegenA64.a64_codegen_total. Qed.
Print Assumptions C18_codegen_total_a64.
Theorem C18_codegen_total_rv : forall (l : AxSyn.prog) (lc : N),
  LinCheck.lin_check_prog l = true -> Capacity.within_capacity_rv l = true ->
  exists code lc', RV.rv_compile l lc = Backend.Ok (code, Capacity.main_arity l, lc').
Proof. exact CodegenRV.rv_codegen_total. Qed.
Print Assumptions C18_codegen_total_rv.

(* "code generation fails only with a capacity error": an Err of a code-generator model on such a program means
   that the program is outside the capacity predicate *)
Theorem C18_codegen_error_means_capacity : forall (l : AxSyn.prog) (lc : N) msg,
  LinCheck.lin_check_prog l = true ->
  (X86.x86_compile l lc = Backend.Err msg -> Capacity.within_capacity_x86 l = false) /\
  (A64.a64_compile l lc = Backend.Err msg -> Capacity.within_capacity_a64 l = false) /\
  (RV.rv_compile l lc = Backend.Err msg -> Capacity.within_capacity_rv l = false).
Proof. exact codegen_error_means_capacity. Qed.
Print Assumptions C18_codegen_error_means_capacity.

(* THE COMPOSITION (theorem of C12 under its C18 name, hypotheses verbatim): for every checked program whose
   binders are distinct ([barendregt]: the guard of the known fun2core capture defect), every later stage model
   succeeds and code generation succeeds within capacity - PARTIAL: the three typing-preservation links
     H_fun2core_wt  (check p = COk -> compile_prog p = Ok c, wt_core c, pre_check c),
     H_focus_wt     (typing half of focusing),   H_shrink_wt (typing half of shrinking)
   are hypotheses, not theorems; they are evaluated on the real stage outputs of every generated program by the
   correspondence steps of C12, and the real stages are observed not to panic by the `robust` step of this property. *)
Theorem C18_pipeline_total_partial :
  WtPreserve.H_fun2core_wt -> WtPreserve.H_focus_wt -> WtPreserve.H_shrink_wt ->
  forall src p, Check.check src = Check.COk p -> Fun2Core.barendregt p = true ->
  exists c f a,
    Fun2Core.compile_prog p = Fun2Core.Ok c /\
    Focus.focus_prog c = Backend.Ok f /\
    Shrink.shrink_prog f = Shrink.SOk a /\
    let l := Linearize.linearize a in
    LinCheck.lin_check_prog l = true /\
    (forall lc, Capacity.within_capacity_x86 l = true -> exists code lc', X86.x86_compile l lc = Backend.Ok (code, Capacity.main_arity l, lc')) /\
    (forall lc, Capacity.within_capacity_a64 l = true -> exists code lc', A64.a64_compile l lc = Backend.Ok (code, Capacity.main_arity l, lc')) /\
    (forall lc, Capacity.within_capacity_rv l = true -> exists code lc', RV.rv_compile l lc = Backend.Ok (code, Capacity.main_arity l, lc')).
Proof. exact pipeline_total_partial_lemma. Qed.
Print Assumptions C18_pipeline_total_partial.
