(* C14: emitted assembly is accepted by the target assembler (x86-64 part).
   Only statements; proofs in Proof/X86Wf.v, Proof/X86Consts.v.
   PROVED: (a) the jump-table stride: in the image of the emitted code the k-th `jmp near` entry of a
   table lies exactly jump_length k bytes after the first one (5 bytes per entry), and jump_length
   is the crate's (regenerated constants); (b) every instruction the model's instruction selection
   emits for arithmetic, moves, literals and comparisons is encodable (sign-extended 32-bit
   immediates and displacements, `mov r64, imm64` for wide literals, no `imul [mem], reg`) for all
   operands the generic code generator can pass (fresh target).
   CHECKED (round 1; label uniqueness / definedness are PROVED in round 2, end of this file): labels and
   external symbols (Sem/X86Wf.asm_wf on the implementation's output of every program of the run), and acceptance of the printed text by GNU
   as (native step).  The label-collision defect found by this check was repaired (fix: fd7ddb1). *)
From Coq Require Import List ZArith NArith String Bool.
From SCC Require Import Lang.AxSyn Model.Backend Model.X86 Sem.X86Sem Sem.X86Wf Proof.X86Wf Proof.X86Consts Generated.Constants.
From SCC Require Model.A64 Model.RV Sem.A64Sem Sem.RVSem Sem.A64Wf Sem.RVWf.
From SCC Require Import Sem.LabelGuard Proof.LabelStrings Proof.LabelGen Proof.LabelsX86 Proof.LabelsA64 Proof.LabelsRV Proof.LabelThms Proof.StrideA64RV.
Import ListNotations.
Open Scope Z_scope.

Theorem C14_x86_jump_table_stride :
  forall (ls : list string) (a : Z) (k : nat),
    (k < List.length ls)%nat ->
    nth k (addrs (map JMPLN ls) a) 0 = a + jump_length (N.of_nat k).
Proof. exact addrs_table. Qed.
Print Assumptions C14_x86_jump_table_stride.

Theorem C14_x86_image_uses_these_addresses :
  forall (cs : list xcode) (i : positive) (a : Z) (im : image),
    (forall j, (i <= j)%positive -> PM.find j (addr_of im) = None) ->
    forall k, (k < List.length cs)%nat ->
      PM.find (Pos.of_nat (Pos.to_nat i + k)) (addr_of (build cs i a im)) = Some (nth k (addrs cs a) 0).
Proof. exact build_addr_of. Qed.
Print Assumptions C14_x86_image_uses_these_addresses.

Theorem C14_x86_jump_length_is_the_crates :
  map jump_length [0; 1; 2; 3; 4; 5]%N = X86C.jump_length_samples.
Proof. exact x86_jump_length_samples. Qed.
Print Assumptions C14_x86_jump_length_is_the_crates.

Theorem C14_x86_arith_encodable :
  forall (o : binop) (t s1 s2 : xtemp),
    o <> Prod \/ (forall p, t <> XS p \/ (t <> s1 /\ t <> s2)) ->
    temp_enc t -> temp_enc s1 -> temp_enc s2 ->
    Forall (fun c => instr_wf c = true) (x_arith o t s1 s2).
Proof. exact arith_encodable. Qed.
Print Assumptions C14_x86_arith_encodable.

Theorem C14_x86_load_immediate_encodable :
  forall (t : xtemp) (i : Z),
    temp_enc t -> (-9223372036854775808 <= i <= 9223372036854775807) ->
    Forall (fun c => instr_wf c = true) (x_load_immediate t i).
Proof. exact load_immediate_encodable. Qed.
Print Assumptions C14_x86_load_immediate_encodable.

Theorem C14_x86_mov_encodable :
  forall (t s : xtemp), temp_enc t -> temp_enc s -> Forall (fun c => instr_wf c = true) (x_mov t s).
Proof. exact mov_encodable. Qed.
Print Assumptions C14_x86_mov_encodable.

Theorem C14_x86_compare_encodable :
  forall (a b : xtemp), temp_enc a -> temp_enc b -> Forall (fun c => instr_wf c = true) (compare a b).
Proof. exact compare_encodable. Qed.
Print Assumptions C14_x86_compare_encodable.

(* a multiplication whose target spill slot aliases an operand would need `imul [mem], reg`, which
   does not exist; the generic code generator never asks for it (fresh targets), but the selection
   function does emit it: recorded as a latent defect of mul_to_spill *)
Theorem C14_x86_mul_to_spill_latent_refuted :
  exists t s1 s2, temp_enc t /\ temp_enc s1 /\ temp_enc s2 /\
    ~ Forall (fun c => instr_wf c = true) (x_arith Prod t s1 s2).
Proof.
  exists (XS 1%N), (XS 1%N), (XR 5%N).
  split; [reflexivity|]. split; [reflexivity|]. split; [reflexivity|].
  intro H. apply Forall_inv in H. cbv in H. discriminate H.
Qed.
Print Assumptions C14_x86_mul_to_spill_latent_refuted.

(* ======================= round 2: labels as theorems; AArch64 and RISC-V =======================
   PROVED now (Proof/LabelStrings.v, LabelGen.v, Labels{X86,A64,RV}.v, LabelThms.v, StrideA64RV.v):
   (c) label uniqueness and definedness as theorems about the GENERIC code generator, for every back end
       whose emitters obey the label discipline `labels_ok` (only b_label defines a label handed in by
       the generic part; the memory operations define lab<k> for pairwise distinct k in (lc, lc'] and
       reference only those; every other emitter defines nothing and references at most its argument),
       instantiated for x86-64, AArch64 and RISC-V, and lifted to the complete routines
       (asm_main / cleanup included).  The label counter is monotone and every number is used once;
       the labels of a later call are fresh w.r.t. an earlier one.
   (d) the guard Sem/LabelGuard.labels_guard (a boolean predicate, evaluated by the run-time check on
       every program: tag guard / name-digits / noguard) cannot be dropped: C14_compile_labels_unique_refuted.
       This is the known finding label-collision-name-digits (witnesses corpus/c14/, harness/src/c14probe.rs).
   (e) jump-table stride for AArch64 (`B l`) and RISC-V (`JAL X0 l`): entry k at jump_length k bytes.
   CHECKED, not proved in round 2, for AArch64 / RISC-V: encodability of immediates, offsets, shifts and register
   classes (Sem/A64Wf.v, Sem/RVWf.v: asm_wf on the implementation's output, steps wf-a64 / wf-rv); PROVED in round 4
   (end of this file: C14_a64_compile_asm_wf, C14_rv_compile_asm_wf). *)

Theorem C14_label_texts_not_injective :
  pr (GCL "Aa" 18 "Bx_19_Cy") = pr (GCL "Aa_18_Bx" 19 "Cy") /\ pr (GCL "Aa" 18 "Bx_19") = pr (GTL "Aa_18_Bx" 19).
Proof. exact pr_not_injective. Qed.
Print Assumptions C14_label_texts_not_injective.

(* the label texts are injective on the abstract labels a program inside the guard can generate *)
Theorem C14_label_texts_injective_types :
  forall g1 g2, in_univ ty_ok all_true g1 -> in_univ ty_ok all_true g2 -> pr g1 = pr g2 -> g1 = g2.
Proof. exact pr_inj_types. Qed.
Print Assumptions C14_label_texts_injective_types.
Theorem C14_label_texts_injective_xtors :
  forall g1 g2, in_univ all_true xtor_ok g1 -> in_univ all_true xtor_ok g2 -> pr g1 = pr g2 -> g1 = g2.
Proof. exact pr_inj_xtors. Qed.
Print Assumptions C14_label_texts_injective_xtors.

(* the generic code generator, any back end with the label discipline: structure of the defined labels
   WITHOUT any assumption on digits in names (abstract labels are duplicate-free; numbers in (lc, lc']) *)
Theorem C14_translate_abstract_labels_unique :
  forall (Code Temp : Type) (B : backend Code Temp) (cdefs crefs : Code -> list string),
    labels_ok B cdefs crefs ->
    forall (okS okX : string -> bool) (types : list tydecl) (ds : list def) (lc : N) (c : list Code) (lc' : N),
      forallb (fun d => names_ok okS okX (dbody d)) ds = true -> NoDup (dnames ds) ->
      translate B types ds lc = Ok (c, lc') ->
      translate_inv cdefs okS okX (dnames ds) lc c lc'.
Proof. exact @translate_defs. Qed.
Print Assumptions C14_translate_abstract_labels_unique.

Theorem C14_compile_labels_unique :
  forall (Code Temp : Type) (B : backend Code Temp) (cdefs crefs : Code -> list string),
    labels_ok B cdefs crefs ->
    forall (p : prog) (lc : N) (c : list Code) (n : nat) (lc' : N),
      labels_guard p = true -> compile B p lc = Ok (c, n, lc') ->
      NoDup (LabelGen.defs cdefs c) /\ (lc <= lc')%N /\
      ~ In "cleanup"%string (LabelGen.defs cdefs c) /\ ~ In "asm_main"%string (LabelGen.defs cdefs c).
Proof. exact @compile_labels_unique. Qed.
Print Assumptions C14_compile_labels_unique.

Theorem C14_compile_refs_defined :
  forall (Code Temp : Type) (B : backend Code Temp) (cdefs crefs : Code -> list string),
    labels_ok B cdefs crefs ->
    forall (p : prog) (lc : N) (c : list Code) (n : nat) (lc' : N),
      calls_guard p = true -> compile B p lc = Ok (c, n, lc') ->
      forall l, In l (LabelGen.refs crefs c) -> In l (LabelGen.defs cdefs c) \/ l = "cleanup"%string.
Proof. exact @compile_refs_defined. Qed.
Print Assumptions C14_compile_refs_defined.

(* the counter: labels generated by a later call are different from those of an earlier one *)
Theorem C14_labels_of_later_call_fresh :
  forall (Code Temp : Type) (B : backend Code Temp) (cdefs crefs : Code -> list string),
    labels_ok B cdefs crefs ->
    forall types1 ds1 lc1 c1 lc1' types2 ds2 lc2 c2 lc2',
      ((guard_types ds1 && guard_types ds2) || (guard_xtors ds1 && guard_xtors ds2))%bool = true ->
      translate B types1 ds1 lc1 = Ok (c1, lc1') -> translate B types2 ds2 lc2 = Ok (c2, lc2') -> (lc1' <= lc2)%N ->
      forall l, In l (LabelGen.defs cdefs c1) -> In l (LabelGen.defs cdefs c2) ->
      exists name, l = (name ++ "_")%string /\ lower_first name = true.
Proof. exact @labels_of_later_call_fresh. Qed.
Print Assumptions C14_labels_of_later_call_fresh.

(* the three back ends obey the discipline *)
Theorem C14_x86_label_discipline : labels_ok x86_backend xdefs X86Wf.referenced.
Proof. exact x86_labels_ok. Qed.
Print Assumptions C14_x86_label_discipline.
Theorem C14_a64_label_discipline : labels_ok A64.a64_backend A64Wf.all_defs A64Wf.referenced.
Proof. exact a64_labels_ok. Qed.
Print Assumptions C14_a64_label_discipline.
Theorem C14_rv_label_discipline : labels_ok RV.rv_backend RVWf.all_defs RVWf.referenced.
Proof. exact rv_labels_ok. Qed.
Print Assumptions C14_rv_label_discipline.

(* the complete routines: every label defined once, every referenced label defined *)
Theorem C14_x86_routine_labels :
  forall (p : prog) (lc : N) (r : list xcode) (n : nat) (lc' : N),
    labels_guard p = true -> calls_guard p = true -> x86_compile p lc = Ok (r, n, lc') ->
    NoDup (LabelGen.defs xdefs r) /\ incl (LabelGen.refs X86Wf.referenced r) (LabelGen.defs xdefs r) /\ (lc <= lc')%N.
Proof. exact x86_routine_labels. Qed.
Print Assumptions C14_x86_routine_labels.
Theorem C14_a64_routine_labels :
  forall (p : prog) (lc : N) (r : list A64.acode) (n : nat) (lc' : N),
    labels_guard p = true -> calls_guard p = true -> A64.a64_compile p lc = Ok (r, n, lc') ->
    NoDup (LabelGen.defs A64Wf.all_defs r) /\ incl (LabelGen.refs A64Wf.referenced r) (LabelGen.defs A64Wf.all_defs r) /\ (lc <= lc')%N.
Proof. exact a64_routine_labels. Qed.
Print Assumptions C14_a64_routine_labels.
Theorem C14_rv_routine_labels :
  forall (p : prog) (lc : N) (c : list RV.rcode) (n : nat) (lc' : N),
    labels_guard p = true -> calls_guard p = true -> RV.rv_compile p lc = Ok (c, n, lc') ->
    NoDup ("cleanup"%string :: LabelGen.defs RVWf.all_defs c)
    /\ incl (LabelGen.refs RVWf.referenced c) ("cleanup"%string :: LabelGen.defs RVWf.all_defs c) /\ (lc <= lc')%N.
Proof. exact rv_routine_labels. Qed.
Print Assumptions C14_rv_routine_labels.

(* without the name-digits clause of the guard the statement is false *)
Theorem C14_compile_labels_unique_refuted :
  unguarded_labels_guard collide_prog = true /\ calls_guard collide_prog = true /\
  exists c n lc', compile x86_backend collide_prog 0 = Ok (c, n, lc') /\ ~ NoDup (LabelGen.defs xdefs c).
Proof. exact compile_labels_unique_refuted. Qed.
Print Assumptions C14_compile_labels_unique_refuted.
(* the hypotheses are satisfiable: definitions named lab3 and cleanup, a type instance List[i64] *)
Theorem C14_labels_guard_satisfiable :
  labels_guard distinct_prog = true /\ calls_guard distinct_prog = true /\
  LabelGen.defs xdefs (match compile x86_backend distinct_prog 7 with Ok (c, _, _) => c | Err _ => [] end)
  = ["main_"; "Aa_8"; "Aa_8_Bx"; "List_i64_9"; "List_i64_9_Cy"; "lab3_"; "lab10"; "cleanup_"]%string.
Proof. exact labels_guard_satisfiable. Qed.
Print Assumptions C14_labels_guard_satisfiable.

(* jump-table stride, AArch64 and RISC-V *)
Theorem C14_a64_jump_table_stride :
  forall (ls : list string) (a : Z) (k : nat),
    (k < List.length ls)%nat ->
    nth k (A.addrs (map A64.B ls) a) 0 = a + A64.jump_length (N.of_nat k).
Proof. exact A.addrs_table. Qed.
Print Assumptions C14_a64_jump_table_stride.
Theorem C14_a64_table_entries_are_fixed_jumps :
  forall (cls : list clause) (base : string),
    code_table A64.a64_backend cls base = map A64.B (map (fun c => (base +++ "_" +++ show_ident (cl_xtor c))%string) cls).
Proof. exact A.table_is_fixed_jumps. Qed.
Print Assumptions C14_a64_table_entries_are_fixed_jumps.
Theorem C14_a64_image_uses_these_addresses :
  forall (cs : list A64.acode) (i : positive) (a : Z) (im : A64Sem.image),
    (forall j, (i <= j)%positive -> A64Sem.PM.find j (A64Sem.addr_of im) = None) ->
    forall k, (k < List.length cs)%nat ->
      A64Sem.PM.find (Pos.of_nat (Pos.to_nat i + k)) (A64Sem.addr_of (A64Sem.build cs i a im)) = Some (nth k (A.addrs cs a) 0).
Proof. exact A.build_addr_of. Qed.
Print Assumptions C14_a64_image_uses_these_addresses.
Theorem C14_rv_jump_table_stride :
  forall (ls : list string) (a : Z) (k : nat),
    (k < List.length ls)%nat ->
    nth k (R.addrs (map (RV.JAL RV.ZERO) ls) a) 0 = a + RV.jump_length (N.of_nat k).
Proof. exact R.addrs_table. Qed.
Print Assumptions C14_rv_jump_table_stride.
Theorem C14_rv_table_entries_are_fixed_jumps :
  forall (cls : list clause) (base : string),
    code_table RV.rv_backend cls base = map (RV.JAL RV.ZERO) (map (fun c => (base +++ "_" +++ show_ident (cl_xtor c))%string) cls).
Proof. exact R.table_is_fixed_jumps. Qed.
Print Assumptions C14_rv_table_entries_are_fixed_jumps.
Theorem C14_rv_image_uses_these_addresses :
  forall (cs : list RV.rcode) (i : positive) (a : Z) (im : RVSem.image),
    (forall j, (i <= j)%positive -> RVSem.PM.find j (RVSem.addr_of im) = None) ->
    forall k, (k < List.length cs)%nat ->
      RVSem.PM.find (Pos.of_nat (Pos.to_nat i + k)) (RVSem.addr_of (RVSem.build cs i a im)) = Some (nth k (R.addrs cs a) 0).
Proof. exact R.build_addr_of. Qed.
Print Assumptions C14_rv_image_uses_these_addresses.

(* what the immediate classes of the AArch64 checker mean *)
Theorem C14_a64_imm12_is_the_add_sub_immediate :
  forall i, A64Wf.imm12 i = true <-> (0 <= i <= 4095 \/ exists h, 0 <= h <= 4095 /\ i = 4096 * h).
Proof. exact A.imm12_spec. Qed.
Print Assumptions C14_a64_imm12_is_the_add_sub_immediate.
Theorem C14_a64_uoff8_is_the_scaled_unsigned_offset :
  forall i, A64Wf.uoff8 i = true <-> exists q, 0 <= q <= 4095 /\ i = 8 * q.
Proof. exact A.uoff8_spec. Qed.
Print Assumptions C14_a64_uoff8_is_the_scaled_unsigned_offset.

(* ======================= round 3: asm_wf and code_small as THEOREMS for x86-64 =======================
   PROVED now (Sem/WfGuard.v, Proof/CodegenForallLin.v, Proof/X86WfAll.v, Proof/X86WfCor.v):
   (f) EVERY instruction the x86-64 code generator and the routine wrapper emit passes the checker Sem/X86Wf.asm_wf
       that the run-time check applies to the real output: labels defined once, every referenced label defined
       (and not a '#'-mark), calls only to the two declared print routines, no label colliding with an extern, and
       every instruction encodable (registers < 16; imm32 / disp32 sign-extended; `mov r64, imm64`; no
       `imul [mem], reg`) - memory operations with field offsets, table jumps, push / pop, prologue / epilogue
       included.  Hypotheses, all boolean on the PROGRAM: the label guards, the ordered linear discipline
       (lin_check_prog: the target of an operation is fresh), plain names (no definition / type named '#...'),
       and imm_guard = the ranges of the three immediates that come from the program: literals are 64-bit values,
       a Substitute lists at most 2^31 pairs (`add qword [r], copies-1`), a type declares at most 2^28 xtors
       (`add tmp, 5*k`).  The linear discipline cannot be dropped (C14_x86_compile_asm_wf_lin_needed: the latent
       `imul [mem], reg` of mul_to_spill becomes reachable).
   (g) per-method lemmas (`W l` = every instruction of l encodable, references non-mark, calls to print routines
       only) and the generic theorem they are lifted by: Proof/CodegenForallLin.code_statement_QL refines
       Proof/CodegenForall.v with what the generic code generator guarantees about the arguments of a method.
   (h) code_small from the size theorem of C19 under size_guard (cg_bound_defs <= 2^40).
   (i) calls_guard follows from the linear discipline. *)
From SCC Require Import Model.LinCheck Sem.WfGuard Proof.SimFrag Proof.X86SimAddr Proof.X86WfAll Proof.X86WfCor Proof.Fun2CoreExamples.

Theorem C14_x86_compile_asm_wf :
  forall (p : prog) (lc : N) (cs : list xcode) (n : nat) (lc' : N),
    labels_guard p = true -> calls_guard p = true -> lin_check_prog p = true ->
    plain_names p = true -> plain_types p = true -> imm_guard p = true ->
    x86_compile p lc = Ok (cs, n, lc') -> asm_wf cs = None.
Proof. exact x86_compile_asm_wf. Qed.
Print Assumptions C14_x86_compile_asm_wf.

Theorem C14_x86_compile_code_small :
  forall (p : prog) (lc : N) (cs : list xcode) (n : nat) (lc' : N),
    lin_check_prog p = true -> size_guard p = true ->
    x86_compile p lc = Ok (cs, n, lc') -> code_small cs = true.
Proof. exact x86_compile_code_small. Qed.
Print Assumptions C14_x86_compile_code_small.

Theorem C14_lin_check_calls_guard : forall p : prog, lin_check_prog p = true -> calls_guard p = true.
Proof. exact lin_check_calls_guard. Qed.
Print Assumptions C14_lin_check_calls_guard.

(* the back-end methods, for all arguments the generic code generator can hand over *)
Theorem C14_x86_arith_wf :
  forall (o : binop) (t s1 s2 : xtemp),
    o <> Prod \/ (t <> s1 /\ t <> s2) -> temp_enc t -> temp_enc s1 -> temp_enc s2 -> W (x_arith o t s1 s2).
Proof. exact W_arith. Qed.
Print Assumptions C14_x86_arith_wf.
Theorem C14_x86_table_jump_wf :
  forall (t : xtemp) (k : N), temp_enc t -> (k < XTORS_MAX)%N -> W (x_add_and_jump t (jump_length k)).
Proof. exact W_add_and_jump. Qed.
Print Assumptions C14_x86_table_jump_wf.
Theorem C14_x86_print_wf : forall (nl : bool) (s : xtemp) (c : ctx), temp_enc s -> W (x_print nl s c).
Proof. exact W_print. Qed.
Print Assumptions C14_x86_print_wf.
Theorem C14_x86_erase_wf : forall (t : xtemp) (lc : N), temp_enc t -> W (fst (x_erase_block t lc)).
Proof. exact W_erase. Qed.
Print Assumptions C14_x86_erase_wf.
Theorem C14_x86_share_wf :
  forall (t : xtemp) (n lc : N), temp_enc t -> (n < SUBST_MAX)%N -> W (fst (x_share_block_n t n lc)).
Proof. exact W_share. Qed.
Print Assumptions C14_x86_share_wf.
Theorem C14_x86_store_wf :
  forall (to_store remaining : ctx) (lc : N) (c : list xcode) (lc' : N), x_store to_store remaining lc = Ok (c, lc') -> W c.
Proof. exact W_x_store. Qed.
Print Assumptions C14_x86_store_wf.
Theorem C14_x86_load_wf :
  forall (to_load existing : ctx) (lc : N) (c : list xcode) (lc' : N), x_load to_load existing lc = Ok (c, lc') -> W c.
Proof. exact W_x_load. Qed.
Print Assumptions C14_x86_load_wf.
Theorem C14_x86_prologue_epilogue_wf : (forall n s, setup n = Ok s -> W s) /\ W cleanup.
Proof. exact (conj W_setup W_cleanup). Qed.
Print Assumptions C14_x86_prologue_epilogue_wf.
(* what W gives for a body: the four facts asm_wf asks of the instructions *)
Theorem C14_x86_body_predicate :
  forall body, W body ->
    (forall l, In l (flat_map X86Wf.referenced body) -> is_hash_label l = false) /\
    (forall l, In l (calls body) -> l = "print_i64"%string \/ l = "println_i64"%string) /\
    externs body = [] /\ (forall c, In c body -> instr_wf c = true).
Proof. exact W_parts. Qed.
Print Assumptions C14_x86_body_predicate.

(* the hypotheses are satisfiable: the linearized stage outputs of the five example programs (mutual recursion;
   shared continuations; lists; labels and goto; a corecursive stream) pass every guard *)
Theorem C14_x86_compile_asm_wf_nonvacuous :
  wf_guard_x86 (lin_of ex_calls) = true /\ wf_guard_x86 (lin_of ex_shared) = true /\ wf_guard_x86 (lin_of ex_data) = true /\
  wf_guard_x86 (lin_of ex_labels) = true /\ wf_guard_x86 (lin_of ex_codata) = true /\
  size_guard (lin_of ex_calls) = true /\ size_guard (lin_of ex_shared) = true /\ size_guard (lin_of ex_data) = true /\
  size_guard (lin_of ex_labels) = true /\ size_guard (lin_of ex_codata) = true.
Proof. exact wf_guard_examples. Qed.
Print Assumptions C14_x86_compile_asm_wf_nonvacuous.

(* the linear discipline cannot be dropped: a multiplication whose target is an operand in a spill slot *)
Theorem C14_x86_compile_asm_wf_lin_needed :
  labels_guard mul_alias_prog = true /\ calls_guard mul_alias_prog = true /\ lin_check_prog mul_alias_prog = false /\
  plain_names mul_alias_prog = true /\ plain_types mul_alias_prog = true /\ imm_guard mul_alias_prog = true /\
  exists cs n lc', x86_compile mul_alias_prog 0 = Ok (cs, n, lc') /\
    asm_wf cs = Some "operand not encodable or no such instruction form"%string /\
    In (IMULMR STACK (stack_offset 2) TEMP) cs.
Proof. exact asm_wf_lin_check_needed. Qed.
Print Assumptions C14_x86_compile_asm_wf_lin_needed.

(* ======================= round 4: asm_wf and code_small as THEOREMS for AArch64 =======================
   PROVED now (Sem/WfGuard64.v, Proof/CodegenForallLinP.v, Proof/A64WfAll.v, Proof/A64WfProg.v, Proof/A64WfCor.v):
   (j) EVERY instruction the AArch64 code generator and the routine wrapper emit passes the checker Sem/A64Wf.asm_wf
       that the run-time check applies to the real output: labels defined once, every referenced label defined (and
       not a '#'-mark), the entry symbol defined, BL only to the two print routines and no label equal to one, every
       operand encodable in its instruction form - register classes (Xn, n <= 29), ADD/SUB/CMP immediates (12 bits,
       optionally LSL 12), MOVZ/MOVN/MOVK chunks and shifts, LDR/STR scaled offsets (spill slots 0..2040, field
       offsets 16..72, the caller-save bracket of print), LDP/STP of prologue / epilogue -, and every branch target
       within the reach of its form (B.cond / ADR +-1 MiB: the routine is shorter).
       Hypotheses, all boolean on the PROGRAM: labels_guard, lin_check_prog (gives calls_guard), plain names / types,
       reach_guard_a64 (28 + cg_fine_defs 14 74 < 262143 instructions: a two-weight refinement of the size theorem
       of C19, Proof/SizeCodegenFine.v, SizeA64Fine.v).  No hypothesis on
       literals: every 64-bit pattern is synthesised from half-words.  No hypothesis on the size of a Substitute: the
       increment of a reference count is below 4096 because every copy of a variable has its own temporary.
       No hypothesis on the number of xtors any more: the table dispatch `ADD Xt, Xt, #4k` was unencodable beyond 1023
       xtors (finding, REPAIRED: the offset is synthesised in X3 when it does not fit; regression lemma
       C14_a64_compile_asm_wf_xtors_regression about the old code).  The reach is a REAL limit (known finding
       a64-branch-reach: a conditional over more than 1 MiB of code, docs/C14.md), which the guard over-approximates.
   (k) per-method lemmas `A64WfAll.W (method args)`; code_small under the size_guard of x86-64. *)
From SCC Require Import Sem.WfGuard64 Proof.SizeA64Fine Proof.A64WfAll Proof.A64WfProg Proof.A64WfCor Proof.A64HSimExample Proof.A64HSimExampleW Proof.AxHeapExample.

Theorem C14_a64_compile_asm_wf :
  forall (p : prog) (lc : N) (cs : list A64.acode) (n : nat) (lc' : N),
    labels_guard p = true -> lin_check_prog p = true ->
    plain_names p = true -> plain_types p = true -> reach_guard_a64 p = true ->
    A64.a64_compile p lc = Ok (cs, n, lc') -> A64Wf.asm_wf cs = None.
Proof. exact a64_compile_asm_wf. Qed.
Print Assumptions C14_a64_compile_asm_wf.

Theorem C14_a64_compile_code_small :
  forall (p : prog) (lc : N) (cs : list A64.acode) (n : nat) (lc' : N),
    lin_check_prog p = true -> size_guard p = true ->
    A64.a64_compile p lc = Ok (cs, n, lc') -> A64SimAddr.code_small cs = true.
Proof. exact a64_compile_code_small. Qed.
Print Assumptions C14_a64_compile_code_small.
Theorem C14_a64_compile_code_small_reach :
  forall (p : prog) (lc : N) (cs : list A64.acode) (n : nat) (lc' : N),
    lin_check_prog p = true -> reach_guard_a64 p = true ->
    A64.a64_compile p lc = Ok (cs, n, lc') -> A64SimAddr.code_small cs = true.
Proof. exact a64_compile_code_small_reach. Qed.
Print Assumptions C14_a64_compile_code_small_reach.
(* the bound of the reach guard: a two-weight refinement of the size theorem of C19 (14 instructions per simple unit,
   74 per unit of a memory operation), never worse than it *)
Theorem C14_a64_compile_fine_size :
  forall (p : prog) (lc : N) (r : list A64.acode) (n : nat) (lc' : N),
    SizeWf.sub_wf_prog p = true -> A64.a64_compile p lc = Ok (r, n, lc') -> (AxSize.len r <= a64_fine_bound p)%N.
Proof. exact a64_compile_fine_size. Qed.
Print Assumptions C14_a64_compile_fine_size.
Theorem C14_a64_fine_bound_le :
  forall ds : list def, (cg_fine_defs A64_K0 A64_KM ds <= A64_KM * AxSize.cg_bound_defs ds)%N.
Proof. exact (cg_fine_defs_le A64_K0 A64_KM ltac:(vm_compute; discriminate)). Qed.
Print Assumptions C14_a64_fine_bound_le.

(* the back-end methods, for all arguments the generic code generator can hand over *)
Theorem C14_a64_arith_wf :
  forall (o : binop) (t s1 s2 : A64.atemp),
    A64WfAll.temp_enc t -> A64WfAll.temp_enc s1 -> A64WfAll.temp_enc s2 -> A64WfAll.W (A64.a_arith o t s1 s2).
Proof. exact A64WfAll.W_arith. Qed.
Print Assumptions C14_a64_arith_wf.
Theorem C14_a64_load_immediate_wf :
  forall (t : A64.atemp) (i : Z), A64WfAll.temp_enc t -> A64WfAll.W (A64.a_load_immediate t i).
Proof. exact A64WfAll.W_load_immediate. Qed.
Print Assumptions C14_a64_load_immediate_wf.
Theorem C14_a64_table_jump_wf :
  forall (t : A64.atemp) (i : Z), A64WfAll.temp_enc t -> A64WfAll.W (A64.a_add_and_jump t i).
Proof. exact A64WfAll.W_add_and_jump. Qed.
Print Assumptions C14_a64_table_jump_wf.
(* the code before the repair: only below 1024 xtors *)
Theorem C14_a64_old_table_jump_wf :
  forall (t : A64.atemp) (k : N),
    A64WfAll.temp_enc t -> (k < A64_XTORS_MAX)%N -> A64WfAll.W (A64.old_a_add_and_jump t (A64.jump_length k)).
Proof. exact A64WfAll.W_old_add_and_jump. Qed.
Print Assumptions C14_a64_old_table_jump_wf.
Theorem C14_a64_print_wf :
  forall (nl : bool) (s : A64.atemp) (c : ctx), A64WfAll.temp_enc s -> A64WfAll.W (A64.a_print nl s c).
Proof. exact A64WfAll.W_print. Qed.
Print Assumptions C14_a64_print_wf.
Theorem C14_a64_erase_wf :
  forall (t : A64.atemp) (lc : N), A64WfAll.temp_enc t -> A64WfAll.W (fst (A64.a_erase_block t lc)).
Proof. exact A64WfAll.W_erase. Qed.
Print Assumptions C14_a64_erase_wf.
Theorem C14_a64_share_wf :
  forall (t : A64.atemp) (n lc : N),
    A64WfAll.temp_enc t -> (n < A64_SUBST_MAX)%N -> A64WfAll.W (fst (A64.a_share_block_n t n lc)).
Proof. exact A64WfAll.W_share. Qed.
Print Assumptions C14_a64_share_wf.
Theorem C14_a64_store_wf :
  forall (to_store remaining : ctx) (lc : N) (c : list A64.acode) (lc' : N),
    A64.a_store to_store remaining lc = Ok (c, lc') -> A64WfAll.W c.
Proof. exact A64WfAll.W_a_store. Qed.
Print Assumptions C14_a64_store_wf.
Theorem C14_a64_load_wf :
  forall (to_load existing : ctx) (lc : N) (c : list A64.acode) (lc' : N),
    A64.a_load to_load existing lc = Ok (c, lc') -> A64WfAll.W c.
Proof. exact A64WfAll.W_a_load. Qed.
Print Assumptions C14_a64_load_wf.
Theorem C14_a64_prologue_epilogue_wf : (forall n s, A64.setup n = Ok s -> A64WfAll.W s) /\ A64WfAll.W A64.cleanup.
Proof. exact (conj A64WfAll.W_setup A64WfAll.W_cleanup). Qed.
Print Assumptions C14_a64_prologue_epilogue_wf.
(* the spill slots and field offsets are encodable scaled offsets *)
Theorem C14_a64_offsets_encodable :
  (forall p : N, N.ltb p A64.SPILL_NUM = true -> A64Wf.uoff8 (A64.stack_offset p) = true) /\
  (forall (n : tnum) (o : N), N.leb o A64.FIELDS_PER_BLOCK = true -> A64Wf.uoff8 (A64.field_offset n o) = true).
Proof. exact (conj A64WfAll.stack_offset_ok A64WfAll.field_offset_ok). Qed.
Print Assumptions C14_a64_offsets_encodable.
(* what W gives for a body: the four facts asm_wf asks of the instructions *)
Theorem C14_a64_body_predicate :
  forall body, A64WfAll.W body ->
    (forall l, In l (flat_map A64Wf.referenced body) -> A64Wf.is_hash_label l = false) /\
    (forall l, In l (A64Wf.calls body) -> l = "print_i64"%string \/ l = "println_i64"%string) /\
    A64Wf.globals body = [] /\ (forall c, In c body -> A64Wf.instr_wf c = true).
Proof. exact A64WfProg.W_parts. Qed.
Print Assumptions C14_a64_body_predicate.

(* the hypotheses are satisfiable: the linearized stage outputs of the five example programs of C01 and the two heap
   examples of C07 (lists, a five-field record in two blocks, closures; the second one with spill slots) *)
Theorem C14_a64_compile_asm_wf_nonvacuous :
  wf_guard_a64 (lin_of ex_calls) = true /\ wf_guard_a64 (lin_of ex_shared) = true /\
  wf_guard_a64 (lin_of ex_data) = true /\ wf_guard_a64 (lin_of ex_labels) = true /\
  wf_guard_a64 (lin_of ex_codata) = true /\ wf_guard_a64 hx_lin = true /\ wf_guard_a64 hxw_lin = true.
Proof. exact wf_guard_a64_examples. Qed.
Print Assumptions C14_a64_compile_asm_wf_nonvacuous.

(* regression (finding "tag dispatch immediate", repaired): a type with 1026 destructors and an invoke of the last one
   satisfy every hypothesis of the theorem; the code generator BEFORE the repair emits `ADD X5, X5, #4100` and fails
   asm_wf, the repaired one emits `MOVZ X3, #4100; ADD X5, X5, X3` and passes *)
Theorem C14_a64_compile_asm_wf_xtors_regression :
  let p := wide_type_prog 1026 in
  wf_guard_a64 p = true /\ old_imm_guard_a64 p = false /\
  (exists cs n lc', old_a64_compile p 0 = Ok (cs, n, lc') /\
     A64Wf.asm_wf cs = Some "operand not encodable in its instruction form"%string /\
     In (A64.ADDI (A64.X 5) (A64.X 5) 4100) cs) /\
  (exists cs n lc', A64.a64_compile p 0 = Ok (cs, n, lc') /\ A64Wf.asm_wf cs = None /\
     In (A64.MOVZ (A64.X 3) 4100 0) cs /\ In (A64.ADD (A64.X 5) (A64.X 5) (A64.X 3)) cs).
Proof. exact asm_wf_xtors_regression. Qed.
Print Assumptions C14_a64_compile_asm_wf_xtors_regression.

(* ======================= round 4: asm_wf and code_small as THEOREMS for RISC-V =======================
   PROVED now (Sem/WfGuard64.v, Proof/RVWfAll.v, Proof/RVWfCor.v):
   (l) EVERY instruction the RISC-V code generator emits passes the checker Sem/RVWf.asm_wf that the run-time check
       applies to the real output: labels (with the routine's `cleanup`) defined once, every referenced label defined,
       registers x0..x31, ADDI / JALR / LW / SW with a 12-bit signed immediate (field offsets 16..72, reference-count
       increments, the table dispatch), LI with a 64-bit value.  Hypotheses, all boolean on the PROGRAM: labels_guard,
       lin_check_prog (gives calls_guard), imm_guard_rv (literals 64-bit; a type declares fewer than 2^61 xtors).  The
       table dispatch `ADDI X1, Xt, 4k` was unencodable beyond 511 xtors (finding, REPAIRED: a larger offset goes through
       `LI X1`; regression lemma C14_rv_compile_asm_wf_xtors_regression about the old code).
   (m) code_small under the size_guard of x86-64. *)
From SCC Require Import Proof.RVWfAll Proof.RVWfCor Proof.RVHSimExample.

Theorem C14_rv_compile_asm_wf :
  forall (p : prog) (lc : N) (cs : list RV.rcode) (n : nat) (lc' : N),
    labels_guard p = true -> lin_check_prog p = true -> imm_guard_rv p = true ->
    RV.rv_compile p lc = Ok (cs, n, lc') -> RVWf.asm_wf cs = None.
Proof. exact rv_compile_asm_wf. Qed.
Print Assumptions C14_rv_compile_asm_wf.

Theorem C14_rv_compile_code_small :
  forall (p : prog) (lc : N) (cs : list RV.rcode) (n : nat) (lc' : N),
    lin_check_prog p = true -> size_guard p = true ->
    RV.rv_compile p lc = Ok (cs, n, lc') -> RVSimAddr.code_small cs = true.
Proof. exact rv_compile_code_small. Qed.
Print Assumptions C14_rv_compile_code_small.

(* the back-end methods, for all arguments the generic code generator can hand over *)
Theorem C14_rv_table_jump_wf :
  forall (t : RV.reg) (i : Z), RVWfAll.reg_enc t -> lit64 i = true -> RVWfAll.W (RV.r_add_and_jump t i).
Proof. exact RVWfAll.W_add_and_jump_any. Qed.
Print Assumptions C14_rv_table_jump_wf.
(* the code before the repair: only below 512 xtors *)
Theorem C14_rv_old_table_jump_wf :
  forall (t : RV.reg) (k : N),
    RVWfAll.reg_enc t -> (k < RV_OLD_XTORS_MAX)%N -> RVWfAll.W (RV.old_r_add_and_jump t (RV.jump_length k)).
Proof. exact RVWfAll.W_old_add_and_jump. Qed.
Print Assumptions C14_rv_old_table_jump_wf.
Theorem C14_rv_load_immediate_wf :
  forall (t : RV.reg) (i : Z), RVWfAll.reg_enc t -> lit64 i = true -> RVWfAll.W (RV.r_load_immediate t i).
Proof. exact RVWfAll.W_load_immediate. Qed.
Print Assumptions C14_rv_load_immediate_wf.
Theorem C14_rv_erase_wf : forall (t : RV.reg) (lc : N), RVWfAll.reg_enc t -> RVWfAll.W (fst (RV.r_erase_block t lc)).
Proof. exact RVWfAll.W_erase. Qed.
Print Assumptions C14_rv_erase_wf.
Theorem C14_rv_share_wf :
  forall (t : RV.reg) (n lc : N), RVWfAll.reg_enc t -> (n < RV_SUBST_MAX)%N -> RVWfAll.W (fst (RV.r_share_block_n t n lc)).
Proof. exact RVWfAll.W_share. Qed.
Print Assumptions C14_rv_share_wf.
Theorem C14_rv_store_wf :
  forall (to_store remaining : ctx) (lc : N) (c : list RV.rcode) (lc' : N),
    RV.r_store to_store remaining lc = Ok (c, lc') -> RVWfAll.W c.
Proof. exact RVWfAll.W_r_store. Qed.
Print Assumptions C14_rv_store_wf.
Theorem C14_rv_load_wf :
  forall (to_load existing : ctx) (lc : N) (c : list RV.rcode) (lc' : N),
    RV.r_load to_load existing lc = Ok (c, lc') -> RVWfAll.W c.
Proof. exact RVWfAll.W_r_load. Qed.
Print Assumptions C14_rv_load_wf.

(* the hypotheses are satisfiable *)
Theorem C14_rv_compile_asm_wf_nonvacuous :
  wf_guard_rv rh_lin = true /\
  wf_guard_rv (lin_of ex_calls) = true /\ wf_guard_rv (lin_of ex_shared) = true /\
  wf_guard_rv (lin_of ex_data) = true /\ wf_guard_rv (lin_of ex_labels) = true /\
  wf_guard_rv (lin_of ex_codata) = true.
Proof. exact wf_guard_rv_examples. Qed.
Print Assumptions C14_rv_compile_asm_wf_nonvacuous.

(* regression (finding "tag dispatch immediate", repaired): 514 destructors, invoke of the last one - the old code emits
   `ADDI X1, X5, 2052` and fails asm_wf, the repaired one `LI X1, 2052; ADD X1, X5, X1` *)
Theorem C14_rv_compile_asm_wf_xtors_regression :
  let p := RVWfCor.wide_type_prog 514 in
  wf_guard_rv p = true /\ old_imm_guard_rv p = false /\
  (exists cs n lc', RVWfCor.old_rv_compile p 0 = Ok (cs, n, lc') /\
     RVWf.asm_wf cs = Some "operand not encodable in its instruction form"%string /\
     In (RV.ADDI RV.TEMP 5%N 2052) cs) /\
  (exists cs n lc', RV.rv_compile p 0 = Ok (cs, n, lc') /\ RVWf.asm_wf cs = None /\
     In (RV.LI RV.TEMP 2052) cs /\ In (RV.ADD RV.TEMP 5%N RV.TEMP) cs).
Proof. exact RVWfCor.asm_wf_xtors_regression. Qed.
Print Assumptions C14_rv_compile_asm_wf_xtors_regression.
