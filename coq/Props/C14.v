(* C14: emitted assembly is accepted by the target assembler (x86-64 part).
   Only statements; proofs in Proof/X86Wf.v, Proof/X86Consts.v.
   PROVED: (a) the jump-table stride: in the image of the emitted code the k-th `jmp near` entry of a
   table lies exactly jump_length k bytes after the first one (5 bytes per entry), and jump_length
   is the crate's (regenerated constants); (b) every instruction the model's instruction selection
   emits for arithmetic, moves, literals and comparisons is encodable (sign-extended 32-bit
   immediates and displacements, `mov r64, imm64` for wide literals, no `imul [mem], reg`) for all
   operands the generic code generator can pass (fresh target).
   CHECKED, not proved: label uniqueness / definedness and external symbols (Sem/X86Wf.asm_wf on the
   implementation's output of every program of the run), and acceptance of the printed text by GNU
   as (native step).  The label-collision defect found by this check was repaired (fix: fd7ddb1). *)
From Coq Require Import List ZArith NArith String.
From SCC Require Import Lang.AxSyn Model.Backend Model.X86 Sem.X86Sem Sem.X86Wf Proof.X86Wf Proof.X86Consts Generated.Constants.
Import ListNotations.
Open Scope Z_scope.

Theorem C14_x86_jump_table_stride :
  forall (ls : list string) (a : Z) (k : nat),
    (k < List.length ls)%nat ->
    nth k (addrs (map JMPLN ls) a) 0 = a + jump_length (N.of_nat k).
Proof. exact addrs_table. Qed.
Print Assumptions C14_x86_jump_table_stride.

Theorem C14_x86_image_uses_these_addresses :
  forall (cs : list xcode) (i : positive) (a : Z) (im : image),
    (forall j, (i <= j)%positive -> PM.find j (addr_of im) = None) ->
    forall k, (k < List.length cs)%nat ->
      PM.find (Pos.of_nat (Pos.to_nat i + k)) (addr_of (build cs i a im)) = Some (nth k (addrs cs a) 0).
Proof. exact build_addr_of. Qed.
Print Assumptions C14_x86_image_uses_these_addresses.

Theorem C14_x86_jump_length_is_the_crates :
  map jump_length [0; 1; 2; 3; 4; 5]%N = X86C.jump_length_samples.
Proof. exact x86_jump_length_samples. Qed.
Print Assumptions C14_x86_jump_length_is_the_crates.

Theorem C14_x86_arith_encodable :
  forall (o : binop) (t s1 s2 : xtemp),
    o <> Prod \/ (forall p, t <> XS p \/ (t <> s1 /\ t <> s2)) ->
    temp_enc t -> temp_enc s1 -> temp_enc s2 ->
    Forall (fun c => instr_wf c = true) (x_arith o t s1 s2).
Proof. exact arith_encodable. Qed.
Print Assumptions C14_x86_arith_encodable.

Theorem C14_x86_load_immediate_encodable :
  forall (t : xtemp) (i : Z),
    temp_enc t -> (-9223372036854775808 <= i <= 9223372036854775807) ->
    Forall (fun c => instr_wf c = true) (x_load_immediate t i).
Proof. exact load_immediate_encodable. Qed.
Print Assumptions C14_x86_load_immediate_encodable.

Theorem C14_x86_mov_encodable :
  forall (t s : xtemp), temp_enc t -> temp_enc s -> Forall (fun c => instr_wf c = true) (x_mov t s).
Proof. exact mov_encodable. Qed.
Print Assumptions C14_x86_mov_encodable.

Theorem C14_x86_compare_encodable :
  forall (a b : xtemp), temp_enc a -> temp_enc b -> Forall (fun c => instr_wf c = true) (compare a b).
Proof. exact compare_encodable. Qed.
Print Assumptions C14_x86_compare_encodable.

(* a multiplication whose target spill slot aliases an operand would need `imul [mem], reg`, which
   does not exist; the generic code generator never asks for it (fresh targets), but the selection
   function does emit it: recorded as a latent defect of mul_to_spill *)
Theorem C14_x86_mul_to_spill_latent_refuted :
  exists t s1 s2, temp_enc t /\ temp_enc s1 /\ temp_enc s2 /\
    ~ Forall (fun c => instr_wf c = true) (x_arith Prod t s1 s2).
Proof.
  exists (XS 1%N), (XS 1%N), (XR 5%N).
  split; [reflexivity|]. split; [reflexivity|]. split; [reflexivity|].
  intro H. apply Forall_inv in H. cbv in H. discriminate H.
Qed.
Print Assumptions C14_x86_mul_to_spill_latent_refuted.
