(* C06: x86-64 code generation preserves AxCut semantics.
   Only statements here; proofs live in Proof/X86Sel.v, Proof/X86State.v, Proof/X86Consts.v.

   Layering (DESIGN.md, C06): L0 AxCut linear machine -> L1 abstract back-end operations
   (Model/Backend.v) -> L2 x86-64 instructions (Model/X86.v) on the ISA semantics Sem/X86Sem.v.
   What is PROVED here is L1 -> L2 for the integer fragment: for every placement of target and
   operands in registers or spill slots, every aliasing between operands, and every contents of
   registers and memory, the instruction sequence the model emits has exactly the abstract
   operation's effect and changes nothing but the target, rcx and the flags.
   PROVED in addition (second part of this file): the forward simulation L0 -> L2 for the INTEGER
   FRAGMENT (every variable `ext i64`; statements Substitute / Call / Literal / Op / PrintI64 / IfC / Exit):
   a state relation `rel`, one simulation theorem per statement form for every context shape, their
   composition by induction on the machine's fuel (`C06_sim_exec`), the layout of the code image, the
   prologue and epilogue, and the whole-program theorem `C06_codegen_simulates_int`.
   What is NOT proved: the simulation for the heap statements Let / Switch / Create / Invoke (their
   building blocks share/erase/release/acquire are refined to x86-64 under C09); for programs using them
   whole-program preservation is established by the correspondence check plus execution of the
   implementation's output on the ISA model against the AxCut machine (see the evidence file); the
   full statement is C06_codegen_correct_statement below. *)
From Coq Require Import List ZArith NArith String Bool.
From SCC Require Import Lang.AxSyn Sem.AxSem Model.Backend Model.X86 Sem.X86Sem Proof.X86State Proof.X86Sel Proof.X86Consts.
Import ListNotations.
Open Scope Z_scope.

(* all five operators, against the AxCut meaning of the operator (64-bit wrapping, truncating
   division, undefined cases excluded by `eval_op … = OpVal v`) *)
Theorem C06_x86_arith_selection :
  forall (im : image) (o : binop) (s : xstate) (sp : Z) (t s1 s2 : xtemp) (a b v : Z),
    frame_ok s sp -> div_pre t s1 s2 ->
    lget s sp s1 = Some a -> lget s sp s2 = Some b -> eval_op o a b = OpVal v ->
    exists s', exec_straight im (x_arith o t s1 s2) s = Some s' /\
               lget s' sp t = Some v /\ preserved s s' sp t.
Proof. exact x86_arith_ok. Qed.
Print Assumptions C06_x86_arith_selection.

(* add/mul also when the target aliases an operand (used by the jump-table dispatch) *)
Theorem C06_x86_commutative_selection_aliasing :
  forall (im : image) (o : aop) (s : xstate) (sp : Z) (t s1 s2 : xtemp) (a b : Z),
    o <> ASub -> frame_ok s sp -> loc_ok t -> loc_ok s1 -> loc_ok s2 ->
    t <> XR TEMP -> s1 <> XR TEMP -> s2 <> XR TEMP ->
    lget s sp s1 = Some a -> lget s sp s2 = Some b ->
    exists s', exec_straight im (op_commutative (to_register o) (to_spill o) t s1 s2) s = Some s' /\
               lget s' sp t = Some (wrap (aop_f o a b)) /\ preserved s s' sp t.
Proof. exact x86_op_commutative_ok. Qed.
Print Assumptions C06_x86_commutative_selection_aliasing.

Theorem C06_x86_mov_selection :
  forall (im : image) (s : xstate) (sp : Z) (t src : xtemp),
    frame_ok s sp -> loc_ok t -> loc_ok src -> t <> XR TEMP -> src <> XR TEMP ->
    exists s', exec_straight im (x_mov t src) s = Some s' /\
               lget s' sp t = lget s sp src /\ preserved s s' sp t.
Proof. exact x86_mov_ok. Qed.
Print Assumptions C06_x86_mov_selection.

(* every 64-bit literal into a register or a spill slot (after the fix: of c20b82f; the
   direct `mov qword [rsp+off], imm64` form is used only for sign-extended 32-bit values) *)
Theorem C06_x86_load_immediate_selection :
  forall (im : image) (s : xstate) (sp : Z) (t : xtemp) (i : Z),
    frame_ok s sp -> loc_ok t -> t <> XR TEMP ->
    exists s', exec_straight im (x_load_immediate t i) s = Some s' /\
               lget s' sp t = Some i /\ preserved s s' sp t.
Proof. exact x86_load_immediate_ok. Qed.
Print Assumptions C06_x86_load_immediate_selection.

(* comparisons: the flags hold the two operands, and the conditional jump is taken exactly when
   the AxCut comparison holds (all six sorts; two-operand and zero forms) *)
Theorem C06_x86_compare_selection :
  forall (im : image) (s : xstate) (sp : Z) (t1 t2 : xtemp) (a b : Z),
    frame_ok s sp -> loc_ok t1 -> loc_ok t2 -> t1 <> XR TEMP -> t2 <> XR TEMP ->
    lget s sp t1 = Some a -> lget s sp t2 = Some b ->
    exists s', exec_straight im (compare t1 t2) s = Some s' /\ flags s' = Some (a, b) /\
               (forall l, loc_ok l -> l <> XR TEMP -> lget s' sp l = lget s sp l) /\
               heap s' = heap s /\ out s' = out s /\ frame_ok s' sp.
Proof. exact x86_compare_ok. Qed.
Print Assumptions C06_x86_compare_selection.
Theorem C06_x86_compare_zero_selection :
  forall (im : image) (s : xstate) (sp : Z) (t : xtemp) (a : Z),
    frame_ok s sp -> loc_ok t -> lget s sp t = Some a ->
    exec_straight im (compare_immediate t 0) s = Some (set_flags s (Some (a, 0))).
Proof. exact x86_compare_zero_ok. Qed.
Print Assumptions C06_x86_compare_zero_selection.
Theorem C06_x86_conditional_jump :
  forall (im : image) (sort : ifsort) (l : string) (s : xstate) (x y : Z),
    flags s = Some (x, y) ->
    step im (jcc sort l) s = if eval_cmp sort x y then goto_label im s l else Next s.
Proof. exact x86_jcc_step. Qed.
Print Assumptions C06_x86_conditional_jump.

(* the model's address arithmetic is the crate's (values regenerated from the code) *)
Theorem C06_x86_constants_agree :
  map stack_offset [0; 1; 2; 3; 4; 5; 6; 7]%N = Generated.Constants.X86C.stack_offset_samples /\
  map (field_offset Fst) [0; 1; 2; 3]%N = Generated.Constants.X86C.field_offset_fst /\
  map (field_offset Snd) [0; 1; 2; 3]%N = Generated.Constants.X86C.field_offset_snd /\
  map jump_length [0; 1; 2; 3; 4; 5]%N = Generated.Constants.X86C.jump_length_samples.
Proof.
  exact (conj x86_stack_offset_samples (conj (proj1 x86_field_offset_samples)
          (conj (proj2 x86_field_offset_samples) x86_jump_length_samples))).
Qed.
Print Assumptions C06_x86_constants_agree.

(* The full property, stated but not proved (see the header): for every linearly well-typed
   program within capacity, the emitted code behaves like the AxCut linear machine. *)
Definition C06_codegen_correct_statement : Prop :=
  forall (p : prog) (lc : N) (cs : list xcode) (n : nat) (lc' : N) (args : list Z) (fuel : nat) (o : obs),
    x86_compile p lc = Ok (cs, n, lc') ->
    run_linear fuel p args = o -> defined o = true ->
    exists outer inner, fst (run_x86 outer inner cs args) = o.


(* ======================================================================================== *)
(* Forward simulation of the generic code generator instantiated at x86-64, integer fragment *)
(* ======================================================================================== *)
From SCC Require Import Model.ParMoves Model.LinCheck Sem.X86Wf Proof.X86Exec Proof.SubstGraph Proof.X86Subst
     Proof.X86SimRel Proof.X86SimStmt Proof.X86SimPrint Proof.X86SimProg Proof.X86SimTop Proof.X86SimExample.
Open Scope list_scope.
(* THE STATE RELATION  `rel CL c e s sp`  (Proof/X86SimRel.v) between a configuration of the linear AxCut
   machine - the typing context c the generator threads and the environment e, a list of (name, value)
   by position - and an ISA state s:  rsp = sp with the whole spill area inside the stack region,
   sp = 8 (mod 16), room below sp for the pushes around a print call, rbp (deferred-free list) defined;
   e and c name the same ids in the same order, pairwise distinct; position i is represented (`vrep`) as
     integer z (binding ext i64):  the SECOND temporary of position i (register 5+2i, or spill slot 2i-10
                                   from position 6 on) holds z;
     closure without captured variables (binding cns T): first temporary = null block pointer, second
                                   temporary = a code address a with `CL a T clauses`.
   CL, what a closure's code pointer points to, is a parameter of the statement-level theorems (they never
   look inside; the program-level theorem of the integer fragment takes CL := False).
   `frame_eq s s' sp`: heap, output and every stack word outside the spill area are unchanged;
   `above_eq`: heap and every stack word at or above sp are unchanged.
   First consequence: the machine's operand lookup and the generator's `variable_temporary` meet. *)
Theorem C06_sim_rel_reads :
  forall (CL : Z -> ident -> list clause -> Prop) (c : ctx) (e : env) (s : xstate) (sp : Z) (a : ident) (x : Z),
    rel CL c e s sp -> lookup_int e a = Some x ->
    exists i b t, nth_error c i = Some b /\ idn (bvar b) = idn a /\ tpos x86_backend Snd i = Ok t /\ lget s sp t = Some x.
Proof. exact rel_lookup. Qed.
Print Assumptions C06_sim_rel_reads.

(* One theorem per statement form.  In each: ANY context c (any number of variables, so operands and
   target in registers or spill slots in every combination; operands may coincide), the hypotheses on
   the machine side are exactly the conditions under which `exec_linear` takes the step, the temporaries
   are whatever `code_statement` computed (`variable_temporary … = Ok t`), and the conclusion relates the
   state after the emitted code to the machine's next environment. *)
Theorem C06_sim_literal :
  forall (im : image) (CL : Z -> ident -> list clause -> Prop) (c : ctx) (e : env) (s : xstate) (sp : Z) (n : Z) (v : ident) (tv : xtemp),
    rel CL c e s sp -> NoDup (ids (c ++ [mkb v Ext I64])) ->
    variable_temporary x86_backend Snd (c ++ [mkb v Ext I64]) (idn v) = Ok tv ->
    exists s', exec_straight im (x_load_immediate tv n) s = Some s' /\
               rel CL (c ++ [mkb v Ext I64]) (e ++ [(v, VInt n)]) s' sp /\ frame_eq s s' sp.
Proof. exact sim_literal. Qed.
Print Assumptions C06_sim_literal.

(* all five operators; the result is the AxCut value (wrap-around for + - *, truncation for / %) *)
Theorem C06_sim_op :
  forall (im : image) (CL : Z -> ident -> list clause -> Prop) (c : ctx) (e : env) (s : xstate) (sp : Z) (a : ident) (o : binop)
         (b v : ident) (x y z : Z) (tv ta tb : xtemp),
    rel CL c e s sp -> NoDup (ids (c ++ [mkb v Ext I64])) ->
    lookup_int e a = Some x -> lookup_int e b = Some y -> eval_op o x y = OpVal z ->
    variable_temporary x86_backend Snd (c ++ [mkb v Ext I64]) (idn v) = Ok tv ->
    variable_temporary x86_backend Snd (c ++ [mkb v Ext I64]) (idn a) = Ok ta ->
    variable_temporary x86_backend Snd (c ++ [mkb v Ext I64]) (idn b) = Ok tb ->
    exists s', exec_straight im (x_arith o tv ta tb) s = Some s' /\
               rel CL (c ++ [mkb v Ext I64]) (e ++ [(v, VInt z)]) s' sp /\ frame_eq s s' sp.
Proof. exact sim_op. Qed.
Print Assumptions C06_sim_op.

(* the undefined cases (divisor 0, min_int / -1, for Div and Rem): the emitted code runs into the
   faulting idiv, which the ISA model reports with the same reason, output unchanged *)
Theorem C06_sim_op_undefined :
  forall (im : image) (CL : Z -> ident -> list clause -> Prop) (c : ctx) (e : env) (s : xstate) (sp : Z) (a : ident) (o : binop)
         (b v : ident) (x y : Z) (w : string) (tv ta tb : xtemp),
    rel CL c e s sp -> NoDup (ids (c ++ [mkb v Ext I64])) ->
    lookup_int e a = Some x -> lookup_int e b = Some y -> eval_op o x y = OpUndef w ->
    variable_temporary x86_backend Snd (c ++ [mkb v Ext I64]) (idn v) = Ok tv ->
    variable_temporary x86_backend Snd (c ++ [mkb v Ext I64]) (idn a) = Ok ta ->
    variable_temporary x86_backend Snd (c ++ [mkb v Ext I64]) (idn b) = Ok tb ->
    exists s', exec_undef im (x_arith o tv ta tb) s = Some (w, s') /\ out s' = out s.
Proof. exact sim_op_undef. Qed.
Print Assumptions C06_sim_op_undefined.
Theorem C06_sim_op_undefined_observed :
  forall (im : image) (pc : positive) (cs : list xcode) (s : xstate) (w : string) (s' : xstate),
    code_at im pc cs -> exec_undef im cs s = Some (w, s') -> finishes im pc s (finish (out s') (OUndef w)).
Proof. exact exec_undef_finishes. Qed.
Print Assumptions C06_sim_op_undefined_observed.

(* IfC, all six comparison sorts, two-operand form (b = Some _) and zero form (b = None): control reaches
   the first instruction of the branch the machine takes - the else branch right after the jump, the then
   branch right after the label - in a related state *)
Theorem C06_sim_ifc :
  forall (im : image) (CL : Z -> ident -> list clause -> Prop) (c : ctx) (e : env) (s : xstate) (sp : Z) (so : ifsort)
         (a : ident) (b : option ident) (x y : Z)
         (types : list tydecl) (thenc elsec : stmt) (lc : N) (code : list xcode) (lc' : N) (pc : positive),
    rel CL c e s sp -> lookup_int e a = Some x ->
    match b with Some b => lookup_int e b | None => Some 0 end = Some y ->
    code_statement x86_backend types (IfC so a b thenc elsec) c lc = Ok (code, lc') ->
    code_at im pc code -> labels_at_nh im pc code ->
    exists c1 c2 lc2 c3 s',
      code = c1 ++ c2 ++ [LAB (iflabel lc)] ++ c3 /\
      code_statement x86_backend types elsec c (lc + 1)%N = Ok (c2, lc2) /\
      code_statement x86_backend types thenc c lc2 = Ok (c3, lc') /\
      exec_to im pc s (if eval_cmp so x y then padd pc (List.length c1 + List.length c2 + 1)
                       else padd pc (List.length c1)) s' /\
      rel CL c e s' sp /\ frame_eq s s' sp.
Proof. exact sim_ifc. Qed.
Print Assumptions C06_sim_ifc.

(* Substitute, ANY mix of integer and closure variables, any rearrangement (drop, duplicate, permute): the
   reference-count code (one erase / share per closure variable dropped / duplicated, each skipped because
   the block pointer of a closure without captured variables is null; uses C11_x86_erase_meaning /
   C11_x86_share_meaning through x86_emit_rc_ok) followed by the parallel moves
   (C11_x86_parallel_moves_simultaneous, C11_substitute_graph_edges) leaves the machine's rearranged
   environment in the temporaries of the new context.  `has …` is the condition lin_check imposes. *)
Theorem C06_sim_substitute :
  forall (im : image) (CL : Z -> ident -> list clause -> Prop) (c : ctx) (e : env) (s : xstate) (sp : Z)
         (re : list (binding * ident)) (vs : list value) (e' : env)
         (c1 : list xcode) (lc lc1 : N) (c2 : list xcode) (pc : positive),
    rel CL c e s sp -> NoDup (new_ids re) ->
    (forall q, In q re -> has c (snd q) (bchi (fst q)) (bty (fst q)) = true) ->
    lookups e (map snd re) = Some vs -> bind (map (fun r => bvar (fst r)) re) vs = Some e' ->
    code_weakening_contraction x86_backend (transpose re c) c lc = Ok (c1, lc1) ->
    code_exchange x86_backend (transpose re c) c (map fst re) = Ok c2 ->
    code_at im pc (c1 ++ c2) -> labels_at_nh im pc (c1 ++ c2) ->
    exists s', exec_to im pc s (padd pc (List.length (c1 ++ c2))) s' /\ rel CL (map fst re) e' s' sp /\ frame_eq s s' sp.
Proof. exact sim_substitute. Qed.
Print Assumptions C06_sim_substitute.
(* in an integer context no reference-count code is emitted at all *)
Theorem C06_sim_substitute_int_no_rc :
  forall (c : ctx) (re : list (binding * ident)) (lc : N),
    ctx_int c = true -> NoDup (ids c) ->
    code_weakening_contraction x86_backend (transpose re c) c lc = Ok ([], lc).
Proof. exact cwc_ctx_int. Qed.
Print Assumptions C06_sim_substitute_int_no_rc.

(* PrintI64 on the external-call model (alignment check at the call, havoc of rax rcx rdx rsi rdi r8-r11,
   of the flags and of the stack below rsp): the printed value is the variable's, every live temporary of
   EVERY context survives - whatever registers `caller_save_registers_info` lists (one per integer, two per
   closure among the first four positions), however many of them fit into free callee-saved registers and
   however many are pushed, with or without the alignment padding; spilled variables and r12-r15 are
   untouched - and rsp is restored *)
Theorem C06_sim_print :
  forall (im : image) (CL : Z -> ident -> list clause -> Prop) (c : ctx) (e : env) (s : xstate) (sp : Z) (nl : bool)
         (v : ident) (z : Z) (tv : xtemp),
    rel CL c e s sp -> lookup_int e v = Some z ->
    variable_temporary x86_backend Snd c (idn v) = Ok tv ->
    exists s', exec_straight im (x_print nl tv c) s = Some s' /\
               rel CL c e s' sp /\ out s' = (nl, z) :: out s /\ above_eq s s' sp.
Proof. exact sim_print. Qed.
Print Assumptions C06_sim_print.
(* its core, for ANY list of distinct caller-saved registers and any first backup register >= 12 *)
Theorem C06_sim_print_save_call_restore :
  forall (im : image) (fb : N) (regs : list N) (s : xstate) (sp : Z) (nl : bool) (z : Z) (rs : N),
    (12 <= fb)%N -> Forall (fun r => (4 <= r <= 11)%N) regs -> NoDup regs ->
    frame_ok s sp -> sp mod 16 = 8 -> STACK_LIMIT + 128 <= sp ->
    rget s rs = Some z -> rs <> 0%N -> (rs < fb)%N ->
    exists s', exec_straight im (save_caller_save_registers fb regs ++ [MOV (arg 0) rs] ++ [CALL (print_name nl)]
                                 ++ restore_caller_save_registers fb regs) s = Some s' /\
      rget s' 0%N = Some sp /\
      (forall r, In r regs -> rget s' r = rget s r) /\
      (forall r, r <> 0%N -> existsb (N.eqb r) caller_saved = false -> (r < fb)%N -> rget s' r = rget s r) /\
      (forall a, sp <= a -> kget s' a = kget s a) /\
      out s' = (nl, z) :: out s /\ heap s' = heap s.
Proof. exact print_core. Qed.
Print Assumptions C06_sim_print_save_call_restore.

(* Call: the jump changes no state; the callee's context (same kinds and types position by position:
   lin_check's sig_match) relabels the same positions *)
Theorem C06_sim_call :
  forall (CL : Z -> ident -> list clause -> Prop) (c : ctx) (e : env) (st : xstate) (sp : Z) (c' : ctx) (e' : env),
    rel CL c e st sp -> NoDup (ids c') -> sig_match c c' = true ->
    bind (vars c') (map snd e) = Some e' -> rel CL c' e' st sp.
Proof. exact bind_rel. Qed.
Print Assumptions C06_sim_call.

(* Exit: the result reaches rax; from `cleanup`, with the frame the prologue built above the spill area
   (`outer_ok`), the run ends with OExit of that value: rsp and rbx rbp r12-r15 have their entry values *)
Theorem C06_sim_exit :
  forall (im : image) (CL : Z -> ident -> list clause -> Prop) (c : ctx) (e : env) (s : xstate) (sp : Z) (v : ident) (z : Z) (tv : xtemp),
    rel CL c e s sp -> lookup_int e v = Some z -> variable_temporary x86_backend Snd c (idn v) = Ok tv ->
    exists s', exec_straight im (x_mov (XR RETURN1) tv) s = Some s' /\ rget s' RETURN1 = Some z /\
               frame_ok s' sp /\ frame_eq s s' sp.
Proof. exact sim_exit_mov. Qed.
Print Assumptions C06_sim_exit.
Theorem C06_sim_epilogue :
  forall (im : image) (pcc : positive) (s : xstate) (sp : Z) (z : Z),
    code_at im pcc cleanup -> frame_ok s sp -> outer_ok s sp -> rget s RETURN1 = Some z ->
    finishes im pcc s (finish (out s) (OExit z)).
Proof. exact epilogue_ok. Qed.
Print Assumptions C06_sim_epilogue.

(* the prologue: from the entry state of a C call with up to five integer arguments, `setup` builds the
   frame and leaves argument i in the register of position i *)
Theorem C06_sim_prologue :
  forall (im : image) (args : list Z) (su : list xcode),
    setup (List.length args) = Ok su ->
    exists s, exec_straight im su (init_state args) = Some s /\
      frame_ok s sp0 /\ outer_ok s sp0 /\ out s = [] /\ (exists f, rget s FREE = Some f) /\
      (forall i, (i < List.length args)%nat -> rget s (5 + 2 * N.of_nat i)%N = Some (nth i args 0)).
Proof. exact prologue_ok. Qed.
Print Assumptions C06_sim_prologue.

(* composition: for a statement of the fragment that is linearly well-typed in its (integer) context,
   whose code sits in an image where the definitions' labels and `cleanup` resolve to the code emitted
   for them, the ISA run from a related state ends with exactly the observation of the linear machine -
   print trace and result, or the undefined operation - whenever the machine's run ends at all (a
   linearly well-typed statement of the fragment never gets stuck: progress is part of the proof) *)
Theorem C06_sim_exec :
  forall (im : image) (p : prog) (sp : Z) (CL : Z -> ident -> list clause -> Prop),
    (forall d, In d (pdefs p) ->
       exists pcd lcd cd lcd', find_label (labels im) (show_ident (dname d) +++ "_") = Some pcd /\
         PM.find pcd (code im) = Some (LAB (show_ident (dname d) +++ "_")) /\
         code_statement x86_backend (ptypes p) (dbody d) (dctx d) lcd = Ok (cd, lcd') /\
         code_at im (Pos.succ pcd) cd /\ labels_at_nh im (Pos.succ pcd) cd) ->
    (exists pcc, find_label (labels im) "cleanup" = Some pcc /\ code_at im pcc cleanup) ->
    (forall d, In d (pdefs p) -> lin_check (sigs_of p) (dctx d) (dbody d) = true) ->
    (forall d, In d (pdefs p) -> def_int d = true) ->
    forall (fuel : nat) (s : stmt) (c : ctx) (e : env) (ot : prints) (st : xstate) (pc : positive)
           (code : list xcode) (lc lc' : N),
      stmt_int s = true -> ctx_int c = true -> lin_check (sigs_of p) c s = true ->
      code_statement x86_backend (ptypes p) s c lc = Ok (code, lc') ->
      code_at im pc code -> labels_at_nh im pc code ->
      rel CL c e st sp -> outer_ok st sp -> out st = ot ->
      snd (exec_linear fuel p e s ot) <> OOutOfFuel -> finishes im pc st (exec_linear fuel p e s ot).
Proof. exact sim_exec. Qed.
Print Assumptions C06_sim_exec.

(* layout: in the image of an instruction list that passes the assembler-level check `asm_wf` (C14,
   evaluated on the REAL output on every run), instruction j sits at index 1+j and every label not
   starting with '#' resolves to its own position *)
Theorem C06_image_layout :
  forall cs : list xcode,
    asm_wf cs = None -> code_at (mk_image cs) 1%positive cs /\ labels_at_nh (mk_image cs) 1%positive cs.
Proof. exact mk_image_layout. Qed.
Print Assumptions C06_image_layout.

(* THE PROGRAM-LEVEL THEOREM for the integer fragment.  For every program p whose definitions all have
   integer contexts and bodies made of Substitute / Call / Literal / Op / PrintI64 / IfC / Exit
   (`int_frag`), whose definition names do not start with '#' (`plain_names`: true of every name the
   parser or the pipeline produces), that is linearly well-typed (`lin_check_prog`, C05), for every
   label-counter start, every argument list of the entry definition's arity and every fuel: if the code
   the generator emits passes `asm_wf` (labels unique) and the linear machine's run ENDS (anything but
   out-of-fuel), then the ISA run of the emitted code on the same arguments makes the same print calls
   with the same values and ends the same way (same result; same undefined-operation reason).
   Missing to the full C06_codegen_correct_statement: the heap statements Let / Switch / Create /
   Invoke; label uniqueness is a checked hypothesis (asm_wf), not a theorem; divergence is not covered. *)
Theorem C06_codegen_simulates_int :
  forall (p : prog) (lc : N) (cs : list xcode) (n : nat) (lc' : N) (args : list Z) (fuel : nat) (o : obs),
    int_frag p = true -> plain_names p = true -> lin_check_prog p = true ->
    x86_compile p lc = Ok (cs, n, lc') -> asm_wf cs = None ->
    List.length args = n ->
    run_linear fuel p args = o -> snd o <> OOutOfFuel ->
    exists outer inner, fst (run_x86 outer inner cs args) = o.
Proof. exact x86_codegen_simulates_int_total. Qed.
Print Assumptions C06_codegen_simulates_int.

(* the arity hypothesis is needed: with a wrong number of arguments the linear machine refuses to start
   (OStuck "entry-args"), which no ISA run reports (witness: six arguments for a one-parameter entry) *)
Theorem C06_codegen_simulates_int_arity_refuted :
  ~ (forall (p : prog) (lc : N) (cs : list xcode) (n : nat) (lc' : N) (args : list Z) (fuel : nat) (o : obs),
      int_frag p = true -> plain_names p = true -> lin_check_prog p = true ->
      x86_compile p lc = Ok (cs, n, lc') -> asm_wf cs = None ->
      run_linear fuel p args = o -> snd o <> OOutOfFuel ->
      exists outer inner, fst (run_x86 outer inner cs args) = o).
Proof. exact ex_arity_needed. Qed.
Print Assumptions C06_codegen_simulates_int_arity_refuted.

(* the same theorem under the name the partial-statement convention asks for: C06_codegen_correct_statement
   restricted to the integer fragment (missing: Let / Switch / Create / Invoke) *)
Theorem C06_codegen_correct_partial :
  forall (p : prog) (lc : N) (cs : list xcode) (n : nat) (lc' : N) (args : list Z) (fuel : nat) (o : obs),
    int_frag p = true -> plain_names p = true -> lin_check_prog p = true -> asm_wf cs = None ->
    x86_compile p lc = Ok (cs, n, lc') ->
    run_linear fuel p args = o -> defined o = true ->
    exists outer inner, fst (run_x86 outer inner cs args) = o.
Proof. exact x86_codegen_correct_int. Qed.
Print Assumptions C06_codegen_correct_partial.

(* the hypotheses are satisfiable by a non-trivial program (two definitions calling each other, literals,
   Sum Sub Prod Div Rem, both forms of IfC, a three-way explicit substitution with a duplicated source,
   prints), and the conclusion is what evaluation shows: Proof/X86SimExample.v *)
Theorem C06_codegen_simulates_int_example_hypotheses :
  int_frag ex_prog = true /\ plain_names ex_prog = true /\ lin_check_prog ex_prog = true /\
  (exists n lc', x86_compile ex_prog 0 = Ok (ex_code, n, lc')) /\ asm_wf ex_code = None.
Proof. exact ex_hypotheses. Qed.
Print Assumptions C06_codegen_simulates_int_example_hypotheses.
Theorem C06_codegen_simulates_int_example_runs :
  run_linear 50 ex_prog [0] = ([(true, 10); (false, -70)], OExit 10) /\
  fst (run_x86 10 1000 ex_code [0]) = ([(true, 10); (false, -70)], OExit 10) /\
  run_linear 50 ex_prog [12] = ([(true, 22); (false, 1)], OExit 11) /\
  fst (run_x86 10 1000 ex_code [12]) = ([(true, 22); (false, 1)], OExit 11) /\
  run_linear 50 ex_prog [10] = ([(true, 20)], OUndef "div0"%string) /\
  fst (run_x86 10 1000 ex_code [10]) = ([(true, 20)], OUndef "div0"%string).
Proof. exact ex_runs. Qed.
Print Assumptions C06_codegen_simulates_int_example_runs.


(* ======================================================================================== *)
(* Closures without captured variables: create / invoke (the closure fragment)               *)
(* ======================================================================================== *)
From SCC Require Import Proof.X86SimAddr Proof.X86SimClo Proof.X86SimProgC Proof.X86SimTopC Proof.X86SimExampleC.
Open Scope list_scope.

(* byte addresses in the image of ANY instruction list: every placed instruction has an address >= CODE_BASE,
   consecutive instructions have consecutive addresses (5 bytes for `jmp near`, 16 otherwise, 0 for labels),
   and the address after an instruction of non-zero size maps back (index_at: what an indirect jump uses) to
   exactly the next instruction *)
Theorem C06_image_addresses : forall cs : list xcode, img_ok (mk_image cs).
Proof. exact mk_image_ok. Qed.
Print Assumptions C06_image_addresses.

(* `clo_ok im p a T clauses` - what the second temporary of a closure variable points to (the CL of the
   relation from here on): the clauses are T's destructors in declaration order; an indirect jump to a (one
   clause) or to a + 5k (clause k through the jump table) arrives, with the state unchanged, at the code
   generated for the body of clause k, which is linearly well-typed in the clause context and in the fragment.
   The code a Create statement emits after its continuation (label, table of `jmp near`, clause bodies)
   establishes it for the address of its label: *)
Theorem C06_closure_layout :
  forall (im : image) (p : prog), img_ok im ->
    (forall pc a, PM.find pc (addr_of im) = Some a -> a < 4611686018427387904) ->
  forall (pc : positive) (P : list xcode) (fresh : string) (tn : ident) (cls : list clause) (c5 : list xcode) (lc3 lc5 : N),
    code_at im pc (P ++ ([LAB fresh] ++ table_or_nil cls fresh) ++ c5) ->
    labels_at_nh im pc (P ++ ([LAB fresh] ++ table_or_nil cls fresh) ++ c5) ->
    ends_nz P -> is_hash_label fresh = false ->
    clauses_code (ptypes p) [] fresh cls lc3 = Ok (c5, lc5) ->
    cls <> [] -> cls_ok (sigs_of p) (Decl tn) cls = true ->
    (forall c, In c cls -> lin_check (sigs_of p) (cl_ctx c) (cl_body c) = true /\ stmt_cf (cl_body c) = true /\ ctx_cf (cl_ctx c) = true) ->
    exists a, label_addr im fresh = Some a /\ clo_ok im p a tn cls.
Proof. exact create_layout. Qed.
Print Assumptions C06_closure_layout.

(* Create of a closure without captured variables, ANY context: null block pointer into the first temporary
   of the new position, the address of the closure's label into the second; the machine's new environment
   entry VClo is represented; control continues with the code of the continuation statement *)
Theorem C06_sim_create :
  forall (im : image) (p : prog), img_ok im ->
    (forall pc a, PM.find pc (addr_of im) = Some a -> a < 4611686018427387904) ->
  forall (c : ctx) (e : env) (s : xstate) (sp : Z) (v tn : ident) (cls : list clause) (next : stmt) (lc : N)
         (code : list xcode) (lc' : N) (pc : positive),
    rel (clo_ok im p) c e s sp -> NoDup (ids (c ++ [mkb v Cns (Decl tn)])) ->
    code_statement x86_backend (ptypes p) (Create v (Decl tn) (Some []) cls next) c lc = Ok (code, lc') ->
    code_at im pc code -> labels_at_nh im pc code ->
    is_hash_label (type_label (Decl tn) (lc + 1)%N) = false ->
    cls <> [] -> stmt_cf next = true -> cls_ok (sigs_of p) (Decl tn) cls = true ->
    (forall cl, In cl cls -> lin_check (sigs_of p) (cl_ctx cl) (cl_body cl) = true /\ stmt_cf (cl_body cl) = true /\ ctx_cf (cl_ctx cl) = true) ->
    exists c12 c3 lc3 rest s',
      code = c12 ++ c3 ++ rest /\
      code_statement x86_backend (ptypes p) next (c ++ [mkb v Cns (Decl tn)]) (lc + 1)%N = Ok (c3, lc3) /\
      exec_straight im c12 s = Some s' /\
      rel (clo_ok im p) (c ++ [mkb v Cns (Decl tn)]) (e ++ [(v, VClo tn cls [])]) s' sp /\ frame_eq s s' sp.
Proof. exact sim_create. Qed.
Print Assumptions C06_sim_create.

(* Invoke, ANY context: whether the type has one destructor (`jmp` through the temporary) or several
   (`add temporary, 5k; jmp`, the immediate encodable because the image passes asm_wf), with the closure in a
   register or in a spill slot, control arrives at the body of the clause the machine selects, in a state
   related to the machine's new environment (the arguments relabelled by the clause context) *)
Theorem C06_sim_invoke :
  forall (im : image) (p : prog),
    (forall pc c, PM.find pc (code im) = Some c -> instr_wf c = true) ->
  forall (c : ctx) (e : env) (s : xstate) (sp : Z) (v tag : ident) (t : ty) (args : ctx) (code : list xcode) (lc lc' : N)
         (pc : positive) (e0 : env) (x tn : ident) (cls : list clause) (ce : env) (cl : clause) (e1 : env),
    rel (clo_ok im p) c e s sp ->
    AxSem.split_last 1 e = Some (e0, [(x, VClo tn cls ce)]) -> N.eqb (idn x) (idn v) = true ->
    find_clause cls tag = Some cl -> bind (vars (cl_ctx cl)) (map snd e0) = Some e1 ->
    lin_check (sigs_of p) c (Invoke v tag t args) = true ->
    code_statement x86_backend (ptypes p) (Invoke v tag t args) c lc = Ok (code, lc') -> code_at im pc code ->
    exists pcb lcb cb lcb' s',
      exec_to im pc s pcb s' /\
      code_statement x86_backend (ptypes p) (cl_body cl) (cl_ctx cl) lcb = Ok (cb, lcb') /\ code_at im pcb cb /\ labels_at_nh im pcb cb /\
      lin_check (sigs_of p) (cl_ctx cl) (cl_body cl) = true /\ stmt_cf (cl_body cl) = true /\ ctx_cf (cl_ctx cl) = true /\
      rel (clo_ok im p) (cl_ctx cl) (e1 ++ ce) s' sp /\ frame_eq s s' sp.
Proof. exact sim_invoke. Qed.
Print Assumptions C06_sim_invoke.

(* composition for the closure fragment (stmt_cf: the integer statements plus Create with an empty
   environment and at least one clause, and Invoke; variables `ext i64` or `cns T`) *)
Theorem C06_sim_exec_cf :
  forall (im : image) (p : prog) (sp : Z),
    img_ok im ->
    (forall pc a, PM.find pc (addr_of im) = Some a -> a < 4611686018427387904) ->
    (forall pc c, PM.find pc (code im) = Some c -> instr_wf c = true) ->
    (forall d, In d (ptypes p) -> is_hash_label (label_of_type_name (show_ident (tname d))) = false) ->
    (forall d, In d (pdefs p) ->
       exists pcd lcd cd lcd', find_label (labels im) (show_ident (dname d) +++ "_") = Some pcd /\
         PM.find pcd (code im) = Some (LAB (show_ident (dname d) +++ "_")) /\
         code_statement x86_backend (ptypes p) (dbody d) (dctx d) lcd = Ok (cd, lcd') /\
         code_at im (Pos.succ pcd) cd /\ labels_at_nh im (Pos.succ pcd) cd) ->
    (exists pcc, find_label (labels im) "cleanup" = Some pcc /\ code_at im pcc cleanup) ->
    (forall d, In d (pdefs p) -> lin_check (sigs_of p) (dctx d) (dbody d) = true) ->
    (forall d, In d (pdefs p) -> stmt_cf (dbody d) = true) ->
    forall (fuel : nat) (s : stmt) (c : ctx) (e : env) (ot : prints) (st : xstate) (pc : positive)
           (code : list xcode) (lc lc' : N),
      stmt_cf s = true -> lin_check (sigs_of p) c s = true ->
      code_statement x86_backend (ptypes p) s c lc = Ok (code, lc') ->
      code_at im pc code -> labels_at_nh im pc code ->
      rel (clo_ok im p) c e st sp -> outer_ok st sp -> out st = ot ->
      snd (exec_linear fuel p e s ot) <> OOutOfFuel -> finishes im pc st (exec_linear fuel p e s ot).
Proof. exact sim_exec_cf. Qed.
Print Assumptions C06_sim_exec_cf.

(* THE PROGRAM-LEVEL THEOREM for the closure fragment: as C06_codegen_simulates_int, for programs whose
   variables are integers or closures without captured variables and whose statements are Substitute / Call /
   Literal / Op / PrintI64 / IfC / Exit / Create (empty environment) / Invoke (`cf_frag`), whose entry
   definition takes integers (`entry_int`), whose definition and type names do not start with '#', linearly
   well-typed; the emitted code passes asm_wf and is smaller than 2^62 - 2^30 bytes (`code_small`: code
   addresses are added to table offsets in 64-bit arithmetic).  Every terminating run of the linear machine is
   reproduced by the ISA run of the emitted code.  This is the shape of the pipeline's output for first-order
   tail-recursive integer programs (every call passes the return continuation, a closure).
   Missing to the full statement: closures with captured variables and data (Let / Switch): heap blocks. *)
Theorem C06_codegen_simulates_cf :
  forall (p : prog) (lc : N) (cs : list xcode) (n : nat) (lc' : N) (args : list Z) (fuel : nat) (o : obs),
    cf_frag p = true -> entry_int p = true -> plain_names p = true -> plain_types p = true -> lin_check_prog p = true ->
    x86_compile p lc = Ok (cs, n, lc') -> asm_wf cs = None -> code_small cs = true ->
    List.length args = n ->
    run_linear fuel p args = o -> snd o <> OOutOfFuel ->
    exists outer inner, fst (run_x86 outer inner cs args) = o.
Proof. exact x86_codegen_simulates_cf. Qed.
Print Assumptions C06_codegen_simulates_cf.

(* non-vacuity: a program of the pipeline's shape (main creates the return continuation and calls the
   tail-recursive f, which finally invokes it) with a second closure of a two-destructor type entered through
   its jump table; closures are passed along, dropped (erase of a null pointer) and kept by substitutions *)
Theorem C06_codegen_simulates_cf_example_hypotheses :
  cf_frag exc_prog = true /\ entry_int exc_prog = true /\ plain_names exc_prog = true /\ plain_types exc_prog = true /\
  lin_check_prog exc_prog = true /\
  (exists n lc', x86_compile exc_prog 0 = Ok (exc_code, n, lc')) /\ asm_wf exc_code = None /\ code_small exc_code = true.
Proof. exact exc_hypotheses. Qed.
Print Assumptions C06_codegen_simulates_cf_example_hypotheses.
Theorem C06_codegen_simulates_cf_example_runs :
  run_linear 60 exc_prog [4] = ([(false, 4); (false, 7); (false, 9); (false, 10); (true, 10)], OExit 10) /\
  fst (run_x86 10 2000 exc_code [4]) = ([(false, 4); (false, 7); (false, 9); (false, 10); (true, 10)], OExit 10) /\
  run_linear 60 exc_prog [-3] = ([], OExit (-21)) /\
  fst (run_x86 10 2000 exc_code [-3]) = ([], OExit (-21)).
Proof. exact exc_runs. Qed.
Print Assumptions C06_codegen_simulates_cf_example_runs.


(* ======================================================================================== *)
(* HEAP statements: Let / Switch / Create with captured variables / Invoke / Substitute on    *)
(* objects - and the program-level theorem for ALL statement forms (worker sim86b)           *)
(* ======================================================================================== *)
From SCC Require Import Model.Linearize Proof.X86Mem Sem.AxHeap Proof.X86HeapDefs Proof.X86HBridge Proof.X86HFrame Proof.X86HSimRel Proof.X86HSimStmt
     Proof.X86HSimStore Proof.X86HSimLoad Proof.X86HSimSubst Proof.X86HLayout Proof.X86HSimHeapA Proof.X86HAnn Proof.X86HAnnLin
     Proof.X86HSimHeapB Proof.X86HSimHeapC Proof.X86HSimProgA Proof.X86HSimProg Proof.X86HSimTop Proof.X86HSimCor Proof.X86HSimExample
     Proof.AxHeapExample.
From SCC Require Model.Heap Proof.HeapRep Proof.AxHeapTyping Proof.AxHeapSafe Proof.X86MemStoreChain Proof.X86HeapAcq Proof.X86State.
Open Scope Z_scope.
Open Scope list_scope.
(* THE STATE RELATION  `hrel types CLO c he hs s sp`  (Proof/X86HSimRel.v) between a configuration of the
   HEAP-INSTRUMENTED linear machine (Sem/AxHeap.v: environment he of (name, value, block pointer) by position, abstract
   allocator state hs of Model/Heap.v) and an ISA state s.  It extends `rel` above:
     frame / alignment / room as in `rel`;
     register HEAP = Heap.heap hs (allocation frontier block), register FREE = Heap.free hs (head of the free list);
     `heq (abs_heap (Heap.frontier hs) s) hs`: the abstraction of the ISA heap (C09) and the allocator state agree on
        frontier, heap, free, and on every block's header and next pointer, and on the slots UP TO ZERO PADDING
        (a zeroed block is [] in the model and [0;0;0] in memory);
     names of he and c agree, pairwise distinct; position i is represented (`hvrep`):
       integer z (ext i64): second temporary = z;
       object / closure v with block pointer q (the one the instrumented machine carries): first temporary = q,
         second temporary = a with  `xrep types CLO (hword s) v q a`, a relation over the heap WORDS of s:
           object  VObj tn tag fs : a = jump_length (position of tag in tn) (`tag_word`, with the field kinds);
           closure VClo tn cls ce : `CLO a tn cls (ctx_of_env ce)` - for the program-level theorem CLO is
             `hclo_ok im p`: a is the address of the code of the clauses (jump table or the single clause), each
             clause's field-load code and body placed there, compiled in context  cl_ctx ++ captured context;
           fields (`xflds`): none and q = 0; or q is a chain of nlinks(#fields) blocks (`wblocks`, all `is_blk`) whose
             slot addresses (`waddrs`, three per block, in field order) hold zero padding first and then, per field,
             pointer word and data word at +8 related by `xrep` again.
   `hframe_eq s s' sp`: output unchanged and every stack word outside the spill area unchanged (the heap changes).
   First consequence: operand lookup of integers. *)
Theorem C06_heap_rel_reads :
  forall (types : list tydecl) (CLO : Z -> ident -> list clause -> ctx -> Prop) (c : ctx) (he : henv) (hs : Heap.st)
         (s : xstate) (sp : Z) (a : ident) (x : Z),
    hrel types CLO c he hs s sp ->
    lookup_int (erase_env he) a = Some x ->
    exists (i : nat) (b : binding) (t : xtemp),
      nth_error c i = Some b /\ idn (bvar b) = idn a /\ SubstGraph.tpos x86_backend Snd i = Ok t /\ X86State.lget s sp t = Some x.
Proof. exact hrel_lookup. Qed.
Print Assumptions C06_heap_rel_reads.

(* BRIDGE from the invariant of the abstract allocator (C09/C10: InvA with the roots of the environment) to the
   hypotheses of the x86-64 refinement theorems of C09.
   Allocation of an object with the given field pointers: the precondition `alloc_object_pre` of the store refinement
   holds on the ABSTRACTED ISA heap; the blocks acquired there are the ones the model acquires, pairwise distinct,
   inside the heap region and not reachable from the roots.  Numeric hypotheses: fewer than 2^20 roots (true: at most
   134 positions), and the frontier after the allocation leaves room for one block (`heap_fits` below). *)
Theorem C06_heap_bridge_alloc :
  forall (fields : list Z) (a s : Heap.st) (R R0 hl fl cl : list Z),
    InvA HEAP_BASE s R hl fl cl -> heq a s -> P3 s ->
    Permutation.Permutation R (Heap.nz fields ++ R0) ->
    fields <> nil ->
    Z.of_nat (List.length R) < 1048576 ->
    Heap.frontier (snd (Heap.alloc_object fields s)) + 64 <= LIMIT ->
    X86MemStoreChain.alloc_object_pre fields a /\
    X86HeapAcq.alloc_object_acq fields a = X86HeapAcq.alloc_object_acq fields s /\
    NoDup (X86HeapAcq.alloc_object_acq fields s) /\
    (forall b : Z, In b (X86HeapAcq.alloc_object_acq fields s) -> is_blk b /\ ~ reach (Heap.m s) R b).
Proof. exact alloc_object_bridge. Qed.
Print Assumptions C06_heap_bridge_alloc.
(* reference counts are 32-bit (header bound of the share / erase refinements): at most one reference per slot of
   a block of the region plus one per root *)
Theorem C06_heap_bridge_header_bounds :
  forall (s : Heap.st) (R hl fl cl : list Z),
    InvA HEAP_BASE s R hl fl cl -> P3 s -> Heap.frontier s <= LIMIT -> Z.of_nat (List.length R) <= 1048576 ->
    forall x : Z, is_blk x -> 0 <= Heap.hdr (Heap.m s x) <= HB.
Proof. exact hdr_bounds_x. Qed.
Print Assumptions C06_heap_bridge_header_bounds.
(* operands are blocks: everything reachable from the roots is a block of the heap region *)
Theorem C06_heap_bridge_operands_are_blocks :
  forall (s : Heap.st) (R hl fl cl : list Z) (b : Z),
    InvA HEAP_BASE s R hl fl cl -> Heap.frontier s <= LIMIT -> reach (Heap.m s) R b -> is_blk b.
Proof. exact reach_is_blk. Qed.
Print Assumptions C06_heap_bridge_operands_are_blocks.
(* the pointers the instrumented machine reads out of an object (`load_ptrs`, from the model's slots) are the
   pointer words of the ISA heap at the slot addresses of the chain *)
Theorem C06_heap_bridge_loaded_pointers :
  forall (F : Z) (s : xstate) (hs : Heap.st) (lk : HeapRep.lkmap) (fs : list value) (q : Z),
    heq (abs_heap F s) hs -> P03 hs -> fs <> nil ->
    HeapRep.rep_flds lk (Heap.m hs) fs q ->
    Forall is_blk (wblocks (Heap.nlinks (List.length fs)) (hword s) q) ->
    load_ptrs hs (List.length fs) q =
    map (hword s) (skipn (List.length (waddrs (Heap.nlinks (List.length fs)) (hword s) q) - List.length fs)
                         (waddrs (Heap.nlinks (List.length fs)) (hword s) q)).
Proof. exact load_ptrs_words. Qed.
Print Assumptions C06_heap_bridge_loaded_pointers.

(* STATEMENT LEVEL.  `Let v = tag(args); next`: the code stores the last |args| positions into a fresh chain of blocks
   (acquire from the free list or the frontier, deferred erase of the fields of a reused block, zero padding), loads
   the tag and falls into the code of `next` (placed behind: c3), in the state related to the machine's next
   configuration: the fields are consumed, v is bound to the object, the allocator state is alloc_object's. *)
Theorem C06_sim_let :
  forall (im : image) (p : prog) (c : ctx) (he : henv) (hs : Heap.st) (s : xstate) (sp : Z) (v : ident) (t : ty) (tag : ident)
         (args : ctx) (next : stmt) (lc : N) (code : list xcode) (lc' : N) (pc : positive) (he0 fs : list hentry) (tn : ident)
         (hl fl cl : list Z),
    hrel (ptypes p) (hclo_ok im p) c he hs s sp ->
    lin_check (sigs_of p) c (Let v t tag args next) = true ->
    code_statement x86_backend (ptypes p) (Let v t tag args next) c lc = Ok (code, lc') ->
    X86Exec.code_at im pc code ->
    X86SimRel.labels_at_nh im pc code ->
    ty_name t = Some tn ->
    AxSem.split_last (List.length args) he = Some (he0, fs) ->
    InvA HEAP_BASE hs (roots he) hl fl cl ->
    P03 hs ->
    (forall en : hentry, In en he -> chi_of (h_val en) = Ext -> h_ptr en = 0) ->
    let res0 := Heap.alloc_object (map store_ptr fs) hs in
    Heap.frontier (snd res0) + 64 <= LIMIT ->
    Heap.heap (snd res0) <> 0 ->
    Heap.free (snd res0) <> 0 ->
    let c0 := firstn (List.length c - List.length args) c in
    exists (c12 c3 : list xcode) (lc1 : N) (s' : xstate),
      code = c12 ++ c3 /\
      code_statement x86_backend (ptypes p) next (c0 ++ {| bvar := v; bchi := Prd; bty := t |} :: nil) lc1 = Ok (c3, lc') /\
      lin_check (sigs_of p) (c0 ++ {| bvar := v; bchi := Prd; bty := t |} :: nil) next = true /\
      X86Exec.exec_to im pc s (X86Exec.padd pc (List.length c12)) s' /\
      hrel (ptypes p) (hclo_ok im p) (c0 ++ {| bvar := v; bchi := Prd; bty := t |} :: nil)
        (he0 ++ (v, VObj tn tag (map h_val fs), fst res0) :: nil) (snd res0) s' sp /\ hframe_eq s s' sp.
Proof. exact hsim_let. Qed.
Print Assumptions C06_sim_let.

(* `Switch v {clauses}`: the code dispatches on the tag (second temporary; jump table of `jump_length` entries, or
   fall-through for a single clause), the clause's code loads the fields (share of each field pointer, release of the
   block or decrement, chain walk) and reaches the code of the clause body - placed in the image, compiled in the
   context the machine continues in - in a related state.  `back_ok im`: a jump to an address enters at the FIRST
   instruction placed there (labels have size zero); addresses below 2^62. *)
Theorem C06_sim_switch :
  forall (im : image) (p : prog),
    X86SimAddr.img_ok im -> back_ok im ->
    (forall (pc : PM.key) (a : Z), PM.find pc (addr_of im) = Some a -> a < 4611686018427387904) ->
    forall (c : ctx) (he : henv) (hs : Heap.st) (s : xstate) (sp : Z) (v : ident) (t : ty) (cls : list (ident * ctx * stmt))
           (lc : N) (code : list xcode) (lc' : N) (pc : positive) (he0 : list hentry) (x tn tag : ident) (fs : list value)
           (q : Z) (cl : clause) (e1 : env) (lk : HeapRep.lkmap) (hl fl cl0 : list Z),
    hrel (ptypes p) (hclo_ok im p) c he hs s sp ->
    lin_check (sigs_of p) c (Switch v t cls) = true ->
    code_statement x86_backend (ptypes p) (Switch v t cls) c lc = Ok (code, lc') ->
    X86Exec.code_at im pc code ->
    X86SimRel.labels_at_nh im pc code ->
    (forall lcx : N, is_hash_label (type_label t lcx) = false) ->
    AxSem.split_last 1 he = Some (he0, (x, VObj tn tag fs, q) :: nil) ->
    find_clause cls tag = Some cl ->
    bind (vars (cl_ctx cl)) fs = Some e1 ->
    InvA HEAP_BASE hs (roots he) hl fl cl0 ->
    P03 hs ->
    Heap.frontier hs <= LIMIT ->
    (fs <> nil -> HeapRep.rep_flds lk (Heap.m hs) fs q) ->
    let c0 := removelast c in
    exists (pcb : positive) (lcb : N) (cb : list xcode) (lcb' : N) (s' : xstate),
      X86Exec.exec_to im pc s pcb s' /\
      code_statement x86_backend (ptypes p) (cl_body cl) (c0 ++ cl_ctx cl) lcb = Ok (cb, lcb') /\
      X86Exec.code_at im pcb cb /\
      X86SimRel.labels_at_nh im pcb cb /\
      lin_check (sigs_of p) (c0 ++ cl_ctx cl) (cl_body cl) = true /\
      hrel (ptypes p) (hclo_ok im p) (c0 ++ cl_ctx cl) (he0 ++ attach e1 (load_ptrs hs (List.length (cl_ctx cl)) q))
        (hrun (load_ops (List.length (cl_ctx cl)) q) hs) s' sp /\ hframe_eq s s' sp.
Proof. exact hsim_switch. Qed.
Print Assumptions C06_sim_switch.

(* `Create v {clauses} capturing env0; next`: the captured positions are stored like the fields of a Let, the second
   temporary gets the address of the clauses' code (lea of a label placed behind `next`), and the closure is
   represented with CLO = hclo_ok: every clause's code is in the image.  Two structural hypotheses on the
   annotation: it IS the end of the context, names included (`skipn ... = env0`; the generator orders the field
   stores by position, the reference-count operations of a later substitution by name), and `ann_clauses_cr`
   (the same for the statements inside the clauses). *)
Theorem C06_sim_create_captured :
  forall (im : image) (p : prog),
    X86SimAddr.img_ok im -> back_ok im ->
    (forall (pc : PM.key) (a : Z), PM.find pc (addr_of im) = Some a -> a < 4611686018427387904) ->
    forall (c : ctx) (he : henv) (hs : Heap.st) (s : xstate) (sp : Z) (v : ident) (t : ty) (env0 : ctx) (cls : list (ident * ctx * stmt))
           (next : stmt) (lc : N) (code : list xcode) (lc' : N) (pc : positive) (he0 cap : list hentry) (tn : ident) (ce : env)
           (hl fl cl : list Z),
    hrel (ptypes p) (hclo_ok im p) c he hs s sp ->
    lin_check (sigs_of p) c (Create v t (Some env0) cls next) = true ->
    skipn (List.length c - List.length env0) c = env0 ->
    ann_clauses_cr env0 cls = true ->
    code_statement x86_backend (ptypes p) (Create v t (Some env0) cls next) c lc = Ok (code, lc') ->
    X86Exec.code_at im pc code ->
    X86SimRel.labels_at_nh im pc code ->
    (forall lcx : N, is_hash_label (type_label t lcx) = false) ->
    ty_name t = Some tn ->
    AxSem.split_last (List.length env0) he = Some (he0, cap) ->
    bind (vars env0) (map h_val cap) = Some ce ->
    InvA HEAP_BASE hs (roots he) hl fl cl ->
    P03 hs ->
    (forall en : hentry, In en he -> chi_of (h_val en) = Ext -> h_ptr en = 0) ->
    let res0 := Heap.alloc_object (map store_ptr cap) hs in
    Heap.frontier (snd res0) + 64 <= LIMIT ->
    Heap.heap (snd res0) <> 0 ->
    Heap.free (snd res0) <> 0 ->
    let c0 := firstn (List.length c - List.length env0) c in
    exists (c12 c3 : list xcode) (lc2 lc3 : N) (rest' : list xcode) (s' : xstate),
      code = c12 ++ c3 ++ rest' /\
      code_statement x86_backend (ptypes p) next (c0 ++ {| bvar := v; bchi := Cns; bty := t |} :: nil) lc2 = Ok (c3, lc3) /\
      lin_check (sigs_of p) (c0 ++ {| bvar := v; bchi := Cns; bty := t |} :: nil) next = true /\
      X86Exec.exec_to im pc s (X86Exec.padd pc (List.length c12)) s' /\
      hrel (ptypes p) (hclo_ok im p) (c0 ++ {| bvar := v; bchi := Cns; bty := t |} :: nil) (he0 ++ (v, VClo tn cls ce, fst res0) :: nil)
        (snd res0) s' sp /\ hframe_eq s s' sp.
Proof. exact hsim_create. Qed.
Print Assumptions C06_sim_create_captured.

(* `Invoke v tag`: indirect jump through the second temporary (plus the table offset of tag), the clause's code
   loads the captured variables from the block in the first temporary behind the arguments, and reaches the clause
   body's code (all from `hclo_ok`), in a related state *)
Theorem C06_sim_invoke_captured :
  forall (im : image) (p : prog) (c : ctx) (he : henv) (hs : Heap.st) (s : xstate) (sp : Z) (v tag : ident) (t : ty)
         (args : ctx) (cd : list xcode) (lc lc' : N) (pc : positive) (he0 : list hentry) (x tn : ident) (cls : list clause)
         (ce : list (ident * value)) (q : Z) (cl : clause) (e1 : env) (lk : HeapRep.lkmap) (hl fl cl0 : list Z),
    hrel (ptypes p) (hclo_ok im p) c he hs s sp ->
    (forall (pc0 : PM.key) (c0 : xcode), PM.find pc0 (code im) = Some c0 -> instr_wf c0 = true) ->
    AxSem.split_last 1 he = Some (he0, (x, VClo tn cls ce, q) :: nil) ->
    find_clause cls tag = Some cl ->
    bind (vars (cl_ctx cl)) (map snd (erase_env he0)) = Some e1 ->
    lin_check (sigs_of p) c (Invoke v tag t args) = true ->
    code_statement x86_backend (ptypes p) (Invoke v tag t args) c lc = Ok (cd, lc') ->
    X86Exec.code_at im pc cd ->
    InvA HEAP_BASE hs (roots he) hl fl cl0 ->
    P03 hs ->
    Heap.frontier hs <= LIMIT ->
    (ce <> nil -> HeapRep.rep_flds lk (Heap.m hs) (map snd ce) q) ->
    exists (pcb : positive) (lcb : N) (cb : list xcode) (lcb' : N) (s' : xstate),
      X86Exec.exec_to im pc s pcb s' /\
      code_statement x86_backend (ptypes p) (cl_body cl) (cl_ctx cl ++ ctx_of_env ce) lcb = Ok (cb, lcb') /\
      X86Exec.code_at im pcb cb /\
      X86SimRel.labels_at_nh im pcb cb /\
      lin_check (sigs_of p) (cl_ctx cl ++ ctx_of_env ce) (cl_body cl) = true /\
      ann_check (cl_ctx cl ++ ctx_of_env ce) (cl_body cl) = true /\
      hrel (ptypes p) (hclo_ok im p) (cl_ctx cl ++ ctx_of_env ce) (attach e1 (ptrs he0) ++ attach ce (load_ptrs hs (List.length ce) q))
        (hrun (load_ops (List.length ce) q) hs) s' sp /\ hframe_eq s s' sp.
Proof. exact hsim_invoke. Qed.
Print Assumptions C06_sim_invoke_captured.

(* `Substitute` with objects and closures among the variables: the weakening / contraction code (erase of every
   dropped pointer, share of every duplicated one - the instrumented machine's `subst_ops`, in the generator's
   order) followed by the parallel moves of both temporaries *)
Theorem C06_sim_substitute_objects :
  forall (im : image) (types : list tydecl) (CLO : Z -> ident -> list clause -> ctx -> Prop) (c : ctx) (he : henv) (hs : Heap.st)
         (s : xstate) (sp : Z) (re : list (binding * ident)) (he' : henv) (c1 : list xcode) (lc lc1 : N) (c2 : list xcode)
         (pc : positive) (hl fl cl : list Z),
    hrel types CLO c he hs s sp ->
    NoDup (SubstGraph.new_ids re) ->
    (forall q : binding * ident, In q re -> has c (snd q) (bchi (fst q)) (bty (fst q)) = true) ->
    hsubst he re = Some he' ->
    ctx_of he = c ->
    InvA HEAP_BASE hs (roots he) hl fl cl ->
    P03 hs ->
    Heap.frontier hs <= LIMIT ->
    code_weakening_contraction x86_backend (transpose re c) c lc = Ok (c1, lc1) ->
    code_exchange x86_backend (transpose re c) c (map fst re) = Ok c2 ->
    X86Exec.code_at im pc (c1 ++ c2) ->
    X86SimRel.labels_at_nh im pc (c1 ++ c2) ->
    exists s' : xstate,
      X86Exec.exec_to im pc s (X86Exec.padd pc (List.length (c1 ++ c2))) s' /\
      hrel types CLO (map fst re) he' (hrun (subst_ops he re) hs) s' sp /\ hframe_eq s s' sp.
Proof. exact hsim_substitute. Qed.
Print Assumptions C06_sim_substitute_objects.

(* COMPOSITION by induction on the fuel of the instrumented machine's run function, all eleven statement forms,
   progress included; `hinv`: the allocator invariant with the environment as roots, typing of the configuration,
   blocks have zero or three slots, and the frontier bound along the rest of the run *)
Theorem C06_sim_exec_heap :
  forall (im : image) (p : prog) (sp : Z),
    X86SimAddr.img_ok im -> back_ok im ->
    (forall (pc : PM.key) (a : Z), PM.find pc (addr_of im) = Some a -> a < 4611686018427387904) ->
    (forall (pc : PM.key) (c : xcode), PM.find pc (code im) = Some c -> instr_wf c = true) ->
    (forall d : tydecl, In d (ptypes p) -> is_hash_label (label_of_type_name (show_ident (tname d))) = false) ->
    (forall d : def, In d (pdefs p) ->
      exists (pcd : positive) (lcd : N) (cd : list xcode) (lcd' : N),
        find_label (labels im) (show_ident (dname d) +++ "_") = Some pcd /\
        PM.find pcd (code im) = Some (LAB (show_ident (dname d) +++ "_")) /\
        code_statement x86_backend (ptypes p) (dbody d) (dctx d) lcd = Ok (cd, lcd') /\
        X86Exec.code_at im (Pos.succ pcd) cd /\ X86SimRel.labels_at_nh im (Pos.succ pcd) cd) ->
    (exists pcc : positive, find_label (labels im) "cleanup" = Some pcc /\ X86Exec.code_at im pcc cleanup) ->
    lin_check_prog p = true ->
    ann_check_prog p = true ->
    forall (fuel : nat) (s : stmt) (c : ctx) (he : henv) (hs : Heap.st) (ot : prints) (tr : list Heap.op) (st : xstate)
           (pc : positive) (code : list xcode) (lc lc' : N),
    lin_check (sigs_of p) c s = true ->
    ann_check c s = true ->
    code_statement x86_backend (ptypes p) s c lc = Ok (code, lc') ->
    X86Exec.code_at im pc code ->
    X86SimRel.labels_at_nh im pc code ->
    hrel (ptypes p) (hclo_ok im p) c he hs st sp ->
    map h_id he = vars c ->
    hinv p he hs s ->
    X86SimProg.outer_ok st sp ->
    out st = ot ->
    X86SimProg.not_oof (fst (fst (hexec fuel p {| hc_env := he; hc_heap := hs; hc_stmt := s |} ot tr))) ->
    X86SimRel.finishes im pc st (fst (fst (hexec fuel p {| hc_env := he; hc_heap := hs; hc_stmt := s |} ot tr))).
Proof. exact hsim_exec. Qed.
Print Assumptions C06_sim_exec_heap.

(* THE PROGRAM-LEVEL THEOREM, ALL STATEMENT FORMS.  For every linearly well-typed program (C05) whose entry takes
   integers (`entry_ext`), with plain definition and type names, whose emitted code passes asm_wf and code_small:
   every run of the linear machine that ends (result, undefined operation, or stuck - anything but out-of-fuel) is
   reproduced by the ISA run of the emitted code, same prints, same end.  No restriction on statement forms is left.
   `_partial` because of two hypotheses that are not checks of C14 on the output:
     ann_check_prog p    (boolean) every Create's annotation is literally the end of its context (and every clause of
                         a Switch / Create is checked in the context the generator uses).  The generator stores
                         captured variables by position but orders reference-count operations by name, so a Create
                         annotated with other names is outside what the proof covers.  NOT a restriction for the
                         compiler: every output of the linearization pass satisfies it (C06_linearize_ann), whence
                         C06_codegen_correct_linearized_partial without it.
     heap_fits p args    (not a boolean on p: a bound along the run) in every configuration the instrumented machine
                         reaches from the arguments, allocation frontier + 64 <= HEAP_BASE + HEAP_SIZE: the run fits
                         the 32 MiB heap region of the ISA model.  Necessary: the linear machine has no memory
                         bound, the ISA model faults outside the region (and the generated code does not check).
                         Decided along any terminating run by `fits_run` (C06_heap_fits_decided). *)
Theorem C06_codegen_simulates_partial :
  forall (p : prog) (lc : N) (cs : list xcode) (n : nat) (lc' : N) (args : list Z) (fuel : nat) (o : obs),
    lin_check_prog p = true -> ann_check_prog p = true -> AxHeapTyping.entry_ext p = true ->
    plain_names p = true -> plain_types p = true ->
    x86_compile p lc = Ok (cs, n, lc') -> asm_wf cs = None -> code_small cs = true ->
    List.length args = n -> heap_fits p args ->
    run_linear fuel p args = o -> snd o <> OOutOfFuel ->
    exists outer inner, fst (run_x86 outer inner cs args) = o.
Proof. exact x86_codegen_simulates. Qed.
Print Assumptions C06_codegen_simulates_partial.

(* the annotation check holds for every output of the linearization pass *)
Theorem C06_linearize_ann : forall p : prog, prog_ok p = true -> ann_check_prog (linearize p) = true.
Proof. exact linearize_ann. Qed.
Print Assumptions C06_linearize_ann.

(* C06_codegen_correct_statement for the compiler's own intermediate programs: the code generator applied to the
   output of the linearization pass; both structural checks are theorems (C05_linearize_exact, C06_linearize_ann);
   runs that end with a result or an undefined operation (then the argument count is right) *)
Theorem C06_codegen_correct_linearized_partial :
  forall (a : prog) (lc : N) (cs : list xcode) (n : nat) (lc' : N) (args : list Z) (fuel : nat) (o : obs),
    prog_ok a = true ->
    AxHeapTyping.entry_ext (linearize a) = true -> plain_names (linearize a) = true -> plain_types (linearize a) = true ->
    x86_compile (linearize a) lc = Ok (cs, n, lc') -> asm_wf cs = None -> code_small cs = true ->
    heap_fits (linearize a) args ->
    run_linear fuel (linearize a) args = o -> defined o = true ->
    exists outer inner, fst (run_x86 outer inner cs args) = o.
Proof. exact x86_codegen_correct_linearized. Qed.
Print Assumptions C06_codegen_correct_linearized_partial.

(* `heap_fits` is decided by running the instrumented machine: if the run ends within the fuel and every
   configuration on the way passes the bound, the hypothesis holds *)
Theorem C06_heap_fits_decided :
  forall (fuel : nat) (p : prog) (args : list Z), fits_run fuel p args = true -> heap_fits p args.
Proof. exact fits_run_sound. Qed.
Print Assumptions C06_heap_fits_decided.

(* non-vacuity: the program of Proof/AxHeapExample.v, linearized - lists built by Let and taken apart by Switch, a
   five-field record (two chained blocks), an object shared and one dropped by substitutions, a closure that
   CAPTURES an integer and is invoked, two definitions calling each other: every hypothesis evaluated; the theorem
   applied; and both machines evaluated on the arguments [3; 100] *)
Theorem C06_codegen_simulates_heap_example_hypotheses :
  lin_check_prog hx_lin = true /\ ann_check_prog hx_lin = true /\ AxHeapTyping.entry_ext hx_lin = true /\
  plain_names hx_lin = true /\ plain_types hx_lin = true /\
  (exists lc', x86_compile hx_lin 0 = Ok (hxe_code, 2%nat, lc')) /\ asm_wf hxe_code = None /\ code_small hxe_code = true /\
  fits_run 2000 hx_lin [3; 100] = true.
Proof. exact hxe_hypotheses. Qed.
Print Assumptions C06_codegen_simulates_heap_example_hypotheses.
Theorem C06_codegen_simulates_heap_example_applied :
  exists outer inner, fst (run_x86 outer inner hxe_code [3; 100]) = run_linear 2000 hx_lin [3; 100].
Proof. exact hxe_simulated. Qed.
Print Assumptions C06_codegen_simulates_heap_example_applied.
Theorem C06_codegen_simulates_heap_example_runs :
  run_linear 2000 hx_lin [3; 100] = ([(true, 106)], OExit 106) /\
  fst (run_x86 20 2000 hxe_code [3; 100]) = ([(true, 106)], OExit 106).
Proof. exact hxe_runs. Qed.
Print Assumptions C06_codegen_simulates_heap_example_runs.

(* `heap_fits` is needed: the statement without a heap bound is false in the ISA model.  The allocation code emitted
   for one integer field, run from the state whose HEAP register holds the LAST block of the heap region (FREE the
   frontier, heap zeroed), faults with an out-of-bounds load: acquire_block inspects the header at HEAP_BASE +
   HEAP_SIZE, no comparison with the end of the region is emitted (Proof/X86HeapFull.v; known finding
   heap-exhaustion-unchecked of C09, exhibited on the REAL code by step heapfull-x86 and natively by
   corpus/c09/heap_exhaustion.sc) *)
From SCC Require Import Proof.X86HeapFull.
Theorem C06_allocation_without_heap_bound_refuted :
  ~ (forall h : Z, is_blk h -> hf_outcome h = hf_end).
Proof. exact alloc_in_region_refuted. Qed.
Print Assumptions C06_allocation_without_heap_bound_refuted.

(* ======================= the two checks on the output are theorems now =======================
   `asm_wf cs = None` and `code_small cs = true` of C06_codegen_simulates_partial were CHECKED on the real output
   of every run; they are PROVED now for the model's output (Props/C14.v: C14_x86_compile_asm_wf,
   C14_x86_compile_code_small) under boolean guards on the program:
     labels_guard p   the label texts <Type>_<k>[_<Xtor>] are unambiguous (Sem/LabelGuard.v; outside it: known
                      finding label-collision-name-digits)
     imm_guard p      literals are 64-bit values; a Substitute lists at most 2^31 pairs; a type declares at most
                      2^28 xtors (Sem/WfGuard.v)
     size_guard p     cg_bound_defs (pdefs p) <= 2^40 (the size measure of C19)
   (calls_guard follows from lin_check_prog).  Still `_partial`-free only up to the two hypotheses discussed at
   C06_codegen_simulates_partial that are not about the emitted code: ann_check_prog p (a theorem for every output
   of the linearization pass: second statement) and heap_fits p args (a bound along the run). *)
From SCC Require Import Sem.LabelGuard Sem.WfGuard Proof.X86WfAll Proof.X86WfCor.

Theorem C06_codegen_simulates :
  forall (p : prog) (lc : N) (cs : list xcode) (n : nat) (lc' : N) (args : list Z) (fuel : nat) (o : obs),
    lin_check_prog p = true -> ann_check_prog p = true -> AxHeapTyping.entry_ext p = true ->
    plain_names p = true -> plain_types p = true ->
    labels_guard p = true -> imm_guard p = true -> size_guard p = true ->
    x86_compile p lc = Ok (cs, n, lc') ->
    List.length args = n -> heap_fits p args ->
    run_linear fuel p args = o -> snd o <> OOutOfFuel ->
    exists outer inner, fst (run_x86 outer inner cs args) = o.
Proof. exact x86_codegen_simulates_wf. Qed.
Print Assumptions C06_codegen_simulates.

Theorem C06_codegen_correct_linearized :
  forall (a : prog) (lc : N) (cs : list xcode) (n : nat) (lc' : N) (args : list Z) (fuel : nat) (o : obs),
    prog_ok a = true ->
    AxHeapTyping.entry_ext (linearize a) = true -> plain_names (linearize a) = true -> plain_types (linearize a) = true ->
    labels_guard (linearize a) = true -> imm_guard (linearize a) = true -> size_guard (linearize a) = true ->
    x86_compile (linearize a) lc = Ok (cs, n, lc') ->
    heap_fits (linearize a) args ->
    run_linear fuel (linearize a) args = o -> defined o = true ->
    exists outer inner, fst (run_x86 outer inner cs args) = o.
Proof. exact x86_codegen_correct_linearized_wf. Qed.
Print Assumptions C06_codegen_correct_linearized.

(* non-vacuity: the heap example of C06_codegen_simulates_heap_example_hypotheses passes the new guards too *)
Theorem C06_codegen_simulates_example_guards :
  labels_guard hx_lin = true /\ imm_guard hx_lin = true /\ size_guard hx_lin = true /\ calls_guard hx_lin = true.
Proof. exact hx_lin_guards. Qed.
Print Assumptions C06_codegen_simulates_example_guards.
