(* C06: x86-64 code generation preserves AxCut semantics.
   Only statements here; proofs live in Proof/X86Sel.v, Proof/X86State.v, Proof/X86Consts.v.

   Layering (DESIGN.md, C06): L0 AxCut linear machine -> L1 abstract back-end operations
   (Model/Backend.v) -> L2 x86-64 instructions (Model/X86.v) on the ISA semantics Sem/X86Sem.v.
   What is PROVED here is L1 -> L2 for the integer fragment: for every placement of target and
   operands in registers or spill slots, every aliasing between operands, and every contents of
   registers and memory, the instruction sequence the model emits has exactly the abstract
   operation's effect and changes nothing but the target, rcx and the flags.
   What is NOT proved: the memory operations (store/load/acquire/erase/share) at L1 -> L2 and the
   generic simulation L0 -> L1; whole-program preservation is therefore established by the
   correspondence check plus execution of the implementation's output on the ISA model against
   the AxCut machine (see the evidence file), and stated below as C06_codegen_correct_statement. *)
From Coq Require Import List ZArith NArith String Bool.
From SCC Require Import Lang.AxSyn Sem.AxSem Model.Backend Model.X86 Sem.X86Sem Proof.X86State Proof.X86Sel Proof.X86Consts.
Import ListNotations.
Open Scope Z_scope.

(* all five operators, against the AxCut meaning of the operator (64-bit wrapping, truncating
   division, undefined cases excluded by `eval_op … = OpVal v`) *)
Theorem C06_x86_arith_selection :
  forall (im : image) (o : binop) (s : xstate) (sp : Z) (t s1 s2 : xtemp) (a b v : Z),
    frame_ok s sp -> div_pre t s1 s2 ->
    lget s sp s1 = Some a -> lget s sp s2 = Some b -> eval_op o a b = OpVal v ->
    exists s', exec_straight im (x_arith o t s1 s2) s = Some s' /\
               lget s' sp t = Some v /\ preserved s s' sp t.
Proof. exact x86_arith_ok. Qed.
Print Assumptions C06_x86_arith_selection.

(* add/mul also when the target aliases an operand (used by the jump-table dispatch) *)
Theorem C06_x86_commutative_selection_aliasing :
  forall (im : image) (o : aop) (s : xstate) (sp : Z) (t s1 s2 : xtemp) (a b : Z),
    o <> ASub -> frame_ok s sp -> loc_ok t -> loc_ok s1 -> loc_ok s2 ->
    t <> XR TEMP -> s1 <> XR TEMP -> s2 <> XR TEMP ->
    lget s sp s1 = Some a -> lget s sp s2 = Some b ->
    exists s', exec_straight im (op_commutative (to_register o) (to_spill o) t s1 s2) s = Some s' /\
               lget s' sp t = Some (wrap (aop_f o a b)) /\ preserved s s' sp t.
Proof. exact x86_op_commutative_ok. Qed.
Print Assumptions C06_x86_commutative_selection_aliasing.

Theorem C06_x86_mov_selection :
  forall (im : image) (s : xstate) (sp : Z) (t src : xtemp),
    frame_ok s sp -> loc_ok t -> loc_ok src -> t <> XR TEMP -> src <> XR TEMP ->
    exists s', exec_straight im (x_mov t src) s = Some s' /\
               lget s' sp t = lget s sp src /\ preserved s s' sp t.
Proof. exact x86_mov_ok. Qed.
Print Assumptions C06_x86_mov_selection.

(* every 64-bit literal into a register or a spill slot (after the fix: of c20b82f; the
   direct `mov qword [rsp+off], imm64` form is used only for sign-extended 32-bit values) *)
Theorem C06_x86_load_immediate_selection :
  forall (im : image) (s : xstate) (sp : Z) (t : xtemp) (i : Z),
    frame_ok s sp -> loc_ok t -> t <> XR TEMP ->
    exists s', exec_straight im (x_load_immediate t i) s = Some s' /\
               lget s' sp t = Some i /\ preserved s s' sp t.
Proof. exact x86_load_immediate_ok. Qed.
Print Assumptions C06_x86_load_immediate_selection.

(* comparisons: the flags hold the two operands, and the conditional jump is taken exactly when
   the AxCut comparison holds (all six sorts; two-operand and zero forms) *)
Theorem C06_x86_compare_selection :
  forall (im : image) (s : xstate) (sp : Z) (t1 t2 : xtemp) (a b : Z),
    frame_ok s sp -> loc_ok t1 -> loc_ok t2 -> t1 <> XR TEMP -> t2 <> XR TEMP ->
    lget s sp t1 = Some a -> lget s sp t2 = Some b ->
    exists s', exec_straight im (compare t1 t2) s = Some s' /\ flags s' = Some (a, b) /\
               (forall l, loc_ok l -> l <> XR TEMP -> lget s' sp l = lget s sp l) /\
               heap s' = heap s /\ out s' = out s /\ frame_ok s' sp.
Proof. exact x86_compare_ok. Qed.
Print Assumptions C06_x86_compare_selection.
Theorem C06_x86_compare_zero_selection :
  forall (im : image) (s : xstate) (sp : Z) (t : xtemp) (a : Z),
    frame_ok s sp -> loc_ok t -> lget s sp t = Some a ->
    exec_straight im (compare_immediate t 0) s = Some (set_flags s (Some (a, 0))).
Proof. exact x86_compare_zero_ok. Qed.
Print Assumptions C06_x86_compare_zero_selection.
Theorem C06_x86_conditional_jump :
  forall (im : image) (sort : ifsort) (l : string) (s : xstate) (x y : Z),
    flags s = Some (x, y) ->
    step im (jcc sort l) s = if eval_cmp sort x y then goto_label im s l else Next s.
Proof. exact x86_jcc_step. Qed.
Print Assumptions C06_x86_conditional_jump.

(* the model's address arithmetic is the crate's (values regenerated from the code) *)
Theorem C06_x86_constants_agree :
  map stack_offset [0; 1; 2; 3; 4; 5; 6; 7]%N = Generated.Constants.X86C.stack_offset_samples /\
  map (field_offset Fst) [0; 1; 2; 3]%N = Generated.Constants.X86C.field_offset_fst /\
  map (field_offset Snd) [0; 1; 2; 3]%N = Generated.Constants.X86C.field_offset_snd /\
  map jump_length [0; 1; 2; 3; 4; 5]%N = Generated.Constants.X86C.jump_length_samples.
Proof.
  exact (conj x86_stack_offset_samples (conj (proj1 x86_field_offset_samples)
          (conj (proj2 x86_field_offset_samples) x86_jump_length_samples))).
Qed.
Print Assumptions C06_x86_constants_agree.

(* The full property, stated but not proved (see the header): for every linearly well-typed
   program within capacity, the emitted code behaves like the AxCut linear machine. *)
Definition C06_codegen_correct_statement : Prop :=
  forall (p : prog) (lc : N) (cs : list xcode) (n : nat) (lc' : N) (args : list Z) (fuel : nat) (o : obs),
    x86_compile p lc = Ok (cs, n, lc') ->
    run_linear fuel p args = o -> defined o = true ->
    exists outer inner, fst (run_x86 outer inner cs args) = o.
