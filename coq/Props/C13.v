(* C13: the generated routine honours the platform calling convention (x86-64 part).
   Only statements; proofs in Proof/X86Wf.v.  `sp_delta cs` is the net change of rsp caused by a
   straight-line instruction list (push -8, pop +8, add/sub rsp, imm).

   PROVED (for every context: any number of live variables of any kinds, i.e. any list of
   registers to save and any first backup register):
     - the code saving caller-saved registers moves rsp by 8 modulo 16, so with rsp = 8 (mod 16)
       in the body (C13_body_alignment: the prologue moves rsp by 0 modulo 16 from the entry value,
       which is 8 modulo 16 right after the caller's `call`) rsp is 0 modulo 16 at `call print…`;
     - save and restore are balanced; the pops mirror the pushes in reverse order and the
       register backups are undone pairwise;
     - prologue and epilogue are balanced, the epilogue pops exactly the callee-saved registers
       rbx rbp r12-r15 the prologue pushed, in reverse order.
   CHECKED BY EXECUTION, not proved: that no value the program still needs lives in a caller-saved
   register, the flags or below rsp across the call, and that the final register file is the entry
   one (ISA model with call havoc, see Sem/X86Sem.v; 0..23 live variables at a print). AArch64 part:
   pending the AArch64 model. *)
From Coq Require Import List ZArith NArith.
From SCC Require Import Model.Backend Model.X86 Sem.X86Sem Proof.X86Wf.
Import ListNotations.
Open Scope Z_scope.

Theorem C13_x86_stack_aligned_at_print_call :
  forall (fb : N) (regs : list N), sp_delta (save_caller_save_registers fb regs) mod 16 = 8.
Proof. exact save_caller_save_alignment. Qed.
Print Assumptions C13_x86_stack_aligned_at_print_call.

Theorem C13_x86_body_alignment :
  forall (n : nat) (cs : list xcode), setup n = Ok cs -> sp_delta cs mod 16 = 0.
Proof. exact body_alignment. Qed.
Print Assumptions C13_x86_body_alignment.

Theorem C13_x86_save_restore_balanced :
  forall (fb : N) (regs : list N),
    sp_delta (save_caller_save_registers fb regs) + sp_delta (restore_caller_save_registers fb regs) = 0.
Proof. exact save_restore_balanced. Qed.
Print Assumptions C13_x86_save_restore_balanced.

Theorem C13_x86_restore_mirrors_save :
  forall (fb : N) (regs : list N),
    let used := backup_used fb regs in
    exists movs_out movs_back pad_out pad_back,
      save_caller_save_registers fb regs = movs_out ++ map PUSH (skipn used regs) ++ pad_out /\
      restore_caller_save_registers fb regs = movs_back ++ pad_back ++ map POP (rev (skipn used regs)) /\
      movs_back = map (fun c => match c with MOV a b => MOV b a | c => c end) movs_out.
Proof. exact restore_mirrors_save. Qed.
Print Assumptions C13_x86_restore_mirrors_save.

Theorem C13_x86_prologue_epilogue_balanced :
  forall (n : nat) (cs : list xcode), setup n = Ok cs -> sp_delta cs + sp_delta (removelast cleanup) = 0.
Proof. exact prologue_epilogue_balanced. Qed.
Print Assumptions C13_x86_prologue_epilogue_balanced.

Theorem C13_x86_epilogue_restores_callee_saved :
  flat_map (fun c => match c with POP r => [r] | _ => [] end) cleanup =
  rev (flat_map (fun c => match c with PUSH r => [r] | _ => [] end)
         (match setup 0 with Ok cs => cs | Err _ => [] end)) /\
  flat_map (fun c => match c with PUSH r => [r] | _ => [] end) (match setup 0 with Ok cs => cs | Err _ => [] end)
  = Sem.X86Sem.callee_saved.
Proof. exact epilogue_restores_callee_saved. Qed.
Print Assumptions C13_x86_epilogue_restores_callee_saved.
