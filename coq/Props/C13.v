(* C13: the generated routine honours the platform calling convention (x86-64 part).
   Only statements; proofs in Proof/X86Wf.v.  `sp_delta cs` is the net change of rsp caused by a
   straight-line instruction list (push -8, pop +8, add/sub rsp, imm).

   PROVED (for every context: any number of live variables of any kinds, i.e. any list of
   registers to save and any first backup register):
     - the code saving caller-saved registers moves rsp by 8 modulo 16, so with rsp = 8 (mod 16)
       in the body (C13_body_alignment: the prologue moves rsp by 0 modulo 16 from the entry value,
       which is 8 modulo 16 right after the caller's `call`) rsp is 0 modulo 16 at `call print…`;
     - save and restore are balanced; the pops mirror the pushes in reverse order and the
       register backups are undone pairwise;
     - prologue and epilogue are balanced, the epilogue pops exactly the callee-saved registers
       rbx rbp r12-r15 the prologue pushed, in reverse order.
   CHECKED BY EXECUTION, not proved: that no value the program still needs lives in a caller-saved
   register, the flags or below rsp across the call, and that the final register file is the entry
   one (ISA model with call havoc, see Sem/X86Sem.v; 0..23 live variables at a print).
   The AArch64 part (theorems C13_a64_*, including the survival of all values across the call on the
   ISA semantics) and the RISC-V remarks are at the end of this file. *)
From Coq Require Import List ZArith NArith.
From SCC Require Import Model.Backend Model.X86 Sem.X86Sem Proof.X86Wf.
Import ListNotations.
Open Scope Z_scope.

Theorem C13_x86_stack_aligned_at_print_call :
  forall (fb : N) (regs : list N), sp_delta (save_caller_save_registers fb regs) mod 16 = 8.
Proof. exact save_caller_save_alignment. Qed.
Print Assumptions C13_x86_stack_aligned_at_print_call.

Theorem C13_x86_body_alignment :
  forall (n : nat) (cs : list xcode), setup n = Ok cs -> sp_delta cs mod 16 = 0.
Proof. exact body_alignment. Qed.
Print Assumptions C13_x86_body_alignment.

Theorem C13_x86_save_restore_balanced :
  forall (fb : N) (regs : list N),
    sp_delta (save_caller_save_registers fb regs) + sp_delta (restore_caller_save_registers fb regs) = 0.
Proof. exact save_restore_balanced. Qed.
Print Assumptions C13_x86_save_restore_balanced.

Theorem C13_x86_restore_mirrors_save :
  forall (fb : N) (regs : list N),
    let used := backup_used fb regs in
    exists movs_out movs_back pad_out pad_back,
      save_caller_save_registers fb regs = movs_out ++ map PUSH (skipn used regs) ++ pad_out /\
      restore_caller_save_registers fb regs = movs_back ++ pad_back ++ map POP (rev (skipn used regs)) /\
      movs_back = map (fun c => match c with MOV a b => MOV b a | c => c end) movs_out.
Proof. exact restore_mirrors_save. Qed.
Print Assumptions C13_x86_restore_mirrors_save.

Theorem C13_x86_prologue_epilogue_balanced :
  forall (n : nat) (cs : list xcode), setup n = Ok cs -> sp_delta cs + sp_delta (removelast cleanup) = 0.
Proof. exact prologue_epilogue_balanced. Qed.
Print Assumptions C13_x86_prologue_epilogue_balanced.

Theorem C13_x86_epilogue_restores_callee_saved :
  flat_map (fun c => match c with POP r => [r] | _ => [] end) cleanup =
  rev (flat_map (fun c => match c with PUSH r => [r] | _ => [] end)
         (match setup 0 with Ok cs => cs | Err _ => [] end)) /\
  flat_map (fun c => match c with PUSH r => [r] | _ => [] end) (match setup 0 with Ok cs => cs | Err _ => [] end)
  = Sem.X86Sem.callee_saved.
Proof. exact epilogue_restores_callee_saved. Qed.
Print Assumptions C13_x86_epilogue_restores_callee_saved.

(* ======================================================================================== *)
(* AArch64.  Statements only; proofs in Proof/A64Wf.v (arithmetic), Proof/A64Print.v and      *)
(* Proof/A64Entry.v (on the ISA semantics Sem/A64Sem.v).  Register numbers are the code        *)
(* generator's internal ones: 0..17 = X0..X17 (caller-saved), 18..28 = X19..X29 (callee-saved),*)
(* 29 = X30 (link register); X18 is never used.                                                *)
(* `A64Wf.sp_delta cs` = net change of SP over a straight-line list; `A64Wf.sp_safe d cs` walks *)
(* the list with the displacement d of SP from its value in the body and demands d = 0 mod 16  *)
(* at every BL and at every load/store with SP as base (the hardware check and AAPCS64), and   *)
(* that SP is written only by SUB/ADD SP,SP,#i and STP-pre/LDP-post on SP.                     *)
(*                                                                                              *)
(* PROVED for EVERY context (any number of variables of any kinds):                            *)
(*  - alignment: SP = 0 mod 16 at the BL and at every SP-relative store/load of the print      *)
(*    sequence, and the sequence leaves SP where it was (C13_a64_print_sp_safe, built from     *)
(*    C13_a64_stack_aligned_at_print_call, C13_a64_save_restore_balanced);                     *)
(*  - what is saved: HEAP (X0), FREE (X1), every caller-saved register and X30 that holds a    *)
(*    live temporary (C13_a64_saved_covers_live - the theorem that fails for the code before   *)
(*    fix b8c7d78, see C13_a64_link_register_defect_witness), X30 exactly when the context has *)
(*    a 13th variable, only clobberable registers, each once; the backup registers are         *)
(*    callee-saved registers above every variable register;                                    *)
(*  - mirror: the moves back are the swapped moves out, the loads are the stores reversed,     *)
(*    same register, same cell; cells distinct, 8-aligned, inside the reserved area;           *)
(*  - SEMANTICS (C13_a64_print_preserves_context): executing the print code on the ISA model   *)
(*    from any state with a valid frame prints the value and ends in a state in which every    *)
(*    temporary of every variable of the context, HEAP, FREE, SP, the heap and the stack at    *)
(*    and above SP are unchanged - although the call destroyed X0-X17, X30, the flags and the  *)
(*    stack below SP;                                                                          *)
(*  - entry/exit: prologue and epilogue balanced, every access aligned, the epilogue reloads   *)
(*    X19-X29 and X30 in mirror order; on the ISA model the epilogue restores them and SP from *)
(*    any state that kept the body's SP and the saved cells (C13_a64_entry_exit).              *)
(*  - whole programs: C13_a64_program_sp_discipline (SP aligned at every stack access and   *)
(*    print call of every compiled program, SP only moved inside print brackets).             *)
(* NOT proved: that the BODY between prologue and epilogue keeps the saved CELLS for every    *)
(* program (whole-program simulation, the gap of C07); checked by execution.                   *)
(* ======================================================================================== *)
From Coq Require Import String.
Open Scope list_scope.
Open Scope Z_scope.
From SCC Require Lang.AxSyn Model.A64 Sem.A64Sem Proof.A64State Proof.A64Wf Proof.A64Print Proof.A64Entry.

Theorem C13_a64_stack_aligned_at_print_call :
  forall (fb : N) (regs : list N), A64Wf.sp_delta (A64.save_caller_save_registers fb regs) mod 16 = 0.
Proof. exact A64Wf.save_caller_save_alignment. Qed.
Print Assumptions C13_a64_stack_aligned_at_print_call.

Theorem C13_a64_save_restore_balanced :
  forall (fb : N) (regs : list N),
    A64Wf.sp_delta (A64.save_caller_save_registers fb regs) + A64Wf.sp_delta (A64.restore_caller_save_registers fb regs) = 0.
Proof. exact A64Wf.save_restore_balanced. Qed.
Print Assumptions C13_a64_save_restore_balanced.

(* the whole print sequence, for every context, every printed temporary, print and println: SP is
   16-byte aligned at the BL and at every SP-relative access, no other write to SP, net effect 0 *)
Theorem C13_a64_print_sp_safe :
  forall (newline : bool) (s : A64.atemp) (context : AxSyn.ctx) (d : Z),
    d mod 16 = 0 ->
    A64Wf.sp_safe d (A64.a_print newline s context) /\ A64Wf.sp_delta (A64.a_print newline s context) = 0.
Proof. exact A64Wf.print_sp_safe. Qed.
Print Assumptions C13_a64_print_sp_safe.

Theorem C13_a64_restore_mirrors_save :
  forall (fb : N) (regs : list N),
    let rest := (List.length regs - A64.backup_used fb regs)%nat in
    let area := A64.address (Z.of_nat (A64.push_count fb regs)) in
    exists sub add,
      A64.save_caller_save_registers fb regs =
        A64Wf.movs_out fb regs ++ sub ++ (if Nat.eqb rest 0 then [] else A64Wf.strs fb regs) /\
      A64.restore_caller_save_registers fb regs =
        A64Wf.movs_back fb regs ++ (if Nat.eqb rest 0 then [] else A64Wf.ldrs fb regs) ++ add /\
      A64Wf.movs_back fb regs = map A64Wf.mov_swap (A64Wf.movs_out fb regs) /\
      A64Wf.ldrs fb regs = rev (map A64Wf.str_to_ldr (A64Wf.strs fb regs)) /\
      ((rest = 0%nat /\ sub = [] /\ add = []) \/
       (rest <> 0%nat /\ sub = [A64.SUBI A64.SP A64.SP area] /\ add = [A64.ADDI A64.SP A64.SP area])) /\
      flat_map A64Wf.saved_reg (A64Wf.movs_out fb regs ++ A64Wf.strs fb regs) = regs /\
      NoDup (flat_map A64Wf.str_offset (A64Wf.strs fb regs)) /\
      Forall (fun i => 0 <= i /\ i + 8 <= area /\ i mod 8 = 0) (flat_map A64Wf.str_offset (A64Wf.strs fb regs)).
Proof. exact A64Wf.restore_mirrors_save. Qed.
Print Assumptions C13_a64_restore_mirrors_save.

(* every caller-saved register (X0-X17) and the link register X30 that holds a live temporary is saved.
   THIS is the statement that cannot be proved for the code before fix b8c7d78
   (`first_free_register > REGISTER_NUM`): the lemma A64Wf.saved_covers_live breaks in its case r = 29. *)
Theorem C13_a64_saved_covers_live :
  forall (context : AxSyn.ctx) (i : nat) (b : AxSyn.binding) (n : Backend.tnum) (r : N),
    nth_error context i = Some b -> (n = Backend.Snd \/ AxSyn.bchi b <> AxSyn.Ext) ->
    A64.temporary_from_position (2 * N.of_nat i + Backend.tnum_n n) = Backend.Ok (A64.AR (A64.X r)) ->
    (r <= 17)%N \/ r = 29%N ->
    In r (snd (A64.caller_save_registers_info context)).
Proof. exact A64Wf.saved_covers_live. Qed.
Print Assumptions C13_a64_saved_covers_live.

(* witness: 13 integer variables; the 13th lives in X30; the list computed with `>` misses X30, the
   repaired code has it *)
Theorem C13_a64_link_register_defect_witness :
  let context := repeat (AxSyn.mkb ("x"%string, 0%N) AxSyn.Ext AxSyn.I64) 13 in
  nth_error context 12 = Some (AxSyn.mkb ("x"%string, 0%N) AxSyn.Ext AxSyn.I64) /\
  A64.temporary_from_position (2 * N.of_nat 12 + Backend.tnum_n Backend.Snd) = Backend.Ok (A64.AR (A64.X 29)) /\
  ~ In 29%N (A64Wf.info_before_fix context) /\
  In 29%N (snd (A64.caller_save_registers_info context)).
Proof. exact A64Wf.saved_covers_live_fails_before_fix. Qed.
Print Assumptions C13_a64_link_register_defect_witness.

Theorem C13_a64_saved_set :
  forall context : AxSyn.ctx,
    let regs := snd (A64.caller_save_registers_info context) in
    In 0%N regs /\ In 1%N regs /\
    (In 29%N regs <-> exists b, nth_error context 12 = Some b /\
                                A64.temporary_from_position (2 * 12 + Backend.tnum_n Backend.Snd) = Backend.Ok (A64.AR (A64.X 29))) /\
    (forall r, In r regs -> (r <= 17)%N \/ r = 29%N) /\
    NoDup regs.
Proof.
  exact (fun context => conj (proj1 (A64Wf.saved_heap_free context)) (conj (proj2 (A64Wf.saved_heap_free context))
          (conj (A64Wf.saved_link_register_iff context) (conj (A64Wf.saved_are_clobberable context) (A64Wf.saved_nodup context))))).
Qed.
Print Assumptions C13_a64_saved_set.

Theorem C13_a64_backups_callee_saved_and_free :
  forall (context : AxSyn.ctx) (k : nat),
    let '(fb, regs) := A64.caller_save_registers_info context in
    (k < A64.backup_used fb regs)%nat ->
    (18 <= fb + N.of_nat k <= 28)%N /\ (2 * N.of_nat (List.length context) + 4 <= fb + N.of_nat k)%N.
Proof. exact A64Wf.backups_callee_saved_and_free. Qed.
Print Assumptions C13_a64_backups_callee_saved_and_free.

(* THE SEMANTIC STATEMENT.  `frame_ok s sp`: SP = sp, 16-byte aligned, the spill area inside the stack
   region; 144 bytes = the at most 18 cells pushed.  `print_src_ok`: the printed temporary is a spill
   slot or a register below the first backup register (every variable temporary is, see the Example
   A64Print.a64_print_src_ok_variable). *)
Theorem C13_a64_print_preserves_context :
  forall (im : A64Sem.image) (newline : bool) (src : A64.atemp) (context : AxSyn.ctx) (s : A64Sem.astate) (sp v : Z),
    A64State.frame_ok s sp -> A64Sem.STACK_LIMIT + 144 <= sp ->
    A64Print.print_src_ok context src -> A64State.lget s sp src = Some v ->
    exists s',
      A64Sem.run_straight im (A64.a_print newline src context) s = A64Sem.MOk s' /\
      A64Sem.out s' = (newline, v) :: A64Sem.out s /\ A64Sem.heap s' = A64Sem.heap s /\ A64State.frame_ok s' sp /\
      A64Sem.rget s' A64.HEAP = A64Sem.rget s A64.HEAP /\ A64Sem.rget s' A64.FREE = A64Sem.rget s A64.FREE /\
      (forall i b n t, nth_error context i = Some b -> (n = Backend.Snd \/ AxSyn.bchi b <> AxSyn.Ext) ->
         A64.temporary_from_position (2 * N.of_nat i + Backend.tnum_n n) = Backend.Ok t ->
         A64State.lget s' sp t = A64State.lget s sp t) /\
      (forall k, sp <= Z.pos k - 1 -> A64Sem.PM.find k (A64Sem.stack s') = A64Sem.PM.find k (A64Sem.stack s)).
Proof. exact A64Print.a64_print_ok. Qed.
Print Assumptions C13_a64_print_preserves_context.

(* prologue / epilogue *)
Theorem C13_a64_body_alignment :
  forall (n : nat) (cs : list A64.acode), A64.setup n = Backend.Ok cs -> A64Wf.sp_delta cs mod 16 = 0 /\ A64Wf.sp_safe 0 cs.
Proof. exact A64Wf.body_alignment. Qed.
Print Assumptions C13_a64_body_alignment.

Theorem C13_a64_prologue_epilogue_balanced :
  forall (n : nat) (cs : list A64.acode),
    A64.setup n = Backend.Ok cs -> A64Wf.sp_delta cs + A64Wf.sp_delta A64.cleanup = 0 /\ A64Wf.sp_safe (A64Wf.sp_delta cs) A64.cleanup.
Proof. exact A64Wf.prologue_epilogue_balanced. Qed.
Print Assumptions C13_a64_prologue_epilogue_balanced.

Theorem C13_a64_epilogue_restores_callee_saved :
  forall (n : nat) (cs : list A64.acode),
    A64.setup n = Backend.Ok cs ->
    flat_map A64Wf.ldp_pairs A64.cleanup = rev (flat_map A64Wf.stp_pairs cs) /\
    flat_map (fun p => [fst p; snd p]) (flat_map A64Wf.stp_pairs cs) = map A64.X (A64Sem.callee_saved ++ [A64Sem.LR]).
Proof. exact A64Wf.epilogue_restores_callee_saved. Qed.
Print Assumptions C13_a64_epilogue_restores_callee_saved.

(* on the ISA semantics: from an entry state (SP = sp0 aligned, X0 = heap base h) the prologue
   establishes the body frame at sp0 - 2144 with the n arguments in the variable registers; from ANY
   later state s2 with the body's SP whose stack at and above the saved cells is intact, the epilogue
   (everything of `cleanup` before the RET) gives X19-X29, X30 and SP their entry values and leaves
   X0-X17 (the result register X0 in particular) alone *)
Theorem C13_a64_entry_exit :
  forall (im : A64Sem.image) (n : nat) (cs : list A64.acode) (s : A64Sem.astate) (sp0 h : Z),
    A64.setup n = Backend.Ok cs ->
    A64Sem.spv s = Some sp0 -> sp0 mod 16 = 0 -> A64Sem.STACK_LIMIT + 2144 <= sp0 -> sp0 <= A64Sem.STACK_TOP ->
    A64Sem.xget s 0 = Some h ->
    exists s1,
      A64Sem.run_straight im cs s = A64Sem.MOk s1 /\
      A64State.frame_ok s1 (sp0 - 2144) /\ A64Sem.heap s1 = A64Sem.heap s /\ A64Sem.out s1 = A64Sem.out s /\
      A64Sem.xget s1 0 = Some h /\
      A64Sem.xget s1 1 = Some (AxSem.wrap (h + A64.field_offset Backend.Fst A64.FIELDS_PER_BLOCK)) /\
      (forall j, (1 <= j <= n)%nat -> A64Sem.xget s1 (2 * N.of_nat j + 3) = A64Sem.xget s (N.of_nat j)) /\
      (forall k, sp0 <= Z.pos k - 1 -> A64Sem.PM.find k (A64Sem.stack s1) = A64Sem.PM.find k (A64Sem.stack s)) /\
      forall s2,
        A64Sem.spv s2 = Some (sp0 - 2144) ->
        (forall k, sp0 - 96 <= Z.pos k - 1 -> A64Sem.PM.find k (A64Sem.stack s2) = A64Sem.PM.find k (A64Sem.stack s1)) ->
        exists s3,
          A64Sem.run_straight im (removelast A64.cleanup) s2 = A64Sem.MOk s3 /\
          A64Sem.spv s3 = Some sp0 /\
          (forall r, (18 <= r <= 29)%N -> A64Sem.xget s3 r = A64Sem.xget s r) /\
          (forall r, (r < 18)%N -> A64Sem.xget s3 r = A64Sem.xget s2 r) /\
          A64Sem.heap s3 = A64Sem.heap s2 /\ A64Sem.out s3 = A64Sem.out s2 /\ A64Sem.stack s3 = A64Sem.stack s2.
Proof. exact A64Entry.a64_entry_exit_ok. Qed.
Print Assumptions C13_a64_entry_exit.

(* WHOLE PROGRAMS (model level).  For every program the model compiles, the routine is
   preamble ++ prologue ++ body ++ epilogue where: the prologue keeps SP 16-byte aligned at each of its
   stores, moves it by a multiple of 16 and contains no label or branch; in the BODY (all code of all
   definitions) SP is written only inside the save/restore bracket of a print sequence, its displacement
   from the body value is 0 mod 16 at every BL and every SP-relative load/store, and is 0 at every label,
   branch and RET (`A64SpFlow.sp_disciplined`: so every control transfer leaves and arrives at
   displacement 0 and the linear walk covers every execution path); the epilogue is aligned and balanced.
   Hence on AArch64 SP is 16-byte aligned at EVERY stack access and at every call of the print runtime, in
   every compiled program, for every number of live variables.  Proof: Proof/CodegenForall.v (every
   piece of code of code_statement comes from a back-end method, by induction over statements) +
   Proof/A64SpFlow.v (every method other than print emits SP-neutral instructions: instruction
   selection, immediates, parallel moves, share/erase, store/load of closures with their recursion).
   Instance: Example A64SpFlow.a64_routine_sp_discipline_instance. *)
From SCC Require Proof.A64SpFlow.
Theorem C13_a64_program_sp_discipline :
  forall (p : AxSyn.prog) (lc : N) (r : list A64.acode) (n : nat) (lc' : N),
    A64.a64_compile p lc = Backend.Ok (r, n, lc') ->
    exists s body,
      r = A64.preamble ++ s ++ body ++ A64.cleanup /\ A64.setup n = Backend.Ok s /\
      A64SpFlow.sp_disciplined A64.preamble /\
      (A64Wf.sp_delta s mod 16 = 0 /\ A64Wf.sp_safe 0 s /\ Forall (fun c => A64SpFlow.is_control c = false) s) /\
      A64SpFlow.sp_disciplined body /\
      (A64Wf.sp_delta s + A64Wf.sp_delta A64.cleanup = 0 /\ A64Wf.sp_safe (A64Wf.sp_delta s) A64.cleanup).
Proof. exact A64SpFlow.a64_routine_sp_discipline. Qed.
Print Assumptions C13_a64_program_sp_discipline.

(* RISC-V: the back end has NO print runtime call (print_i64 is a panic 'not implemented in RISC-V
   backend', modelled by rv_compile answering Err for every program with a print) and NO
   prologue/epilogue: into_rv64_routine only joins the instructions' text between the comment line
   'actual code' and the label 'cleanup:'; it emits no instruction of its own, never touches sp or
   ra and returns nowhere.  So C13 has no RISC-V content beyond these two facts. *)
From SCC Require Model.RV.
Theorem C13_rv_print_not_implemented :
  forall (p : AxSyn.prog) (lc : N), RV.prog_has_print p = true -> RV.rv_compile p lc = Backend.Err "not implemented in RISC-V backend"%string.
Proof. intros p lc H. unfold RV.rv_compile. rewrite H. reflexivity. Qed.
Print Assumptions C13_rv_print_not_implemented.
Theorem C13_rv_no_prologue_epilogue :
  forall items : list RV.ritem,
    RV.into_rv64_routine items =
    String.concat (Sexp.nl +++ Sexp.nl)%string
      [("// actual code" +++ String.concat Sexp.nl (map RV.display_item items))%string; "cleanup:"%string].
Proof. reflexivity. Qed.
Print Assumptions C13_rv_no_prologue_epilogue.

(* ================= x86-64: the SEMANTIC half of the print call (from the simulation development of C06) =================
   The arithmetic theorems above say the save/restore code is aligned, balanced and mirrored; the two theorems below
   are about EXECUTION on Sem/X86Sem.v, whose external-call model checks rsp = 0 mod 16 and then destroys every
   caller-saved register, the flags and the stack below rsp: after the whole print sequence every value of the
   context is where it was (state relation of the simulation, integers and closures), the output has grown by
   exactly the printed value, and the stack at and above sp is unchanged - for every context. *)
From SCC Require Lang.AxSyn Sem.AxSem Proof.X86State Proof.X86SimRel Proof.X86SimPrint.
Module X86PrintSem.
Import AxSyn AxSem Backend X86 X86Sem X86State X86SimRel X86SimPrint.
Theorem C13_x86_print_preserves_context :
  forall (im : image) (CL : Z -> ident -> list clause -> Prop) (c : ctx) (e : env) (s : xstate) (sp : Z) (nl : bool)
         (v : ident) (z : Z) (tv : xtemp),
    rel CL c e s sp -> lookup_int e v = Some z ->
    variable_temporary x86_backend Snd c (idn v) = Ok tv ->
    exists s', exec_straight im (x_print nl tv c) s = Some s' /\
               rel CL c e s' sp /\ out s' = (nl, z) :: out s /\ above_eq s s' sp.
Proof. exact sim_print. Qed.
Print Assumptions C13_x86_print_preserves_context.
End X86PrintSem.
