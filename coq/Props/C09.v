(* C09: heap consistency - exact reference counts, no leak, no reuse of live blocks.
   Only statements here; proofs live in Model/Heap.v (abstract allocator, identical on the three
   back ends).

   The invariant `Inv s R hl fl cl` relates the allocator state s, the multiset R of pointers held by
   live variables, and the ghost partition of the blocks below the frontier into hl (reuse list),
   fl (deferred list) and cl (counted blocks):
     - hl and fl are the header chains from the heap / free register, duplicate free, disjoint;
     - (RC) for every counted block b: header b + 1 = number of references to b from R and from the
       pointer slots of counted and deferred blocks (exact counts: nothing leaked, nothing lost);
     - (NR) no reference anywhere to a block that is not counted (no use after release, no double
       release);
     - everything at or above the frontier is zero.
   PROVED: the invariant holds initially and is preserved by share, erase (both branches), a list of
   erasures, acquire in all three cases (reuse list / deferred list with lazy erasure of the
   children / bump), single-block allocation, and destructive load (release).
   NOT YET PROVED (visible as missing theorems): non-destructive load (decrement and share the
   children), objects chained over several blocks, and the lifting from operation traces to AxCut
   programs (that link is checked by executing the implementation's code with the invariant
   evaluated at every statement boundary, see the evidence). *)
From Coq Require Import List ZArith Permutation.
From SCC Require Import Model.Heap.
Import ListNotations.
Open Scope Z_scope.

Theorem C09_initial_state : forall base, 0 < base -> Inv (init base) [] [base] [] [].
Proof. exact init_inv. Qed.
Print Assumptions C09_initial_state.

Theorem C09_share_preserves :
  forall s R hl fl cl p n,
    Inv s R hl fl cl -> 0 <= n -> (p = 0 \/ In p R) ->
    Inv (share p n s) (repeat p (Z.to_nat n) ++ R) hl fl cl \/ (p = 0 /\ share p n s = s).
Proof. exact share_inv. Qed.
Print Assumptions C09_share_preserves.

Theorem C09_erase_preserves :
  forall s R R0 hl fl cl p,
    Inv s R hl fl cl -> p <> 0 -> Permutation R (p :: R0) ->
    exists fl' cl', Inv (erase p s) R0 hl fl' cl'.
Proof. exact erase_inv. Qed.
Print Assumptions C09_erase_preserves.

Theorem C09_erase_list_preserves :
  forall l s R hl fl cl,
    Inv s (nz l ++ R) hl fl cl ->
    exists fl' cl', Inv (fold_left (fun s c => erase c s) l s) R hl fl' cl'.
Proof. exact erase_list_inv. Qed.
Print Assumptions C09_erase_list_preserves.

Theorem C09_acquire_preserves :
  forall s R R0 hl fl cl,
    Inv s R hl fl cl ->
    Permutation R (nz (ps (m s (heap s))) ++ R0) ->
    fst (acquire s) = heap s /\
    exists hl' fl' cl', Inv (snd (acquire s)) (heap s :: R0) hl' fl' cl'.
Proof. exact acquire_inv. Qed.
Print Assumptions C09_acquire_preserves.

Theorem C09_alloc_preserves :
  forall s R R0 hl fl cl p,
    Inv s R hl fl cl -> Permutation R (nz p ++ R0) ->
    fst (alloc p s) = heap s /\ exists hl' fl' cl', Inv (snd (alloc p s)) (heap s :: R0) hl' fl' cl'.
Proof. exact alloc_inv. Qed.
Print Assumptions C09_alloc_preserves.

Theorem C09_load_release_preserves :
  forall s R R0 hl fl cl p,
    Inv s R hl fl cl -> p <> 0 -> Permutation R (p :: R0) -> hdr (m s p) = 0 ->
    exists cl', Inv (release p s) (nz (ps (m s p)) ++ R0) (p :: hl) fl cl'.
Proof. exact load_release_inv. Qed.
Print Assumptions C09_load_release_preserves.

(* a pointer held by a live variable always names a counted block: never a free or deferred one *)
Theorem C09_roots_are_counted :
  forall s R hl fl cl p, Inv s R hl fl cl -> p <> 0 -> In p R -> In p cl.
Proof. exact root_counted. Qed.
Print Assumptions C09_roots_are_counted.
