(* C09: heap consistency - exact reference counts, no leak, no reuse of live blocks.
   Only statements here; proofs live in Model/Heap.v, Proof/HeapMore.v, Proof/HeapTrace.v (abstract
   allocator, identical on the three back ends) and Proof/X86Mem.v (refinement to x86-64 code).

   The invariant `Inv s R hl fl cl` relates the allocator state s, the multiset R of pointers held by
   live variables, and the ghost partition of the blocks below the frontier into hl (reuse list),
   fl (deferred list) and cl (counted blocks):
     - hl and fl are the header chains from the heap / free register, duplicate free, disjoint;
     - (RC) for every counted block b: header b + 1 = number of references to b from R and from the
       pointer slots of counted and deferred blocks (exact counts: nothing leaked, nothing lost);
     - (NR) no reference anywhere to a block that is not counted (no use after release, no double
       release);
     - everything at or above the frontier is zero.
   The strengthened invariant `InvA base s R hl fl cl` (Proof/HeapMore.v) adds:
     - (SZ/AL/TOT) hl ++ fl ++ cl are exactly the block addresses base + k * 64 below the frontier;
     - (POS) the header of a counted block is not negative, so it has at least one referrer;
     - (AC) the pointer slots of counted and deferred blocks are acyclic (a rank function).

   PROVED
     * Inv holds initially and is preserved by share, erase (both branches), a list of erasures,
       acquire (reuse list / deferred list with lazy erasure of the children / bump), single-block
       allocation, destructive load (release)                                  [Model/Heap.v]
     * Inv and InvA are preserved by the non-destructive load (decrement, share every non-null
       child)                                                                  [load_share_*]
     * InvA holds initially and is preserved by every operation above and by objects chained over
       several blocks: alloc_object mirrors store_fields (last block first, at most 3 fields in the
       block written first, 2 fields + link in slot 2 in the others), load_object_release /
       load_object_share mirror load_fields in the two LoadModes (the links are neither shared nor
       released separately)                                                    [C09_*_object_*]
     * the operation-trace theorem: every state reached from a state satisfying InvA by a
       sequence of operations whose preconditions hold satisfies InvA (hence Inv), with a
       non-trivial example trace on which the preconditions hold               [C09_trace*, C09_example]
     * the derived classification: every block below the frontier is in exactly one of hl / fl / cl;
       a counted block has a referrer, and following referrers upward ends at a live variable
       (reachable) or at a deferred block (waiting beneath it)                 [C09_classification, C09_no_leak]
     * a block reachable from the live variables is on no free list; the block that erase /
       release put on a list was on none, and the lists stay duplicate free    [C09_no_use_after_release, C09_no_double_release]
     * refinement of share_block_n, erase_block, release_block and acquire_block (all three cases,
       including the lazy erasure of the recycled block's children) to the emitted x86-64 code on
       the ISA semantics, operand in a register or a spill slot, null included, all branches; the
       image is any image containing the code whose labels resolve to their positions (as mk_image
       gives for duplicate-free labels)
                 [C09_x86_share_block, C09_x86_erase_block, C09_x86_release_block, C09_x86_acquire_block_reg/_spill, C09_x86_image]

     * ROUND 2 - programs: the linear machine instrumented with the abstract heap (Sem/AxHeap.v) observes what
       exec_linear observes; for every linearity-checked program every reachable configuration satisfies InvA with
       roots = the pointers of the environment = the non-ext variables of the statement's typing context, every value
       is represented at its pointer, chains are owned (the former precondition obj_ok / links_ok is now an invariant),
       and every emitted operation meets its precondition: the operation trace of every run satisfies pre_trace, so
       all trace theorems are theorems about programs       [C09_program_heap_safe, C09_program_step_safe, C09_program_*]
     * ROUND 2 - x86-64: the emitted code of store (let / create) and load (switch / invoke), any number of fields,
       registers and spill slots, both load modes, refines alloc_object / load_object   [C09_x86_store*, C09_x86_load*]

   NOT YET PROVED (visible as missing theorems)
     * that the emitted code of a whole statement is the operation sequence the instrumented machine lists
       (simulation of code_statement; the hypotheses of the per-operation refinement theorems are not yet derived
       from InvA + rep, and the composition with the parallel moves of C11 is not done).  That link is checked on every
       run by the step heaplock-x86: the real x86-64 code in lockstep with the instrumented machine, registers,
       variable pointers and every block below the frontier compared at every statement boundary;
     * anything about the AArch64 / RISC-V code (the abstract machine and the program theorems are back-end independent);
     * "touches no memory outside heap, spill area and pushes": faults of the ISA model in the
       executed runs, not a theorem. *)
From Coq Require Import List ZArith NArith Permutation FMapPositive.
From SCC Require Import Model.Heap Proof.HeapMore Proof.HeapTrace.
From SCC Require Model.X86 Sem.X86Sem Proof.X86State Proof.X86Mem.
Import ListNotations.
Open Scope Z_scope.

Theorem C09_initial_state : forall base, 0 < base -> Inv (init base) [] [base] [] [].
Proof. exact init_inv. Qed.
Print Assumptions C09_initial_state.

Theorem C09_share_preserves :
  forall s R hl fl cl p n,
    Inv s R hl fl cl -> 0 <= n -> (p = 0 \/ In p R) ->
    Inv (share p n s) (repeat p (Z.to_nat n) ++ R) hl fl cl \/ (p = 0 /\ share p n s = s).
Proof. exact share_inv. Qed.
Print Assumptions C09_share_preserves.

Theorem C09_erase_preserves :
  forall s R R0 hl fl cl p,
    Inv s R hl fl cl -> p <> 0 -> Permutation R (p :: R0) ->
    exists fl' cl', Inv (erase p s) R0 hl fl' cl'.
Proof. exact erase_inv. Qed.
Print Assumptions C09_erase_preserves.

Theorem C09_erase_list_preserves :
  forall l s R hl fl cl,
    Inv s (nz l ++ R) hl fl cl ->
    exists fl' cl', Inv (fold_left (fun s c => erase c s) l s) R hl fl' cl'.
Proof. exact erase_list_inv. Qed.
Print Assumptions C09_erase_list_preserves.

Theorem C09_acquire_preserves :
  forall s R R0 hl fl cl,
    Inv s R hl fl cl ->
    Permutation R (nz (ps (m s (heap s))) ++ R0) ->
    fst (acquire s) = heap s /\
    exists hl' fl' cl', Inv (snd (acquire s)) (heap s :: R0) hl' fl' cl'.
Proof. exact acquire_inv. Qed.
Print Assumptions C09_acquire_preserves.

Theorem C09_alloc_preserves :
  forall s R R0 hl fl cl p,
    Inv s R hl fl cl -> Permutation R (nz p ++ R0) ->
    fst (alloc p s) = heap s /\ exists hl' fl' cl', Inv (snd (alloc p s)) (heap s :: R0) hl' fl' cl'.
Proof. exact alloc_inv. Qed.
Print Assumptions C09_alloc_preserves.

Theorem C09_load_release_preserves :
  forall s R R0 hl fl cl p,
    Inv s R hl fl cl -> p <> 0 -> Permutation R (p :: R0) -> hdr (m s p) = 0 ->
    exists cl', Inv (release p s) (nz (ps (m s p)) ++ R0) (p :: hl) fl cl'.
Proof. exact load_release_inv. Qed.
Print Assumptions C09_load_release_preserves.

(* a pointer held by a live variable always names a counted block: never a free or deferred one *)
Theorem C09_roots_are_counted :
  forall s R hl fl cl p, Inv s R hl fl cl -> p <> 0 -> In p R -> In p cl.
Proof. exact root_counted. Qed.
Print Assumptions C09_roots_are_counted.

(* ---------- non-destructive load ---------- *)
(* `ADDIM [p], -1`, then every field loaded and its non-null pointer shared once: R loses p and
   gains the children; the ghost lists are unchanged *)
Theorem C09_load_share_preserves :
  forall s R R0 hl fl cl p,
    Inv s R hl fl cl -> p <> 0 -> Permutation R (p :: R0) -> hdr (m s p) <> 0 ->
    Inv (load_share p s) (nz (ps (m s p)) ++ R0) hl fl cl.
Proof. exact load_share_inv. Qed.
Print Assumptions C09_load_share_preserves.

(* ---------- the strengthened invariant and objects over several blocks ---------- *)
Theorem C09_initial_state_A : forall base, 0 < base -> InvA base (init base) [] [base] [] [].
Proof. exact init_invA. Qed.
Print Assumptions C09_initial_state_A.

Theorem C09_InvA_implies_Inv : forall base s R hl fl cl, InvA base s R hl fl cl -> Inv s R hl fl cl.
Proof. exact invA_inv. Qed.
Print Assumptions C09_InvA_implies_Inv.

(* store_fields: the pointers of the fields move from R into the object; the new root is its head *)
Theorem C09_alloc_object_preserves :
  forall base s R R0 hl fl cl fields,
    InvA base s R hl fl cl -> Permutation R (nz fields ++ R0) -> fields <> [] ->
    exists hl' fl' cl',
      InvA base (snd (alloc_object fields s)) (fst (alloc_object fields s) :: R0) hl' fl' cl' /\
      fst (alloc_object fields s) <> 0 /\
      fr_rel s hl (snd (alloc_object fields s)) hl' /\
      (length cl + length fl <= length cl' + length fl')%nat.
Proof. exact alloc_object_invA. Qed.
Print Assumptions C09_alloc_object_preserves.

(* load_fields, LoadMode::Release: k continuation blocks; precondition obj_ok = every block of the
   object is non-null with header 0 *)
Theorem C09_load_object_release_preserves :
  forall base k p s R R0 hl fl cl,
    InvA base s R hl fl cl -> Permutation R (p :: R0) -> obj_ok k (m s) p ->
    exists hl' cl',
      InvA base (load_object_release k p s) (nz (obj_fields k (m s) p) ++ R0) hl' fl cl' /\
      frontier (load_object_release k p s) = frontier s.
Proof. exact load_object_release_invA. Qed.
Print Assumptions C09_load_object_release_preserves.

(* load_fields, LoadMode::Share: precondition links_ok = the links are non-null *)
Theorem C09_load_object_share_preserves :
  forall base k p s R R0 hl fl cl,
    InvA base s R hl fl cl -> p <> 0 -> Permutation R (p :: R0) -> hdr (m s p) <> 0 -> links_ok k (m s) p ->
    InvA base (load_object_share k p s) (nz (obj_fields k (m s) p) ++ R0) hl fl cl.
Proof. exact load_object_share_invA. Qed.
Print Assumptions C09_load_object_share_preserves.

(* ---------- operation traces ---------- *)
Theorem C09_step_preserves :
  forall base s R hl fl cl o,
    InvA base s R hl fl cl -> pre s R o ->
    exists hl' fl' cl', InvA base (step s o) (ghost s R o) hl' fl' cl' /\ fr_step s (step s o) hl'.
Proof. exact heap_inv_step. Qed.
Print Assumptions C09_step_preserves.

Theorem C09_trace :
  forall ops s R hl fl cl base,
    InvA base s R hl fl cl -> pre_trace s R ops ->
    exists hl' fl' cl', Inv (fst (grun ops (s, R))) (snd (grun ops (s, R))) hl' fl' cl'.
Proof. exact heap_inv_trace. Qed.
Print Assumptions C09_trace.

(* every allocator state reachable from the initial state satisfies the (strengthened) invariant *)
Theorem C09_trace_from_init :
  forall base ops, 0 < base -> pre_trace (init base) [] ops ->
    exists hl fl cl, InvA base (fst (grun ops (init base, []))) (snd (grun ops (init base, []))) hl fl cl.
Proof. exact heap_inv_reachable. Qed.
Print Assumptions C09_trace_from_init.

(* the premises are satisfiable on a trace that takes every branch of every operation *)
Theorem C09_example : pre_trace (init 4096) [] example_ops.
Proof. exact example_pre. Qed.
Print Assumptions C09_example.

(* ---------- the derived classification ---------- *)
Theorem C09_classification :
  forall base s R hl fl cl a,
    InvA base s R hl fl cl -> blk base a -> a < frontier s ->
    (In a hl /\ ~ In a fl /\ ~ In a cl) \/
    (In a fl /\ ~ In a hl /\ ~ In a cl) \/
    (In a cl /\ ~ In a hl /\ ~ In a fl /\
     (reach (m s) R a \/ reach (m s) (deferred_slots s fl) a)).
Proof. exact classify_total_exclusive. Qed.
Print Assumptions C09_classification.

Theorem C09_no_leak :
  forall base s R hl fl cl b,
    InvA base s R hl fl cl -> In b cl ->
    In b R \/ exists x, In x (cl ++ fl) /\ In b (ps (m s x)).
Proof. exact no_leak. Qed.
Print Assumptions C09_no_leak.

Theorem C09_no_use_after_release :
  forall s R hl fl cl b,
    Inv s R hl fl cl -> reach (m s) R b -> In b cl /\ ~ In b hl /\ ~ In b fl.
Proof. exact no_use_after_release. Qed.
Print Assumptions C09_no_use_after_release.

Theorem C09_no_double_release :
  forall s R hl fl cl p,
    Inv s R hl fl cl -> p <> 0 -> In p R ->
    ~ In p (hl ++ fl) /\
    (hdr (m s p) = 0 ->
       (exists cl', Inv (erase p s) (rem1 p R) hl (p :: fl) cl' /\ NoDup (hl ++ (p :: fl) ++ cl')) /\
       (exists cl', Inv (release p s) (nz (ps (m s p)) ++ rem1 p R) (p :: hl) fl cl' /\ NoDup ((p :: hl) ++ fl ++ cl'))).
Proof. exact no_double_release. Qed.
Print Assumptions C09_no_double_release.

(* ---------- refinement to the x86-64 code (ISA semantics of Sem/X86Sem.v) ---------- *)
Import Model.X86 Sem.X86Sem Proof.X86State Proof.X86Mem.

Theorem C09_x86_share_block :
  forall im pos t n lc s sp p F,
    let cs := fst (x_share_block_n t n lc) in
    code_at im pos cs -> labels_at im pos cs ->
    frame_ok s sp -> loc_ok t -> lget s sp t = Some p ->
    (p = 0 \/ is_blk p) -> fits32 (Z.of_N n) = true ->
    (p <> 0 -> AxSem.wrap (hword s p + Z.of_N n) = hword s p + Z.of_N n) ->
    exists s', steps im pos s (pnth pos (List.length cs)) s' /\
       st_eqB (abs_heap F s') (Heap.share p (Z.of_N n) (abs_heap F s)) /\
       same_but_temp s s' /\ frame_ok s' sp.
Proof. exact x86_share_block_ok. Qed.
Print Assumptions C09_x86_share_block.

Theorem C09_x86_erase_block :
  forall im pos t lc s sp p f F,
    let cs := fst (x_erase_block t lc) in
    code_at im pos cs -> labels_at im pos cs ->
    frame_ok s sp -> loc_ok t -> lget s sp t = Some p -> rget s FREE = Some f ->
    (p = 0 \/ is_blk p) ->
    (p <> 0 -> hword s p <> 0 -> AxSem.wrap (hword s p + -1) = hword s p - 1) ->
    exists s', steps im pos s (pnth pos (List.length cs)) s' /\
       st_eqB (abs_heap F s') (Heap.erase p (abs_heap F s)) /\
       same_but_temp_free s s' /\
       (frame_ok s' sp /\ rget s' FREE = Some (Heap.free (Heap.erase p (abs_heap F s)))).
Proof. exact x86_erase_block_ok. Qed.
Print Assumptions C09_x86_erase_block.

Theorem C09_x86_release_block :
  forall im pos r s p h F,
    code_at im pos (release_block r) ->
    rget s r = Some p -> rget s HEAP = Some h -> is_blk p ->
    exists s', steps im pos s (pnth pos 2) s' /\
       st_eqB (abs_heap F s') (Heap.release p (abs_heap F s)) /\
       (forall r', r' <> HEAP -> rget s' r' = rget s r') /\ stack s' = stack s /\ out s' = out s.
Proof. exact x86_release_block_ok. Qed.
Print Assumptions C09_x86_release_block.

(* acquire_block: (1) next block of the reuse list, (2) recycle the first deferred block and erase
   its three children lazily, (3) bump.  The hypotheses about the deferred block and its children
   are needed only on the paths that touch them; `bounded 3` keeps the three decrements away from
   64-bit wrap-around.  The new block lands in a register ... *)
Theorem C09_x86_acquire_block_reg :
  forall im pos r lc s sp rv h2 F,
    let cs := fst (acquire_block (XR r) lc) in
    code_at im pos cs -> labels_at im pos cs ->
    frame_ok s sp -> r <> 0%N -> r <> HEAP -> r <> FREE -> r <> TEMP ->
    rget s HEAP = Some rv -> is_blk rv -> rget s FREE = Some h2 ->
    (hword s rv = 0 -> is_blk h2) ->
    (hword s rv = 0 -> hword s h2 <> 0 ->
       (forall off, off = 16 \/ off = 32 \/ off = 48 -> hword s (h2 + off) = 0 \/ is_blk (hword s (h2 + off))) /\
       bounded 3 s (hword s h2)) ->
    exists s', steps im pos s (pnth pos (List.length cs)) s' /\
      st_eqB (abs_heap (Heap.frontier (snd (Heap.acquire (abs_heap F s)))) s') (snd (Heap.acquire (abs_heap F s))) /\
      rget s' r = Some rv /\ fst (Heap.acquire (abs_heap F s)) = rv /\
      (forall r', r' <> r -> r' <> TEMP -> r' <> HEAP -> r' <> FREE -> rget s' r' = rget s r') /\
      stack s' = stack s /\ out s' = out s /\ frame_ok s' sp.
Proof. exact x86_acquire_block_reg_ok. Qed.
Print Assumptions C09_x86_acquire_block_reg.

(* ... or in a spill slot *)
Theorem C09_x86_acquire_block_spill :
  forall im pos q lc s sp rv h2 F,
    let cs := fst (acquire_block (XS q) lc) in
    code_at im pos cs -> labels_at im pos cs ->
    frame_ok s sp -> slot_ok q ->
    rget s HEAP = Some rv -> is_blk rv -> rget s FREE = Some h2 ->
    (hword s rv = 0 -> is_blk h2) ->
    (hword s rv = 0 -> hword s h2 <> 0 ->
       (forall off, off = 16 \/ off = 32 \/ off = 48 -> hword s (h2 + off) = 0 \/ is_blk (hword s (h2 + off))) /\
       bounded 3 s (hword s h2)) ->
    exists s', steps im pos s (pnth pos (List.length cs)) s' /\
      st_eqB (abs_heap (Heap.frontier (snd (Heap.acquire (abs_heap F s)))) s') (snd (Heap.acquire (abs_heap F s))) /\
      sget s' sp q = Some rv /\ fst (Heap.acquire (abs_heap F s)) = rv /\
      (forall r', r' <> TEMP -> r' <> HEAP -> r' <> FREE -> rget s' r' = rget s r') /\
      (forall q', slot_ok q' -> q' <> q -> sget s' sp q' = sget s sp q') /\ out s' = out s /\ frame_ok s' sp.
Proof. exact x86_acquire_block_spill_ok. Qed.
Print Assumptions C09_x86_acquire_block_spill.

(* the hypotheses on the image hold for mk_image of a program with duplicate-free labels, and
   `steps` is what the executable runner does *)
Theorem C09_x86_image :
  forall cs, NoDup (label_names cs) -> code_at (mk_image cs) 1%positive cs /\ labels_at (mk_image cs) 1%positive cs.
Proof. exact mk_image_code_labels. Qed.
Print Assumptions C09_x86_image.

Theorem C09_x86_steps_run :
  forall im pc s pc' s', steps im pc s pc' s' ->
    exists n, forall fuel, run_chunk (n + fuel) im pc s = run_chunk fuel im pc' s'.
Proof. exact steps_run_chunk. Qed.
Print Assumptions C09_x86_steps_run.

(* ====================================================================================== *)
(* PROGRAMS generate well-formed allocator traces (round 2).
   Sem/AxHeap.v instruments the linear machine `exec_linear` with the abstract allocator: every
   environment entry carries the word of its first temporary (pointer, 0 for integers and for
   field-less objects), every step emits the allocator operations the code of `code_statement`
   performs for that statement (substitute: erase / share_n per binding in the key order of
   `Backend.transpose`; let / create: OAllocObj of the stored pointers; switch / invoke: OLoadObj of
   the consumed object), and the heap component evolves by Heap.step only. *)
From SCC Require Import Lang.AxSyn Model.Linearize Model.LinCheck Sem.AxHeap.
From SCC Require Import Proof.LinTyping Proof.LinearizeProof Proof.AxHeapErase Proof.AxHeapTyping Proof.HeapRep Proof.AxHeapSafe
  Proof.AxHeapProps Proof.AxHeapExample Proof.AxHeapExampleFacts.

(* the instrumentation does not change what is observed: erasing pointers and heap gives exec_linear *)
Theorem C09_instrumented_machine_erases : forall p fuel c out tr,
  fst (fst (hexec fuel p c out tr)) = AxSem.exec_linear fuel p (erase_env (hc_env c)) (hc_stmt c) out.
Proof. exact hexec_erase. Qed.
Print Assumptions C09_instrumented_machine_erases.

Theorem C09_instrumented_run_observes_run_linear : forall fuel base p args,
  match hrun_prog fuel base p args with
  | Some r => fst (fst r) = AxSem.run_linear fuel p args
  | None => exists w, AxSem.run_linear fuel p args = ([], AxSem.OStuck w)
  end.
Proof. exact hrun_prog_erase. Qed.
Print Assumptions C09_instrumented_run_observes_run_linear.

(* what the runner returns is a reachable configuration with the trace it returns *)
Theorem C09_runner_reaches : forall fuel base p args o c tr,
  hrun_prog fuel base p args = Some (o, c, tr) -> hreach base p args tr c.
Proof. exact hrun_prog_reach. Qed.
Print Assumptions C09_runner_reaches.

(* type preservation of the machine: the environment stays the typing context of the statement *)
Theorem C09_machine_type_preservation : forall p he hs s ops he' s' pr,
  lin_check_prog p = true -> cfg_wt p he s -> hstep p he hs s = HStep ops he' s' pr -> cfg_wt p he' s'.
Proof. exact hstep_wt. Qed.
Print Assumptions C09_machine_type_preservation.

(* ONE STEP: in a configuration satisfying the invariant (InvA with roots = pointers of the
   environment, values represented, chains owned) every operation of the step meets its precondition
   in the state in which it is executed, and the invariant holds afterwards *)
Theorem C09_program_step_safe : forall base p he hs s ops he' s' pr,
  cfg_wt p he s -> HInv base he hs -> hstep p he hs s = HStep ops he' s' pr ->
  pre_trace hs (roots he) ops /\
  Permutation (snd (grun ops (hs, roots he))) (roots he') /\
  HInv base he' (hrun ops hs).
Proof. exact hstep_safe. Qed.
Print Assumptions C09_program_step_safe.

(* THE MAIN THEOREM.  For a linearity-checked program whose entry takes integers, in every
   configuration c reached from the initial one (allocator state `init base`) with operation trace tr:
   tr satisfies `pre_trace` (so every theorem above about traces applies to tr), the heap of c is the
   result of tr, the ghost roots are the non-null pointers of the environment, the strengthened
   invariant holds with exactly these roots, every value is represented at its pointer, and the
   environment is typed by the context of the statement. *)
Theorem C09_program_heap_safe : forall base p args tr c,
  lin_check_prog p = true -> entry_ext p = true -> 0 < base ->
  hreach base p args tr c ->
  pre_trace (init base) [] tr /\
  hc_heap c = fst (grun tr (init base, [])) /\
  Permutation (snd (grun tr (init base, []))) (roots (hc_env c)) /\
  (exists hl fl cl, InvA base (hc_heap c) (roots (hc_env c)) hl fl cl) /\
  (exists lk, KI lk (hc_heap c) (roots (hc_env c)) /\ env_rep lk (hc_heap c) (hc_env c)) /\
  cfg_wt p (hc_env c) (hc_stmt c).
Proof. exact program_heap_safe. Qed.
Print Assumptions C09_program_heap_safe.

(* roots = context: the bindings reconstructed from the environment (`ctx_of`: name, kind and type of
   each value) ARE the typing context cx of the statement - the context `code_statement` threads -
   and the roots are the pointers of its non-ext variables (an ext variable has pointer 0) *)
Theorem C09_program_roots_are_context : forall base p args,
  lin_check_prog p = true -> entry_ext p = true -> 0 < base ->
  forall tr c, hreach base p args tr c ->
  (exists hl fl cl, InvA base (hc_heap c) (roots (hc_env c)) hl fl cl) /\
  (exists cx, lin_wt (sigs_of p) cx (hc_stmt c) /\ ctx_of (hc_env c) = cx /\
              forall en, In en (hc_env c) -> chi_of (h_val en) = AxSyn.Ext -> h_ptr en = 0).
Proof. exact prog_inv. Qed.
Print Assumptions C09_program_roots_are_context.

(* the same for everything the compiler's linearization pass produces from a checked named program *)
Theorem C09_compiled_program_heap_safe : forall base p args tr c,
  prog_ok p = true -> entry_ext (linearize p) = true -> 0 < base ->
  hreach base (linearize p) args tr c ->
  pre_trace (init base) [] tr /\
  (exists hl fl cl, InvA base (hc_heap c) (roots (hc_env c)) hl fl cl).
Proof. exact compiled_program_heap_safe. Qed.
Print Assumptions C09_compiled_program_heap_safe.

Theorem C09_program_no_use_after_release : forall base p args,
  lin_check_prog p = true -> entry_ext p = true -> 0 < base ->
  forall tr c b, hreach base p args tr c -> reach (m (hc_heap c)) (roots (hc_env c)) b ->
  exists hl fl cl, InvA base (hc_heap c) (roots (hc_env c)) hl fl cl /\ In b cl /\ ~ In b hl /\ ~ In b fl.
Proof. exact prog_no_use_after_release. Qed.
Print Assumptions C09_program_no_use_after_release.

Theorem C09_program_no_double_release : forall base p args,
  lin_check_prog p = true -> entry_ext p = true -> 0 < base ->
  forall tr c en, hreach base p args tr c -> In en (hc_env c) -> h_ptr en <> 0 ->
  exists hl fl cl, InvA base (hc_heap c) (roots (hc_env c)) hl fl cl /\ ~ In (h_ptr en) (hl ++ fl) /\ In (h_ptr en) cl.
Proof. exact prog_no_double_release. Qed.
Print Assumptions C09_program_no_double_release.

Theorem C09_program_classification : forall base p args,
  lin_check_prog p = true -> entry_ext p = true -> 0 < base ->
  forall tr c a, hreach base p args tr c -> blk base a -> a < frontier (hc_heap c) ->
  exists hl fl cl, InvA base (hc_heap c) (roots (hc_env c)) hl fl cl /\
   ((In a hl /\ ~ In a fl /\ ~ In a cl) \/ (In a fl /\ ~ In a hl /\ ~ In a cl) \/
    (In a cl /\ ~ In a hl /\ ~ In a fl /\
     (reach (m (hc_heap c)) (roots (hc_env c)) a \/ reach (m (hc_heap c)) (deferred_slots (hc_heap c) fl) a))).
Proof. exact prog_classification. Qed.
Print Assumptions C09_program_classification.

(* no leak at exit: when no variable holds a pointer every block is free, deferred, or waits beneath
   a deferred block *)
Theorem C09_program_exit_no_leak : forall base p args,
  lin_check_prog p = true -> entry_ext p = true -> 0 < base ->
  forall tr c a, hreach base p args tr c -> roots (hc_env c) = [] -> blk base a -> a < frontier (hc_heap c) ->
  exists hl fl cl, InvA base (hc_heap c) [] hl fl cl /\
    (In a hl \/ In a fl \/ (In a cl /\ reach (m (hc_heap c)) (deferred_slots (hc_heap c) fl) a)).
Proof. exact prog_exit_no_leak. Qed.
Print Assumptions C09_program_exit_no_leak.

(* the heap-side ingredients: what `alloc_object` builds is read back by `obj_fields`, chains are
   owned, everything reachable from the old roots keeps its slots; the load of a represented object
   meets its precondition and keeps the chain invariant *)
Theorem C09_alloc_object_represents : forall base lk s R R0 hl fl cl fields,
  InvA base s R hl fl cl -> KI lk s R -> Permutation R (nz fields ++ R0) -> fields <> [] ->
  exists lk' j' hl' fl' cl',
    let r := alloc_object fields s in
    InvA base (snd r) (fst r :: R0) hl' fl' cl' /\ KI lk' (snd r) (fst r :: R0) /\ fst r <> 0 /\
    lk' (fst r) = nlinks (length fields) /\ links_ok (lk' (fst r)) (m (snd r)) (fst r) /\
    obj_fields (lk' (fst r)) (m (snd r)) (fst r) = repeat 0 j' ++ fields /\
    (forall b, reach (m s) R b ->
       ps (m (snd r) b) = ps (m s b) /\ lk' b = lk b /\ reach (m (snd r)) (fst r :: R0) b).
Proof. exact HeapRepAlloc.alloc_object_rep. Qed.
Print Assumptions C09_alloc_object_represents.

Theorem C09_load_object_precondition_from_chain_invariant : forall base lk s R R0 hl fl cl p k j pl,
  InvA base s R hl fl cl -> KI lk s R -> Permutation R (p :: R0) -> p <> 0 ->
  lk p = k -> obj_fields k (m s) p = repeat 0 j ++ pl ->
  pre s R (OLoadObj k p) /\
  (exists hl' fl' cl', InvA base (load_object k p s) (nz pl ++ R0) hl' fl' cl') /\
  KI lk (load_object k p s) (nz pl ++ R0).
Proof. exact HeapRepLoad.load_object_KI. Qed.
Print Assumptions C09_load_object_precondition_from_chain_invariant.

(* ---------- non-vacuity: a concrete program (Proof/AxHeapExample.v) ---------- *)
(* named AxCut, checked; its linearization (by the model of the compiler pass) is linearity-checked
   and takes integers *)
Example C09_example_program_checked : prog_ok hx_prog = true /\ lin_check_prog hx_lin = true /\ entry_ext hx_lin = true.
Proof. exact hx_checked. Qed.
Print Assumptions C09_example_program_checked.

(* its run with 3 iterations performs these 32 operations (allocation of 0-, 1- and 2-block objects,
   sharing, destructive load of a chain, non-destructive and destructive load of a shared list,
   erasure onto the deferred list, recycling, a closure environment) ... *)
Example C09_example_program_trace : hx_trace 3 =
  [OAllocObj [0]; OAllocObj []; OAllocObj [0; 0]; OAllocObj [0; 4160]; OShare 4224 1;
   OAllocObj [0; 0; 4224; 0; 4224]; OLoadObj 1 4352; OLoadObj 0 4224; OErase 4160; OLoadObj 0 4224; OErase 4160;
   OAllocObj []; OAllocObj [0; 0]; OAllocObj [0; 4224]; OShare 4288 1;
   OAllocObj [0; 0; 4288; 0; 4288]; OLoadObj 1 4416; OLoadObj 0 4288; OErase 4224; OLoadObj 0 4288; OErase 4224;
   OAllocObj []; OAllocObj [0; 0]; OAllocObj [0; 4288]; OShare 4352 1;
   OAllocObj [0; 0; 4352; 0; 4352]; OLoadObj 1 4160; OLoadObj 0 4352; OErase 4288; OLoadObj 0 4352; OErase 4288;
   OLoadObj 0 4096].
Proof. exact hx_trace_3. Qed.
Print Assumptions C09_example_program_trace.

(* ... it is a reachable configuration's trace, so by C09_program_heap_safe every precondition holds
   along it; the boolean form of the preconditions, evaluated, agrees *)
Example C09_example_program_reachable :
  exists c, hreach 4096 hx_lin [3; 100] (hx_trace 3) c /\ frontier (hc_heap c) = 4480.
Proof. exact (hx_reach 3 _ _ hx_frontier_3). Qed.
Print Assumptions C09_example_program_reachable.
Example C09_example_program_trace_wf :
  pre_trace (init 4096) [] (hx_trace 3) /\ pre_traceb (init 4096) [] (hx_trace 3) = true.
Proof. exact (conj (hx_trace_wf 3 _ _ hx_frontier_3) hx_trace_wf_computed). Qed.
Print Assumptions C09_example_program_trace_wf.

(* ====================================================================================== *)
(* store / load at the x86-64 level (round 2): the emitted code of `x_store` (let / create) and
   `x_load` (switch / invoke) refines the abstract `alloc_object` / `load_object`, for any number of
   fields (chains of blocks), all variables in registers or spill slots (`tpos k` is the temporary of
   position k), both load modes.  Proof/X86MemFrame.v, X86MemStore.v, X86MemLoad.v,
   X86MemStoreChain.v, X86MemLoadChain.v.
     vals_ok s sp val E bs   the variables bs sit at positions E, E+1, ...: second temporaries (and
                             first temporaries of non-ext variables) hold `val`
     fsts val E bs           their pointer slots, left to right, 0 for ext variables
     alloc_object_pre        the precondition of `acquire_block` (as in C09_x86_acquire_block_reg)
                             before each block of the chain, stated on the abstract state
     lf_share_ok             every link of the chain is a block, every pointer slot is 0 or a block,
                             unused slots and slots of ext fields are 0 (what `store` establishes) *)
From SCC Require Import Model.Backend Proof.X86MemFrame Proof.X86MemStore Proof.X86MemLoad Proof.X86MemStoreChain Proof.X86MemLoadChain.

(* the straight-line stores into the reserved block *)
Theorem C09_x86_store_values :
  forall im pos (to_store_next : list binding) (remaining_plus_rest : ctx) cap cs s sp rv F val,
    store_values (rev to_store_next) remaining_plus_rest HEAP cap = Ok cs ->
    (cap = 3 \/ cap = 2)%N -> (N.of_nat (length to_store_next) <= cap)%N ->
    code_at im pos cs -> frame_ok s sp -> rget s HEAP = Some rv -> is_blk rv ->
    vals_ok s sp val (length remaining_plus_rest) to_store_next ->
    exists s', steps im pos s (pnth pos (length cs)) s' /\ same_but_temp s s' /\
      stored (hword s') (hword s) val (length remaining_plus_rest) to_store_next rv cap /\
      st_eqB (abs_heap F s')
        {| Heap.m := Heap.set_ps (abs_mem s) rv
                       (Heap.pad (N.to_nat cap) (fsts val (length remaining_plus_rest) to_store_next) ++ link_slot cap (hword s) rv);
           Heap.heap := reg_or0 s HEAP; Heap.free := reg_or0 s FREE; Heap.frontier := F |}.
Proof. exact x86_store_values_ok. Qed.
Print Assumptions C09_x86_store_values.

(* one block: store_values + acquire_block = Heap.alloc; the integer slots hold the second temporaries *)
Theorem C09_x86_store_one_block :
  forall im pos (to_store remaining : ctx) lc cs lc' s sp rv h2 F val,
    x_store to_store remaining lc = Ok (cs, lc') -> (1 <= length to_store <= 3)%nat ->
    code_at im pos cs -> labels_at im pos cs -> frame_ok s sp ->
    rget s HEAP = Some rv -> is_blk rv -> rget s FREE = Some h2 ->
    (hword s rv = 0 -> is_blk h2) ->
    (hword s rv = 0 -> hword s h2 <> 0 ->
       (forall off, off = 16 \/ off = 32 \/ off = 48 -> hword s (h2 + off) = 0 \/ is_blk (hword s (h2 + off))) /\
       bounded 3 s (hword s h2)) ->
    vals_ok s sp val (length remaining) to_store ->
    let E := length remaining in let n := length to_store in
    let res := Heap.alloc (Heap.pad 3 (fsts val E to_store)) (abs_heap F s) in
    exists s', steps im pos s (pnth pos (length cs)) s' /\
      st_eqB (abs_heap (Heap.frontier (snd res)) s') (snd res) /\ fst res = rv /\
      lget s' sp (tpos (2 * N.of_nat E)) = Some rv /\
      (forall i, (i < n)%nat -> hword s' (rv + field_offset Snd (3 - N.of_nat n + N.of_nat i)) = snd_slot val (E + i)) /\
      (forall k, (k < MAXPOS)%N -> k <> (2 * N.of_nat E)%N -> lget s' sp (tpos k) = lget s sp (tpos k)) /\
      out s' = out s /\ frame_ok s' sp.
Proof. exact x86_store_one_block_ok. Qed.
Print Assumptions C09_x86_store_one_block.

(* nothing to store: the pointer is 0, nothing is allocated *)
Theorem C09_x86_store_empty :
  forall im pos (remaining : ctx) lc cs lc' s sp,
    x_store nil remaining lc = Ok (cs, lc') -> code_at im pos cs -> frame_ok s sp ->
    lc' = lc /\
    exists s', steps im pos s (pnth pos (length cs)) s' /\
      lget s' sp (tpos (2 * N.of_nat (length remaining))) = Some 0 /\
      (forall l, loc_ok l -> l <> tpos (2 * N.of_nat (length remaining)) -> l <> XR TEMP -> lget s' sp l = lget s sp l) /\
      X86Sem.heap s' = X86Sem.heap s /\ out s' = out s /\ frame_ok s' sp.
Proof. exact x86_store_empty_ok. Qed.
Print Assumptions C09_x86_store_empty.

(* any number of fields: store_fields = Heap.alloc_object *)
Theorem C09_x86_store :
  forall im pos (to_store remaining : ctx) lc cs lc' s sp F val,
    x_store to_store remaining lc = Ok (cs, lc') -> to_store <> nil ->
    code_at im pos cs -> labels_at im pos cs -> frame_ok s sp ->
    vals_ok s sp val (length remaining) to_store ->
    alloc_object_pre (fsts val (length remaining) to_store) (abs_heap F s) ->
    let res := Heap.alloc_object (fsts val (length remaining) to_store) (abs_heap F s) in
    exists s', steps im pos s (pnth pos (length cs)) s' /\
      st_eqB (abs_heap (Heap.frontier (snd res)) s') (snd res) /\
      lget s' sp (tpos (2 * N.of_nat (length remaining))) = Some (fst res) /\
      (forall k, (k < 2 * N.of_nat (length remaining))%N -> lget s' sp (tpos k) = lget s sp (tpos k)) /\
      out s' = out s /\ frame_ok s' sp.
Proof. exact x86_store_ok. Qed.
Print Assumptions C09_x86_store.

(* one block: the header test, then release or decrement-and-share = Heap.load *)
Theorem C09_x86_load_one_block :
  forall im pos (to_load existing : ctx) lc cs lc' s sp p h F,
    x_load to_load existing lc = Ok (cs, lc') -> (1 <= length to_load <= 3)%nat ->
    code_at im pos cs -> labels_at im pos cs -> frame_ok s sp ->
    lget s sp (tpos (2 * N.of_nat (length existing))) = Some p -> is_blk p -> rget s HEAP = Some h ->
    load_pre s p (length existing) to_load ->
    exists s', steps im pos s (pnth pos (length cs)) s' /\
      st_eqB (abs_heap F s') (Heap.load p (abs_heap F s)) /\
      (forall i b, nth_error to_load i = Some b ->
         lget s' sp (tpos (2 * N.of_nat (length existing + i) + 1)) =
           Some (hword s (p + field_offset Snd (3 - N.of_nat (length to_load) + N.of_nat i))) /\
         (bchi b <> AxSyn.Ext -> lget s' sp (tpos (2 * N.of_nat (length existing + i))) =
           Some (hword s (p + field_offset Fst (3 - N.of_nat (length to_load) + N.of_nat i))))) /\
      (forall k, (k < 2 * N.of_nat (length existing))%N -> lget s' sp (tpos k) = lget s sp (tpos k)) /\
      out s' = out s /\ frame_ok s' sp.
Proof. exact x86_load_one_block_ok. Qed.
Print Assumptions C09_x86_load_one_block.

(* any number of fields: load_fields in either mode = Heap.load_object (nlinks n) *)
Theorem C09_x86_load :
  forall im pos (to_load existing : ctx) lc cs lc' s sp p h F,
    x_load to_load existing lc = Ok (cs, lc') -> to_load <> nil ->
    code_at im pos cs -> labels_at im pos cs -> frame_ok s sp ->
    lget s sp (tpos (2 * N.of_nat (length existing))) = Some p -> is_blk p -> rget s HEAP = Some h ->
    lf_share_ok (S (length to_load)) (hword s) to_load Last p ->
    (forall x, is_blk x -> AxSem.min_int + 1 <= hword s x /\ hword s x + Z.of_nat (length to_load) <= AxSem.max_int) ->
    exists s', steps im pos s (pnth pos (length cs)) s' /\
      st_eqB (abs_heap F s') (Heap.load_object (Heap.nlinks (length to_load)) p (abs_heap F s)) /\
      (forall i b, nth_error to_load i = Some b ->
         let A := lf_addrs (S (length to_load)) (hword s) to_load Last p in
         let a := nth (length A - length to_load + i) A 0 in
         lget s' sp (tpos (2 * N.of_nat (length existing + i) + 1)) = Some (hword s (a + 8)) /\
         (bchi b <> AxSyn.Ext -> lget s' sp (tpos (2 * N.of_nat (length existing + i))) = Some (hword s a))) /\
      (forall k, (k < 2 * N.of_nat (length existing))%N -> lget s' sp (tpos k) = lget s sp (tpos k)) /\
      out s' = out s /\ frame_ok s' sp.
Proof. exact x86_load_ok. Qed.
Print Assumptions C09_x86_load.

(* non-vacuity: concrete code lists in mk_image *)
Example C09_x86_store_example :
  let a := abs_heap (HEAP_BASE + 64) ex5_state in
  let res0 := Heap.alloc_object (fsts ex5_val 0 ex5_store) a in
  exists lc', x_store ex5_store nil 0 = Ok (ex5_code, lc') /\
    fsts ex5_val 0 ex5_store = 0 :: 102 :: 0 :: 106 :: 0 :: nil /\
    fst res0 = HEAP_BASE + 64 /\ Heap.frontier (snd res0) = HEAP_BASE + 192 /\
    exists s', steps (mk_image ex5_code) 1 ex5_state (pnth 1 (length ex5_code)) s' /\
      st_eqB (abs_heap (HEAP_BASE + 192) s') (snd res0) /\ rget s' 4 = Some (HEAP_BASE + 64).
Proof. exact x86_store_example. Qed.
Print Assumptions C09_x86_store_example.

Example C09_x86_load_example :
  exists lc', x_load ex5_store ex6_existing 0 = Ok (ex6_code, lc') /\
    exists s', steps (mk_image ex6_code) 1 ex6_state (pnth 1 (length ex6_code)) s' /\
      st_eqB (abs_heap (HEAP_BASE + 256) s') (Heap.load_object 1 HEAP_BASE (abs_heap (HEAP_BASE + 256) ex6_state)) /\
      sget s' ex_sp 2 = Some 11 /\ sget s' ex_sp 3 = Some (HEAP_BASE + 128) /\ sget s' ex_sp 10 = Some 55 /\ rget s' 4 = Some 777.
Proof. exact x86_load_example. Qed.
Print Assumptions C09_x86_load_example.

(* the memory part of `substitute` at the x86-64 level: the code `code_weakening_contraction` emits for
   the transposed map tm - an erase_block or a share_block_n per non-ext binding, in the order of tm -
   refines exactly the operation list the instrumented machine performs for the substitution
   (Sem/AxHeap.v `subst_ops` = these `rc_op`s for tm = Backend.transpose re (ctx_of he)).  `hb lo hi`:
   all headers and the free pointer are lo above min_int and hi below max_int, so the counts do not wrap *)
From SCC Require Import Proof.X86MemSubstOps.
Theorem C09_x86_substitute_memory :
  forall im (ptr : binding -> Z) context F sp tm lc cs lc' pos s f,
    code_weakening_contraction x86_backend tm context lc = Ok (cs, lc') ->
    code_at im pos cs -> labels_at im pos cs -> frame_ok s sp -> rget s FREE = Some f ->
    (forall b targets t, In (b, targets) tm -> bchi b <> AxSyn.Ext ->
       variable_temporary x86_backend Fst context (idn (bvar b)) = Ok t ->
       lget s sp t = Some (ptr b) /\ (ptr b = 0 \/ is_blk (ptr b))) ->
    let acts := tm_acts ptr context tm in
    hb (n_erase acts) (n_share acts) s f -> n_share acts <= 2 ^ 31 - 1 -> n_erase acts <= 2 ^ 31 - 1 ->
    let ops := flat_map (fun bt : binding * list N => rc_op (bchi (fst bt)) (ptr (fst bt)) (length (snd bt))) tm in
    exists s', steps im pos s (pnth pos (length cs)) s' /\
      st_eqB (abs_heap F s') (hrun ops (abs_heap F s)) /\
      same_but_temp_free s s' /\ frame_ok s' sp /\
      rget s' FREE = Some (Heap.free (hrun ops (abs_heap F s))).
Proof. exact x86_weakening_contraction_ok. Qed.
Print Assumptions C09_x86_substitute_memory.

Example C09_x86_substitute_memory_example :
  let ops := flat_map (fun bt : binding * list N => rc_op (bchi (fst bt)) (exs_ptr (fst bt)) (length (snd bt))) exs_tm in
  ops = Heap.OErase (HEAP_BASE + 64) :: Heap.OShare (HEAP_BASE + 128) 1 :: nil /\
  exists lc', code_weakening_contraction x86_backend exs_tm exs_ctx 0 = Ok (exs_code, lc') /\
  exists s', steps (mk_image exs_code) 1 exs_state (pnth 1 (length exs_code)) s' /\
    st_eqB (abs_heap (HEAP_BASE + 192) s') (hrun ops (abs_heap (HEAP_BASE + 192) exs_state)) /\
    rget s' FREE = Some (HEAP_BASE + 64) /\ hword s' (HEAP_BASE + 64) = HEAP_BASE + 192 /\ hword s' (HEAP_BASE + 128) = 1.
Proof. exact x86_substitute_memory_example. Qed.
Print Assumptions C09_x86_substitute_memory_example.


(* ================= known finding heap-exhaustion-unchecked (worker sim86b) ================= *)
(* ALL claims above are about executions that FIT THE HEAP: the refinement theorems take `is_blk` operands and the
   allocation theorems a frontier below the end of the region as hypotheses, and these hypotheses cannot be
   discharged for every execution - the generated code never compares the frontier with the end of the heap
   buffer.  The statement "from every state whose HEAP register holds a block of the region (FREE the next block,
   heap zeroed) the code of an allocation - Model/X86.v x_store of one integer field - runs to its end" is FALSE on the
   ISA model: from the last block of the region acquire_block inspects the header at HEAP_BASE + HEAP_SIZE, an
   out-of-bounds load (natively: corpus/c09/heap_exhaustion.sc overruns the calloc'd buffer silently for 524288
   live blocks and dies with SIGSEGV for 600000).  The check exhibits it on the REAL code on every run (step
   heapfull-x86, known finding heap-exhaustion-unchecked).  Program-level theorems carry `heap_fits`
   (Props/C06.v, C06_codegen_simulates_partial). *)
From SCC Require Import Proof.X86HeapFull.
Theorem C09_x86_allocation_stays_in_region_refuted :
  ~ (forall h : Z, is_blk h -> hf_outcome h = hf_end).
Proof. exact alloc_in_region_refuted. Qed.
Print Assumptions C09_x86_allocation_stays_in_region_refuted.
(* the two runs behind it: from the last block but one the allocation succeeds and leaves HEAP at the last block,
   FREE at the end of the region; from the last block it faults *)
Example C09_x86_allocation_at_the_limit :
  (let r := run 50 2000 (mk_image hf_code) 1 (hf_state (HEAP_BASE + HEAP_SIZE - 128)) in
   snd (fst r) = hf_end /\
   rget (snd r) HEAP = Some (HEAP_BASE + HEAP_SIZE - 64) /\ rget (snd r) FREE = Some (HEAP_BASE + HEAP_SIZE) /\
   hword (snd r) (HEAP_BASE + HEAP_SIZE - 128 + 56) = 7) /\
  hf_outcome (HEAP_BASE + HEAP_SIZE - 64) = hf_oob_load.
Proof. exact (conj alloc_before_last_ok alloc_at_last_faults). Qed.
Print Assumptions C09_x86_allocation_at_the_limit.

(* ====================================================================================== *)
(* AArch64: the allocator code of lang/axcut2aarch64/src/memory.rs (model: Model/A64.v, ISA semantics: Sem/A64Sem.v)
   refines the SAME abstract allocator through an abstraction `abs_heap` of the AArch64 state (HEAP = X0, FREE = X1,
   header = word 0 of a block, pointer slots = the words at offsets 16/32/48); `is_blk` and the block-wise equality
   `st_eqB` are the ones of the x86-64 statements above (the ISA models place the heap at the same addresses).
   Proof/A64Mem.v, Proof/A64MemOps.v.  Differences in the hypotheses: the header tests are `CMP #0` on the 64-bit
   value, so headers that are tested must be 64-bit values (`min_int <= hword s rv <= max_int`, the lower bounds of
   erase, `bounded`); counts are updated through TEMP2 = X3, so X2 AND X3 are scratch (`sbt`).
   Every statement also says what is left alone: registers, spill slots, the stack outside the spill area
   (`stack_frame`), heap words that are not block headers (`nonblk_same`), the output.
   SEEDED DEFECT 1 (acquire_block into a spill slot initialising the header of the wrong block): for that variant
   `C09_a64_acquire_block_spill` is false - in case (1) the conclusion demands header(rv) = 0 while the defective
   code (`STR XZR, [HEAP]` after `LDR HEAP, [HEAP]`) leaves the free-list link in rv and clears the header of the
   NEXT reusable block; in the proof, `a64_acquire_tail` (Proof/A64MemOps.v) needs `rget s ri = Some rv` for the
   register the store goes through. *)
From SCC Require Import Model.A64 Sem.A64Sem Proof.A64State Proof.A64Sel Proof.A64Exec Proof.A64Mem Proof.A64MemOps Proof.A64MemTop.

Theorem C09_a64_share_block :
  forall im pos t n lc s sp p F,
    let cs := fst (a_share_block_n t n lc) in
    code_at im pos cs -> labels_at im pos cs ->
    frame_ok s sp -> operand_ok t -> lget s sp t = Some p ->
    (p = 0 \/ is_blk p) ->
    (p <> 0 -> AxSem.wrap (hword s p + Z.of_N n) = hword s p + Z.of_N n) ->
    exists s', exec_to im pos s (padd pos (List.length cs)) s' /\
       st_eqB (abs_heap F s') (Heap.share p (Z.of_N n) (abs_heap F s)) /\
       sbt s s' /\ frame_ok s' sp /\
       (forall a, hword s' a = if andb (negb (p =? 0)) (a =? p) then hword s p + Z.of_N n else hword s a).
Proof. exact a64_share_block_ok. Qed.
Print Assumptions C09_a64_share_block.

Theorem C09_a64_erase_block :
  forall im pos t lc s sp p f F,
    let cs := fst (a_erase_block t lc) in
    code_at im pos cs -> labels_at im pos cs ->
    frame_ok s sp -> operand_ok t -> t <> AR FREE -> t <> AR HEAP -> lget s sp t = Some p -> rget s FREE = Some f ->
    (p = 0 \/ is_blk p) ->
    (p <> 0 -> AxSem.min_int + 1 <= hword s p <= AxSem.max_int) ->
    exists s', exec_to im pos s (padd pos (List.length cs)) s' /\
       st_eqB (abs_heap F s') (Heap.erase p (abs_heap F s)) /\
       sbtf s s' /\ frame_ok s' sp /\ rget s' FREE = Some (Heap.free (Heap.erase p (abs_heap F s))) /\
       nonblk_same s s'.
Proof. exact a64_erase_block_ok. Qed.
Print Assumptions C09_a64_erase_block.

Theorem C09_a64_release_block :
  forall im pos r s p h F,
    code_at im pos (release_block r) -> gp r ->
    rget s r = Some p -> rget s HEAP = Some h -> is_blk p ->
    exists s', exec_to im pos s (padd pos 2) s' /\
       st_eqB (abs_heap F s') (Heap.release p (abs_heap F s)) /\
       (forall r', r' <> HEAP -> rget s' r' = rget s r') /\ rget s' HEAP = Some p /\ stack s' = stack s /\ out s' = out s /\
       (forall a, hword s' a = if a =? p then h else hword s a).
Proof. exact a64_release_block_ok. Qed.
Print Assumptions C09_a64_release_block.

(* acquire_block: (1) next block of the reuse list, (2) recycle the first deferred block and erase its three
   children lazily, (3) bump; the new block in a register ... *)
Theorem C09_a64_acquire_block_reg :
  forall im pos r lc s sp rv h2 F,
    let cs := fst (acquire_block (AR r) lc) in
    code_at im pos cs -> labels_at im pos cs ->
    frame_ok s sp -> gp r -> r <> HEAP -> r <> FREE -> r <> TEMP -> r <> TEMP2 ->
    rget s HEAP = Some rv -> is_blk rv -> rget s FREE = Some h2 ->
    AxSem.min_int <= hword s rv <= AxSem.max_int ->
    (hword s rv = 0 -> is_blk h2) ->
    (hword s rv = 0 -> hword s h2 <> 0 ->
       (forall off, off = 16 \/ off = 32 \/ off = 48 -> hword s (h2 + off) = 0 \/ is_blk (hword s (h2 + off))) /\
       bounded 3 s (hword s h2)) ->
    exists s', exec_to im pos s (padd pos (List.length cs)) s' /\
      st_eqB (abs_heap (Heap.frontier (snd (Heap.acquire (abs_heap F s)))) s') (snd (Heap.acquire (abs_heap F s))) /\
      rget s' r = Some rv /\ fst (Heap.acquire (abs_heap F s)) = rv /\
      (forall r', r' <> r -> r' <> TEMP -> r' <> TEMP2 -> r' <> HEAP -> r' <> FREE -> rget s' r' = rget s r') /\
      stack s' = stack s /\ out s' = out s /\ frame_ok s' sp /\ nonblk_same s s'.
Proof. exact a64_acquire_block_reg_ok. Qed.
Print Assumptions C09_a64_acquire_block_reg.

(* ... or in a spill slot (the path of seeded defect 1) *)
Theorem C09_a64_acquire_block_spill :
  forall im pos q lc s sp rv h2 F,
    let cs := fst (acquire_block (AS q) lc) in
    code_at im pos cs -> labels_at im pos cs ->
    frame_ok s sp -> slot_ok q ->
    rget s HEAP = Some rv -> is_blk rv -> rget s FREE = Some h2 ->
    AxSem.min_int <= hword s rv <= AxSem.max_int ->
    (hword s rv = 0 -> is_blk h2) ->
    (hword s rv = 0 -> hword s h2 <> 0 ->
       (forall off, off = 16 \/ off = 32 \/ off = 48 -> hword s (h2 + off) = 0 \/ is_blk (hword s (h2 + off))) /\
       bounded 3 s (hword s h2)) ->
    exists s', exec_to im pos s (padd pos (List.length cs)) s' /\
      st_eqB (abs_heap (Heap.frontier (snd (Heap.acquire (abs_heap F s)))) s') (snd (Heap.acquire (abs_heap F s))) /\
      sget s' sp q = Some rv /\ fst (Heap.acquire (abs_heap F s)) = rv /\
      (forall r', r' <> TEMP -> r' <> TEMP2 -> r' <> HEAP -> r' <> FREE -> rget s' r' = rget s r') /\
      (forall q', slot_ok q' -> q' <> q -> sget s' sp q' = sget s sp q') /\ out s' = out s /\ frame_ok s' sp /\
      nonblk_same s s' /\ stack_frame s s' sp.
Proof. exact a64_acquire_block_spill_ok. Qed.
Print Assumptions C09_a64_acquire_block_spill.

Theorem C09_a64_image :
  forall cs, NoDup (label_names cs) -> code_at (mk_image cs) 1%positive cs /\ labels_at (mk_image cs) 1%positive cs.
Proof. exact mk_image_code_labels. Qed.
Print Assumptions C09_a64_image.

Theorem C09_a64_steps_run :
  forall im pc s pc' s', exec_to im pc s pc' s' ->
    exists n, forall fuel, run_chunk (n + fuel) im pc s = run_chunk fuel im pc' s'.
Proof. exact exec_to_run_chunk. Qed.
Print Assumptions C09_a64_steps_run.

(* ---------- AArch64: store (Let / Create) and load (Switch / Invoke) ---------- *)
(* Proof/A64MemStore.v, A64MemStoreChain.v, A64MemLoad.v, A64MemLoadChain.v (ports of the x86-64 proofs; the abstract
   side - `fsts`, `alloc_object_pre`, `alloc_object_acq`, `wblocks`, `waddrs`, `lf_share_ok`, `lf_addrs` - is literally
   shared).  Only the strongest form of each theorem exists: besides the refinement of `Heap.alloc_object` /
   `Heap.load_object` it gives the data words, the frame of the heap words, of the temporaries and of the stack.
   `tpos k`: temporary of position k (registers X4..X29 for k < 26, spill slots k - 25 after, slot 0 is scratch).
   Extra hypothesis of the store: `alloc_object_hdr64` (the header of the reserved block is a 64-bit value at every
   acquire of the chain).
   SEEDED DEFECT 2 (`register_freed` not reset between the Release and the Share call of `load_fields`): with the flag
   carried over, the Share branch of a load whose block pointers sit in spill slots neither saves X10 = `tpos 6` before
   using it for the block pointer nor restores it to its value (it reloads slot 0, stale); `C09_a64_load`'s conjunct
   `forall k < 2 * |existing|, lget s' sp (tpos k) = lget s sp (tpos k)` is false for k = 6 then.  In the proof:
   `a64_load_fields_ok` (Proof/A64MemLoadChain.v) is applied with `freed = false` in the Share branch of
   `a64_load_walk_full`; with `freed = true` its `saved`/`lgetL` hypothesis reads slot 0, which nothing has written. *)
From SCC Require Import Proof.X86HeapDefs Proof.X86HeapAcq.
From SCC Require Import Proof.A64MemStore Proof.A64MemStoreChain Proof.A64MemLoad Proof.A64MemLoadChain.
From SCC Require Import Model.A64 Sem.A64Sem Proof.A64State Proof.A64Exec Proof.A64Mem Proof.A64MemOps.

Theorem C09_a64_store_empty :
  forall im pos (remaining : ctx) lc cs lc' s sp,
    a_store nil remaining lc = Ok (cs, lc') -> code_at im pos cs -> frame_ok s sp ->
    lc' = lc /\
    exists s', exec_to im pos s (padd pos (length cs)) s' /\
      lget s' sp (tpos (2 * N.of_nat (length remaining))) = Some 0 /\
      (forall l, loc_ok l -> l <> tpos (2 * N.of_nat (length remaining)) -> l <> AR TEMP -> lget s' sp l = lget s sp l) /\
      heap s' = heap s /\ out s' = out s /\ frame_ok s' sp /\ stack_frame s s' sp.
Proof. exact a64_store_empty_ok. Qed.
Print Assumptions C09_a64_store_empty.

Theorem C09_a64_store_one_block :
  forall im pos (to_store remaining : ctx) lc cs lc' s sp rv h2 F val,
    a_store to_store remaining lc = Ok (cs, lc') -> (1 <= length to_store <= 3)%nat ->
    code_at im pos cs -> labels_at im pos cs -> frame_ok s sp ->
    rget s HEAP = Some rv -> is_blk rv -> rget s FREE = Some h2 ->
    AxSem.min_int <= hword s rv <= AxSem.max_int ->
    (hword s rv = 0 -> is_blk h2) ->
    (hword s rv = 0 -> hword s h2 <> 0 ->
       (forall off, off = 16 \/ off = 32 \/ off = 48 -> hword s (h2 + off) = 0 \/ is_blk (hword s (h2 + off))) /\
       bounded 3 s (hword s h2)) ->
    vals_ok s sp val (length remaining) to_store ->
    let E := length remaining in let n := length to_store in
    let res := Heap.alloc (Heap.pad 3 (fsts val E to_store)) (abs_heap F s) in
    exists s', exec_to im pos s (padd pos (length cs)) s' /\
      st_eqB (abs_heap (Heap.frontier (snd res)) s') (snd res) /\ fst res = rv /\
      lget s' sp (tpos (2 * N.of_nat E)) = Some rv /\
      (forall i, (i < n)%nat -> hword s' (rv + field_offset Snd (3 - N.of_nat n + N.of_nat i)) = snd_slot val (E + i)) /\
      (forall k, (k < MAXPOS)%N -> k <> (2 * N.of_nat E)%N -> lget s' sp (tpos k) = lget s sp (tpos k)) /\
      out s' = out s /\ frame_ok s' sp /\ stack_frame s s' sp.
Proof. exact a64_store_one_block_ok. Qed.
Print Assumptions C09_a64_store_one_block.

(* any number of fields (chains), the new block pointers in registers or spill slots: a_store = Heap.alloc_object *)
Theorem C09_a64_store :
  forall im pos (to_store remaining : ctx) lc cs lc' s sp F val,
    a_store to_store remaining lc = Ok (cs, lc') -> to_store <> nil ->
    code_at im pos cs -> labels_at im pos cs -> frame_ok s sp ->
    vals_ok s sp val (length remaining) to_store ->
    let E := length remaining in let n := length to_store in let k := Heap.nlinks n in
    let fields := fsts val E to_store in
    alloc_object_pre fields (abs_heap F s) -> alloc_object_hdr64 fields (abs_heap F s) ->
    NoDup (alloc_object_acq fields (abs_heap F s)) ->
    let res := Heap.alloc_object fields (abs_heap F s) in
    exists s', exec_to im pos s (padd pos (length cs)) s' /\
      st_eqB (abs_heap (Heap.frontier (snd res)) s') (snd res) /\
      lget s' sp (tpos (2 * N.of_nat E)) = Some (fst res) /\
      (forall q, (q < 2 * N.of_nat E)%N -> lget s' sp (tpos q) = lget s sp (tpos q)) /\
      out s' = out s /\ frame_ok s' sp /\
      wblocks k (hword s') (fst res) = rev (alloc_object_acq fields (abs_heap F s)) /\
      Forall is_blk (wblocks k (hword s') (fst res)) /\
      (let A := waddrs k (hword s') (fst res) in
       (forall i b, nth_error to_store i = Some b ->
          let a := nth (length A - n + i) A 0 in
          hword s' a = fst_slot val (E + i) b /\ hword s' (a + 8) = snd_slot val (E + i)) /\
       (forall j, (j < length A - n)%nat -> hword s' (nth j A 0) = 0)) /\
      (forall a, ~ is_blk a -> (forall b, In b (alloc_object_acq fields (abs_heap F s)) -> a < b \/ b + 64 <= a) -> hword s' a = hword s a) /\
      stack_frame s s' sp.
Proof. exact a64_store_full. Qed.
Print Assumptions C09_a64_store.

Theorem C09_a64_load_one_block :
  forall im pos (to_load existing : ctx) lc cs lc' s sp p h F,
    a_load to_load existing lc = Ok (cs, lc') -> (1 <= length to_load <= 3)%nat ->
    code_at im pos cs -> labels_at im pos cs -> frame_ok s sp ->
    lget s sp (tpos (2 * N.of_nat (length existing))) = Some p -> is_blk p -> rget s HEAP = Some h ->
    load_pre s p (length existing) to_load ->
    exists s', exec_to im pos s (padd pos (length cs)) s' /\
      st_eqB (abs_heap F s') (Heap.load p (abs_heap F s)) /\
      (forall i b, nth_error to_load i = Some b ->
         lget s' sp (tpos (2 * N.of_nat (length existing + i) + 1)) =
           Some (hword s (p + field_offset Snd (3 - N.of_nat (length to_load) + N.of_nat i))) /\
         (bchi b <> AxSyn.Ext -> lget s' sp (tpos (2 * N.of_nat (length existing + i))) =
           Some (hword s (p + field_offset Fst (3 - N.of_nat (length to_load) + N.of_nat i))))) /\
      (forall k, (k < 2 * N.of_nat (length existing))%N -> lget s' sp (tpos k) = lget s sp (tpos k)) /\
      out s' = out s /\ frame_ok s' sp.
Proof. exact a64_load_one_block_ok. Qed.
Print Assumptions C09_a64_load_one_block.

(* any number of fields, both modes, block pointers in registers or in spill slots (then worked on in X10, which is
   saved to slot 0 and restored): a_load = Heap.load_object *)
Theorem C09_a64_load :
  forall im pos (to_load existing : ctx) lc cs lc' s sp p h F,
    a_load to_load existing lc = Ok (cs, lc') -> to_load <> nil ->
    code_at im pos cs -> labels_at im pos cs -> frame_ok s sp ->
    lget s sp (tpos (2 * N.of_nat (length existing))) = Some p -> is_blk p -> rget s HEAP = Some h ->
    lf_share_ok (S (length to_load)) (hword s) to_load X86.Last p ->
    (forall x, is_blk x -> AxSem.min_int + 1 <= hword s x /\ hword s x + Z.of_nat (length to_load) <= AxSem.max_int) ->
    exists s', exec_to im pos s (padd pos (length cs)) s' /\
      st_eqB (abs_heap F s') (Heap.load_object (Heap.nlinks (length to_load)) p (abs_heap F s)) /\
      (forall i b, nth_error to_load i = Some b ->
         let A := lf_addrs (S (length to_load)) (hword s) to_load X86.Last p in
         let a := nth (length A - length to_load + i) A 0 in
         lget s' sp (tpos (2 * N.of_nat (length existing + i) + 1)) = Some (hword s (a + 8)) /\
         (bchi b <> AxSyn.Ext -> lget s' sp (tpos (2 * N.of_nat (length existing + i))) = Some (hword s a))) /\
      (forall k, (k < 2 * N.of_nat (length existing))%N -> lget s' sp (tpos k) = lget s sp (tpos k)) /\
      out s' = out s /\ frame_ok s' sp /\
      nonblk_same s s' /\ (exists h', rget s' HEAP = Some h') /\ rget s' FREE = rget s FREE /\ stack_frame s s' sp.
Proof. exact a64_load_full. Qed.
Print Assumptions C09_a64_load.

(* non-vacuity: a 5-field object (2 blocks) stored behind 13 variables - the new block pointers go to spill slots, the
   path of seeded defect 1 - and a shared 2-block object loaded behind 13 variables - every block pointer in a spill
   slot, X10 evacuated and restored, the path of seeded defect 2 *)
Example C09_a64_store_example :
  let a := abs_heap (HEAP_BASE + 64) A64MemStoreChain.ex5_state in
  let res := Heap.alloc_object (fsts A64MemStoreChain.ex5_val 13 A64MemStoreChain.ex5_store) a in
  exists lc', a_store A64MemStoreChain.ex5_store A64MemStoreChain.ex5_rem 0 = Ok (A64MemStoreChain.ex5_code, lc') /\
  fsts A64MemStoreChain.ex5_val 13 A64MemStoreChain.ex5_store = 0 :: 128 :: 0 :: 132 :: 0 :: nil /\ tpos 26 = AS 1 /\
  fst res = HEAP_BASE + 64 /\ Heap.frontier (snd res) = HEAP_BASE + 192 /\
  exists s', exec_to (mk_image A64MemStoreChain.ex5_code) 1 A64MemStoreChain.ex5_state (padd 1 (length A64MemStoreChain.ex5_code)) s' /\
     st_eqB (abs_heap (HEAP_BASE + 192) s') (snd res) /\ sget s' A64MemStoreChain.ex_sp 1 = Some (HEAP_BASE + 64) /\
     wblocks 1 (hword s') (HEAP_BASE + 64) = (HEAP_BASE + 64) :: HEAP_BASE :: nil /\
     hword s' (HEAP_BASE + 64 + 16 + 8) = 127 /\ hword s' (HEAP_BASE + 64 + 32) = 128 /\ hword s' (HEAP_BASE + 48 + 8) = 135 /\
     stack_frame A64MemStoreChain.ex5_state s' A64MemStoreChain.ex_sp.
Proof. exact a64_store_example. Qed.
Print Assumptions C09_a64_store_example.

Example C09_a64_load_example :
  exists lc', a_load X86MemStoreChain.ex5_store ex13_existing 0 = Ok (ex13_code, lc') /\
  hword ex13_state HEAP_BASE = 1 /\ rget ex13_state TEMPORARY_TEMP = Some 777 /\
  exists s', exec_to (mk_image ex13_code) 1 ex13_state (padd 1 (length ex13_code)) s' /\
     st_eqB (abs_heap (HEAP_BASE + 256) s') (Heap.load_object 1 HEAP_BASE (abs_heap (HEAP_BASE + 256) ex13_state)) /\
     sget s' A64MemLoadChain.ex_sp 2 = Some 11 /\ sget s' A64MemLoadChain.ex_sp 3 = Some (HEAP_BASE + 128) /\
     sget s' A64MemLoadChain.ex_sp 10 = Some 55 /\ rget s' TEMPORARY_TEMP = Some 777.
Proof. exact a64_load_example. Qed.
Print Assumptions C09_a64_load_example.

(* the memory part of `substitute` on AArch64 (Proof/A64MemSubstOps.v; the shape of C09_x86_substitute_memory): the code
   `code_weakening_contraction` emits for the transposed map tm refines exactly the operation list the instrumented machine
   performs for the substitution; `hb lo hi` keeps the counts from wrapping and every tested header a 64-bit value *)
From SCC Require Import Proof.A64MemSubstOps.
Theorem C09_a64_substitute_memory :
  forall im (ptr : binding -> Z) context F sp tm lc cs lc' pos s f,
    code_weakening_contraction a64_backend tm context lc = Ok (cs, lc') ->
    code_at im pos cs -> labels_at im pos cs -> frame_ok s sp -> rget s FREE = Some f ->
    (forall b targets t, In (b, targets) tm -> bchi b <> AxSyn.Ext ->
       variable_temporary a64_backend Fst context (idn (bvar b)) = Ok t ->
       lget s sp t = Some (ptr b) /\ (ptr b = 0 \/ is_blk (ptr b))) ->
    let acts := A64MemSubstOps.tm_acts ptr context tm in
    A64MemSubstOps.hb (A64MemSubstOps.n_erase acts) (A64MemSubstOps.n_share acts) s f ->
    A64MemSubstOps.n_share acts <= 2 ^ 31 - 1 -> A64MemSubstOps.n_erase acts <= 2 ^ 31 - 1 ->
    let ops := flat_map (fun bt : binding * list N => rc_op (bchi (fst bt)) (ptr (fst bt)) (length (snd bt))) tm in
    exists s', exec_to im pos s (padd pos (length cs)) s' /\
      st_eqB (abs_heap F s') (hrun ops (abs_heap F s)) /\
      sbtf s s' /\ frame_ok s' sp /\
      rget s' FREE = Some (Heap.free (hrun ops (abs_heap F s))).
Proof. exact a64_weakening_contraction_ok. Qed.
Print Assumptions C09_a64_substitute_memory.

(* THE TWO SEEDED DEFECTS, put into the model, refute the statements above on concrete states (Proof/A64MemDefects.v, by
   evaluation of the ISA model).  (1) acquire_block into a spill slot with `STR XZR, [HEAP]` for `STR XZR, [TEMP]`: from a state
   whose reuse list has two blocks the real code clears the header of the acquired block (as Heap.acquire demands), the
   defective code leaves the free-list link there - the abstraction of its final state is NOT Heap.acquire of the first. *)
From SCC Require Import Proof.A64MemDefects.
Theorem C09_a64_seeded_defect1_refuted :
  let a := abs_heap (HEAP_BASE + 128) d1_state in
  fst (Heap.acquire a) = HEAP_BASE /\ Heap.hdr (Heap.m (snd (Heap.acquire a)) HEAP_BASE) = 0 /\
  (exists s', final_state (fst (acquire_block (AS 1) 0)) d1_state = Some s' /\
              sget s' d1_sp 1 = Some HEAP_BASE /\ hword s' HEAP_BASE = 0 /\ rget s' HEAP = Some (HEAP_BASE + 64)) /\
  (exists s', final_state (fst (acquire_block_bad (AS 1) 0)) d1_state = Some s' /\
              sget s' d1_sp 1 = Some HEAP_BASE /\ hword s' HEAP_BASE = HEAP_BASE + 64 /\
              ~ st_eqB (abs_heap (HEAP_BASE + 128) s') (snd (Heap.acquire a))).
Proof. exact defect1_refutes_acquire_spill. Qed.
Print Assumptions C09_a64_seeded_defect1_refuted.
(* (2) `register_freed` carried over from the Release to the Share call of load_fields: loading the shared two-block object of
   C09_a64_load_example behind 13 variables, the real code restores X10 = `tpos 6` (a live variable of `existing`), the
   defective code does not - the conjunct "temporaries below 2 * |existing| unchanged" of C09_a64_load fails for it *)
Theorem C09_a64_seeded_defect2_refuted :
  lget ex13_state A64MemLoadChain.ex_sp (tpos 6) = Some 777 /\ (6 < 2 * N.of_nat (length ex13_existing))%N /\
  (exists s', final_state ex13_code ex13_state = Some s' /\ lget s' A64MemLoadChain.ex_sp (tpos 6) = Some 777) /\
  (exists s', final_state ex13_code_bad ex13_state = Some s' /\ lget s' A64MemLoadChain.ex_sp (tpos 6) <> Some 777).
Proof. exact defect2_refutes_load. Qed.
Print Assumptions C09_a64_seeded_defect2_refuted.

(* ====================================================================================== *)
(* RISC-V (worker rvchain): store (Let / Create) and load (Switch / Invoke) of objects of ANY number of fields, the
   code of lang/axcut2rv64/src/memory.rs `store` / `store_fields` / `load` / `load_fields` (with block positions) as
   transliterated in Model/RV.v (`r_store`, `r_load`), on Sem/RVSem.v.  Proof/RVMemStoreChain.v, RVMemLoadChain.v.
   `RVHeapAbs.abs_heap F s` abstracts a RISC-V state (HEAP = X2, FREE = X3, header = word 0 of a block, pointer slots =
   the words at 16/32/48); `RVHeapAbs.is_blk` / `st_eqB` are convertible with the x86-64 ones above (the ISA models
   place the heap at the same addresses), so the abstract side - `fsts`, `alloc_object_pre`, `alloc_object_acq`,
   `wblocks`, `waddrs`, `lf_share_ok`, `lf_addrs` - is literally shared with x86-64 / AArch64.  RISC-V has no spill
   slots: the temporary of position k is the register X(k + 4) (`RVHMem.rtp`).  `RVSel.star` is the small-step closure
   that C08 ties to the executable machine (`C08_run_chunk_one`); `RVSel.placed` = code and labels of the fragment
   sit in the image (`C08_placed_mk_image`).  The allocator operations themselves: `C08_rv_share_block_heap`,
   `C08_rv_erase_block_heap`, `C08_rv_release_block_heap`, `C08_rv_acquire_block_heap` (Props/C08.v). *)
From SCC Require Proof.RVSel Proof.RVHeapAbs Proof.RVHMem Proof.RVMemStoreChain Proof.RVMemLoadChain Proof.RVMemChainExample.
From SCC Require Model.RV Sem.RVSem.

(* any number of fields (chains): r_store = Heap.alloc_object *)
Theorem C09_rv_store :
  forall im pos (to_store remaining : ctx) lc cs lc' s F val,
    RV.r_store to_store remaining lc = Ok (cs, lc') -> to_store <> nil ->
    RVSel.placed im pos cs ->
    RVHMem.vals_ok s val (length remaining) to_store ->
    let E := length remaining in let n := length to_store in let k := Heap.nlinks n in
    let fields := fsts val E to_store in
    alloc_object_pre fields (RVHeapAbs.abs_heap F s) ->
    NoDup (alloc_object_acq fields (RVHeapAbs.abs_heap F s)) ->
    let res := Heap.alloc_object fields (RVHeapAbs.abs_heap F s) in
    exists s', RVSel.star im pos s (RVSel.padd pos (length cs)) s' /\
      RVHeapAbs.st_eqB (RVHeapAbs.abs_heap (Heap.frontier (snd res)) s') (snd res) /\
      RVSem.rget s' (RVHMem.rtp (2 * N.of_nat E)) = Some (fst res) /\
      (forall q, (q < 2 * N.of_nat E)%N -> RVSem.rget s' (RVHMem.rtp q) = RVSem.rget s (RVHMem.rtp q)) /\
      wblocks k (RVSel.hword s') (fst res) = rev (alloc_object_acq fields (RVHeapAbs.abs_heap F s)) /\
      Forall RVHeapAbs.is_blk (wblocks k (RVSel.hword s') (fst res)) /\
      (let A := waddrs k (RVSel.hword s') (fst res) in
       (forall i b, nth_error to_store i = Some b ->
          let a := nth (length A - n + i) A 0 in
          RVSel.hword s' a = fst_slot val (E + i) b /\ RVSel.hword s' (a + 8) = snd_slot val (E + i)) /\
       (forall j, (j < length A - n)%nat -> RVSel.hword s' (nth j A 0) = 0)) /\
      (forall a, ~ RVHeapAbs.is_blk a -> (forall b, In b (alloc_object_acq fields (RVHeapAbs.abs_heap F s)) -> a < b \/ b + 64 <= a) ->
         RVSel.hword s' a = RVSel.hword s a).
Proof. exact RVMemStoreChain.rv_store_chain. Qed.
Print Assumptions C09_rv_store.

(* no field: the null pointer, no allocation *)
Theorem C09_rv_store_empty :
  forall im pos (remaining : ctx) lc cs lc' s,
    RV.r_store nil remaining lc = Ok (cs, lc') -> RVSel.placed im pos cs ->
    lc' = lc /\
    exists s', RVSel.star im pos s (RVSel.padd pos (length cs)) s' /\
      RVSem.rget s' (RVHMem.rtp (2 * N.of_nat (length remaining))) = Some 0 /\
      (forall r, r <> RVHMem.rtp (2 * N.of_nat (length remaining)) -> RVSem.rget s' r = RVSem.rget s r) /\
      (forall a, RVSel.hword s' a = RVSel.hword s a).
Proof. exact RVMemStoreChain.rv_store_empty. Qed.
Print Assumptions C09_rv_store_empty.

(* any number of fields, both modes (header 0: every block of the chain released, head first; otherwise the head's count
   decremented and every loaded pointer shared): r_load = Heap.load_object (nlinks n) p *)
Theorem C09_rv_load :
  forall im pos (to_load existing : ctx) lc cs lc' s p F,
    RV.r_load to_load existing lc = Ok (cs, lc') -> to_load <> nil ->
    RVSel.placed im pos cs ->
    RVSem.rget s (RVHMem.rtp (2 * N.of_nat (length existing))) = Some p -> RVHeapAbs.is_blk p ->
    (exists h, RVSem.rget s RV.HEAP = Some h) -> (exists f0, RVSem.rget s RV.FREE = Some f0) ->
    lf_share_ok (S (length to_load)) (RVSel.hword s) to_load X86.Last p ->
    (forall x, RVHeapAbs.is_blk x -> AxSem.min_int + 1 <= RVSel.hword s x /\ RVSel.hword s x + Z.of_nat (length to_load) <= AxSem.max_int) ->
    exists s', RVSel.star im pos s (RVSel.padd pos (length cs)) s' /\
      RVHeapAbs.st_eqB (RVHeapAbs.abs_heap F s') (Heap.load_object (Heap.nlinks (length to_load)) p (RVHeapAbs.abs_heap F s)) /\
      (forall i b, nth_error to_load i = Some b ->
         let A := lf_addrs (S (length to_load)) (RVSel.hword s) to_load X86.Last p in
         let a := nth (length A - length to_load + i) A 0 in
         RVSem.rget s' (RVHMem.rtp (2 * N.of_nat (length existing + i) + 1)) = Some (RVSel.hword s (a + 8)) /\
         (bchi b <> AxSyn.Ext -> RVSem.rget s' (RVHMem.rtp (2 * N.of_nat (length existing + i))) = Some (RVSel.hword s a))) /\
      (forall k, (k < 2 * N.of_nat (length existing))%N -> RVSem.rget s' (RVHMem.rtp k) = RVSem.rget s (RVHMem.rtp k)) /\
      RVMemLoadChain.nonblk_same s s' /\ (exists h', RVSem.rget s' RV.HEAP = Some h') /\ RVSem.rget s' RV.FREE = RVSem.rget s RV.FREE.
Proof. exact RVMemLoadChain.rv_load_chain. Qed.
Print Assumptions C09_rv_load.

(* non-vacuity: a 5-field object (2 blocks) stored behind three variables on a fresh heap; a SHARED 2-block object with
   five fields loaded behind three variables (X8 = `rtp 4`, a register of the existing context, keeps its value) *)
Example C09_rv_store_example :
  let a := RVHeapAbs.abs_heap (RVSem.HEAP_BASE + 64) RVMemChainExample.ex5_state in
  let res := Heap.alloc_object (fsts RVMemChainExample.ex5_val 3 RVMemChainExample.ex5_store) a in
  exists lc', RV.r_store RVMemChainExample.ex5_store RVMemChainExample.ex5_rem 0 = Ok (RVMemChainExample.ex5_code, lc') /\
  fsts RVMemChainExample.ex5_val 3 RVMemChainExample.ex5_store = 0 :: 108 :: 0 :: 112 :: 0 :: nil /\
  fst res = RVSem.HEAP_BASE + 64 /\ Heap.frontier (snd res) = RVSem.HEAP_BASE + 192 /\
  exists s', RVSel.star (RVSem.mk_image RVMemChainExample.ex5_code) 1 RVMemChainExample.ex5_state
               (RVSel.padd 1 (length RVMemChainExample.ex5_code)) s' /\
     RVHeapAbs.st_eqB (RVHeapAbs.abs_heap (RVSem.HEAP_BASE + 192) s') (snd res) /\
     RVSem.rget s' (RVHMem.rtp 6) = Some (RVSem.HEAP_BASE + 64) /\
     wblocks 1 (RVSel.hword s') (RVSem.HEAP_BASE + 64) = (RVSem.HEAP_BASE + 64) :: RVSem.HEAP_BASE :: nil /\
     RVSel.hword s' (RVSem.HEAP_BASE + 64 + 16 + 8) = 107 /\ RVSel.hword s' (RVSem.HEAP_BASE + 64 + 32) = 108 /\
     RVSel.hword s' (RVSem.HEAP_BASE + 48 + 8) = 115.
Proof. exact RVMemChainExample.rv_store_example. Qed.
Print Assumptions C09_rv_store_example.

Example C09_rv_load_example :
  exists lc', RV.r_load RVMemChainExample.ex5_store RVMemChainExample.ex3_existing 0 = Ok (RVMemChainExample.ex3_code, lc') /\
  RVSel.hword RVMemChainExample.ex3_state RVSem.HEAP_BASE = 1 /\ RVSem.rget RVMemChainExample.ex3_state (RVHMem.rtp 4) = Some 777 /\
  exists s', RVSel.star (RVSem.mk_image RVMemChainExample.ex3_code) 1 RVMemChainExample.ex3_state
               (RVSel.padd 1 (length RVMemChainExample.ex3_code)) s' /\
     RVHeapAbs.st_eqB (RVHeapAbs.abs_heap (RVSem.HEAP_BASE + 256) s')
       (Heap.load_object 1 RVSem.HEAP_BASE (RVHeapAbs.abs_heap (RVSem.HEAP_BASE + 256) RVMemChainExample.ex3_state)) /\
     RVSem.rget s' (RVHMem.rtp 7) = Some 11 /\ RVSem.rget s' (RVHMem.rtp 8) = Some (RVSem.HEAP_BASE + 128) /\
     RVSem.rget s' (RVHMem.rtp 15) = Some 55 /\ RVSem.rget s' (RVHMem.rtp 4) = Some 777.
Proof. exact RVMemChainExample.rv_load_example. Qed.
Print Assumptions C09_rv_load_example.
