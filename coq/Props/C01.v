(* C01: the compiled x86-64 executable behaves exactly like the source program.
   Only statements; proofs in Proof/Compose.v and the stage developments.

   C01_compile_correct_partial is the COMPOSITION of the stage theorems: its hypotheses are exactly
   the links that are not (fully) proved, so the theorem's own type says what is missing:
     H_fun2core   Fun -> Core preserves behaviour on the guarded domain   (proved for the first-order
                  integer fragment: C02_fun2core_correct_partial; unguarded statement REFUTED: capture)
     H_focus      focusing preserves Core behaviour                        (proved for straight-line integer
                  code: C03_focus_preserves_partial)
     H_shrink     shrinking preserves behaviour                            (proved for the first-order integer
                  fragment: C04_shrink_correct_partial)
     H_x86        x86-64 code generation preserves linear AxCut behaviour  (instruction-selection lemmas
                  only: Props/C06.v)
   The linearization link is DISCHARGED by the proved theorem C05_linearize_preserves, and the
   runtime link (print trace -> bytes on stdout; exit status = result mod 256; arguments) by the
   proved C20 theorems (C01_runtime_output_is_render below and Props/C20.v).
   Every hypothesis is exercised on every run: the real pipeline is run on corpus and random
   programs, the printed assembly is assembled by GNU as, linked with the repository's driver and
   io.c, executed natively, and stdout/exit status are compared with the source semantics
   (Sem/FunSem.v) - see the evidence. *)
From Coq Require Import List ZArith NArith String Bool.
From SCC Require Import Base.Sexp Lang.AxSyn Lang.FunSyn Lang.CoreSyn Sem.AxSem Sem.CoreSem Sem.FunSem Sem.X86Sem
     Model.Backend Model.Fun2Core Model.Focus Model.FocusCheck Model.Shrink Model.Linearize Model.LinCheck Model.X86 Model.Runtime
     Proof.Compose.
Import ListNotations.
Open Scope Z_scope.

Definition H_fun2core : Prop :=
  forall (p : fcprog) (c : cprog) (args : list Z) (n : nat) (o : obs),
    annotated_fcprog p = true -> effect_sequenced p = true -> barendregt p = true ->
    compile_prog p = Fun2Core.Ok c -> run_fun n p args = o -> defined o = true ->
    exists m, run_core m c args = o.
Definition H_focus : Prop :=
  forall p q args fuel, pre_check p = true -> focus_wf p = true -> focus_prog p = Backend.Ok q ->
    let o := run_core fuel p args in
    ((exists z, snd o = OExit z) \/ (exists w, snd o = OUndef w)) ->
    exists fuel', run_fs fuel' q args = o.
Definition H_shrink : Prop :=
  forall (p : fsprog) (q : prog) (n : nat) (args : list Z) (o : obs),
    shrink_prog p = SOk q -> run_fs n p args = o ->
    ((exists z, snd o = OExit z) \/ (exists w, snd o = OUndef w)) ->
    exists m, run_named m q args = o.
Definition H_x86 : Prop :=
  forall (p : prog) (lc : N) (cs : list xcode) (n : nat) (lc' : N) (args : list Z) (fuel : nat) (o : obs),
    x86_compile p lc = Backend.Ok (cs, n, lc') ->
    run_linear fuel p args = o -> defined o = true ->
    exists outer inner, fst (run_x86 outer inner cs args) = o.

Theorem C01_compile_correct_partial :
  H_fun2core -> H_focus -> H_shrink -> H_x86 ->
  forall (p : fcprog) (c : cprog) (f : fsprog) (a : prog) (cs : list xcode) (nargs : nat) (lc lc' : N)
         (args : list Z) (n : nat) (o : obs),
    annotated_fcprog p = true -> effect_sequenced p = true -> barendregt p = true ->
    compile_prog p = Fun2Core.Ok c -> pre_check c = true -> focus_wf c = true ->
    focus_prog c = Backend.Ok f -> shrink_prog f = SOk a -> prog_ok a = true ->
    x86_compile (linearize a) lc = Backend.Ok (cs, nargs, lc') ->
    run_fun n p args = o -> out_ok o ->
    (exists outer inner, fst (run_x86 outer inner cs args) = o) /\
    (Forall (fun pz => in_i64 (snd pz)) (fst o) ->
     bytes_of_string (render_prints (fst o)) = flat_map runtime_bytes (fst o)).
Proof. exact compile_correct_partial. Qed.
Print Assumptions C01_compile_correct_partial.

(* the bytes the runtime writes for a print trace are the decimal rendering used by the reference
   semantics, for every trace of 64-bit values (from the C20 digit-loop theorems) *)
Theorem C01_runtime_output_is_render :
  forall ps : prints,
    Forall (fun pz => in_i64 (snd pz)) ps ->
    bytes_of_string (render_prints ps) = flat_map runtime_bytes ps.
Proof. exact render_prints_is_runtime_output. Qed.
Print Assumptions C01_runtime_output_is_render.


(* The x86-64 link discharged for the INTEGER FRAGMENT.  Same composition as above, with H_x86 replaced
   by the proved forward simulation of the code generator (Props/C06.v, C06_codegen_simulates_int) and the
   proved linear well-typedness of linearized programs (C05_linearize_exact).  What replaces the
   hypothesis is evaluated on the compiler's own intermediate results: the linearized program has only
   `ext i64` variables and the statements Substitute / Call / Literal / Op / PrintI64 / IfC / Exit
   (`int_frag`; e.g. every program whose `main` calls no other definition), no definition is named
   '#...' (`plain_names`), and the emitted instruction list passes the assembler-level check `asm_wf`
   (C14: labels unique; evaluated on the real output on every run).  H_x86 itself (all programs) stays a
   hypothesis of C01_compile_correct_partial: calls between definitions pass continuation closures,
   which are outside the fragment. *)
From SCC Require Import Sem.X86Wf Proof.X86SimProg Proof.ComposeX86.
Theorem C01_compile_correct_int_partial :
  H_fun2core -> H_focus -> H_shrink ->
  forall (p : fcprog) (c : cprog) (f : fsprog) (a : prog) (cs : list xcode) (nargs : nat) (lc lc' : N)
         (args : list Z) (n : nat) (o : obs),
    annotated_fcprog p = true -> effect_sequenced p = true -> barendregt p = true ->
    compile_prog p = Fun2Core.Ok c -> pre_check c = true -> focus_wf c = true ->
    focus_prog c = Backend.Ok f -> shrink_prog f = SOk a -> prog_ok a = true ->
    x86_compile (linearize a) lc = Backend.Ok (cs, nargs, lc') ->
    int_frag (linearize a) = true -> plain_names (linearize a) = true -> asm_wf cs = None ->
    run_fun n p args = o -> out_ok o ->
    (exists outer inner, fst (run_x86 outer inner cs args) = o) /\
    (Forall (fun pz => in_i64 (snd pz)) (fst o) ->
     bytes_of_string (render_prints (fst o)) = flat_map runtime_bytes (fst o)).
Proof. exact compile_correct_int_partial. Qed.
Print Assumptions C01_compile_correct_int_partial.

(* H_x86 restricted to the integer fragment is a theorem *)
Theorem C01_H_x86_int :
  forall (p : prog) (lc : N) (cs : list xcode) (n : nat) (lc' : N) (args : list Z) (fuel : nat) (o : obs),
    int_frag p = true -> plain_names p = true -> lin_check_prog p = true -> asm_wf cs = None ->
    x86_compile p lc = Backend.Ok (cs, n, lc') ->
    run_linear fuel p args = o -> defined o = true ->
    exists outer inner, fst (run_x86 outer inner cs args) = o.
Proof. exact Proof.X86SimTop.x86_codegen_correct_int. Qed.
Print Assumptions C01_H_x86_int.

(* the x86-side hypotheses of C01_compile_correct_int_partial are met by the linearizer's output for an
   AxCut program of the shape `shrink` produces for a `main` that calls no other definition, and the
   emitted code computes what the named machine computes (Proof/X86SimExample.v) *)
From SCC Require Import Proof.X86SimExample.
Theorem C01_compile_correct_int_example :
  prog_ok ex_named = true /\ int_frag (linearize ex_named) = true /\ plain_names (linearize ex_named) = true /\
  (exists n lc', x86_compile (linearize ex_named) 0 = Backend.Ok (ex_named_code, n, lc')) /\ asm_wf ex_named_code = None /\
  run_named 50 ex_named [6; 0] = ([(true, 7); (false, 49)], OExit 7) /\
  fst (run_x86 10 1000 ex_named_code [6; 0]) = ([(true, 7); (false, 49)], OExit 7).
Proof. exact ex_named_hypotheses. Qed.
Print Assumptions C01_compile_correct_int_example.

(* The x86-64 link discharged for the CLOSURE fragment (Props/C06.v, C06_codegen_simulates_cf): the linearized
   program uses only integers and closures without captured variables (`cf_frag`: Substitute / Call / Literal /
   Op / PrintI64 / IfC / Exit / Create with an empty environment / Invoke) - the shape of first-order
   tail-recursive integer programs, whose calls pass the return continuation as such a closure; the entry
   definition takes integers; names of definitions and types do not start with '#'; the emitted code passes
   asm_wf and is smaller than 2^62 - 2^30 bytes. *)
From SCC Require Import Proof.X86SimAddr Proof.X86SimClo Proof.X86SimProgC Proof.X86SimTopC.
Theorem C01_compile_correct_cf_partial :
  H_fun2core -> H_focus -> H_shrink ->
  forall (p : fcprog) (c : cprog) (f : fsprog) (a : prog) (cs : list xcode) (nargs : nat) (lc lc' : N)
         (args : list Z) (n : nat) (o : obs),
    annotated_fcprog p = true -> effect_sequenced p = true -> barendregt p = true ->
    compile_prog p = Fun2Core.Ok c -> pre_check c = true -> focus_wf c = true ->
    focus_prog c = Backend.Ok f -> shrink_prog f = SOk a -> prog_ok a = true ->
    x86_compile (linearize a) lc = Backend.Ok (cs, nargs, lc') ->
    cf_frag (linearize a) = true -> entry_int (linearize a) = true ->
    plain_names (linearize a) = true -> plain_types (linearize a) = true ->
    asm_wf cs = None -> code_small cs = true ->
    run_fun n p args = o -> out_ok o ->
    (exists outer inner, fst (run_x86 outer inner cs args) = o) /\
    (Forall (fun pz => in_i64 (snd pz)) (fst o) ->
     bytes_of_string (render_prints (fst o)) = flat_map runtime_bytes (fst o)).
Proof. exact compile_correct_cf_partial. Qed.
Print Assumptions C01_compile_correct_cf_partial.

(* the x86-side hypotheses of C01_compile_correct_cf_partial are met by the linearizer's output for the AxCut
   program of the shape `shrink` produces for  def f(x, acc) { if x == 0 { acc } else { f(x - 1, acc + x) } }
   def main(x) { f(x, 0) },  and the emitted code computes what the named machine computes *)
From SCC Require Import Proof.X86SimExampleC.
Theorem C01_compile_correct_cf_example :
  prog_ok exc_named = true /\ cf_frag (linearize exc_named) = true /\ entry_int (linearize exc_named) = true /\
  plain_names (linearize exc_named) = true /\ plain_types (linearize exc_named) = true /\
  (exists n lc', x86_compile (linearize exc_named) 0 = Backend.Ok (exc_named_code, n, lc')) /\
  asm_wf exc_named_code = None /\ code_small exc_named_code = true /\
  run_named 100 exc_named [10] = ([], OExit 55) /\
  fst (run_x86 10 2000 exc_named_code [10]) = ([], OExit 55).
Proof. exact exc_named_hypotheses. Qed.
Print Assumptions C01_compile_correct_cf_example.
