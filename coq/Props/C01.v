(* C01: the compiled x86-64 executable behaves exactly like the source program.
   Only statements; proofs in Proof/Compose.v and the stage developments.

   C01_compile_correct_partial is the COMPOSITION of the stage theorems: its hypotheses are exactly
   the links that are not (fully) proved, so the theorem's own type says what is missing:
     H_fun2core   Fun -> Core preserves behaviour on the guarded domain   (proved for the first-order
                  integer fragment: C02_fun2core_correct_partial; unguarded statement REFUTED: call of main; capture before
                  fix d5d4151 of fun2core)
     H_focus      focusing preserves Core behaviour                        (proved for straight-line integer
                  code: C03_focus_preserves_partial)
     H_shrink     shrinking preserves behaviour                            (proved for the first-order integer
                  fragment: C04_shrink_correct_partial)
     H_x86        x86-64 code generation preserves linear AxCut behaviour  (instruction-selection lemmas
                  only: Props/C06.v)
   The linearization link is DISCHARGED by the proved theorem C05_linearize_preserves, and the
   runtime link (print trace -> bytes on stdout; exit status = result mod 256; arguments) by the
   proved C20 theorems (C01_runtime_output_is_render below and Props/C20.v).
   Every hypothesis is exercised on every run: the real pipeline is run on corpus and random
   programs, the printed assembly is assembled by GNU as, linked with the repository's driver and
   io.c, executed natively, and stdout/exit status are compared with the source semantics
   (Sem/FunSem.v) - see the evidence. *)
From Coq Require Import List ZArith NArith String Bool.
From SCC Require Import Base.Sexp Lang.AxSyn Lang.FunSyn Lang.CoreSyn Sem.AxSem Sem.CoreSem Sem.FunSem Sem.X86Sem
     Model.Backend Model.Fun2Core Model.Focus Model.FocusCheck Model.Shrink Model.Linearize Model.LinCheck Model.X86 Model.Runtime
     Proof.Compose Proof.ComposeFocus Proof.FocusFrag Proof.UqAeq.
From SCC Require Import Model.FocusGuard.
From SCC Require Import Sem.FsCheck Sem.FsFrag2 Proof.Compose2.
From SCC Require Import Model.Fun2CoreGuard Proof.ComposeF2C.
Import ListNotations.
Open Scope Z_scope.

Definition H_fun2core : Prop :=
  forall (p : fcprog) (c : cprog) (args : list Z) (n : nat) (o : obs),
    annotated_fcprog p = true -> effect_sequenced p = true -> barendregt p = true ->
    compile_prog p = Fun2Core.Ok c -> run_fun n p args = o -> defined o = true ->
    exists m, run_core m c args = o.
Definition H_focus : Prop :=
  forall p q args fuel, pre_check p = true -> focus_wf p = true -> focus_prog p = Backend.Ok q ->
    let o := run_core fuel p args in
    ((exists z, snd o = OExit z) \/ (exists w, snd o = OUndef w)) ->
    exists fuel', run_fs fuel' q args = o.
Definition H_shrink : Prop :=
  forall (p : fsprog) (q : prog) (n : nat) (args : list Z) (o : obs),
    shrink_prog p = SOk q -> run_fs n p args = o ->
    ((exists z, snd o = OExit z) \/ (exists w, snd o = OUndef w)) ->
    exists m, run_named m q args = o.
Definition H_x86 : Prop :=
  forall (p : prog) (lc : N) (cs : list xcode) (n : nat) (lc' : N) (args : list Z) (fuel : nat) (o : obs),
    x86_compile p lc = Backend.Ok (cs, n, lc') ->
    run_linear fuel p args = o -> defined o = true ->
    exists outer inner, fst (run_x86 outer inner cs args) = o.

Theorem C01_compile_correct_partial :
  H_fun2core -> H_focus -> H_shrink -> H_x86 ->
  forall (p : fcprog) (c : cprog) (f : fsprog) (a : prog) (cs : list xcode) (nargs : nat) (lc lc' : N)
         (args : list Z) (n : nat) (o : obs),
    annotated_fcprog p = true -> effect_sequenced p = true -> barendregt p = true ->
    compile_prog p = Fun2Core.Ok c -> pre_check c = true -> focus_wf c = true ->
    focus_prog c = Backend.Ok f -> shrink_prog f = SOk a -> prog_ok a = true ->
    x86_compile (linearize a) lc = Backend.Ok (cs, nargs, lc') ->
    run_fun n p args = o -> out_ok o ->
    (exists outer inner, fst (run_x86 outer inner cs args) = o) /\
    (Forall (fun pz => in_i64 (snd pz)) (fst o) ->
     bytes_of_string (render_prints (fst o)) = flat_map runtime_bytes (fst o)).
Proof. exact compile_correct_partial. Qed.
Print Assumptions C01_compile_correct_partial.

(* COROLLARY with the Fun -> Core link DISCHARGED for the language without codata (C02_fun2core_correct_fragment2):
   for programs inside [prog_guard] (every definition in the fragment [frag] - all term forms except
   new/destructors/by-name bindings and calls of main -, well-scoped [ws]; NO capture guard since the repair
   d5d4151 of fun2core: shadowing binders are allowed) only the focusing, shrinking and code
   generation links remain hypotheses.  NOTE: H_fun2core as stated above (guard: barendregt only) is
   REFUTED by the known finding call-to-main (C02_fun2core_guarded_statement_refuted), so
   C01_compile_correct_partial holds vacuously in that hypothesis; this corollary does not need it. *)
Theorem C01_compile_correct_fun2core_discharged_partial :
  H_focus -> H_shrink -> H_x86 ->
  forall (p : fcprog) (c : cprog) (f : fsprog) (a : prog) (cs : list xcode) (nargs : nat) (lc lc' : N)
         (args : list Z) (n : nat) (o : obs),
    NoDup (map fdname (fcpdefs p)) -> prog_guard p = true ->
    compile_prog p = Fun2Core.Ok c -> pre_check c = true -> focus_wf c = true ->
    focus_prog c = Backend.Ok f -> shrink_prog f = SOk a -> prog_ok a = true ->
    x86_compile (linearize a) lc = Backend.Ok (cs, nargs, lc') ->
    run_fun n p args = o -> out_ok o ->
    (exists outer inner, fst (run_x86 outer inner cs args) = o) /\
    (Forall (fun pz => in_i64 (snd pz)) (fst o) ->
     bytes_of_string (render_prints (fst o)) = flat_map runtime_bytes (fst o)).
Proof. exact compile_correct_fun2core_discharged. Qed.
Print Assumptions C01_compile_correct_fun2core_discharged_partial.

(* the bytes the runtime writes for a print trace are the decimal rendering used by the reference
   semantics, for every trace of 64-bit values (from the C20 digit-loop theorems) *)
Theorem C01_runtime_output_is_render :
  forall ps : prints,
    Forall (fun pz => in_i64 (snd pz)) ps ->
    bytes_of_string (render_prints ps) = flat_map runtime_bytes ps.
Proof. exact render_prints_is_runtime_output. Qed.
Print Assumptions C01_runtime_output_is_render.

(* The focusing link discharged: for Core translation outputs that are chirality-consistently scoped
   (cs_prog) and satisfy static_ok (Model/FocusGuard.v: simply typed - tc_prog, the boolean Core type
   checker with exact annotations - or inside one of the syntactic guards sg_prog), H_focus is a
   theorem (C03_uniquify_focus_preserves_static) and disappears from the composition.  (H_focus itself,
   a universal statement over all programs of the right shape, is false: C03_focus_preserves_statement_refuted.) *)
Theorem C01_compile_correct_focus_discharged_partial :
  H_fun2core -> H_shrink -> H_x86 ->
  forall (p : fcprog) (c : cprog) (f : fsprog) (a : prog) (cs : list xcode) (nargs : nat) (lc lc' : N)
         (args : list Z) (n : nat) (o : obs),
    annotated_fcprog p = true -> effect_sequenced p = true -> barendregt p = true ->
    compile_prog p = Fun2Core.Ok c -> pre_check c = true -> focus_wf c = true ->
    cs_prog c = true -> static_ok c = true ->
    focus_prog c = Backend.Ok f -> shrink_prog f = SOk a -> prog_ok a = true ->
    x86_compile (linearize a) lc = Backend.Ok (cs, nargs, lc') ->
    run_fun n p args = o -> out_ok o ->
    (exists outer inner, fst (run_x86 outer inner cs args) = o) /\
    (Forall (fun pz => in_i64 (snd pz)) (fst o) ->
     bytes_of_string (render_prints (fst o)) = flat_map runtime_bytes (fst o)).
Proof. exact compile_correct_focus_discharged. Qed.
Print Assumptions C01_compile_correct_focus_discharged_partial.

(* THE COMPOSITION WITH THE SHRINK LINK DISCHARGED (round 2): instead of hypothesis H_shrink, boolean conditions
   on the focused program f, which the statement already names: it lies in the fragment of
   C04_shrink_correct_fragment2 (Sem/FsFrag2.v: frag2_prog f = names_ok f && main_int f - identifiers with the
   same id spelled alike, integer entry point; decls_ok f - parameter and xtor field types declared) and passes
   the focused-Core checkers (wt_fs, unique_binders, ids_bounded; proved of `focus` under C03/C12 except for the
   typing part, which is hypothesis H_focus_wt of C12).  The whole language is covered: data and codata types,
   continuations, critical pairs, lifted statements.  Remaining hypotheses: H_fun2core, H_focus, H_x86. *)
Theorem C01_compile_correct_shrink_discharged_partial :
  H_fun2core -> H_focus -> H_x86 ->
  forall (p : fcprog) (c : cprog) (f : fsprog) (a : prog) (cs : list xcode) (nargs : nat) (lc lc' : N)
         (args : list Z) (n : nat) (o : obs),
    annotated_fcprog p = true -> effect_sequenced p = true -> barendregt p = true ->
    compile_prog p = Fun2Core.Ok c -> pre_check c = true -> focus_wf c = true ->
    focus_prog c = Backend.Ok f ->
    frag2_prog f = true -> decls_ok f = true -> wt_fs f = true -> unique_binders f = true -> ids_bounded f = true ->
    shrink_prog f = SOk a -> prog_ok a = true ->
    x86_compile (linearize a) lc = Backend.Ok (cs, nargs, lc') ->
    run_fun n p args = o -> out_ok o ->
    (exists outer inner, fst (run_x86 outer inner cs args) = o) /\
    (Forall (fun pz => in_i64 (snd pz)) (fst o) ->
     bytes_of_string (render_prints (fst o)) = flat_map runtime_bytes (fst o)).
Proof. exact compile_correct_fragment2. Qed.
Print Assumptions C01_compile_correct_shrink_discharged_partial.

(* ================= round 3: EVERY middle link discharged =================
   The universal hypotheses H_fun2core, H_focus, H_shrink of C01_compile_correct_partial turned out to be FALSE as
   stated (C02_fun2core_guarded_statement_refuted: call of main; C03_focus_preserves_statement_refuted: ill-typed
   Core; C04: identifiers with equal ids spelled differently), so that theorem is kept only as the record of the
   original plan.  The theorem below has NO stage hypothesis other than the x86-64 code generation link: the
   Fun -> Core, Core -> focused Core, focused Core -> AxCut and AxCut -> linear AxCut links are the proved theorems
   C02_fun2core_correct_fragment2, C03_uniquify_focus_preserves_static, C04_shrink_correct_fragment2 and
   C05 linearize_preserves, each under boolean guards on the programs the statement names.  The guards are
   evaluated on every real stage output by the run-time checks (tags proved-fragment2, thm-static, proved-sem). *)
From SCC Require Import Model.PipelineGuards Proof.ComposeAll Proof.Fun2CoreExamples.
Theorem C01_compile_correct_middle_discharged :
  H_x86 ->
  forall (p : fcprog) (c : cprog) (f : fsprog) (a : prog) (cs : list xcode) (nargs : nat) (lc lc' : N)
         (args : list Z) (n : nat) (o : obs),
    NoDup (map fdname (fcpdefs p)) -> prog_guard p = true ->
    compile_prog p = Fun2Core.Ok c ->
    pre_check c = true -> focus_wf c = true -> cs_prog c = true -> static_ok c = true ->
    focus_prog c = Backend.Ok f ->
    frag2_prog f = true -> decls_ok f = true -> wt_fs f = true -> unique_binders f = true -> ids_bounded f = true ->
    shrink_prog f = SOk a ->
    prog_ok a = true ->
    x86_compile (linearize a) lc = Backend.Ok (cs, nargs, lc') ->
    run_fun n p args = o -> out_ok o ->
    (exists outer inner, fst (run_x86 outer inner cs args) = o) /\
    (Forall (fun pz => in_i64 (snd pz)) (fst o) ->
     bytes_of_string (render_prints (fst o)) = flat_map runtime_bytes (fst o)).
Proof. exact compile_correct_middle_discharged. Qed.
Print Assumptions C01_compile_correct_middle_discharged.

(* non-vacuity: five concrete programs (mutual recursion; shared continuations; lists with case in tail and non-tail
   position; labels, goto out of an operand, a label passed as an argument; a corecursive stream with by-name
   bindings) satisfy every guard of the theorem and are compiled by the model of the x86-64 back end *)
Theorem C01_middle_discharged_nonvacuous :
  forallb (fun p => forallb (fun b => b) (pipeline_guards p)) [ex_calls; ex_shared; ex_data; ex_labels; ex_codata] = true.
Proof. exact pipeline_guards_examples. Qed.
Print Assumptions C01_middle_discharged_nonvacuous.

(* and on three of them the CONCLUSION is computed outright, without any hypothesis: the source semantics and the
   emitted x86-64 code run on the ISA model give the same prints and exit value *)
Theorem C01_end_to_end_examples :
  end_to_end_agree ex_data [6] 2000 2000 2000 = true /\ end_to_end_agree ex_labels [5] 2000 2000 2000 = true
  /\ end_to_end_agree ex_codata [4] 4000 2000 2000 = true.
Proof. exact end_to_end_example. Qed.
Print Assumptions C01_end_to_end_examples.

(* ================= the x86-64 link discharged on fragments (worker sim86) ================= *)


(* The x86-64 link discharged for the INTEGER FRAGMENT.  Same composition as above, with H_x86 replaced
   by the proved forward simulation of the code generator (Props/C06.v, C06_codegen_simulates_int) and the
   proved linear well-typedness of linearized programs (C05_linearize_exact).  What replaces the
   hypothesis is evaluated on the compiler's own intermediate results: the linearized program has only
   `ext i64` variables and the statements Substitute / Call / Literal / Op / PrintI64 / IfC / Exit
   (`int_frag`; e.g. every program whose `main` calls no other definition), no definition is named
   '#...' (`plain_names`), and the emitted instruction list passes the assembler-level check `asm_wf`
   (C14: labels unique; evaluated on the real output on every run).  H_x86 itself (all programs) stays a
   hypothesis of C01_compile_correct_partial: calls between definitions pass continuation closures,
   which are outside the fragment. *)
From SCC Require Import Sem.X86Wf Proof.X86SimProg Proof.ComposeX86.
Theorem C01_compile_correct_int_partial :
  H_fun2core -> H_focus -> H_shrink ->
  forall (p : fcprog) (c : cprog) (f : fsprog) (a : prog) (cs : list xcode) (nargs : nat) (lc lc' : N)
         (args : list Z) (n : nat) (o : obs),
    annotated_fcprog p = true -> effect_sequenced p = true -> barendregt p = true ->
    compile_prog p = Fun2Core.Ok c -> pre_check c = true -> focus_wf c = true ->
    focus_prog c = Backend.Ok f -> shrink_prog f = SOk a -> prog_ok a = true ->
    x86_compile (linearize a) lc = Backend.Ok (cs, nargs, lc') ->
    int_frag (linearize a) = true -> plain_names (linearize a) = true -> asm_wf cs = None ->
    run_fun n p args = o -> out_ok o ->
    (exists outer inner, fst (run_x86 outer inner cs args) = o) /\
    (Forall (fun pz => in_i64 (snd pz)) (fst o) ->
     bytes_of_string (render_prints (fst o)) = flat_map runtime_bytes (fst o)).
Proof. exact compile_correct_int_partial. Qed.
Print Assumptions C01_compile_correct_int_partial.

(* H_x86 restricted to the integer fragment is a theorem *)
Theorem C01_H_x86_int :
  forall (p : prog) (lc : N) (cs : list xcode) (n : nat) (lc' : N) (args : list Z) (fuel : nat) (o : obs),
    int_frag p = true -> plain_names p = true -> lin_check_prog p = true -> asm_wf cs = None ->
    x86_compile p lc = Backend.Ok (cs, n, lc') ->
    run_linear fuel p args = o -> defined o = true ->
    exists outer inner, fst (run_x86 outer inner cs args) = o.
Proof. exact Proof.X86SimTop.x86_codegen_correct_int. Qed.
Print Assumptions C01_H_x86_int.

(* the x86-side hypotheses of C01_compile_correct_int_partial are met by the linearizer's output for an
   AxCut program of the shape `shrink` produces for a `main` that calls no other definition, and the
   emitted code computes what the named machine computes (Proof/X86SimExample.v) *)
From SCC Require Import Proof.X86SimExample.
Theorem C01_compile_correct_int_example :
  prog_ok ex_named = true /\ int_frag (linearize ex_named) = true /\ plain_names (linearize ex_named) = true /\
  (exists n lc', x86_compile (linearize ex_named) 0 = Backend.Ok (ex_named_code, n, lc')) /\ asm_wf ex_named_code = None /\
  run_named 50 ex_named [6; 0] = ([(true, 7); (false, 49)], OExit 7) /\
  fst (run_x86 10 1000 ex_named_code [6; 0]) = ([(true, 7); (false, 49)], OExit 7).
Proof. exact ex_named_hypotheses. Qed.
Print Assumptions C01_compile_correct_int_example.

(* The x86-64 link discharged for the CLOSURE fragment (Props/C06.v, C06_codegen_simulates_cf): the linearized
   program uses only integers and closures without captured variables (`cf_frag`: Substitute / Call / Literal /
   Op / PrintI64 / IfC / Exit / Create with an empty environment / Invoke) - the shape of first-order
   tail-recursive integer programs, whose calls pass the return continuation as such a closure; the entry
   definition takes integers; names of definitions and types do not start with '#'; the emitted code passes
   asm_wf and is smaller than 2^62 - 2^30 bytes. *)
From SCC Require Import Proof.X86SimAddr Proof.X86SimClo Proof.X86SimProgC Proof.X86SimTopC.
Theorem C01_compile_correct_cf_partial :
  H_fun2core -> H_focus -> H_shrink ->
  forall (p : fcprog) (c : cprog) (f : fsprog) (a : prog) (cs : list xcode) (nargs : nat) (lc lc' : N)
         (args : list Z) (n : nat) (o : obs),
    annotated_fcprog p = true -> effect_sequenced p = true -> barendregt p = true ->
    compile_prog p = Fun2Core.Ok c -> pre_check c = true -> focus_wf c = true ->
    focus_prog c = Backend.Ok f -> shrink_prog f = SOk a -> prog_ok a = true ->
    x86_compile (linearize a) lc = Backend.Ok (cs, nargs, lc') ->
    cf_frag (linearize a) = true -> entry_int (linearize a) = true ->
    plain_names (linearize a) = true -> plain_types (linearize a) = true ->
    asm_wf cs = None -> code_small cs = true ->
    run_fun n p args = o -> out_ok o ->
    (exists outer inner, fst (run_x86 outer inner cs args) = o) /\
    (Forall (fun pz => in_i64 (snd pz)) (fst o) ->
     bytes_of_string (render_prints (fst o)) = flat_map runtime_bytes (fst o)).
Proof. exact compile_correct_cf_partial. Qed.
Print Assumptions C01_compile_correct_cf_partial.

(* the x86-side hypotheses of C01_compile_correct_cf_partial are met by the linearizer's output for the AxCut
   program of the shape `shrink` produces for  def f(x, acc) { if x == 0 { acc } else { f(x - 1, acc + x) } }
   def main(x) { f(x, 0) },  and the emitted code computes what the named machine computes *)
From SCC Require Import Proof.X86SimExampleC.
Theorem C01_compile_correct_cf_example :
  prog_ok exc_named = true /\ cf_frag (linearize exc_named) = true /\ entry_int (linearize exc_named) = true /\
  plain_names (linearize exc_named) = true /\ plain_types (linearize exc_named) = true /\
  (exists n lc', x86_compile (linearize exc_named) 0 = Backend.Ok (exc_named_code, n, lc')) /\
  asm_wf exc_named_code = None /\ code_small exc_named_code = true /\
  run_named 100 exc_named [10] = ([], OExit 55) /\
  fst (run_x86 10 2000 exc_named_code [10]) = ([], OExit 55).
Proof. exact exc_named_hypotheses. Qed.
Print Assumptions C01_compile_correct_cf_example.


(* ================= every link discharged: no stage hypothesis left (worker sim86b) ================= *)

(* The composition of C01_compile_correct_middle_discharged with the x86-64 link DISCHARGED for all statement forms
   (Props/C06.v: C06_codegen_correct_linearized_partial; heap statements included: data, closures with captured
   variables).  No H_... hypothesis.  What is left are guards on the programs the statement names:
     the boolean guards of the four middle theorems (as in C01_compile_correct_middle_discharged);
     entry_ext (linearize a)    the entry definition takes integers (the arguments of asm_main);
     plain_names / plain_types  no definition or type of the linearized program is named '#...';
     asm_wf cs = None           labels of the emitted code unique (C14; evaluated on the real output on every run);
     code_small cs              the emitted code is smaller than 2^62 - 2^30 bytes;
     heap_fits (linearize a) args    NOT a boolean on the program - a bound along the run: every configuration the
                                heap-instrumented linear machine reaches from args has frontier + 64 <= HEAP_BASE +
                                HEAP_SIZE (the 32 MiB heap region of the ISA model; the source semantics has no
                                memory bound and the generated code does not check).  Decided along a terminating
                                run by `fits_run` (C06_heap_fits_decided).
   `_partial` because of these guards (every one evaluated on the five example programs below). *)
From SCC Require Import Proof.X86HSimTop Proof.X86HSimExample Proof.ComposeFull.
From SCC Require Proof.AxHeapTyping.
Theorem C01_compile_correct_all_links_partial :
  forall (p : fcprog) (c : cprog) (f : fsprog) (a : prog) (cs : list xcode) (nargs : nat) (lc lc' : N)
         (args : list Z) (n : nat) (o : obs),
    NoDup (map fdname (fcpdefs p)) -> prog_guard p = true ->
    compile_prog p = Fun2Core.Ok c ->
    pre_check c = true -> focus_wf c = true -> cs_prog c = true -> static_ok c = true ->
    focus_prog c = Backend.Ok f ->
    frag2_prog f = true -> decls_ok f = true -> wt_fs f = true -> unique_binders f = true -> ids_bounded f = true ->
    shrink_prog f = SOk a ->
    prog_ok a = true ->
    x86_compile (linearize a) lc = Backend.Ok (cs, nargs, lc') ->
    AxHeapTyping.entry_ext (linearize a) = true -> plain_names (linearize a) = true -> plain_types (linearize a) = true ->
    asm_wf cs = None -> code_small cs = true ->
    heap_fits (linearize a) args ->
    run_fun n p args = o -> out_ok o ->
    (exists outer inner, fst (run_x86 outer inner cs args) = o) /\
    (Forall (fun pz => in_i64 (snd pz)) (fst o) ->
     bytes_of_string (render_prints (fst o)) = flat_map runtime_bytes (fst o)).
Proof. exact compile_correct_full. Qed.
Print Assumptions C01_compile_correct_all_links_partial.

(* the same with every guard EXECUTABLE (`all_guards`: the list `pipeline_guards` of the middle theorems, the
   checks of the x86-64 link on the model's stage outputs, and `fits_run fuel` for the heap bound): for a source
   program with distinct definition names that passes them, every source run ending with a result is reproduced by
   the emitted x86-64 code on the ISA model *)
Theorem C01_compile_correct_checked :
  forall (p : fcprog) (args : list Z) (fuel n : nat) (o : obs),
    NoDup (map fdname (fcpdefs p)) -> all_guards p args fuel = true ->
    run_fun n p args = o -> out_ok o ->
    exists c f a cs nargs lc',
      pipeline_stages p = Some (c, f, a) /\ x86_compile (linearize a) 0 = Backend.Ok (cs, nargs, lc') /\
      exists outer inner, fst (run_x86 outer inner cs args) = o.
Proof. exact compile_correct_checked. Qed.
Print Assumptions C01_compile_correct_checked.

(* non-vacuity: the five example programs of Proof/Fun2CoreExamples.v satisfy ALL guards (middle theorems, x86-64
   link, heap bound for the given argument) *)
Theorem C01_all_links_nonvacuous :
  all_guards ex_calls [5] 5000 = true /\ all_guards ex_shared [5] 5000 = true /\ all_guards ex_data [6] 5000 = true /\
  all_guards ex_labels [5] 5000 = true /\ all_guards ex_codata [4] 5000 = true.
Proof. exact all_guards_examples. Qed.
Print Assumptions C01_all_links_nonvacuous.

(* and the theorem applied to the list program: the source run's observation is an observation of the emitted code *)
Theorem C01_all_links_instance :
  exists c f a cs nargs lc',
    pipeline_stages ex_data = Some (c, f, a) /\ x86_compile (linearize a) 0 = Backend.Ok (cs, nargs, lc') /\
    exists outer inner, fst (run_x86 outer inner cs [6]) = ([(true, 21); (true, 36)], OExit 0).
Proof. exact compile_correct_full_instance. Qed.
Print Assumptions C01_all_links_instance.

(* ---------- the two checks on the emitted code are theorems now ----------
   `asm_wf cs = None` and `code_small cs = true` of C01_compile_correct_all_links_partial are replaced by boolean
   guards on the linearized AxCut program (Props/C14.v: C14_x86_compile_asm_wf, C14_x86_compile_code_small):
     labels_guard (linearize a)   unambiguous label texts (outside it: known finding label-collision-name-digits-e2e)
     imm_guard (linearize a)      literals 64-bit, Substitute lists <= 2^31 pairs, types <= 2^28 xtors
     size_guard (linearize a)     cg_bound_defs <= 2^40
   No hypothesis of the theorem is a check on the output of the code generator any more; the guards of the middle
   links and heap_fits remain (see C01_compile_correct_all_links_partial). *)
From SCC Require Import Sem.LabelGuard Sem.WfGuard Proof.X86WfAll Proof.X86WfCor.
Theorem C01_compile_correct_all_links :
  forall (p : fcprog) (c : cprog) (f : fsprog) (a : prog) (cs : list xcode) (nargs : nat) (lc lc' : N)
         (args : list Z) (n : nat) (o : obs),
    NoDup (map fdname (fcpdefs p)) -> prog_guard p = true ->
    compile_prog p = Fun2Core.Ok c ->
    pre_check c = true -> focus_wf c = true -> cs_prog c = true -> static_ok c = true ->
    focus_prog c = Backend.Ok f ->
    frag2_prog f = true -> decls_ok f = true -> wt_fs f = true -> unique_binders f = true -> ids_bounded f = true ->
    shrink_prog f = SOk a ->
    prog_ok a = true ->
    x86_compile (linearize a) lc = Backend.Ok (cs, nargs, lc') ->
    AxHeapTyping.entry_ext (linearize a) = true -> plain_names (linearize a) = true -> plain_types (linearize a) = true ->
    labels_guard (linearize a) = true -> imm_guard (linearize a) = true -> size_guard (linearize a) = true ->
    heap_fits (linearize a) args ->
    run_fun n p args = o -> out_ok o ->
    (exists outer inner, fst (run_x86 outer inner cs args) = o) /\
    (Forall (fun pz => in_i64 (snd pz)) (fst o) ->
     bytes_of_string (render_prints (fst o)) = flat_map runtime_bytes (fst o)).
Proof. exact compile_correct_full_wf. Qed.
Print Assumptions C01_compile_correct_all_links.

(* every guard executable (`all_guards_wf`: pipeline_guards, the guards of the x86-64 link on the model's stage
   outputs - none of them looks at the emitted code -, `fits_run fuel`); the conclusion also states the two former
   hypotheses *)
Theorem C01_compile_correct_checked_wf :
  forall (p : fcprog) (args : list Z) (fuel n : nat) (o : obs),
    NoDup (map fdname (fcpdefs p)) -> all_guards_wf p args fuel = true ->
    run_fun n p args = o -> out_ok o ->
    exists c f a cs nargs lc',
      pipeline_stages p = Some (c, f, a) /\ x86_compile (linearize a) 0 = Backend.Ok (cs, nargs, lc') /\
      asm_wf cs = None /\ code_small cs = true /\
      exists outer inner, fst (run_x86 outer inner cs args) = o.
Proof. exact compile_correct_checked_wf. Qed.
Print Assumptions C01_compile_correct_checked_wf.

Theorem C01_all_links_wf_nonvacuous :
  all_guards_wf ex_calls [5] 5000 = true /\ all_guards_wf ex_shared [5] 5000 = true /\ all_guards_wf ex_data [6] 5000 = true /\
  all_guards_wf ex_labels [5] 5000 = true /\ all_guards_wf ex_codata [4] 5000 = true.
Proof. exact all_guards_wf_examples. Qed.
Print Assumptions C01_all_links_wf_nonvacuous.

Theorem C01_all_links_wf_instance :
  exists c f a cs nargs lc',
    pipeline_stages ex_data = Some (c, f, a) /\ x86_compile (linearize a) 0 = Backend.Ok (cs, nargs, lc') /\
    asm_wf cs = None /\ code_small cs = true /\
    exists outer inner, fst (run_x86 outer inner cs [6]) = ([(true, 21); (true, 36)], OExit 0).
Proof. exact compile_correct_checked_wf_instance. Qed.
Print Assumptions C01_all_links_wf_instance.
