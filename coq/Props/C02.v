(* C02: the Fun-to-Core translation preserves meaning and never captures variables.
   Only statements here; models in Model/Fun2Core.v, semantics in Sem/FunSem.v and Sem/CoreSem.v,
   proofs in Proof/Fun2CoreProof.v. *)
From Coq Require Import List ZArith NArith String Bool.
From SCC Require Import Lang.FunSyn Lang.CoreSyn Sem.AxSem Sem.CoreSem Sem.FunSem Model.Fun2Core Proof.Fun2CoreProof Proof.Fun2CoreSim.
From SCC Require Import Proof.Fun2CoreMain Proof.Fun2CoreInv Proof.Fun2CoreRel Proof.Fun2CoreProg Proof.Fun2CoreBarendregt
     Proof.Fun2CoreExamples Proof.Fun2CoreMainCalled.
Import ListNotations.

(* ---------- the property at full strength (statements) ----------
   [fun2core_correct_statement]: for every annotated (type-checked) program inside the property's
   precondition, every terminating defined run of the source is reproduced by the Core machine on the
   translated program.  It WAS false of the faithful model: before fix d5d4151 by variable capture
   (C02_fun2core_capture_refuted_before_fix below), and before fix f929eb7 by a call whose target is main
   (C02_fun2core_call_to_main_refuted_before_fix, whose witness is also inside this precondition).  No counterexample
   to the current translation is known; proved is C02_fun2core_correct_fragment2. *)
Definition fun2core_correct_statement : Prop :=
  forall (p : fcprog) (c : cprog) (args : list Z) (n : nat) (o : obs),
    annotated_fcprog p = true -> effect_sequenced p = true ->
    compile_prog p = Ok c ->
    run_fun n p args = o -> defined o = true ->
    exists m, run_core m c args = o.

(* the guarded form that is expected to hold: binders of each definition pairwise distinct and
   distinct from its parameters ([barendregt]) *)
Definition fun2core_correct_guarded_statement : Prop :=
  forall (p : fcprog) (c : cprog) (args : list Z) (n : nat) (o : obs),
    annotated_fcprog p = true -> effect_sequenced p = true ->
    barendregt p = true ->
    compile_prog p = Ok c ->
    run_fun n p args = o -> defined o = true ->
    exists m, run_core m c args = o.

(* ---------- REPAIRED (fix d5d4151 of /repo): variable capture on the section-7.1 witness ----------
   Before the fix the translation placed the continuation it was given UNDER the binder of a `let` /
   under the pattern binders of a `case` even when the continuation mentions a variable of that name, which
   was thereby captured.  [compile_prog_before_fix] is the model with the old behaviour (regression): there
   is an annotated, effect-sequenced program (corpus/fun/capture1.sc; modelrun checks on every run that the
   value used here IS the real checker's output for that file) whose source run is defined and differs from
   the run of its OLD translation: 12 is printed by the source semantics, 14 by the old Core program. *)
Theorem C02_fun2core_capture_refuted_before_fix :
  exists (p : fcprog) (args : list Z) (c : cprog) (n : nat),
    annotated_fcprog p = true /\ effect_sequenced p = true /\
    compile_prog_before_fix p = Ok c /\
    defined (run_fun n p args) = true /\
    run_fun n p args <> run_core n c args.
Proof. exact fun2core_capture_before_fix_lemma. Qed.
Print Assumptions C02_fun2core_capture_refuted_before_fix.
(* ... the repaired translation names the continuation first (< mu a. [[t]]_a | c >) whenever a binder it is
   about to place above c occurs free in c: the witness now runs like its source, and it is INSIDE the
   guard of C02_fun2core_correct_fragment2 (C02_guard_accepts_capture_witness below), which no longer
   has a capture guard *)
Theorem C02_capture_witness_fixed :
  compile_prog capture_witness = Ok (compiled_or_empty capture_witness) /\
  run_core 200 (compiled_or_empty capture_witness) [] = run_fun 200 capture_witness [] /\
  run_fun 200 capture_witness [] = ([(true, 12%Z)], OExit 0%Z).
Proof. exact capture_witness_fixed_lemma. Qed.
Print Assumptions C02_capture_witness_fixed.

(* ---------- REPAIRED (fix f929eb7 of /repo): a call whose target is main (former finding call-to-main) ----------
   REGRESSION statements about the translation before the fix ([compile_prog_before_fix]): compile_main gave the Core
   definition `main` no return-continuation parameter (its body ends in `exit`) while every call site passes
   args ++ [continuation]: a program that calls `main` (witness corpus/fun/call_main_nontail.sc, tied to the real
   checker's output by modelrun; it satisfies the Barendregt guard and the syntactic capture detector does not fire)
   prints 3, 107 and returns 8 by the source semantics; its OLD translation was stuck "call-arity" on the Core machine
   (natively the inner main exited the process with status 7).  Hence the Barendregt-guarded statement was false of
   the old translation too.  The repaired compile_prog: when main is called somewhere, main is translated like any
   other definition (with a return continuation) and the program starts at a fresh label
   def main<n>(params) { main(params, mu~x. exit x) }. *)
Theorem C02_fun2core_call_to_main_refuted_before_fix :
  exists (p : fcprog) (args : list Z) (c : cprog) (n : nat),
    annotated_fcprog p = true /\ effect_sequenced p = true /\ barendregt p = true /\
    shadowing_risk_prog p = false /\ calls_main_prog p = true /\
    compile_prog_before_fix p = Ok c /\
    defined (run_fun n p args) = true /\
    run_fun n p args <> run_core n c args.
Proof. exact fun2core_call_to_main_before_fix_lemma. Qed.
Print Assumptions C02_fun2core_call_to_main_refuted_before_fix.

Theorem C02_fun2core_guarded_statement_refuted_before_fix :
  ~ (forall (p : fcprog) (c : cprog) (args : list Z) (n : nat) (o : obs),
       annotated_fcprog p = true -> effect_sequenced p = true ->
       barendregt p = true ->
       compile_prog_before_fix p = Ok c ->
       run_fun n p args = o -> defined o = true ->
       exists m, run_core m c args = o).
Proof. exact fun2core_guarded_statement_refuted_before_fix_lemma. Qed.
Print Assumptions C02_fun2core_guarded_statement_refuted_before_fix.
(* ... the repaired translation of the witness: entry point main0, then main with a return continuation; it runs like
   the source *)
Theorem C02_call_main_witness_fixed :
  compile_prog call_main_witness = Ok (compiled_or_empty call_main_witness) /\
  run_core 200 (compiled_or_empty call_main_witness) [3%Z] = run_fun 200 call_main_witness [3%Z] /\
  run_fun 200 call_main_witness [3%Z] = ([(true, 3%Z); (true, 107%Z)], OExit 8%Z) /\
  map cdname (cpdefs (compiled_or_empty call_main_witness)) = [new_id "main0"; new_id "main"].
Proof. exact call_main_witness_fixed_lemma. Qed.
Print Assumptions C02_call_main_witness_fixed.

(* REPAIRED defect (fix commit 126604b of /repo), kept as regression statements.  Before the fix the
   target covariable of `goto k (t)` was typed with the annotation of the goto expression instead of
   k's type; typed_free_vars then missed k's binder, a lifted continuation got a spurious parameter
   and the translated program was NOT CLOSED.  [compile_prog_before_fix] is the model with the old
   goto rule (only used here). *)
Theorem C02_fun2core_goto_unbound_before_fix :
  exists (p : fcprog) (args : list Z) (c : cprog) (n : nat),
    annotated_fcprog p = true /\ effect_sequenced p = true /\ shadowing_risk_prog p = false /\
    goto_type_mismatch_prog p = true /\
    compile_prog_before_fix p = Ok c /\
    cprog_closed c = false /\
    defined (run_fun n p args) = true /\
    run_fun n p args <> run_core n c args.
Proof. exact fun2core_goto_unbound_before_fix_lemma. Qed.
Print Assumptions C02_fun2core_goto_unbound_before_fix.

(* ... and the CURRENT translation (the model follows the repaired code; model = Rust is checked on
   every run, this witness included) turns the same program - corpus/fun/c02_unbound_covar.sc - into a
   closed Core program with the source's behaviour. *)
Theorem C02_goto_witness_fixed :
  compile_prog goto_witness = Ok (compiled_or_empty goto_witness) /\
  cprog_closed (compiled_or_empty goto_witness) = true /\
  run_core 200 (compiled_or_empty goto_witness) [] = run_fun 200 goto_witness [] /\
  run_fun 200 goto_witness [] = ([(true, 4%Z)], OExit 0%Z).
Proof. exact goto_witness_fixed_lemma. Qed.
Print Assumptions C02_goto_witness_fixed.

(* ---------- generated names are fresh ---------- *)
(* fresh_name(used, base) returns a name that is not in `used` and inserts exactly that name
   (the bounded search of the model always succeeds). *)
Theorem C02_fresh_name_fresh : forall used base,
  ~ In (fst (fresh_name used base)) used /\
  snd (fresh_name used base) = fst (fresh_name used base) :: used.
Proof. exact fresh_name_fresh. Qed.
Print Assumptions C02_fresh_name_fresh.

(* Whole translation, all 15 term forms: a run of compile_with_cont from state st extends used_vars
   (variables x<n> and covariables a<n> share this set) and used_labels by pairwise distinct names
   none of which was in the set before.  used_vars starts as the parameters plus all binders of the
   definition, used_labels as all definition names: generated names never coincide with user-chosen
   ones or with each other. *)
Theorem C02_translation_names_fresh : forall codata cur lg t cont st s st',
  wc codata cur lg t cont st = Ok (s, st') ->
  (exists gv, st_used_vars st' = gv ++ st_used_vars st /\ NoDup gv /\ forall x, In x gv -> ~ In x (st_used_vars st)) /\
  (exists gl, st_used_labels st' = gl ++ st_used_labels st /\ NoDup gl /\ forall x, In x gl -> ~ In x (st_used_labels st)).
Proof. exact translation_names_fresh. Qed.
Print Assumptions C02_translation_names_fresh.

(* share: the label of the lifted definition is share_<def>_<n>, was unused, and the lifted
   definition is pushed in front *)
Theorem C02_share_label_fresh : forall cur cont st k st',
  share cur cont st = Ok (k, st') ->
  exists name ctx body n,
    name = cand ("share_" ++ cur ++ "_")%string n /\
    ~ In name (st_used_labels st) /\
    st_used_labels st' = name :: st_used_labels st /\
    st_lifted st' = mkcd (new_id name) ctx body :: st_lifted st.
Proof. exact share_label_fresh. Qed.
Print Assumptions C02_share_label_fresh.

(* Definition names of the translated program are pairwise distinct whenever the source's are: user
   definitions keep their names, every lifted definition is named by its generated label, and
   generated labels never coincide with a user definition name or with another generated label, of
   the same or of any other definition (used_labels is threaded through the whole program). *)
Theorem C02_compile_prog_def_names_distinct : forall p c,
  compile_prog p = Ok c ->
  NoDup (map fdname (fcpdefs p)) ->
  NoDup (map cdname (cpdefs c)).
Proof. exact compile_prog_def_names_distinct. Qed.
Print Assumptions C02_compile_prog_def_names_distinct.

(* ---------- structure of the translation ---------- *)
(* compile_with_cont of an integer expression (literal, variable, operator, parentheses) is the cut of
   its `compile` translation against the continuation, whatever the continuation is; in particular a
   variable is translated to that variable and a literal to that literal (no administrative redex) *)
Theorem C02_wc_expression_is_cut : forall e, iexp e = true ->
  forall codata cur lg cont st sr st', wc codata cur lg e cont st = Ok (sr, st') ->
  exists ce, (forall ty, cmp codata cur lg e ty st = Ok (ce, st')) /\ sr = CCut ce CI64 cont.
Proof. exact wc_iexp. Qed.
Print Assumptions C02_wc_expression_is_cut.

(* the hygiene statement at full strength, NOT proved (false of the translation before fix d5d4151
   without the guard, see the capture witness): under [barendregt] the Core machine on the translated
   program reproduces the source - this is fun2core_correct_guarded_statement above; its name-level
   reading "every occurrence of a source variable, covariable or label in compile_prog p is bound by
   the translation of its source binder" follows from it for all variables that matter
   observationally.  What IS proved about names: C02_translation_names_fresh,
   C02_share_label_fresh, C02_compile_prog_def_names_distinct (generated names never collide with
   user names or with each other). *)

(* ---------- semantic preservation, PARTIAL ----------
   Proved for programs whose `main` lies in the first-order integer fragment [islf]: literals, i64
   variables, operators, parentheses, non-codata `let` of an expression, print_i64/println_i64, exit,
   one- and two-operand conditionals (other definitions of the program are arbitrary; the fragment
   has no calls).  For these programs EVERY source run that does not run out of fuel - normal exit,
   undefined arithmetic, even an unbound variable - is reproduced exactly (output and outcome) by
   the Core machine on the model's translation; shadowing is allowed (no capture is possible here:
   bound terms are expressions).
   MISSING for fun2core_correct_guarded_statement: calls, constructors/case, new/destructors and
   by-name bindings, label/goto, `let` whose bound term is not an expression, and shared
   continuations (a conditional or case in non-tail position).
   THE HYPOTHESIS `calls_main_prog p = false` (since fix f929eb7 of /repo): when some OTHER definition calls main
   (main itself has no calls), the repaired compile_prog compiles main with a return continuation a0 and starts at the
   entry point main0; the simulation behind this theorem ([islf_sim], Proof/Fun2CoreSim.v) runs main's body against a
   CLOSED mu~ continuation in a Core environment of integers only, not against a covariable bound to a closure, so that
   case is not covered HERE.  It is covered by C02_fun2core_correct_fragment2 (which has no such hypothesis and
   simulates the entry point) for every program all of whose definitions satisfy prog_guard and for final outcomes:
   C02_islf_main_called_witness below is such a program (main in [islf], called by another definition), simulated by
   the THEOREM.  What fragment2 does not give for a called islf main: arbitrary (unguarded) other definitions and the
   stuck outcome `unbound variable`. *)
Theorem C02_fun2core_correct_partial :
  forall (p : fcprog) (c : cprog) (d : fdef) (args : list Z) (n : nat) (o : obs),
    compile_prog p = Ok c ->
    NoDup (map fdname (fcpdefs p)) ->
    ffind_def p "main" = Some d ->
    islf (fdbody d) = true ->
    calls_main_prog p = false ->         (* since fix f929eb7: no OTHER definition calls main (main itself has no calls) *)
    run_fun n p args = o -> snd o <> OOutOfFuel ->
    exists m, run_core m c args = o.
Proof. exact fun2core_correct_partial_lemma. Qed.
Print Assumptions C02_fun2core_correct_partial.
(* a program with main in [islf] AND called by another definition: outside the hypothesis above, inside prog_guard;
   its translation starts with main0, main, and every final source run is reproduced (by C02_fun2core_correct_fragment2) *)
Theorem C02_islf_main_called_witness :
  main_in_fragment islf_main_called_witness = true /\ calls_main_prog islf_main_called_witness = true /\
  prog_guard islf_main_called_witness = true /\ NoDup (map fdname (fcpdefs islf_main_called_witness)) /\
  compile_prog islf_main_called_witness = Ok (compiled_or_empty islf_main_called_witness) /\
  run_core 200 (compiled_or_empty islf_main_called_witness) [4%Z] = run_fun 200 islf_main_called_witness [4%Z] /\
  run_fun 200 islf_main_called_witness [4%Z] = ([(true, 5%Z)], OExit 8%Z) /\
  map cdname (cpdefs (compiled_or_empty islf_main_called_witness)) = [new_id "main0"; new_id "main"; new_id "helper"].
Proof. exact islf_main_called_witness_facts. Qed.
Print Assumptions C02_islf_main_called_witness.
Theorem C02_islf_main_called_witness_simulated : forall (c : cprog) (args : list Z) (n : nat) (o : obs),
  compile_prog islf_main_called_witness = Ok c ->
  run_fun n islf_main_called_witness args = o -> final o ->
  exists m, run_core m c args = o.
Proof. exact islf_main_called_witness_simulated. Qed.
Print Assumptions C02_islf_main_called_witness_simulated.

(* ---------- semantic preservation, fragment 2: data AND codata ----------
   A strictly larger fragment than C02_fun2core_correct_partial (which stays as it is): ANY number of
   definitions, each of them in the fragment, calls between them in tail and non-tail position
   (a non-tail call creates a mu~ continuation, a tail call passes the return covariable), recursion,
   conditionals and case in NON-TAIL position (the continuation is lifted to a definition
   share_<f>_<n> and called with its free variables), let with an arbitrary bound term, data types
   (constructors, case; clauses bind variables), labels and goto, labels passed to consumer parameters,
   and CODATA: `new { .. }` (closures, corecursion), destructor calls, by-name `let` and by-name
   arguments (thunks re-run at every destructor call that reaches them).

   The fragment, spelled out ([frag p t], Model/Fun2CoreGuard.v): all 15 term forms - calls whose target is `main`
   INCLUDED since fix f929eb7 of /repo (former finding call-to-main; then main has pairwise distinct parameters: the
   entry point passes them on by name) -, EXCEPT
     - a destructor call in which BOTH the scrutinee and some argument need evaluation (allowed:
       scrutinee a variable or a `new` with arbitrary data arguments; any scrutinee - calls, chained
       destructor calls, lets, .. - with arguments that are variables or literals): there the
       translation evaluates the scrutinee BEFORE the arguments, the source semantics after - the
       property's precondition "effects sequenced unambiguously" is about exactly this,
     - continuations or by-name values stored in constructor fields or passed to destructors, case
       clauses / new clauses with consumer or codata-typed parameters, calls whose argument kinds
       (chirality, data/codata) differ from the callee's parameter kinds.
   [kd p t] (the kind discipline, a consequence of typing): operands, conditions, printed values,
   scrutinees of case and constructor arguments are data; a let-bound term has the kind of its variable;
   branches / let bodies / clause bodies have the kind of the whole term; a `new` is codata and each of
   its clause bodies has the kind its destructor returns ([dkind]); EXCLUDED by it: conditionals, case
   and labels of CODATA type (their continuation would be shared at a codata type: the PDelay mechanism
   of the Core machine), goto targets and consumer arguments of codata type.
   [prog_guard p] (Model/Fun2CoreGuard.v): every definition d satisfies
     frag p (fdbody d), kd p (fdbody d)      the fragment and the kind discipline, the body has the kind of
                                             the declared return type,
     ws (compile_ctx (fdctx d)) (fdbody d)   well-scoped: every variable/covariable occurrence is in scope
                                             of a parameter or binder of the SAME kind and type
                                             annotation (what the type checker guarantees),
     and main has data-typed producer parameters and a data result.
   NO CAPTURE GUARD any more (it was `nocap (fdbody d)` until fix d5d4151): binders may shadow each
   other and the parameters freely; the Barendregt condition is not needed.
   Conclusion: EVERY source run that ends in a final outcome ([final]: normal exit or undefined
   arithmetic; stuck and out-of-fuel runs are not compared) is reproduced, output and outcome, by the
   Core machine on the model's translation.

   Method (Proof/Fun2CoreRel.v .. Fun2CoreFLh.v): a step-indexed forward simulation between CEK
   configurations and Core machine configurations.  Values: integers, constructor values pointwise,
   closures and thunks behaviourally (related under every destructor: [Co]); continuations by the KIND of
   values they expect ([Kk n c]); environments pointwise on the free variables of the statement being
   run; the syntactic continuation carried by the translation means a source continuation in EVERY
   environment that agrees on its typed free variables ([KS]) - which is what makes the lifted
   definitions share_<f>_<n> (environment = parameters only) and by-name thunks work.  WHERE CAPTURE
   MATTERS: only the cases that put the continuation under a binder - `let x = t; u` (fl_let) and `case`
   (fl_case).  There the translation is the repaired one, [guard_capture] (Model/Fun2Core.v): lemma
   fl_guard (Proof/Fun2CoreFLg.v) proves the simulation for < mu a. [[t]]_a | c > from the simulation of the
   inner translation, which is proved under the hypothesis the check establishes (no binder of the
   let / the patterns occurs free in the continuation: fl_let_in, fl_case_in).  Continuations that the
   translation BUILDS itself (mu~ x. [[u]]_c for a let, the case consumer, the destructor consumer with its
   arguments - capture4.sc -, label covariables) need no disjointness at all: the invariant on
   continuations is by typed free variables, and a binder further down that would clash with them is
   handled by the same check when it is reached.
   NOT COVERED: the exclusions listed above (frag/kd are false on them; no proof holes). *)
Theorem C02_fun2core_correct_fragment2 :
  forall (p : fcprog) (c : cprog) (args : list Z) (n : nat) (o : obs),
    compile_prog p = Ok c ->
    NoDup (map fdname (fcpdefs p)) ->
    prog_guard p = true ->
    run_fun n p args = o -> final o ->
    exists m, run_core m c args = o.
Proof. exact fun2core_correct_fragment_lemma. Qed.
Print Assumptions C02_fun2core_correct_fragment2.

(* the Barendregt condition of the property (binders of a definition pairwise distinct and distinct
   from its parameters) implies the FORMER capture guard [nocap], for well-scoped definitions of the fragment
   (kept; the guard itself is no longer a hypothesis of any theorem) *)
Theorem C02_barendregt_implies_capture_guard : forall p d,
  frag p (fdbody d) = true -> ws (compile_ctx (fdctx d)) (fdbody d) = true -> barendregt_def d = true ->
  nocap (fdbody d) = true.
Proof. exact barendregt_def_nocap. Qed.
Print Assumptions C02_barendregt_implies_capture_guard.

(* ... the theorem under the guard of fun2core_correct_guarded_statement plus the fragment:
   [frag_prog p]: every definition is in the fragment and well-scoped, main returns data (since fix
   d5d4151 [frag_prog] and [prog_guard] are the same predicate and the Barendregt hypothesis is unused) *)
Theorem C02_fun2core_correct_fragment2_barendregt :
  forall (p : fcprog) (c : cprog) (args : list Z) (n : nat) (o : obs),
    compile_prog p = Ok c ->
    NoDup (map fdname (fcpdefs p)) ->
    frag_prog p = true -> barendregt p = true ->
    run_fun n p args = o -> defined o = true ->
    exists m, run_core m c args = o.
Proof.
  intros p c args n o Hc Hnd Hf Hb Hr Hd.
  exact (fun2core_correct_fragment_lemma p c args n o Hc Hnd (barendregt_prog_guard p Hf Hb) Hr (defined_final o Hd)).
Qed.
Print Assumptions C02_fun2core_correct_fragment2_barendregt.

(* the hypotheses are satisfiable: four concrete multi-definition programs inside the guard, both
   machines evaluated (vm_compute), the Core side on the model's translation *)
(* 1. calls: fib (non-tail recursive calls in operand position), even/odd (mutual tail calls) *)
Example C02_fragment2_example_calls :
  prog_guard ex_calls = true /\ NoDup (map fdname (fcpdefs ex_calls)) /\
  compile_prog ex_calls = Ok (compiled_or_empty ex_calls) /\
  run_fun 3000 ex_calls [10%Z] = ([(true, 55%Z); (true, 1%Z)], OExit 0%Z) /\
  run_core 5000 (compiled_or_empty ex_calls) [10%Z] = ([(true, 55%Z); (true, 1%Z)], OExit 0%Z).
Proof. exact ex_calls_ok. Qed.
(* 2. shared continuations: a conditional as let-bound term (twice, nested let inside a branch): two
   lifted definitions share_clamp_0, share_clamp_1 *)
Example C02_fragment2_example_shared :
  prog_guard ex_shared = true /\ NoDup (map fdname (fcpdefs ex_shared)) /\
  compile_prog ex_shared = Ok (compiled_or_empty ex_shared) /\
  (2 <= List.length (cpdefs (compiled_or_empty ex_shared)) - 2)%nat /\
  run_fun 1000 ex_shared [1%Z] = ([(true, 3%Z); (true, 207%Z)], OExit 0%Z) /\
  run_core 2000 (compiled_or_empty ex_shared) [1%Z] = ([(true, 3%Z); (true, 207%Z)], OExit 0%Z).
Proof. exact ex_shared_ok. Qed.
(* 3. data: lists built recursively, summed by a recursive case, a case in non-tail position *)
Example C02_fragment2_example_data :
  prog_guard ex_data = true /\ NoDup (map fdname (fcpdefs ex_data)) /\
  compile_prog ex_data = Ok (compiled_or_empty ex_data) /\
  run_fun 2000 ex_data [6%Z] = ([(true, 21%Z); (true, 36%Z)], OExit 0%Z) /\
  run_core 4000 (compiled_or_empty ex_data) [6%Z] = ([(true, 21%Z); (true, 36%Z)], OExit 0%Z).
Proof. exact ex_data_ok. Qed.
(* 4. labels: goto out of a conditional under an operator, a label passed to a consumer parameter
   and jumped to from the callee *)
Example C02_fragment2_example_labels :
  prog_guard ex_labels = true /\ NoDup (map fdname (fcpdefs ex_labels)) /\
  compile_prog ex_labels = Ok (compiled_or_empty ex_labels) /\
  run_fun 1000 ex_labels [5%Z] = ([(true, 1042%Z); (true, 1006%Z); (true, 10%Z)], OExit 0%Z) /\
  run_core 2000 (compiled_or_empty ex_labels) [5%Z] = ([(true, 1042%Z); (true, 1006%Z); (true, 10%Z)], OExit 0%Z).
Proof. exact ex_labels_ok. Qed.

(* 5. codata: a corecursive stream (`new`), destructors on variables, chained destructors, a call as
   scrutinee, a by-name let, a by-name argument *)
Example C02_fragment2_example_codata :
  prog_guard ex_codata = true /\ NoDup (map fdname (fcpdefs ex_codata)) /\
  compile_prog ex_codata = Ok (compiled_or_empty ex_codata) /\
  run_fun 1000 ex_codata [10%Z] = ([(true, 13%Z); (true, 10%Z); (true, 12%Z); (true, 7%Z)], OExit 0%Z) /\
  run_core 2000 (compiled_or_empty ex_codata) [10%Z] = ([(true, 13%Z); (true, 10%Z); (true, 12%Z); (true, 7%Z)], OExit 0%Z).
Proof. exact ex_codata_ok. Qed.

(* the capture witness (C02_fun2core_capture_refuted_before_fix) is in the fragment and well-scoped; it
   violates the FORMER capture guard [nocap] and the syntactic detector [shadowing_risk_prog] fires on it -
   and it is INSIDE the guard of C02_fun2core_correct_fragment2: the theorem applies to a program with
   shadowing binders.  The call-to-main witness violates frag. *)
Theorem C02_guard_accepts_capture_witness :
  prog_guard capture_witness = true /\ NoDup (map fdname (fcpdefs capture_witness)) /\
  existsb (fun d => negb (nocap (fdbody d))) (fcpdefs capture_witness) = true /\
  shadowing_risk_prog capture_witness = true.
Proof. exact guard_accepts_capture_witness. Qed.
Print Assumptions C02_guard_accepts_capture_witness.
Theorem C02_guard_accepts_call_main_witness :
  prog_guard call_main_witness = true /\ NoDup (map fdname (fcpdefs call_main_witness)) /\
  calls_main_prog call_main_witness = true.
Proof. exact guard_accepts_call_main_witness. Qed.
Theorem C02_call_main_witness_simulated : forall (args : list Z) (n : nat) (o : obs),
  run_fun n call_main_witness args = o -> final o ->
  exists m, run_core m (compiled_or_empty call_main_witness) args = o.
Proof. exact call_main_witness_simulated. Qed.
Print Assumptions C02_call_main_witness_simulated.
(* ... hence, by the THEOREM (not by evaluation), every final source run of the capture witness is
   reproduced by the Core machine on its translation *)
Theorem C02_capture_witness_simulated : forall (args : list Z) (n : nat) (o : obs),
  run_fun n capture_witness args = o -> final o ->
  exists m, run_core m (compiled_or_empty capture_witness) args = o.
Proof. exact capture_witness_simulated. Qed.
Print Assumptions C02_capture_witness_simulated.

(* ---------- for property C19 (output size): continuations are shared, not duplicated ---------- *)
(* `if` with a continuation that is not a leaf: the continuation is lifted ONCE by `share` (it sits in
   the lifted definition d, whose body is at most 2 nodes larger) and both branches are translated
   with the same small continuation k = mu~ x. share_f_n(free variables), whose size depends only on
   the number of free variables; the size of the result is 1 + operands + the two branches. *)
Theorem C02_fun2core_ifc_shares_continuation : forall cur s ca cb wt we cont st r st',
  cont_is_small cont = false ->
  wc_ifc cur s ca cb wt we cont st = Ok (r, st') ->
  exists k st1 d a b t e st2 st3,
    share cur cont st = Ok (k, st1) /\
    st_lifted st1 = d :: st_lifted st /\
    (size_cstmt (cdbody d) <= size_cterm cont + 2)%N /\
    (size_cterm k = 2 + N.of_nat (List.length (cdctx d)))%N /\
    wt k st2 = Ok (t, st3) /\ we k st3 = Ok (e, st') /\
    r = CIfC (sort_of s) a b t e /\
    (size_cstmt r = 1 + size_cterm a + match b with Some b' => size_cterm b' | None => 0 end
                    + size_cstmt t + size_cstmt e)%N.
Proof. exact fun2core_ifc_shares_continuation. Qed.
Print Assumptions C02_fun2core_ifc_shares_continuation.

Theorem C02_fun2core_case_shares_continuation : forall cur wscrut sty n ccls cont st r st',
  cont_is_small cont = false -> (2 <= n)%nat ->
  wc_case cur wscrut sty n ccls cont st = Ok (r, st') ->
  exists k st1 d,
    share cur cont st = Ok (k, st1) /\
    st_lifted st1 = d :: st_lifted st /\
    (size_cstmt (cdbody d) <= size_cterm cont + 2)%N /\
    (size_cterm k = 2 + N.of_nat (List.length (cdctx d)))%N /\
    exists cls st2 ty, ccls k st1 = Ok (cls, st2) /\ wscrut (CXCase CCns cls ty) st2 = Ok (r, st').
Proof. exact fun2core_case_shares_continuation. Qed.
Print Assumptions C02_fun2core_case_shares_continuation.
