(* C02: the Fun-to-Core translation preserves meaning and never captures variables.
   Only statements here; models in Model/Fun2Core.v, semantics in Sem/FunSem.v and Sem/CoreSem.v,
   proofs in Proof/Fun2CoreProof.v. *)
From Coq Require Import List ZArith NArith String Bool.
From SCC Require Import Lang.FunSyn Lang.CoreSyn Sem.AxSem Sem.CoreSem Sem.FunSem Model.Fun2Core Proof.Fun2CoreProof Proof.Fun2CoreSim.
From SCC Require Import Proof.Fun2CoreMain.
Import ListNotations.

(* ---------- the property at full strength (statements) ----------
   [fun2core_correct_statement]: for every annotated (type-checked) program inside the property's
   precondition, every terminating defined run of the source is reproduced by the Core machine on the
   translated program.  FALSE of the faithful model - see C02_fun2core_capture_refuted below. *)
Definition fun2core_correct_statement : Prop :=
  forall (p : fcprog) (c : cprog) (args : list Z) (n : nat) (o : obs),
    annotated_fcprog p = true -> effect_sequenced p = true ->
    compile_prog p = Ok c ->
    run_fun n p args = o -> defined o = true ->
    exists m, run_core m c args = o.

(* the guarded form that is expected to hold: binders of each definition pairwise distinct and
   distinct from its parameters ([barendregt]) *)
Definition fun2core_correct_guarded_statement : Prop :=
  forall (p : fcprog) (c : cprog) (args : list Z) (n : nat) (o : obs),
    annotated_fcprog p = true -> effect_sequenced p = true ->
    barendregt p = true ->
    compile_prog p = Ok c ->
    run_fun n p args = o -> defined o = true ->
    exists m, run_core m c args = o.

(* ---------- refuted: the unguarded statement fails on the section-7.1 witness ---------- *)
(* There is an annotated, effect-sequenced program (corpus/fun/capture1.sc; modelrun checks on every
   run that the value used here IS the real checker's output for that file) whose source run is
   defined and differs from the run of its translation: 12 is printed by the source semantics, 14 by
   the Core program.  Hence ~ fun2core_correct_statement. *)
Theorem C02_fun2core_capture_refuted :
  exists (p : fcprog) (args : list Z) (c : cprog) (n : nat),
    annotated_fcprog p = true /\ effect_sequenced p = true /\
    compile_prog p = Ok c /\
    defined (run_fun n p args) = true /\
    run_fun n p args <> run_core n c args.
Proof. exact fun2core_capture_refuted_lemma. Qed.
Print Assumptions C02_fun2core_capture_refuted.

(* ---------- refuted: the BARENDREGT-GUARDED statement fails as well (known finding call-to-main) ----------
   compile_main gives the Core definition `main` no return-continuation parameter (its body ends in
   `exit`) while every call site passes args ++ [continuation]: a program that calls `main` (witness
   corpus/fun/call_main_nontail.sc, tied to the real checker's output by modelrun; it satisfies the
   Barendregt guard and the syntactic capture detector does not fire) prints 3, 107 and returns 8 by the
   source semantics; its translation is stuck "call-arity" on the Core machine (natively the inner main
   exits the process with status 7).  Hence ~ fun2core_correct_guarded_statement; the preservation
   theorems below carry the additional guard [calls_main_prog p = false]. *)
Theorem C02_fun2core_call_to_main_refuted :
  exists (p : fcprog) (args : list Z) (c : cprog) (n : nat),
    annotated_fcprog p = true /\ effect_sequenced p = true /\ barendregt p = true /\
    shadowing_risk_prog p = false /\ calls_main_prog p = true /\
    compile_prog p = Ok c /\
    defined (run_fun n p args) = true /\
    run_fun n p args <> run_core n c args.
Proof. exact fun2core_call_to_main_refuted_lemma. Qed.
Print Assumptions C02_fun2core_call_to_main_refuted.

Theorem C02_fun2core_guarded_statement_refuted : ~ fun2core_correct_guarded_statement.
Proof. exact fun2core_guarded_statement_refuted_lemma. Qed.
Print Assumptions C02_fun2core_guarded_statement_refuted.

(* REPAIRED defect (fix commit 126604b of /repo), kept as regression statements.  Before the fix the
   target covariable of `goto k (t)` was typed with the annotation of the goto expression instead of
   k's type; typed_free_vars then missed k's binder, a lifted continuation got a spurious parameter
   and the translated program was NOT CLOSED.  [compile_prog_before_fix] is the model with the old
   goto rule (only used here). *)
Theorem C02_fun2core_goto_unbound_before_fix :
  exists (p : fcprog) (args : list Z) (c : cprog) (n : nat),
    annotated_fcprog p = true /\ effect_sequenced p = true /\ shadowing_risk_prog p = false /\
    goto_type_mismatch_prog p = true /\
    compile_prog_before_fix p = Ok c /\
    cprog_closed c = false /\
    defined (run_fun n p args) = true /\
    run_fun n p args <> run_core n c args.
Proof. exact fun2core_goto_unbound_before_fix_lemma. Qed.
Print Assumptions C02_fun2core_goto_unbound_before_fix.

(* ... and the CURRENT translation (the model follows the repaired code; model = Rust is checked on
   every run, this witness included) turns the same program - corpus/fun/c02_unbound_covar.sc - into a
   closed Core program with the source's behaviour. *)
Theorem C02_goto_witness_fixed :
  compile_prog goto_witness = Ok (compiled_or_empty goto_witness) /\
  cprog_closed (compiled_or_empty goto_witness) = true /\
  run_core 200 (compiled_or_empty goto_witness) [] = run_fun 200 goto_witness [] /\
  run_fun 200 goto_witness [] = ([(true, 4%Z)], OExit 0%Z).
Proof. exact goto_witness_fixed_lemma. Qed.
Print Assumptions C02_goto_witness_fixed.

(* ---------- generated names are fresh ---------- *)
(* fresh_name(used, base) returns a name that is not in `used` and inserts exactly that name
   (the bounded search of the model always succeeds). *)
Theorem C02_fresh_name_fresh : forall used base,
  ~ In (fst (fresh_name used base)) used /\
  snd (fresh_name used base) = fst (fresh_name used base) :: used.
Proof. exact fresh_name_fresh. Qed.
Print Assumptions C02_fresh_name_fresh.

(* Whole translation, all 15 term forms: a run of compile_with_cont from state st extends used_vars
   (variables x<n> and covariables a<n> share this set) and used_labels by pairwise distinct names
   none of which was in the set before.  used_vars starts as the parameters plus all binders of the
   definition, used_labels as all definition names: generated names never coincide with user-chosen
   ones or with each other. *)
Theorem C02_translation_names_fresh : forall codata cur lg t cont st s st',
  wc codata cur lg t cont st = Ok (s, st') ->
  (exists gv, st_used_vars st' = gv ++ st_used_vars st /\ NoDup gv /\ forall x, In x gv -> ~ In x (st_used_vars st)) /\
  (exists gl, st_used_labels st' = gl ++ st_used_labels st /\ NoDup gl /\ forall x, In x gl -> ~ In x (st_used_labels st)).
Proof. exact translation_names_fresh. Qed.
Print Assumptions C02_translation_names_fresh.

(* share: the label of the lifted definition is share_<def>_<n>, was unused, and the lifted
   definition is pushed in front *)
Theorem C02_share_label_fresh : forall cur cont st k st',
  share cur cont st = Ok (k, st') ->
  exists name ctx body n,
    name = cand ("share_" ++ cur ++ "_")%string n /\
    ~ In name (st_used_labels st) /\
    st_used_labels st' = name :: st_used_labels st /\
    st_lifted st' = mkcd (new_id name) ctx body :: st_lifted st.
Proof. exact share_label_fresh. Qed.
Print Assumptions C02_share_label_fresh.

(* Definition names of the translated program are pairwise distinct whenever the source's are: user
   definitions keep their names, every lifted definition is named by its generated label, and
   generated labels never coincide with a user definition name or with another generated label, of
   the same or of any other definition (used_labels is threaded through the whole program). *)
Theorem C02_compile_prog_def_names_distinct : forall p c,
  compile_prog p = Ok c ->
  NoDup (map fdname (fcpdefs p)) ->
  NoDup (map cdname (cpdefs c)).
Proof. exact compile_prog_def_names_distinct. Qed.
Print Assumptions C02_compile_prog_def_names_distinct.

(* ---------- structure of the translation ---------- *)
(* compile_with_cont of an integer expression (literal, variable, operator, parentheses) is the cut of
   its `compile` translation against the continuation, whatever the continuation is; in particular a
   variable is translated to that variable and a literal to that literal (no administrative redex) *)
Theorem C02_wc_expression_is_cut : forall e, iexp e = true ->
  forall codata cur lg cont st sr st', wc codata cur lg e cont st = Ok (sr, st') ->
  exists ce, (forall ty, cmp codata cur lg e ty st = Ok (ce, st')) /\ sr = CCut ce CI64 cont.
Proof. exact wc_iexp. Qed.
Print Assumptions C02_wc_expression_is_cut.

(* the hygiene statement at full strength, NOT proved (and false without the guard, see the capture
   witness): under [barendregt] the Core machine on the translated
   program reproduces the source - this is fun2core_correct_guarded_statement above; its name-level
   reading "every occurrence of a source variable, covariable or label in compile_prog p is bound by
   the translation of its source binder" follows from it for all variables that matter
   observationally.  What IS proved about names: C02_translation_names_fresh,
   C02_share_label_fresh, C02_compile_prog_def_names_distinct (generated names never collide with
   user names or with each other). *)

(* ---------- semantic preservation, PARTIAL ----------
   Proved for programs whose `main` lies in the first-order integer fragment [islf]: literals, i64
   variables, operators, parentheses, non-codata `let` of an expression, print_i64/println_i64, exit,
   one- and two-operand conditionals (other definitions of the program are arbitrary; the fragment
   has no calls).  For these programs EVERY source run that does not run out of fuel - normal exit,
   undefined arithmetic, even an unbound variable - is reproduced exactly (output and outcome) by
   the Core machine on the model's translation; shadowing is allowed (no capture is possible here:
   bound terms are expressions).
   MISSING for fun2core_correct_guarded_statement: calls, constructors/case, new/destructors and
   by-name bindings, label/goto, `let` whose bound term is not an expression, and shared
   continuations (a conditional or case in non-tail position). *)
Theorem C02_fun2core_correct_partial :
  forall (p : fcprog) (c : cprog) (d : fdef) (args : list Z) (n : nat) (o : obs),
    compile_prog p = Ok c ->
    NoDup (map fdname (fcpdefs p)) ->
    ffind_def p "main" = Some d ->
    islf (fdbody d) = true ->
    run_fun n p args = o -> snd o <> OOutOfFuel ->
    exists m, run_core m c args = o.
Proof. exact fun2core_correct_partial_lemma. Qed.
Print Assumptions C02_fun2core_correct_partial.

(* ---------- for property C19 (output size): continuations are shared, not duplicated ---------- *)
(* `if` with a continuation that is not a leaf: the continuation is lifted ONCE by `share` (it sits in
   the lifted definition d, whose body is at most 2 nodes larger) and both branches are translated
   with the same small continuation k = mu~ x. share_f_n(free variables), whose size depends only on
   the number of free variables; the size of the result is 1 + operands + the two branches. *)
Theorem C02_fun2core_ifc_shares_continuation : forall cur s ca cb wt we cont st r st',
  cont_is_small cont = false ->
  wc_ifc cur s ca cb wt we cont st = Ok (r, st') ->
  exists k st1 d a b t e st2 st3,
    share cur cont st = Ok (k, st1) /\
    st_lifted st1 = d :: st_lifted st /\
    (size_cstmt (cdbody d) <= size_cterm cont + 2)%N /\
    (size_cterm k = 2 + N.of_nat (List.length (cdctx d)))%N /\
    wt k st2 = Ok (t, st3) /\ we k st3 = Ok (e, st') /\
    r = CIfC (sort_of s) a b t e /\
    (size_cstmt r = 1 + size_cterm a + match b with Some b' => size_cterm b' | None => 0 end
                    + size_cstmt t + size_cstmt e)%N.
Proof. exact fun2core_ifc_shares_continuation. Qed.
Print Assumptions C02_fun2core_ifc_shares_continuation.

Theorem C02_fun2core_case_shares_continuation : forall cur wscrut sty n ccls cont st r st',
  cont_is_small cont = false -> (2 <= n)%nat ->
  wc_case cur wscrut sty n ccls cont st = Ok (r, st') ->
  exists k st1 d,
    share cur cont st = Ok (k, st1) /\
    st_lifted st1 = d :: st_lifted st /\
    (size_cstmt (cdbody d) <= size_cterm cont + 2)%N /\
    (size_cterm k = 2 + N.of_nat (List.length (cdctx d)))%N /\
    exists cls st2 ty, ccls k st1 = Ok (cls, st2) /\ wscrut (CXCase CCns cls ty) st2 = Ok (r, st').
Proof. exact fun2core_case_shares_continuation. Qed.
Print Assumptions C02_fun2core_case_shares_continuation.
