(* C07: AArch64 code generation preserves AxCut semantics.
   Only statements here; proofs live in Proof/A64State.v, Proof/A64ImmHw.v, Proof/A64Imm.v,
   Proof/A64Sel.v.

   Layering (DESIGN.md, C07): L0 AxCut linear machine -> L1 abstract back-end operations
   (Model/Backend.v) -> L2 AArch64 instructions (Model/A64.v) on the ISA semantics Sem/A64Sem.v.

   PROVED here (L1 -> L2, integer and control fragment): for every placement of target and operands
   in registers or spill slots, every aliasing between them, and every contents of registers and
   memory, the instruction sequence the model emits has exactly the abstract operation's effect and
   changes nothing but the target and the documented scratch (X2 = TEMP, X3 = TEMP2; for `rem` with
   all three temporaries spilled also the scratch slot 0, X10 being evacuated and restored):
     all five operators (C07_selection_arith), the three-address core with arbitrary aliasing
     (C07_selection_simple_op), rem alone (C07_selection_rem), moves (C07_selection_mov), literal
     synthesis for EVERY 64-bit value into a register or a spill slot (C07_load_immediate_every_value,
     C07_selection_load_immediate), comparisons in two-operand and zero form with the NZCV flags of
     SUBS and all six conditional branches (C07_selection_compare, C07_selection_compare_zero,
     C07_flags_decide_signed_comparison, C07_selection_conditional_branch), label loading, indirect
     jumps, tag dispatch (C07_selection_load_label, C07_selection_jump, C07_selection_add_and_jump,
     C07_selection_switch_dispatch - the sequence repaired by fix: 3781c3f), the move code of explicit
     substitutions as a simultaneous assignment (C07_selection_parallel_moves), and the agreement of the
     model's address arithmetic with the crate's values (C07_constants_agree).

   ALSO PROVED (second half of this file, round 2): the forward simulation L0 -> L2 of the generic code generator
   instantiated at AArch64 for the integer fragment and for closures without captured variables - state
   relation, one theorem per statement form for every context shape (C07_sim_literal / op / op_undefined / ifc /
   substitute / print / call / exit / prologue / epilogue / create / invoke; print and prologue/epilogue through
   the C13 theorems of Proof/A64Print.v and A64Entry.v, the substitution through the C11 theorems of
   Proof/A64Subst.v and A64MemSubst.v), composition (C07_sim_exec, C07_sim_exec_cf) and the program-level theorems
   C07_codegen_simulates_int and C07_codegen_simulates_cf.

   NOT proved:
     - L1 -> L2 for the heap statements: store/load (release and share modes, multi-block chains, block pointer in
       a spill slot with X10 evacuated) and acquire_block on the ISA semantics, hence Let / Switch and Create /
       Invoke of closures WITH captured variables in the simulation (erase_block / share_block_n are proved:
       Proof/A64MemSubst.v);
     - divergence (nothing is said when the linear machine runs out of fuel); label uniqueness is a checked
       hypothesis (asm_wf, C14), not a consequence.
   For the heap statements whole-program preservation is established by the correspondence check (model = Rust on
   every program) plus execution of the implementation's output on the ISA model against the AxCut machine on
   every run (see the evidence file); the full statement is C07_codegen_correct_statement below. *)
From Coq Require Import List ZArith NArith String Bool.
From SCC Require Import Model.ParMoves.
From SCC Require Import Lang.AxSyn Sem.AxSem Model.Backend Model.A64 Sem.A64Sem
  Proof.A64State Proof.A64ImmHw Proof.A64Imm Proof.A64Sel Proof.A64PM.
Import ListNotations.
Open Scope Z_scope.

(* all five operators, against the AxCut meaning of the operator (64-bit wrapping, truncating
   division; the undefined cases are excluded by `eval_op ... = OpVal v`) *)
Theorem C07_selection_arith :
  forall (im : image) (o : binop) (s : astate) (sp : Z) (t s1 s2 : atemp) (a b v : Z),
    frame_ok s sp -> rem_operand_ok t -> rem_operand_ok s1 -> rem_operand_ok s2 ->
    lget s sp s1 = Some a -> lget s sp s2 = Some b -> in64 a -> eval_op o a b = OpVal v ->
    exists s', run_straight im (a_arith o t s1 s2) s = MOk s' /\
               lget s' sp t = Some v /\ preserved_rem s s' sp t.
Proof. exact a64_arith_ok. Qed.
Print Assumptions C07_selection_arith.

(* the three-address core shared by add/sub/mul/div: loads of spilled operands into X2/X3, one
   instruction, store of a spilled target - any aliasing of target and operands *)
Theorem C07_selection_simple_op :
  forall (im : image) f g ok (s : astate) (sp : Z) (t s1 s2 : atemp) (a b : Z),
    simple_op im f g ok ->
    frame_ok s sp -> operand_ok t -> operand_ok s1 -> operand_ok s2 ->
    lget s sp s1 = Some a -> lget s sp s2 = Some b -> ok a b ->
    exists s', run_straight im (a_op f t s1 s2) s = MOk s' /\
               lget s' sp t = Some (g a b) /\ preserved s s' sp t.
Proof. exact a64_simple_op_ok. Qed.
Print Assumptions C07_selection_simple_op.

(* rem = SDIV + MSUB through X3, with X10 evacuated to the scratch slot when everything is spilled *)
Theorem C07_selection_rem :
  forall (im : image) (s : astate) (sp : Z) (t s1 s2 : atemp) (a b : Z),
    frame_ok s sp -> rem_operand_ok t -> rem_operand_ok s1 -> rem_operand_ok s2 ->
    lget s sp s1 = Some a -> lget s sp s2 = Some b -> in64 a -> div_defined a b ->
    exists s', run_straight im (a_op r_rem t s1 s2) s = MOk s' /\
               lget s' sp t = Some (Z.rem a b) /\ preserved_rem s s' sp t.
Proof. exact a64_rem_ok. Qed.
Print Assumptions C07_selection_rem.

Theorem C07_selection_mov :
  forall (im : image) (s : astate) (sp : Z) (t src : atemp),
    frame_ok s sp -> operand_ok t -> operand_ok src ->
    exists s', run_straight im (a_mov t src) s = MOk s' /\
               lget s' sp t = lget s sp src /\ preserved s s' sp t.
Proof. exact a64_mov_ok. Qed.
Print Assumptions C07_selection_mov.

(* literal synthesis: for EVERY 64-bit value the MOVZ/MOVN/MOVK sequence leaves the value in the
   register and touches nothing else (half-word selection: Proof/A64ImmHw.hw_load_immediate_ok) *)
Theorem C07_load_immediate_every_value :
  forall (im : image) (n : N) (v : Z) (s : astate),
    - 2 ^ 63 <= v < 2 ^ 63 ->
    exists s', run_straight im (imm_code (X n) v) s = MOk s' /\ xget s' n = Some v /\ only_reg n s s'.
Proof. exact a64_imm_code_ok. Qed.
Print Assumptions C07_load_immediate_every_value.
(* ... into a register or, through X2, into a spill slot *)
Theorem C07_selection_load_immediate :
  forall (im : image) (s : astate) (sp : Z) (t : atemp) (v : Z),
    frame_ok s sp -> operand_ok t -> in64 v ->
    exists s', run_straight im (a_load_immediate t v) s = MOk s' /\
               lget s' sp t = Some v /\ preserved s s' sp t.
Proof. exact a64_load_immediate_ok. Qed.
Print Assumptions C07_selection_load_immediate.

(* comparisons: the flags are those of SUBS on the two operands ... *)
Theorem C07_selection_compare :
  forall (im : image) (s : astate) (sp : Z) (t1 t2 : atemp) (a b : Z),
    frame_ok s sp -> operand_ok t1 -> operand_ok t2 ->
    lget s sp t1 = Some a -> lget s sp t2 = Some b ->
    exists s', run_straight im (compare t1 t2) s = MOk s' /\ flags s' = Some (cmp_flags a b) /\
               flags_preserving s s' sp.
Proof. exact a64_compare_ok. Qed.
Print Assumptions C07_selection_compare.
Theorem C07_selection_compare_zero :
  forall (im : image) (s : astate) (sp : Z) (t : atemp) (a : Z),
    frame_ok s sp -> operand_ok t -> lget s sp t = Some a ->
    exists s', run_straight im (compare_immediate t 0) s = MOk s' /\ flags s' = Some (cmp_flags a 0) /\
               flags_preserving s s' sp.
Proof. exact a64_compare_zero_ok. Qed.
Print Assumptions C07_selection_compare_zero.
(* ... the NZCV conditions EQ NE LT LE GT GE decide exactly the signed comparisons ... *)
Theorem C07_flags_decide_signed_comparison :
  forall (sort : ifsort) (a b : Z), in64 a -> in64 b -> cond_holds sort (cmp_flags a b) = eval_cmp sort a b.
Proof. exact cond_holds_cmp. Qed.
Print Assumptions C07_flags_decide_signed_comparison.
(* ... so the conditional branch is taken exactly when the AxCut comparison holds (all six sorts) *)
Theorem C07_selection_conditional_branch :
  forall (im : image) (sort : ifsort) (l : string) (s : astate) (a b : Z),
    flags s = Some (cmp_flags a b) -> in64 a -> in64 b ->
    step im (bcc sort l) s = if eval_cmp sort a b then goto_label im s l else Next s.
Proof. exact a64_bcc_step. Qed.
Print Assumptions C07_selection_conditional_branch.

Theorem C07_selection_load_label :
  forall (im : image) (s : astate) (sp : Z) (t : atemp) (l : string) (addr : Z),
    frame_ok s sp -> operand_ok t -> label_addr im l = Some addr ->
    exists s', run_straight im (a_load_label t l) s = MOk s' /\ lget s' sp t = Some addr /\ preserved s s' sp t.
Proof. exact a64_load_label_ok. Qed.
Print Assumptions C07_selection_load_label.
Theorem C07_selection_jump :
  forall (im : image) (s : astate) (sp : Z) (t : atemp) (addr : Z),
    frame_ok s sp -> operand_ok t -> lget s sp t = Some addr ->
    exists s', run_straight im (removelast (a_jump t)) s = MOk s' /\
               step im (last (a_jump t) RET) s' = goto_addr im s' addr /\
               (forall l, loc_ok l -> l <> AR TEMP -> lget s' sp l = lget s sp l) /\ heap s' = heap s /\ out s' = out s.
Proof. exact a64_jump_ok. Qed.
Print Assumptions C07_selection_jump.
Theorem C07_selection_add_and_jump :
  forall (im : image) (s : astate) (sp : Z) (t : atemp) (i addr : Z),
    frame_ok s sp -> operand_ok t -> lget s sp t = Some addr -> (add_imm_fits i = false -> in64 i) ->
    exists s', run_straight im (removelast (a_add_and_jump t i)) s = MOk s' /\
               step im (last (a_add_and_jump t i) RET) s' = goto_addr im s' (wrap (addr + i)) /\
               heap s' = heap s /\ out s' = out s.
Proof. exact a64_add_and_jump_ok. Qed.
Print Assumptions C07_selection_add_and_jump.
(* the offset of the table dispatch: an ADD immediate when it has 12 bits, else synthesised in X3 (TEMP2) - the repair
   of the finding "tag dispatch immediate" (docs/C14.md); only the target register and X3 change *)
Theorem C07_selection_add_offset :
  forall (im : image) (s : astate) (n : N) (i a : Z),
    gp (X n) -> n <> 3%N -> xget s n = Some a -> (add_imm_fits i = false -> in64 i) ->
    exists s', run_straight im (add_offset (X n) i) s = MOk s' /\ xget s' n = Some (wrap (a + i)) /\
               (forall m, m <> n -> m <> 3%N -> xget s' m = xget s m) /\
               spv s' = spv s /\ heap s' = heap s /\ stack s' = stack s /\ out s' = out s.
Proof. exact a64_add_offset_ok. Qed.
Print Assumptions C07_selection_add_offset.
(* switch: table address + tag, tag in a register or in a spill slot *)
Theorem C07_selection_switch_dispatch :
  forall (im : image) (s : astate) (sp : Z) (tag : atemp) (l : string) (base off : Z),
    frame_ok s sp -> operand_ok tag -> label_addr im l = Some base -> lget s sp tag = Some off ->
    exists s', run_straight im (a_load_label (AR TEMP) l ++ a_arith Sum (AR TEMP) (AR TEMP) tag) s = MOk s' /\
               step im (BR TEMP) s' = goto_addr im s' (wrap (base + off)) /\
               (forall l, loc_ok l -> l <> AR TEMP -> l <> AR TEMP2 -> lget s' sp l = lget s sp l) /\
               heap s' = heap s /\ out s' = out s.
Proof. exact a64_switch_dispatch_ok. Qed.
Print Assumptions C07_selection_switch_dispatch.

(* explicit substitutions (C11 on AArch64): the code emitted for a move graph in which every target
   has one source - chains, cycles (one value saved in X2), fan-out, spill slots on either side
   (spill-to-spill through X3) - performs the assignment simultaneously: every target ends up with the
   initial value of its source, every other variable temporary is unchanged.  Generic theorem
   (Model/ParMoves.parallel_moves_correct) composed with C07_selection_mov and the save/restore code. *)
Theorem C07_selection_parallel_moves :
  forall (im : image) (am : amap atemp) (code : list acode) (s : astate) (sp : Z),
    frame_ok s sp ->
    indeg1 atemp a64_teqb am -> nodup_targets atemp a64_teqb am -> amap_ok atemp operand_ok am ->
    parallel_moves_code a64_backend am = Ok code ->
    exists s', run_straight im code s = MOk s' /\ frame_ok s' sp /\ heap s' = heap s /\ out s' = out s /\
               (forall a b, edge atemp a64_teqb am a b -> lget s' sp b = lget s sp a) /\
               (forall u, operand_ok u -> (forall a, ~ edge atemp a64_teqb am a u) -> lget s' sp u = lget s sp u).
Proof. exact a64_parallel_moves_ok. Qed.
Print Assumptions C07_selection_parallel_moves.

(* the model's address arithmetic is the crate's (values regenerated from the code), and the
   jump-table stride is the size of a B instruction *)
Theorem C07_constants_agree :
  map stack_offset [0; 1; 2; 3; 4; 5; 6; 7]%N = Generated.Constants.A64C.stack_offset_samples /\
  map (field_offset Fst) [0; 1; 2; 3]%N = Generated.Constants.A64C.field_offset_fst /\
  map (field_offset Snd) [0; 1; 2; 3]%N = Generated.Constants.A64C.field_offset_snd /\
  map jump_length [0; 1; 2; 3; 4; 5]%N = Generated.Constants.A64C.jump_length_samples /\
  (forall l n, jump_length n = Z.of_N n * isize (B l)).
Proof.
  exact (conj a64_stack_offset_samples (conj (proj1 a64_field_offset_samples)
          (conj (proj2 a64_field_offset_samples) (conj a64_jump_length_samples a64_jump_length_is_isize)))).
Qed.
Print Assumptions C07_constants_agree.

(* What the selection lemmas cover, as one statement; the gap to the full L1 -> L2 layer is listed
   in the header (memory operations, print, prologue/epilogue, parallel-move instantiation). *)
Theorem C07_selection_partial :
  forall (im : image) (s : astate) (sp : Z), frame_ok s sp ->
    (forall o t s1 s2 a b v,
        rem_operand_ok t -> rem_operand_ok s1 -> rem_operand_ok s2 ->
        lget s sp s1 = Some a -> lget s sp s2 = Some b -> in64 a -> eval_op o a b = OpVal v ->
        exists s', run_straight im (a_arith o t s1 s2) s = MOk s' /\ lget s' sp t = Some v /\ preserved_rem s s' sp t) /\
    (forall t src, operand_ok t -> operand_ok src ->
        exists s', run_straight im (a_mov t src) s = MOk s' /\ lget s' sp t = lget s sp src /\ preserved s s' sp t) /\
    (forall t v, operand_ok t -> in64 v ->
        exists s', run_straight im (a_load_immediate t v) s = MOk s' /\ lget s' sp t = Some v /\ preserved s s' sp t) /\
    (forall t1 t2 a b, operand_ok t1 -> operand_ok t2 -> lget s sp t1 = Some a -> lget s sp t2 = Some b ->
        exists s', run_straight im (compare t1 t2) s = MOk s' /\ flags s' = Some (cmp_flags a b) /\ flags_preserving s s' sp).
Proof.
  intros im s sp F. repeat split; intros.
  - eapply a64_arith_ok; eauto.
  - eapply a64_mov_ok; eauto.
  - eapply a64_load_immediate_ok; eauto.
  - eapply a64_compare_ok; eauto.
Qed.
Print Assumptions C07_selection_partial.

(* The full property, stated but not proved (see the header): for every linearly well-typed
   program within capacity, the emitted code behaves like the AxCut linear machine.  What remains
   is the generic simulation L0 -> L1 and the memory operations at L1 -> L2. *)
Definition C07_codegen_correct_statement : Prop :=
  forall (p : prog) (lc : N) (cs : list acode) (n : nat) (lc' : N) (args : list Z) (fuel : nat) (o : obs),
    a64_compile p lc = Ok (cs, n, lc') ->
    run_linear fuel p args = o -> defined o = true ->
    exists outer inner, fst (run_a64 outer inner cs args) = o.
Definition a64_codegen_correct : Prop := C07_codegen_correct_statement.


(* ======================================================================================== *)
(* Forward simulation of the generic code generator instantiated at AArch64                   *)
(* (port of the x86-64 development of Props/C06.v; worker sim64)                              *)
(* ======================================================================================== *)
From SCC Require Import Model.LinCheck Sem.A64Wf Proof.A64Exec Proof.SubstGraph Proof.A64Subst Proof.A64Print Proof.A64Entry
     Proof.SimFrag Proof.A64SimRel Proof.A64SimStmt Proof.A64SimProg Proof.A64SimTop Proof.A64SimExample.
Open Scope list_scope.
(* THE STATE RELATION  `rel CL c e s sp`  (Proof/A64SimRel.v) between a configuration of the linear AxCut
   machine - the typing context c the generator threads and the environment e, a list of (name, value)
   by position - and an ISA state s:  SP = sp with sp = 0 (mod 16) (the hardware rule for sp-relative
   accesses) and the whole spill area [sp, sp+2048) inside the stack region, 144 bytes of room below sp for the
   pushes around a print call, X1 (deferred-free list) defined; e and c name the same ids in the same order,
   pairwise distinct; position i is represented (`vrep`) as
     integer z (binding ext i64):  the SECOND temporary of position i (register X(2i+5) for i < 13 - for i = 12
                                   that is internal register 29 = X30, the LINK register - or spill slot 2i-24
                                   from position 13 on; slot 0 is the scratch slot) holds z, and z is a 64-bit
                                   value (`in64 z`: literal synthesis from half-words, SDIV/MSUB and the NZCV
                                   conditions are exact on 64-bit values only);
     closure without captured variables (binding cns T): first temporary = null block pointer, second
                                   temporary = a code address a with `CL a T clauses`.
   Not constrained: first temporaries of integers, X2, X3 (scratch), X0, the flags, spill slot 0, the stack
   below sp.  CL, what a closure's code pointer points to, is a parameter of the statement-level theorems.
   `frame_eq s s' sp`: heap, output and every stack word outside the spill area are unchanged;
   `above_eq`: heap and every stack word at or above sp are unchanged.
   First consequence: the machine's operand lookup and the generator's `variable_temporary` meet. *)
Theorem C07_sim_rel_reads :
  forall (CL : Z -> ident -> list clause -> Prop) (c : ctx) (e : env) (s : astate) (sp : Z) (a : ident) (x : Z),
    rel CL c e s sp -> lookup_int e a = Some x ->
    exists i b t, nth_error c i = Some b /\ idn (bvar b) = idn a /\ tpos a64_backend Snd i = Ok t /\ lget s sp t = Some x /\ in64 x.
Proof. exact rel_lookup. Qed.
Print Assumptions C07_sim_rel_reads.
(* where the positions live: X(2i+4), X(2i+5) up to position 12 (X28/X29 = internal 28, X30 = internal 29),
   spill slots >= 1 after; never SP, XZR, X0..X3, slot 0 *)
Theorem C07_sim_positions :
  forall (n : tnum) (i : nat) (t : atemp),
    tpos a64_backend n i = Ok t ->
    ((i < 13)%nat /\ t = AR (X (2 * N.of_nat i + tnum_n n + 4))) \/ ((13 <= i)%nat /\ exists q, t = AS q /\ slot_ok q /\ q <> 0%N).
Proof. exact atpos_shape. Qed.
Print Assumptions C07_sim_positions.

(* One theorem per statement form.  In each: ANY context c (any number of variables, so operands and
   target in registers - X30 included - or spill slots in every combination; operands may coincide), the
   hypotheses on the machine side are exactly the conditions under which `exec_linear` takes the step, the
   temporaries are whatever `code_statement` computed (`variable_temporary … = Ok t`), and the conclusion
   relates the state after the emitted code to the machine's next environment.  Each reuses the selection
   lemma of the operation (the C07_selection theorems), nothing is re-proved. *)
(* Literal: MOVZ / MOVN / MOVK synthesis (C07_load_immediate_every_value) of any 64-bit literal, through X2 into a
   spill slot *)
Theorem C07_sim_literal :
  forall (im : image) (CL : Z -> ident -> list clause -> Prop) (c : ctx) (e : env) (s : astate) (sp : Z) (n : Z) (v : ident) (tv : atemp),
    rel CL c e s sp -> NoDup (ids (c ++ [mkb v Ext I64])) -> in64 n ->
    variable_temporary a64_backend Snd (c ++ [mkb v Ext I64]) (idn v) = Ok tv ->
    exists s', run_straight im (a_load_immediate tv n) s = MOk s' /\
               rel CL (c ++ [mkb v Ext I64]) (e ++ [(v, VInt n)]) s' sp /\ frame_eq s s' sp.
Proof. exact sim_literal. Qed.
Print Assumptions C07_sim_literal.

(* all five operators; the result is the AxCut value (wrap-around for + - *, truncation for / %); rem is
   SDIV + MSUB through X3, with X10 evacuated to slot 0 when target and both operands are spilled
   (C07_selection_rem); the result is again a 64-bit value *)
Theorem C07_sim_op :
  forall (im : image) (CL : Z -> ident -> list clause -> Prop) (c : ctx) (e : env) (s : astate) (sp : Z) (a : ident) (o : binop)
         (b v : ident) (x y z : Z) (tv ta tb : atemp),
    rel CL c e s sp -> NoDup (ids (c ++ [mkb v Ext I64])) ->
    lookup_int e a = Some x -> lookup_int e b = Some y -> eval_op o x y = OpVal z ->
    variable_temporary a64_backend Snd (c ++ [mkb v Ext I64]) (idn v) = Ok tv ->
    variable_temporary a64_backend Snd (c ++ [mkb v Ext I64]) (idn a) = Ok ta ->
    variable_temporary a64_backend Snd (c ++ [mkb v Ext I64]) (idn b) = Ok tb ->
    exists s', run_straight im (a_arith o tv ta tb) s = MOk s' /\
               rel CL (c ++ [mkb v Ext I64]) (e ++ [(v, VInt z)]) s' sp /\ frame_eq s s' sp.
Proof. exact sim_op. Qed.
Print Assumptions C07_sim_op.

(* the undefined cases (divisor 0, min_int / -1, for Div and Rem): the emitted code runs - after the loads of
   spilled operands and, for the fully spilled rem, the evacuation of X10 - into the SDIV, which the ISA model
   reports with the same reason, output unchanged *)
Theorem C07_sim_op_undefined :
  forall (im : image) (CL : Z -> ident -> list clause -> Prop) (c : ctx) (e : env) (s : astate) (sp : Z) (a : ident) (o : binop)
         (b v : ident) (x y : Z) (w : string) (tv ta tb : atemp),
    rel CL c e s sp -> NoDup (ids (c ++ [mkb v Ext I64])) ->
    lookup_int e a = Some x -> lookup_int e b = Some y -> eval_op o x y = OpUndef w ->
    variable_temporary a64_backend Snd (c ++ [mkb v Ext I64]) (idn v) = Ok tv ->
    variable_temporary a64_backend Snd (c ++ [mkb v Ext I64]) (idn a) = Ok ta ->
    variable_temporary a64_backend Snd (c ++ [mkb v Ext I64]) (idn b) = Ok tb ->
    exists s', exec_undef im (a_arith o tv ta tb) s = Some (w, s') /\ out s' = out s.
Proof. exact sim_op_undef. Qed.
Print Assumptions C07_sim_op_undefined.
Theorem C07_sim_op_undefined_observed :
  forall (im : image) (pc : positive) (cs : list acode) (s : astate) (w : string) (s' : astate),
    code_at im pc cs -> exec_undef im cs s = Some (w, s') -> finishes im pc s (finish (out s') (OUndef w)).
Proof. exact exec_undef_finishes. Qed.
Print Assumptions C07_sim_op_undefined_observed.

(* IfC, all six comparison sorts, two-operand form (b = Some _: CMP on registers, spilled operands loaded into
   X2 / X3) and zero form (b = None: CMP #0): the NZCV flags decide the signed comparison
   (C07_flags_decide_signed_comparison), the B.cond resolves its label; control reaches the first instruction of
   the branch the machine takes - the else branch right after the B.cond, the then branch right after the
   label - in a related state *)
Theorem C07_sim_ifc :
  forall (im : image) (CL : Z -> ident -> list clause -> Prop) (c : ctx) (e : env) (s : astate) (sp : Z) (so : ifsort)
         (a : ident) (b : option ident) (x y : Z)
         (types : list tydecl) (thenc elsec : stmt) (lc : N) (code : list acode) (lc' : N) (pc : positive),
    rel CL c e s sp -> lookup_int e a = Some x ->
    match b with Some b => lookup_int e b | None => Some 0 end = Some y ->
    code_statement a64_backend types (IfC so a b thenc elsec) c lc = Ok (code, lc') ->
    code_at im pc code -> labels_at_nh im pc code ->
    exists c1 c2 lc2 c3 s',
      code = c1 ++ c2 ++ [LAB (iflabel lc)] ++ c3 /\
      code_statement a64_backend types elsec c (lc + 1)%N = Ok (c2, lc2) /\
      code_statement a64_backend types thenc c lc2 = Ok (c3, lc') /\
      exec_to im pc s (if eval_cmp so x y then padd pc (List.length c1 + List.length c2 + 1)
                       else padd pc (List.length c1)) s' /\
      rel CL c e s' sp /\ frame_eq s s' sp.
Proof. exact sim_ifc. Qed.
Print Assumptions C07_sim_ifc.

(* Substitute, ANY mix of integer and closure variables, any rearrangement (drop, duplicate, permute): the
   reference-count code (one erase / share per closure variable dropped / duplicated, each skipped because
   the block pointer of a closure without captured variables is null; worker a64abi's a64_emit_rc_ok, i.e.
   C11's erase / share meaning theorems on AArch64) followed by the parallel moves
   (C07_selection_parallel_moves with the frame: a64_parallel_moves_frame_ok; the move graph from
   C11_substitute_graph_edges) leaves the machine's rearranged environment in the temporaries of the new
   context.  `has …` is the condition lin_check imposes. *)
Theorem C07_sim_substitute :
  forall (im : image) (CL : Z -> ident -> list clause -> Prop) (c : ctx) (e : env) (s : astate) (sp : Z)
         (re : list (binding * ident)) (vs : list value) (e' : env)
         (c1 : list acode) (lc lc1 : N) (c2 : list acode) (pc : positive),
    rel CL c e s sp -> NoDup (new_ids re) ->
    (forall q, In q re -> has c (snd q) (bchi (fst q)) (bty (fst q)) = true) ->
    lookups e (map snd re) = Some vs -> bind (map (fun r => bvar (fst r)) re) vs = Some e' ->
    code_weakening_contraction a64_backend (transpose re c) c lc = Ok (c1, lc1) ->
    code_exchange a64_backend (transpose re c) c (map fst re) = Ok c2 ->
    code_at im pc (c1 ++ c2) -> labels_at_nh im pc (c1 ++ c2) ->
    exists s', exec_to im pc s (padd pc (List.length (c1 ++ c2))) s' /\ rel CL (map fst re) e' s' sp /\ frame_eq s s' sp.
Proof. exact sim_substitute. Qed.
Print Assumptions C07_sim_substitute.
(* in an integer context no reference-count code is emitted at all *)
Theorem C07_sim_substitute_int_no_rc :
  forall (c : ctx) (re : list (binding * ident)) (lc : N),
    ctx_int c = true -> NoDup (ids c) ->
    code_weakening_contraction a64_backend (transpose re c) c lc = Ok ([], lc).
Proof. exact cwc_ctx_int. Qed.
Print Assumptions C07_sim_substitute_int_no_rc.

(* PrintI64 on the external-call model (SP = 0 mod 16 at the BL, X0 defined; afterwards X0-X17, the LINK
   REGISTER X30, the flags and the stack below SP are undefined): the printed value is the variable's, every
   live temporary of EVERY context survives - in particular the 13th variable, which lives in X30 (the case
   repaired by fix: b8c7d78) - and SP is restored.  This is worker a64abi's a64_print_ok
   (C13_a64_print_preserves_context) composed with the relation. *)
Theorem C07_sim_print :
  forall (im : image) (CL : Z -> ident -> list clause -> Prop) (c : ctx) (e : env) (s : astate) (sp : Z) (nl : bool)
         (v : ident) (z : Z) (tv : atemp),
    rel CL c e s sp -> lookup_int e v = Some z ->
    variable_temporary a64_backend Snd c (idn v) = Ok tv ->
    exists s', run_straight im (a_print nl tv c) s = MOk s' /\
               rel CL c e s' sp /\ out s' = (nl, z) :: out s /\ above_eq s s' sp.
Proof. exact sim_print. Qed.
Print Assumptions C07_sim_print.

(* Call: the branch changes no state; the callee's context (same kinds and types position by position:
   lin_check's sig_match) relabels the same positions *)
Theorem C07_sim_call :
  forall (CL : Z -> ident -> list clause -> Prop) (c : ctx) (e : env) (st : astate) (sp : Z) (c' : ctx) (e' : env),
    rel CL c e st sp -> NoDup (ids c') -> sig_match c c' = true ->
    bind (vars c') (map snd e) = Some e' -> rel CL c' e' st sp.
Proof. exact bind_rel. Qed.
Print Assumptions C07_sim_call.

(* Exit: the result reaches X0 (from a register or a spill slot); control then goes to `cleanup` *)
Theorem C07_sim_exit :
  forall (im : image) (CL : Z -> ident -> list clause -> Prop) (c : ctx) (e : env) (s : astate) (sp : Z) (v : ident) (z : Z) (tv : atemp),
    rel CL c e s sp -> lookup_int e v = Some z -> variable_temporary a64_backend Snd c (idn v) = Ok tv ->
    exists s', run_straight im (a_mov (AR RETURN1) tv) s = MOk s' /\ rget s' RETURN1 = Some z /\
               frame_ok s' sp /\ frame_eq s s' sp.
Proof. exact sim_exit_mov. Qed.
Print Assumptions C07_sim_exit.

(* the prologue and the epilogue (worker a64abi's a64_entry_exit_ok, C13_a64_entry_exit, composed with the entry
   convention of Sem/A64Sem.v): from the entry state of a C call with up to seven integer arguments, `setup`
   stores X19-X29 and the LINK REGISTER X30 below the entry SP, reserves the spill area (sp0 = STACK_TOP - 2144,
   0 mod 16), initialises X1 and leaves argument i in X(2i+5), the register of position i; and from EVERY later
   state with the body's SP in which the words above the spill area are what the prologue stored (`outer_ok`) -
   whatever X19-X30 hold by then, X30 possibly being the 13th variable - `cleanup` reloads them, `RET` finds
   the return marker in X30, and the run ends with OExit of the value in X0: SP and X19-X29 have their entry
   values (final_check) *)
Theorem C07_sim_prologue_epilogue :
  forall (im : image) (args : list Z) (su : list acode),
    setup (List.length args) = Ok su ->
    exists s, run_straight im su (init_state args) = MOk s /\
      frame_ok s sp0 /\ out s = [] /\ (exists f, rget s FREE = Some f) /\
      (forall i, (i < List.length args)%nat -> rget s (X (2 * N.of_nat i + 5)) = Some (nth i args 0)) /\
      forall pcc s2 z, code_at im pcc cleanup ->
        frame_ok s2 sp0 -> outer_ok (stack s) sp0 s2 -> rget s2 RETURN1 = Some z ->
        finishes im pcc s2 (finish (out s2) (OExit z)).
Proof. exact prologue_ok. Qed.
Print Assumptions C07_sim_prologue_epilogue.
(* the two halves under their own names *)
Theorem C07_sim_prologue :
  forall (im : image) (args : list Z) (su : list acode),
    setup (List.length args) = Ok su ->
    exists s, run_straight im su (init_state args) = MOk s /\
      frame_ok s sp0 /\ out s = [] /\ (exists f, rget s FREE = Some f) /\
      (forall i, (i < List.length args)%nat -> rget s (X (2 * N.of_nat i + 5)) = Some (nth i args 0)).
Proof. exact prologue_only. Qed.
Print Assumptions C07_sim_prologue.
Theorem C07_sim_epilogue :
  forall (im : image) (args : list Z) (su : list acode) (s : astate) (pcc : positive) (s2 : astate) (z : Z),
    setup (List.length args) = Ok su -> run_straight im su (init_state args) = MOk s ->
    code_at im pcc cleanup -> frame_ok s2 sp0 -> outer_ok (stack s) sp0 s2 -> rget s2 RETURN1 = Some z ->
    finishes im pcc s2 (finish (out s2) (OExit z)).
Proof. exact epilogue_ok. Qed.
Print Assumptions C07_sim_epilogue.
(* what keeps `outer_ok`: code that stores only into the spill area, and the print sequence *)
Theorem C07_sim_outer_kept :
  forall (st0 : PM.t Z) (s s' : astate) (sp : Z),
    (sp_ok sp -> frame_eq s s' sp -> outer_ok st0 sp s -> outer_ok st0 sp s') /\
    (above_eq s s' sp -> outer_ok st0 sp s -> outer_ok st0 sp s').
Proof. intros st0 s s' sp. split; [apply frame_eq_outer|apply above_eq_outer]. Qed.
Print Assumptions C07_sim_outer_kept.
(* the entry state satisfies the relation for an integer entry context and 64-bit arguments *)
Theorem C07_sim_entry :
  forall (CL : Z -> ident -> list clause -> Prop) (c0 : ctx) (args : list Z) (e0 : env) (s : astate),
    bind (vars c0) (map VInt args) = Some e0 -> NoDup (ids c0) -> ctx_int c0 = true -> (List.length args <= 7)%nat ->
    args_i64 args = true ->
    frame_ok s sp0 -> (exists f, rget s FREE = Some f) ->
    (forall i, (i < List.length args)%nat -> rget s (X (2 * N.of_nat i + 5)) = Some (nth i args 0)) ->
    rel CL c0 e0 s sp0.
Proof. exact entry_rel. Qed.
Print Assumptions C07_sim_entry.

(* composition: for a statement of the fragment that is linearly well-typed in its (integer) context,
   whose code sits in an image where the definitions' labels resolve to the code emitted for them and
   `cleanup` to an epilogue that works from every state with the frame intact, the ISA run from a related
   state ends with exactly the observation of the linear machine - print trace and result, or the undefined
   operation - whenever the machine's run ends at all (a linearly well-typed statement of the fragment never
   gets stuck: progress is part of the proof) *)
Theorem C07_sim_exec :
  forall (im : image) (p : prog) (sp : Z) (CL : Z -> ident -> list clause -> Prop) (st0 : PM.t Z),
    (forall d, In d (pdefs p) ->
       exists pcd lcd cd lcd', find_label (labels im) (show_ident (dname d) +++ "_") = Some pcd /\
         PM.find pcd (code im) = Some (LAB (show_ident (dname d) +++ "_")) /\
         code_statement a64_backend (ptypes p) (dbody d) (dctx d) lcd = Ok (cd, lcd') /\
         code_at im (Pos.succ pcd) cd /\ labels_at_nh im (Pos.succ pcd) cd) ->
    (exists pcc, find_label (labels im) "cleanup" = Some pcc /\
       forall s z, frame_ok s sp -> outer_ok st0 sp s -> rget s RETURN1 = Some z -> finishes im pcc s (finish (out s) (OExit z))) ->
    (forall d, In d (pdefs p) -> lin_check (sigs_of p) (dctx d) (dbody d) = true) ->
    (forall d, In d (pdefs p) -> def_int d = true) ->
    (forall d, In d (pdefs p) -> stmt_lits (dbody d) = true) ->
    forall (fuel : nat) (s : stmt) (c : ctx) (e : env) (ot : prints) (st : astate) (pc : positive)
           (code : list acode) (lc lc' : N),
      stmt_int s = true -> stmt_lits s = true -> ctx_int c = true -> lin_check (sigs_of p) c s = true ->
      code_statement a64_backend (ptypes p) s c lc = Ok (code, lc') ->
      code_at im pc code -> labels_at_nh im pc code ->
      rel CL c e st sp -> outer_ok st0 sp st -> out st = ot ->
      snd (exec_linear fuel p e s ot) <> OOutOfFuel -> finishes im pc st (exec_linear fuel p e s ot).
Proof. exact sim_exec. Qed.
Print Assumptions C07_sim_exec.

(* layout: in the image of an instruction list that passes the assembler-level check `asm_wf` (C14,
   evaluated on the REAL output on every run), instruction j sits at index 1+j and every label not
   starting with '#' resolves to its own position *)
Theorem C07_image_layout :
  forall cs : list acode,
    asm_wf cs = None -> code_at (mk_image cs) 1%positive cs /\ labels_at_nh (mk_image cs) 1%positive cs.
Proof. exact mk_image_layout. Qed.
Print Assumptions C07_image_layout.

(* THE PROGRAM-LEVEL THEOREM for the integer fragment.  For every program p whose definitions all have
   integer contexts and bodies made of Substitute / Call / Literal / Op / PrintI64 / IfC / Exit
   (`int_frag`, the same predicate as in C06), whose definition names do not start with '#' (`plain_names`),
   whose literals are 64-bit values (`lits_i64`: the Rust AST has i64 literals, the model Z), that is linearly
   well-typed (`lin_check_prog`, C05), for every label-counter start, every argument list of the entry
   definition's arity made of 64-bit values (`args_i64`) and every fuel: if the code the generator emits passes
   `asm_wf` (labels unique) and the linear machine's run ENDS (anything but out-of-fuel), then the ISA run of the
   emitted code on the same arguments makes the same print calls with the same values and ends the same way
   (same result; same undefined-operation reason).  Any number of variables: 13 register positions - the last
   one in the link register - and spill slots beyond.
   Missing to the full C07_codegen_correct_statement: the heap statements Let / Switch and Create / Invoke with
   captured variables; label uniqueness is a checked hypothesis (asm_wf), not a theorem; divergence is not
   covered. *)
Theorem C07_codegen_simulates_int :
  forall (p : prog) (lc : N) (cs : list acode) (n : nat) (lc' : N) (args : list Z) (fuel : nat) (o : obs),
    int_frag p = true -> plain_names p = true -> lits_i64 p = true -> lin_check_prog p = true ->
    a64_compile p lc = Ok (cs, n, lc') -> asm_wf cs = None ->
    List.length args = n -> args_i64 args = true ->
    run_linear fuel p args = o -> snd o <> OOutOfFuel ->
    exists outer inner, fst (run_a64 outer inner cs args) = o.
Proof. exact a64_codegen_simulates_int. Qed.
Print Assumptions C07_codegen_simulates_int.

(* the arity hypothesis is needed: with a wrong number of arguments the linear machine refuses to start
   (OStuck "entry-args"), which no ISA run reports (witness: eight arguments for a one-parameter entry) *)
Theorem C07_codegen_simulates_int_arity_refuted :
  ~ (forall (p : prog) (lc : N) (cs : list acode) (n : nat) (lc' : N) (args : list Z) (fuel : nat) (o : obs),
      int_frag p = true -> plain_names p = true -> lits_i64 p = true -> lin_check_prog p = true ->
      a64_compile p lc = Ok (cs, n, lc') -> asm_wf cs = None -> args_i64 args = true ->
      run_linear fuel p args = o -> snd o <> OOutOfFuel ->
      exists outer inner, fst (run_a64 outer inner cs args) = o).
Proof. exact ex_arity_needed. Qed.
Print Assumptions C07_codegen_simulates_int_arity_refuted.

(* the same theorem under the name the partial-statement convention asks for: C07_codegen_correct_statement
   restricted to the integer fragment (missing: Let / Switch / Create / Invoke; the two 64-bit side conditions
   and asm_wf are hypotheses) *)
Theorem C07_codegen_correct_partial :
  forall (p : prog) (lc : N) (cs : list acode) (n : nat) (lc' : N) (args : list Z) (fuel : nat) (o : obs),
    int_frag p = true -> plain_names p = true -> lits_i64 p = true -> lin_check_prog p = true -> asm_wf cs = None ->
    a64_compile p lc = Ok (cs, n, lc') -> args_i64 args = true ->
    run_linear fuel p args = o -> defined o = true ->
    exists outer inner, fst (run_a64 outer inner cs args) = o.
Proof. exact a64_codegen_correct_int. Qed.
Print Assumptions C07_codegen_correct_partial.

(* the hypotheses are satisfiable by a non-trivial program that crosses the AArch64 specifics (two definitions, a
   literal needing MOVZ+MOVK+MOVK and one needing MOVN+MOVK, a print with exactly 13 live variables - X30 saved
   around BL -, 22 variables = spill slots, a rem with all three temporaries spilled = X10 evacuation, Sum Sub
   Prod Div Rem, both forms of IfC, a three-way explicit substitution with a duplicated source), and the
   conclusion is what evaluation shows: Proof/A64SimExample.v *)
Theorem C07_codegen_simulates_int_example_hypotheses :
  int_frag ex_prog = true /\ plain_names ex_prog = true /\ lits_i64 ex_prog = true /\ lin_check_prog ex_prog = true /\
  (exists n lc', a64_compile ex_prog 0 = Ok (ex_code, n, lc')) /\ asm_wf ex_code = None.
Proof. exact ex_hypotheses. Qed.
Print Assumptions C07_codegen_simulates_int_example_hypotheses.
Theorem C07_codegen_simulates_int_example_shape :
  filter (fun c => match c with MOVK _ _ _ | MOVN _ _ _ | MSUB _ _ _ _ | STR (X 10) _ _ | STR (X 29) _ _ | MOVR _ (X 29) => true
                   | _ => false end) ex_code =
  [MOVK (X 7) 29179 16; MOVK (X 7) 287 32; MOVN (X 9) 721 0; MOVK (X 9) 46697 16;
   STR (X 29) SP 56; MOVR (X 0) (X 29); STR (X 10) SP 2040; MSUB (X 2) (X 3) (X 10) (X 2);
   STR (X 29) SP 56; STR (X 29) SP 56].
Proof. exact ex_code_shape. Qed.
Print Assumptions C07_codegen_simulates_int_example_shape.
Theorem C07_codegen_simulates_int_example_runs :
  run_linear 100 ex_prog [0] = ([(true, 71); (false, 78); (true, 113580245891316); (false, 113580245891316)], OExit 113580245891316) /\
  fst (run_a64 10 1000 ex_code [0]) = ([(true, 71); (false, 78); (true, 113580245891316); (false, 113580245891316)], OExit 113580245891316) /\
  run_linear 100 ex_prog [5] = ([(true, 71); (false, 78); (true, 113580245891316); (false, 113580245891321)], OExit 113580245891321) /\
  fst (run_a64 10 1000 ex_code [5]) = ([(true, 71); (false, 78); (true, 113580245891316); (false, 113580245891321)], OExit 113580245891321) /\
  run_linear 100 ex_prog [200] = ([(true, 71); (false, 78); (true, 113580245891316)], OExit (-12345749)) /\
  fst (run_a64 10 1000 ex_code [200]) = ([(true, 71); (false, 78); (true, 113580245891316)], OExit (-12345749)) /\
  run_linear 100 ex_prog [100] = ([(true, 71); (false, 78); (true, 113580245891316)], OUndef "div0"%string) /\
  fst (run_a64 10 1000 ex_code [100]) = ([(true, 71); (false, 78); (true, 113580245891316)], OUndef "div0"%string).
Proof. exact ex_runs. Qed.
Print Assumptions C07_codegen_simulates_int_example_runs.
(* and the theorem applies to it: every 64-bit argument, every sufficient fuel *)
Theorem C07_codegen_simulates_int_example_applies :
  forall (x : Z) (fuel : nat) (o : obs),
    lit_i64 x = true -> run_linear fuel ex_prog [x] = o -> snd o <> OOutOfFuel ->
    exists outer inner, fst (run_a64 outer inner ex_code [x]) = o.
Proof. exact ex_simulated. Qed.
Print Assumptions C07_codegen_simulates_int_example_applies.


(* ======================================================================================== *)
(* Closures without captured variables: create / invoke (the closure fragment)               *)
(* ======================================================================================== *)
From SCC Require Import Proof.A64SimAddr Proof.A64SimClo Proof.A64SimProgC Proof.A64SimTopC Proof.A64SimExampleC.
Open Scope list_scope.

(* byte addresses in the image of ANY instruction list: every placed instruction has an address >= CODE_BASE,
   consecutive instructions have consecutive addresses (4 bytes per instruction, 0 for labels and directives),
   and the address of an instruction of non-zero size maps back (index_at: what `BR` uses) to exactly that
   instruction - so a branch to the address of a label lands on the first real instruction after it (`land`) *)
Theorem C07_image_addresses : forall cs : list acode, img_ok (mk_image cs).
Proof. exact mk_image_ok. Qed.
Print Assumptions C07_image_addresses.

(* `clo_ok im p a T clauses` - what the second temporary of a closure variable points to (the CL of the
   relation from here on): the clauses are T's destructors in declaration order; `BR` to a (one clause) or to
   a + 4k (clause k through the jump table of `B` instructions: `jump_length k = 4k` is the ISA's stride,
   C07_constants_agree) arrives, with the state unchanged, at an index from which every run continues as from
   the code generated for the body of clause k, which is linearly well-typed in the clause context, in the
   fragment, with 64-bit literals.  The code a Create statement emits after its continuation (label, table,
   clause bodies) establishes it for the address `ADR` loads: *)
Theorem C07_closure_layout :
  forall (im : image) (p : prog), img_ok im ->
    (forall pc a, PM.find pc (addr_of im) = Some a -> a < 4611686018427387904) ->
  forall (pc : positive) (P : list acode) (fresh : string) (tn : ident) (cls : list clause) (c5 : list acode) (lc3 lc5 : N),
    code_at im pc (P ++ ([LAB fresh] ++ table_or_nil cls fresh) ++ c5) ->
    labels_at_nh im pc (P ++ ([LAB fresh] ++ table_or_nil cls fresh) ++ c5) ->
    hash_name fresh = false ->
    clauses_code (ptypes p) [] fresh cls lc3 = Ok (c5, lc5) ->
    cls <> [] -> cls_ok (sigs_of p) (Decl tn) cls = true ->
    (forall c, In c cls -> clause_static p c) ->
    exists a, label_addr im fresh = Some a /\ clo_ok im p a tn cls.
Proof. exact create_layout. Qed.
Print Assumptions C07_closure_layout.

(* Create of a closure without captured variables, ANY context: null block pointer (MOVZ #0) into the first
   temporary of the new position, the address of the closure's label (ADR; through X2 into a spill slot) into the
   second; the machine's new environment entry VClo is represented; control continues with the code of the
   continuation statement *)
Theorem C07_sim_create :
  forall (im : image) (p : prog), img_ok im ->
    (forall pc a, PM.find pc (addr_of im) = Some a -> a < 4611686018427387904) ->
  forall (c : ctx) (e : env) (s : astate) (sp : Z) (v tn : ident) (cls : list clause) (next : stmt) (lc : N)
         (code : list acode) (lc' : N) (pc : positive),
    rel (clo_ok im p) c e s sp -> NoDup (ids (c ++ [mkb v Cns (Decl tn)])) ->
    code_statement a64_backend (ptypes p) (Create v (Decl tn) (Some []) cls next) c lc = Ok (code, lc') ->
    code_at im pc code -> labels_at_nh im pc code ->
    hash_name (type_label (Decl tn) (lc + 1)%N) = false ->
    cls <> [] -> cls_ok (sigs_of p) (Decl tn) cls = true ->
    (forall cl, In cl cls -> clause_static p cl) ->
    exists c12 c3 lc3 rest s',
      code = c12 ++ c3 ++ rest /\
      code_statement a64_backend (ptypes p) next (c ++ [mkb v Cns (Decl tn)]) (lc + 1)%N = Ok (c3, lc3) /\
      run_straight im c12 s = MOk s' /\
      rel (clo_ok im p) (c ++ [mkb v Cns (Decl tn)]) (e ++ [(v, VClo tn cls [])]) s' sp /\ frame_eq s s' sp.
Proof. exact sim_create. Qed.
Print Assumptions C07_sim_create.

(* Invoke, ANY context: whether the type has one destructor (`BR` through the temporary) or several
   (`ADD tmp, tmp, #4k; BR tmp`; the sum does not wrap because table addresses are below 2^62), with the
   closure in a register or in a spill slot (then through X2), control arrives at index i, from which every run
   continues as from the body of the clause the machine selects, in a state related to the machine's new
   environment (the arguments relabelled by the clause context) *)
Theorem C07_sim_invoke :
  forall (im : image) (p : prog)
         (c : ctx) (e : env) (s : astate) (sp : Z) (v tag : ident) (t : ty) (args : ctx) (code : list acode) (lc lc' : N)
         (pc : positive) (e0 : env) (x tn : ident) (cls : list clause) (ce : env) (cl : clause) (e1 : env),
    rel (clo_ok im p) c e s sp ->
    AxSem.split_last 1 e = Some (e0, [(x, VClo tn cls ce)]) -> N.eqb (idn x) (idn v) = true ->
    find_clause cls tag = Some cl -> bind (vars (cl_ctx cl)) (map snd e0) = Some e1 ->
    lin_check (sigs_of p) c (Invoke v tag t args) = true ->
    code_statement a64_backend (ptypes p) (Invoke v tag t args) c lc = Ok (code, lc') -> code_at im pc code ->
    exists i pcb lcb cb lcb' s',
      exec_to im pc s i s' /\ (forall o, finishes im pcb s' o -> finishes im i s' o) /\
      code_statement a64_backend (ptypes p) (cl_body cl) (cl_ctx cl) lcb = Ok (cb, lcb') /\ code_at im pcb cb /\ labels_at_nh im pcb cb /\
      clause_static p cl /\
      rel (clo_ok im p) (cl_ctx cl) (e1 ++ ce) s' sp /\ frame_eq s s' sp.
Proof. exact sim_invoke. Qed.
Print Assumptions C07_sim_invoke.

(* composition for the closure fragment (stmt_cf: the integer statements plus Create with an empty
   environment and at least one clause, and Invoke; variables `ext i64` or `cns T`) *)
Theorem C07_sim_exec_cf :
  forall (im : image) (p : prog) (sp : Z) (st0 : PM.t Z),
    img_ok im ->
    (forall pc a, PM.find pc (addr_of im) = Some a -> a < 4611686018427387904) ->
    (forall d, In d (ptypes p) -> hash_name (label_of_type_name (show_ident (tname d))) = false) ->
    (forall d, In d (pdefs p) ->
       exists pcd lcd cd lcd', find_label (labels im) (show_ident (dname d) +++ "_") = Some pcd /\
         PM.find pcd (code im) = Some (LAB (show_ident (dname d) +++ "_")) /\
         code_statement a64_backend (ptypes p) (dbody d) (dctx d) lcd = Ok (cd, lcd') /\
         code_at im (Pos.succ pcd) cd /\ labels_at_nh im (Pos.succ pcd) cd) ->
    (exists pcc, find_label (labels im) "cleanup" = Some pcc /\
       forall s z, frame_ok s sp -> outer_ok st0 sp s -> rget s RETURN1 = Some z -> finishes im pcc s (finish (out s) (OExit z))) ->
    (forall d, In d (pdefs p) -> lin_check (sigs_of p) (dctx d) (dbody d) = true) ->
    (forall d, In d (pdefs p) -> stmt_cf (dbody d) = true) ->
    (forall d, In d (pdefs p) -> stmt_lits (dbody d) = true) ->
    forall (fuel : nat) (s : stmt) (c : ctx) (e : env) (ot : prints) (st : astate) (pc : positive)
           (code : list acode) (lc lc' : N),
      stmt_cf s = true -> stmt_lits s = true -> lin_check (sigs_of p) c s = true ->
      code_statement a64_backend (ptypes p) s c lc = Ok (code, lc') ->
      code_at im pc code -> labels_at_nh im pc code ->
      rel (clo_ok im p) c e st sp -> outer_ok st0 sp st -> out st = ot ->
      snd (exec_linear fuel p e s ot) <> OOutOfFuel -> finishes im pc st (exec_linear fuel p e s ot).
Proof. exact sim_exec_cf. Qed.
Print Assumptions C07_sim_exec_cf.

(* THE PROGRAM-LEVEL THEOREM for the closure fragment: as C07_codegen_simulates_int, for programs whose
   variables are integers or closures without captured variables and whose statements are Substitute / Call /
   Literal / Op / PrintI64 / IfC / Exit / Create (empty environment) / Invoke (`cf_frag`), whose entry
   definition takes integers (`entry_int`), whose definition and type names do not start with '#', linearly
   well-typed, 64-bit literals and arguments; the emitted code passes asm_wf and is smaller than 2^62 - 2^30
   bytes (`code_small`: code addresses are added to table offsets in 64-bit arithmetic).  Every terminating run of
   the linear machine is reproduced by the ISA run of the emitted code.  This is the shape of the pipeline's
   output for first-order tail-recursive integer programs (every call passes the return continuation, a closure).
   Missing to the full statement: closures with captured variables and data (Let / Switch): heap blocks. *)
Theorem C07_codegen_simulates_cf :
  forall (p : prog) (lc : N) (cs : list acode) (n : nat) (lc' : N) (args : list Z) (fuel : nat) (o : obs),
    cf_frag p = true -> entry_int p = true -> plain_names p = true -> plain_types p = true -> lits_i64 p = true ->
    lin_check_prog p = true ->
    a64_compile p lc = Ok (cs, n, lc') -> asm_wf cs = None -> code_small cs = true ->
    List.length args = n -> args_i64 args = true ->
    run_linear fuel p args = o -> snd o <> OOutOfFuel ->
    exists outer inner, fst (run_a64 outer inner cs args) = o.
Proof. exact a64_codegen_simulates_cf. Qed.
Print Assumptions C07_codegen_simulates_cf.

(* non-vacuity: a program of the pipeline's shape (main creates the return continuation and calls the
   tail-recursive f, which finally invokes it), a closure of a two-destructor type entered through its jump
   table from a register, and - behind 13 integers - closures whose code pointer lives in a spill slot (two
   destructors: LDR, ADD, BR through X2; one destructor: LDR, BR); closures are passed along, dropped (erase of a
   null pointer) and kept by substitutions *)
Theorem C07_codegen_simulates_cf_example_hypotheses :
  cf_frag exc_prog = true /\ entry_int exc_prog = true /\ plain_names exc_prog = true /\ plain_types exc_prog = true /\
  lits_i64 exc_prog = true /\ lin_check_prog exc_prog = true /\
  (exists n lc', a64_compile exc_prog 0 = Ok (exc_code, n, lc')) /\ asm_wf exc_code = None /\ code_small exc_code = true.
Proof. exact exc_hypotheses. Qed.
Print Assumptions C07_codegen_simulates_cf_example_hypotheses.
Theorem C07_codegen_simulates_cf_example_runs :
  run_linear 100 exc_prog [4] = ([(false, 4); (false, 7); (false, 9); (false, 10); (true, 10)], OExit 10) /\
  fst (run_a64 10 2000 exc_code [4]) = ([(false, 4); (false, 7); (false, 9); (false, 10); (true, 10)], OExit 10) /\
  run_linear 100 exc_prog [0] = ([], OExit 0) /\
  fst (run_a64 10 2000 exc_code [0]) = ([], OExit 0) /\
  run_linear 100 exc_prog [-3] = ([(false, -549)], OExit (-549)) /\
  fst (run_a64 10 2000 exc_code [-3]) = ([(false, -549)], OExit (-549)) /\
  run_linear 100 exc_prog [-30] = ([], OExit (-213)) /\
  fst (run_a64 10 2000 exc_code [-30]) = ([], OExit (-213)).
Proof. exact exc_runs. Qed.
Print Assumptions C07_codegen_simulates_cf_example_runs.

(* ======================================================================================== *)
(* HEAP statements on AArch64: Let / Switch / Create with captured variables / Invoke /       *)
(* Substitute on objects - and the program-level theorem for ALL statement forms (sim64b)     *)
(* ======================================================================================== *)
(* Port of the x86-64 development of C06 (docs/C06.md, section "Heap statements"); everything back-end independent is
   SHARED, not copied: the abstract allocator and the heap-instrumented machine (Sem/AxHeap.v, C09), the agreement `heq`
   up to zero padding, the bridge from the allocator invariant InvA (`alloc_object_bridge`, `hdr_bounds_x`,
   `load_ptrs`/`obj_fields_words`, Proof/X86HBridge.v, X86HFrame.v, X86HeapCongr.v - files named X86 for historical reasons
   only), the invariant `hinv` of a run, `ann_check` and `heap_fits`/`fits_run`.  The representation of values in heap
   words is the new shared Proof/HRep.v (`xrep` parametrised by the jump-table stride - 4 here, 5 on x86-64 - and by what
   is recorded of integers - `in64` here).  AArch64-specific: the refinement of the allocator code (C09_a64_*,
   Proof/A64Mem*.v), the relation `hrel` (Proof/A64HSimRel.v: SP = sp = 0 mod 16, HEAP = X0, FREE = X1, positions 0-12 in
   X(2i+4)/X(2i+5), spill slots after), the statement lemmas (Proof/A64HSim*.v) and the layout of clause code
   (Proof/A64HLayout.v: an indirect branch lands on the first REAL instruction at the target address).
   `hclo_ok im p a tn cls cenv`: the data word a of a closure is the address of its label; for clause k the landing index
   of a (+ 4k for a table entry) continues every run of the clause's code (load of the captured environment + body,
   compiled in cl_ctx ++ cenv, lin_check'ed, ann_check'ed, 64-bit literals). *)
From SCC Require Import Model.Linearize Model.LinCheck Sem.AxHeap Proof.A64Mem Proof.HRep Proof.A64HSimRel Proof.A64HSimStore Proof.A64HSimLoad Proof.A64HSimSubst
     Proof.A64HLayout Proof.X86HAnn Proof.X86HAnnLin Proof.A64HBridge Proof.A64HSimHeapB Proof.A64HSimHeapC Proof.A64HSimProgA Proof.A64HSimProg
     Proof.A64HSimTop Proof.A64HSimCor Proof.A64HSimExample Proof.AxHeapExample.
From SCC Require Model.Heap Proof.HeapRep Proof.AxHeapTyping Proof.X86HSimExample.
Import Sem.AxHeap.
Open Scope Z_scope.
Open Scope list_scope.

(* reading an integer operand under the heap-aware relation `hrel` (Proof/A64HSimRel.v): its second temporary holds the 64-bit value *)
Theorem C07_heap_rel_reads :
  forall (types : list tydecl) (CLO : Z -> ident -> list clause -> ctx -> Prop) (c : ctx) (he : henv) 
      (hs : Heap.st) (s : astate) (sp : Z) (a : ident) (x : Z),
    hrel types CLO c he hs s sp ->
    lookup_int (erase_env he) a = Some x ->
    exists (i : nat) (b : binding) (t : atemp),
      nth_error c i = Some b /\
      idn (bvar b) = idn a /\ SubstGraph.tpos a64_backend Snd i = Ok t /\ lget s sp t = Some x /\ A64Imm.in64 x.
Proof. exact hrel_lookup. Qed.
Print Assumptions C07_heap_rel_reads.

(* BRIDGE, the AArch64-only part (the rest - `alloc_object_pre`, acquired blocks, header bounds, `xrep_frame` - is shared with C06, theorems C06_heap_bridge_...): along the chain of allocations of one object the header of the reserved block is a 64-bit value *)
Theorem C07_heap_bridge_hdr64 :
  forall (fields : list Z) (a s : Heap.st) (R R0 hl fl cl : list Z),
    InvA HB s R hl fl cl ->
    heq a s ->
    P3 s ->
    Permutation.Permutation R (Heap.nz fields ++ R0) ->
    fields <> nil ->
    Z.of_nat (Datatypes.length R) < 1048576 ->
    Heap.frontier (snd (Heap.alloc_object fields s)) + 64 <= LIMIT -> A64MemStoreChain.alloc_object_hdr64 fields a.
Proof. exact alloc_object_hdr64_bridge. Qed.
Print Assumptions C07_heap_bridge_hdr64.

(* the AArch64 counterpart of x86-64's `back_ok`: in an image whose every placed instruction is followed (through labels only) by a real instruction, the address of ANY placed index has a landing index, and every run from the index continues from it *)
Theorem C07_image_forward_landing :
  forall im : image,
    img_ok im ->
    fwd_ok im ->
    forall (pc : PM.key) (c : acode) (a : Z),
    PM.find pc (code im) = Some c ->
    PM.find pc (addr_of im) = Some a ->
    exists i : positive,
      PM.find (key a) (index_at im) = Some i /\ (forall (s : astate) (o : obs), finishes im pc s o -> finishes im i s o).
Proof. exact fwd_land. Qed.
Print Assumptions C07_image_forward_landing.

(* ... which holds for every compiled routine: it ends with the RET of `cleanup` *)
Theorem C07_image_forward :
  forall (is : list acode) (n : nat) (cs : list acode), into_aarch64_routine is n = Ok cs -> fwd_ok (mk_image cs).
Proof. exact routine_image_fwd. Qed.
Print Assumptions C07_image_forward.

(* Let: a_store (any number of fields, block chains, new block pointers in registers or spill slots) + the tag word 4k *)
Theorem C07_sim_let :
  forall (im : image) (p : prog),
    (forall d : tydecl, In d (ptypes p) -> Z.of_nat (Datatypes.length (txtors d)) < 2305843009213693952) ->
    forall (c : ctx) (he : henv) (hs : Heap.st) (s : astate) (sp : Z) (v : ident) (t : ty) (tag : ident) 
      (args : ctx) (next : stmt) (lc : N) (code : list acode) (lc' : N) (pc : positive) (he0 fs : list hentry) 
      (tn : ident) (hl fl cl : list Z),
    hrel (ptypes p) (hclo_ok im p) c he hs s sp ->
    lin_check (sigs_of p) c (Let v t tag args next) = true ->
    acs (ptypes p) (Let v t tag args next) c lc = Ok (code, lc') ->
    code_at im pc code ->
    labels_at_nh im pc code ->
    ty_name t = Some tn ->
    AxSem.split_last (Datatypes.length args) he = Some (he0, fs) ->
    InvA HB hs (roots he) hl fl cl ->
    P03 hs ->
    (forall en : hentry, In en he -> chi_of (h_val en) = Ext -> h_ptr en = 0) ->
    let res0 := Heap.alloc_object (map store_ptr fs) hs in
    Heap.frontier (snd res0) + 64 <= LIMIT ->
    Heap.heap (snd res0) <> 0 ->
    Heap.free (snd res0) <> 0 ->
    let c0 := firstn (Datatypes.length c - Datatypes.length args) c in
    exists (c12 c3 : list acode) (lc1 : N) (s' : astate),
      code = c12 ++ c3 /\
      acs (ptypes p) next (c0 ++ {| bvar := v; bchi := Prd; bty := t |} :: nil) lc1 = Ok (c3, lc') /\
      lin_check (sigs_of p) (c0 ++ {| bvar := v; bchi := Prd; bty := t |} :: nil) next = true /\
      exec_to im pc s (padd pc (Datatypes.length c12)) s' /\
      hrel (ptypes p) (hclo_ok im p) (c0 ++ {| bvar := v; bchi := Prd; bty := t |} :: nil)
        (he0 ++ (v, VObj tn tag (map h_val fs), fst res0) :: nil) (snd res0) s' sp /\ hframe_eq s s' sp.
Proof. exact hsim_let. Qed.
Print Assumptions C07_sim_let.

(* Switch: fall-through (one clause) or ADR / ADD / BR to table entry k, then a_load of the fields (Release or Share by the header test) *)
Theorem C07_sim_switch :
  forall (im : image) (p : prog),
    img_ok im ->
    (forall (pc : PM.key) (a : Z), PM.find pc (addr_of im) = Some a -> a < 4611686018427387904) ->
    forall (c : ctx) (he : henv) (hs : Heap.st) (s : astate) (sp : Z) (v : ident) (t : ty) (cls : list (ident * ctx * stmt))
      (lc : N) (code : list acode) (lc' : N) (pc : positive) (he0 : list hentry) (x tn tag : ident) 
      (fs : list value) (q : Z) (cl : clause) (e1 : env) (lk : HeapRep.lkmap) (hl fl cl0 : list Z),
    hrel (ptypes p) (hclo_ok im p) c he hs s sp ->
    lin_check (sigs_of p) c (Switch v t cls) = true ->
    acs (ptypes p) (Switch v t cls) c lc = Ok (code, lc') ->
    code_at im pc code ->
    labels_at_nh im pc code ->
    (forall lcx : N, X86Wf.is_hash_label (type_label t lcx) = false) ->
    AxSem.split_last 1 he = Some (he0, (x, VObj tn tag fs, q) :: nil) ->
    find_clause cls tag = Some cl ->
    bind (vars (cl_ctx cl)) fs = Some e1 ->
    InvA HB hs (roots he) hl fl cl0 ->
    P03 hs ->
    Heap.frontier hs <= LIMIT ->
    (fs <> nil -> HeapRep.rep_flds lk (Heap.m hs) fs q) ->
    let c0 := removelast c in
    exists (pcb : positive) (lcb : N) (cb : list acode) (lcb' : N) (s' : astate),
      exec_to im pc s pcb s' /\
      acs (ptypes p) (cl_body cl) (c0 ++ cl_ctx cl) lcb = Ok (cb, lcb') /\
      code_at im pcb cb /\
      labels_at_nh im pcb cb /\
      lin_check (sigs_of p) (c0 ++ cl_ctx cl) (cl_body cl) = true /\
      hrel (ptypes p) (hclo_ok im p) (c0 ++ cl_ctx cl) (he0 ++ attach e1 (load_ptrs hs (Datatypes.length (cl_ctx cl)) q))
        (hrun (load_ops (Datatypes.length (cl_ctx cl)) q) hs) s' sp /\ hframe_eq s s' sp.
Proof. exact hsim_switch. Qed.
Print Assumptions C07_sim_switch.

(* Create with captured variables: a_store of the captured environment + ADR of the clause code; establishes `hclo_ok` for the new closure *)
Theorem C07_sim_create_captured :
  forall (im : image) (p : prog),
    img_ok im ->
    fwd_ok im ->
    (forall (pc : PM.key) (a : Z), PM.find pc (addr_of im) = Some a -> a < 4611686018427387904) ->
    forall (c : ctx) (he : henv) (hs : Heap.st) (s : astate) (sp : Z) (v : ident) (t : ty) (env0 : ctx)
      (cls : list (ident * ctx * stmt)) (next : stmt) (lc : N) (code : list acode) (lc' : N) (pc : positive)
      (he0 cap : list hentry) (tn : ident) (ce : env) (hl fl cl : list Z),
    hrel (ptypes p) (hclo_ok im p) c he hs s sp ->
    lin_check (sigs_of p) c (Create v t (Some env0) cls next) = true ->
    skipn (Datatypes.length c - Datatypes.length env0) c = env0 ->
    ann_clauses_cr env0 cls = true ->
    clauses_lits cls = true ->
    acs (ptypes p) (Create v t (Some env0) cls next) c lc = Ok (code, lc') ->
    code_at im pc code ->
    labels_at_nh im pc code ->
    (forall lcx : N, X86Wf.is_hash_label (type_label t lcx) = false) ->
    ty_name t = Some tn ->
    AxSem.split_last (Datatypes.length env0) he = Some (he0, cap) ->
    bind (vars env0) (map h_val cap) = Some ce ->
    InvA HB hs (roots he) hl fl cl ->
    P03 hs ->
    (forall en : hentry, In en he -> chi_of (h_val en) = Ext -> h_ptr en = 0) ->
    let res0 := Heap.alloc_object (map store_ptr cap) hs in
    Heap.frontier (snd res0) + 64 <= LIMIT ->
    Heap.heap (snd res0) <> 0 ->
    Heap.free (snd res0) <> 0 ->
    let c0 := firstn (Datatypes.length c - Datatypes.length env0) c in
    exists (c12 c3 : list acode) (lc2 lc3 : N) (rest' : list acode) (s' : astate),
      code = c12 ++ c3 ++ rest' /\
      acs (ptypes p) next (c0 ++ {| bvar := v; bchi := Cns; bty := t |} :: nil) lc2 = Ok (c3, lc3) /\
      lin_check (sigs_of p) (c0 ++ {| bvar := v; bchi := Cns; bty := t |} :: nil) next = true /\
      exec_to im pc s (padd pc (Datatypes.length c12)) s' /\
      hrel (ptypes p) (hclo_ok im p) (c0 ++ {| bvar := v; bchi := Cns; bty := t |} :: nil)
        (he0 ++ (v, VClo tn cls ce, fst res0) :: nil) (snd res0) s' sp /\ hframe_eq s s' sp.
Proof. exact hsim_create. Qed.
Print Assumptions C07_sim_create_captured.

(* Invoke: BR / ADD #4k; BR to the closure (through X2 when spilled); the indirect branch lands on the first real instruction at the address, so the continuation is in `finishes`-form; then a_load of the captured environment *)
Theorem C07_sim_invoke_captured :
  forall (im : image) (p : prog) (c : ctx) (he : henv) (hs : Heap.st) (s : astate) (sp : Z) (v tag : ident) 
      (t : ty) (args : ctx) (cd : list acode) (lc lc' : N) (pc : positive) (he0 : list hentry) (x tn : ident)
      (cls : list clause) (ce : list (ident * value)) (q : Z) (cl : clause) (e1 : env) (lk : HeapRep.lkmap)
      (hl fl cl0 : list Z),
    hrel (ptypes p) (hclo_ok im p) c he hs s sp ->
    AxSem.split_last 1 he = Some (he0, (x, VClo tn cls ce, q) :: nil) ->
    find_clause cls tag = Some cl ->
    bind (vars (cl_ctx cl)) (map snd (erase_env he0)) = Some e1 ->
    lin_check (sigs_of p) c (Invoke v tag t args) = true ->
    acs (ptypes p) (Invoke v tag t args) c lc = Ok (cd, lc') ->
    code_at im pc cd ->
    InvA HB hs (roots he) hl fl cl0 ->
    P03 hs ->
    Heap.frontier hs <= LIMIT ->
    (ce <> nil -> HeapRep.rep_flds lk (Heap.m hs) (map snd ce) q) ->
    exists (pcb : positive) (lcb : N) (cb : list acode) (lcb' : N) (s' : astate),
      (forall o : obs, finishes im pcb s' o -> finishes im pc s o) /\
      acs (ptypes p) (cl_body cl) (cl_ctx cl ++ ctx_of_env ce) lcb = Ok (cb, lcb') /\
      code_at im pcb cb /\
      labels_at_nh im pcb cb /\
      lin_check (sigs_of p) (cl_ctx cl ++ ctx_of_env ce) (cl_body cl) = true /\
      ann_check (cl_ctx cl ++ ctx_of_env ce) (cl_body cl) = true /\
      stmt_lits (cl_body cl) = true /\
      hrel (ptypes p) (hclo_ok im p) (cl_ctx cl ++ ctx_of_env ce)
        (attach e1 (ptrs he0) ++ attach ce (load_ptrs hs (Datatypes.length ce) q))
        (hrun (load_ops (Datatypes.length ce) q) hs) s' sp /\ hframe_eq s s' sp.
Proof. exact hsim_invoke. Qed.
Print Assumptions C07_sim_invoke_captured.

(* Substitute with objects: erase / share in the order of the instrumented machine's `subst_ops`, then the parallel moves *)
Theorem C07_sim_substitute_objects :
  forall (im : image) (types : list tydecl) (CLO : Z -> ident -> list clause -> ctx -> Prop) (c : ctx) 
      (he : henv) (hs : Heap.st) (s : astate) (sp : Z) (re : list (binding * ident)) (he' : henv) 
      (c1 : list acode) (lc lc1 : N) (c2 : list acode) (pc : positive) (hl fl cl : list Z),
    hrel types CLO c he hs s sp ->
    NoDup (SubstGraph.new_ids re) ->
    (forall q : binding * ident, In q re -> has c (snd q) (bchi (fst q)) (bty (fst q)) = true) ->
    hsubst he re = Some he' ->
    ctx_of he = c ->
    InvA HB hs (roots he) hl fl cl ->
    P03 hs ->
    Heap.frontier hs <= LIMIT ->
    code_weakening_contraction a64_backend (transpose re c) c lc = Ok (c1, lc1) ->
    code_exchange a64_backend (transpose re c) c (map fst re) = Ok c2 ->
    code_at im pc (c1 ++ c2) ->
    labels_at_nh im pc (c1 ++ c2) ->
    exists s' : astate,
      exec_to im pc s (padd pc (Datatypes.length (c1 ++ c2))) s' /\
      hrel types CLO (map fst re) he' (hrun (subst_ops he re) hs) s' sp /\ hframe_eq s s' sp.
Proof. exact hsim_substitute. Qed.
Print Assumptions C07_sim_substitute_objects.

(* the induction over the fuel of the instrumented machine, all eleven statement forms, progress included *)
Theorem C07_sim_exec_heap :
  forall (im : image) (p : prog) (sp : Z) (st0 : PM.t Z),
    img_ok im ->
    fwd_ok im ->
    (forall (pc : PM.key) (a : Z), PM.find pc (addr_of im) = Some a -> a < 4611686018427387904) ->
    (forall d : tydecl, In d (ptypes p) -> Z.of_nat (Datatypes.length (txtors d)) < 2305843009213693952) ->
    (forall d : tydecl, In d (ptypes p) -> X86Wf.is_hash_label (label_of_type_name (show_ident (tname d))) = false) ->
    (forall d : def,
     In d (pdefs p) ->
     exists (pcd : positive) (lcd : N) (cd : list acode) (lcd' : N),
       find_label (labels im) (show_ident (dname d) +++ "_") = Some pcd /\
       PM.find pcd (code im) = Some (LAB (show_ident (dname d) +++ "_")) /\
       acs (ptypes p) (dbody d) (dctx d) lcd = Ok (cd, lcd') /\
       code_at im (Pos.succ pcd) cd /\ labels_at_nh im (Pos.succ pcd) cd) ->
    (exists pcc : positive,
       find_label (labels im) "cleanup" = Some pcc /\
       (forall (s : astate) (z : Z),
        frame_ok s sp -> outer_ok st0 sp s -> rget s RETURN1 = Some z -> finishes im pcc s (finish (out s) (OExit z)))) ->
    lin_check_prog p = true ->
    ann_check_prog p = true ->
    (forall d : def, In d (pdefs p) -> stmt_lits (dbody d) = true) ->
    forall (fuel : nat) (s : stmt) (c : ctx) (he : henv) (hs : Heap.st) (ot : prints) (tr : list Heap.op) 
      (st : astate) (pc : positive) (code : list acode) (lc lc' : N),
    lin_check (sigs_of p) c s = true ->
    ann_check c s = true ->
    stmt_lits s = true ->
    acs (ptypes p) s c lc = Ok (code, lc') ->
    code_at im pc code ->
    labels_at_nh im pc code ->
    hrel (ptypes p) (hclo_ok im p) c he hs st sp ->
    map h_id he = vars c ->
    hinv p he hs s ->
    outer_ok st0 sp st ->
    out st = ot ->
    not_oof (fst (fst (hexec fuel p {| hc_env := he; hc_heap := hs; hc_stmt := s |} ot tr))) ->
    finishes im pc st (fst (fst (hexec fuel p {| hc_env := he; hc_heap := hs; hc_stmt := s |} ot tr))).
Proof. exact hsim_exec. Qed.
Print Assumptions C07_sim_exec_heap.

(* PROGRAM LEVEL.  Hypotheses as for x86-64 (C06_codegen_simulates_partial): lin_check_prog, ann_check_prog (a theorem for
   outputs of the linearizer, below), entry_ext, plain names / types, asm_wf (the C14 check of the REAL output), code_small,
   arity, heap_fits (necessary: the generated code never compares the frontier with the driver's buffer, docs/C06.md);
   plus the AArch64 64-bit side conditions: lits_i64, args_i64 as for the fragments, and tags_i64 - every type has fewer
   than 2^61 constructors / destructors (the tag word 4k of a Let is synthesised by MOVZ/MOVK, exact on 64-bit values; the
   Rust code computes `4 * k` in i64).  `_partial`: ann_check_prog and heap_fits are not C14 checks of the output. *)
Theorem C07_codegen_simulates_partial :
  forall (p : prog) (lc : N) (cs : list acode) (n : nat) (lc' : N) (args : list Z) (fuel : nat) (o : obs),
    lin_check_prog p = true -> ann_check_prog p = true -> AxHeapTyping.entry_ext p = true ->
    plain_names p = true -> plain_types p = true -> lits_i64 p = true -> tags_i64 p = true ->
    a64_compile p lc = Ok (cs, n, lc') -> asm_wf cs = None -> code_small cs = true ->
    List.length args = n -> args_i64 args = true -> heap_fits p args ->
    run_linear fuel p args = o -> snd o <> OOutOfFuel ->
    exists outer inner, fst (run_a64 outer inner cs args) = o.
Proof. exact a64_codegen_simulates. Qed.
Print Assumptions C07_codegen_simulates_partial.

(* C07_codegen_correct_statement for the compiler's own programs: the linearizer's output is lin_check'ed (C05) and
   ann_check'ed (C06_linearize_ann) *)
Theorem C07_codegen_correct_linearized_partial :
  forall (a : prog) (lc : N) (cs : list acode) (n : nat) (lc' : N) (args : list Z) (fuel : nat) (o : obs),
    prog_ok a = true ->
    AxHeapTyping.entry_ext (linearize a) = true -> plain_names (linearize a) = true -> plain_types (linearize a) = true ->
    lits_i64 (linearize a) = true -> tags_i64 (linearize a) = true ->
    a64_compile (linearize a) lc = Ok (cs, n, lc') -> asm_wf cs = None -> code_small cs = true ->
    args_i64 args = true -> heap_fits (linearize a) args ->
    run_linear fuel (linearize a) args = o -> defined o = true ->
    exists outer inner, fst (run_a64 outer inner cs args) = o.
Proof. exact a64_codegen_correct_linearized. Qed.
Print Assumptions C07_codegen_correct_linearized_partial.

(* heap_fits is the bound of C06 (the ISA models place the heap identically) and is decided by running the instrumented
   machine *)
Theorem C07_heap_fits_decided :
  forall (fuel : nat) (p : prog) (args : list Z), X86HSimExample.fits_run fuel p args = true -> heap_fits p args.
Proof. exact fits_run_sound. Qed.
Print Assumptions C07_heap_fits_decided.

(* non-vacuity: the example program of Proof/AxHeapExample.v (lists by Let / Switch, a five-field record in two chained
   blocks, shared and dropped objects, a closure capturing an integer, two definitions): all hypotheses by evaluation, the
   theorem applied, both machines evaluated *)
Theorem C07_codegen_simulates_heap_example_hypotheses :
  lin_check_prog hx_lin = true /\ ann_check_prog hx_lin = true /\ AxHeapTyping.entry_ext hx_lin = true /\
  plain_names hx_lin = true /\ plain_types hx_lin = true /\ lits_i64 hx_lin = true /\ tags_i64 hx_lin = true /\
  (exists lc', a64_compile hx_lin 0 = Ok (hxa_code, 2%nat, lc')) /\ asm_wf hxa_code = None /\ code_small hxa_code = true /\
  args_i64 (3 :: 100 :: nil) = true /\ X86HSimExample.fits_run 2000 hx_lin (3 :: 100 :: nil) = true.
Proof. exact hxa_hypotheses. Qed.
Print Assumptions C07_codegen_simulates_heap_example_hypotheses.
Theorem C07_codegen_simulates_heap_example_applied :
  exists outer inner, fst (run_a64 outer inner hxa_code (3 :: 100 :: nil)) = run_linear 2000 hx_lin (3 :: 100 :: nil).
Proof. exact hxa_simulated. Qed.
Print Assumptions C07_codegen_simulates_heap_example_applied.
Theorem C07_codegen_simulates_heap_example_runs :
  run_linear 2000 hx_lin (3 :: 100 :: nil) = ((true, 106) :: nil, OExit 106) /\
  fst (run_a64 20 2000 hxa_code (3 :: 100 :: nil)) = ((true, 106) :: nil, OExit 106).
Proof. exact hxa_runs. Qed.
Print Assumptions C07_codegen_simulates_heap_example_runs.

(* a second example that crosses the register file: the same loop with twelve more integers carried along (15 variables at
   the head of the loop): the block pointers of every object it allocates, the fields it loads and the variables it drops
   live in SPILL SLOTS - acquire_block into a spill slot (`STR X0, [SP, _]`) while the reuse list is non-trivial, loads with
   the X10 evacuation (`STR X10, [SP, 2040]`); named AxCut linearized by the model of the pass *)
From SCC Require Import Proof.A64HSimExampleW.
Theorem C07_codegen_simulates_heap_example_wide_hypotheses :
  prog_ok hxw_prog = true /\
  lin_check_prog hxw_lin = true /\ ann_check_prog hxw_lin = true /\ AxHeapTyping.entry_ext hxw_lin = true /\
  plain_names hxw_lin = true /\ plain_types hxw_lin = true /\ lits_i64 hxw_lin = true /\ tags_i64 hxw_lin = true /\
  (exists lc', a64_compile hxw_lin 0 = Ok (hxw_code, 2%nat, lc')) /\ asm_wf hxw_code = None /\ code_small hxw_code = true /\
  args_i64 (3 :: 100 :: nil) = true /\ X86HSimExample.fits_run 4000 hxw_lin (3 :: 100 :: nil) = true.
Proof. exact hxw_hypotheses. Qed.
Print Assumptions C07_codegen_simulates_heap_example_wide_hypotheses.
Theorem C07_codegen_simulates_heap_example_wide_applied :
  exists outer inner, fst (run_a64 outer inner hxw_code (3 :: 100 :: nil)) = run_linear 4000 hxw_lin (3 :: 100 :: nil).
Proof. exact hxw_simulated. Qed.
Print Assumptions C07_codegen_simulates_heap_example_wide_applied.
Theorem C07_codegen_simulates_heap_example_wide_runs :
  run_linear 4000 hxw_lin (3 :: 100 :: nil) = ((true, 147) :: nil, OExit 147) /\
  fst (run_a64 40 4000 hxw_code (3 :: 100 :: nil)) = ((true, 147) :: nil, OExit 147) /\
  existsb (fun c => match c with STR (X 0) SP _ => true | _ => false end) hxw_code = true /\
  existsb (fun c => match c with STR (X 10) SP 2040 => true | _ => false end) hxw_code = true.
Proof. exact hxw_runs. Qed.
Print Assumptions C07_codegen_simulates_heap_example_wide_runs.

(* ======================= asm_wf and code_small discharged =======================
   `asm_wf cs = None` and `code_small cs = true` are theorems now (Props/C14.v C14_a64_compile_asm_wf,
   C14_a64_compile_code_small; Proof/A64WfAll.v, A64WfProg.v) under boolean guards on the PROGRAM handed to the code
   generator: no hypothesis looks at the emitted code any more.  New hypotheses (Sem/LabelGuard.v, Sem/WfGuard64.v):
     labels_guard      the label texts are unambiguous (known finding label-collision-name-digits outside it)
     (the table dispatch `ADD Xt, Xt, #4k` had a 12-bit immediate for every k - a finding, REPAIRED: a larger offset is
      synthesised in X3, selection lemma C07_selection_add_offset -, so no bound on the xtors beyond tags_i64 is needed)
     reach_guard_a64   28 + cg_fine_defs 14 74 < 262143 instructions: the routine is shorter than the reach of B.cond /
                       ADR (a real limit of the back end) and fits the image
   The name without `_partial` follows the x86-64 convention (C06_codegen_simulates): what remains besides guards on the
   program is ann_check_prog (a theorem for every output of the linearizer) and heap_fits (a bound along the run). *)
From SCC Require Import Sem.LabelGuard Sem.WfGuard64 Proof.A64WfCor.

Theorem C07_codegen_simulates :
  forall (p : prog) (lc : N) (cs : list acode) (n : nat) (lc' : N) (args : list Z) (fuel : nat) (o : obs),
    lin_check_prog p = true -> ann_check_prog p = true -> AxHeapTyping.entry_ext p = true ->
    plain_names p = true -> plain_types p = true -> lits_i64 p = true -> tags_i64 p = true ->
    labels_guard p = true -> reach_guard_a64 p = true ->
    a64_compile p lc = Ok (cs, n, lc') ->
    List.length args = n -> args_i64 args = true -> heap_fits p args ->
    run_linear fuel p args = o -> snd o <> OOutOfFuel ->
    exists outer inner, fst (run_a64 outer inner cs args) = o.
Proof. exact a64_codegen_simulates_wf. Qed.
Print Assumptions C07_codegen_simulates.

Theorem C07_codegen_correct_linearized :
  forall (a : prog) (lc : N) (cs : list acode) (n : nat) (lc' : N) (args : list Z) (fuel : nat) (o : obs),
    prog_ok a = true ->
    AxHeapTyping.entry_ext (linearize a) = true -> plain_names (linearize a) = true -> plain_types (linearize a) = true ->
    lits_i64 (linearize a) = true -> tags_i64 (linearize a) = true ->
    labels_guard (linearize a) = true -> reach_guard_a64 (linearize a) = true ->
    a64_compile (linearize a) lc = Ok (cs, n, lc') ->
    args_i64 args = true -> heap_fits (linearize a) args ->
    run_linear fuel (linearize a) args = o -> defined o = true ->
    exists outer inner, fst (run_a64 outer inner cs args) = o.
Proof. exact a64_codegen_correct_linearized_wf. Qed.
Print Assumptions C07_codegen_correct_linearized.

(* non-vacuity: the two heap examples pass the new guards; the theorem applied to the first one *)
Theorem C07_codegen_simulates_example_guards :
  labels_guard hx_lin = true /\ reach_guard_a64 hx_lin = true /\
  labels_guard hxw_lin = true /\ reach_guard_a64 hxw_lin = true.
Proof. exact hx_lin_guards_a64. Qed.
Print Assumptions C07_codegen_simulates_example_guards.
Theorem C07_codegen_simulates_example_applied :
  exists outer inner, fst (run_a64 outer inner hxa_code (3 :: 100 :: nil)) = run_linear 2000 hx_lin (3 :: 100 :: nil).
Proof. exact hxa_simulated_wf. Qed.
Print Assumptions C07_codegen_simulates_example_applied.
