(* C07: AArch64 code generation preserves AxCut semantics.
   Only statements here; proofs live in Proof/A64State.v, Proof/A64ImmHw.v, Proof/A64Imm.v,
   Proof/A64Sel.v.

   Layering (DESIGN.md, C07): L0 AxCut linear machine -> L1 abstract back-end operations
   (Model/Backend.v) -> L2 AArch64 instructions (Model/A64.v) on the ISA semantics Sem/A64Sem.v.

   PROVED here (L1 -> L2, integer and control fragment): for every placement of target and operands
   in registers or spill slots, every aliasing between them, and every contents of registers and
   memory, the instruction sequence the model emits has exactly the abstract operation's effect and
   changes nothing but the target and the documented scratch (X2 = TEMP, X3 = TEMP2; for `rem` with
   all three temporaries spilled also the scratch slot 0, X10 being evacuated and restored):
     all five operators (C07_selection_arith), the three-address core with arbitrary aliasing
     (C07_selection_simple_op), rem alone (C07_selection_rem), moves (C07_selection_mov), literal
     synthesis for EVERY 64-bit value into a register or a spill slot (C07_load_immediate_every_value,
     C07_selection_load_immediate), comparisons in two-operand and zero form with the NZCV flags of
     SUBS and all six conditional branches (C07_selection_compare, C07_selection_compare_zero,
     C07_flags_decide_signed_comparison, C07_selection_conditional_branch), label loading, indirect
     jumps, tag dispatch (C07_selection_load_label, C07_selection_jump, C07_selection_add_and_jump,
     C07_selection_switch_dispatch - the sequence repaired by fix: 3781c3f), the move code of explicit
     substitutions as a simultaneous assignment (C07_selection_parallel_moves), and the agreement of the
     model's address arithmetic with the crate's values (C07_constants_agree).

   NOT proved (gap of C07_selection_partial):
     - L1 -> L2 for the memory operations: store/load (release and share modes, multi-block chains,
       block pointer in a spill slot with X10 evacuated), acquire_block, erase_block, share_block_n;
     - L1 -> L2 for print_i64 (save/restore of caller-saved registers; that is C13's theorem) and for
       the routine prologue/epilogue;
     - the reference-count updates that accompany a substitution (erase/share) and the glue between
       `connections` (typing contexts -> move graph) and C07_selection_parallel_moves;
     - the generic simulation L0 -> L1 (code_statement over the 11 statement forms, labels, tables).
   Whole-program preservation is therefore established by the correspondence check (model = Rust on
   every program) plus execution of the implementation's output on the ISA model against the AxCut
   machine on every run (see the evidence file), and stated below as C07_codegen_correct_statement. *)
From Coq Require Import List ZArith NArith String Bool.
From SCC Require Import Model.ParMoves.
From SCC Require Import Lang.AxSyn Sem.AxSem Model.Backend Model.A64 Sem.A64Sem
  Proof.A64State Proof.A64ImmHw Proof.A64Imm Proof.A64Sel Proof.A64PM.
Import ListNotations.
Open Scope Z_scope.

(* all five operators, against the AxCut meaning of the operator (64-bit wrapping, truncating
   division; the undefined cases are excluded by `eval_op ... = OpVal v`) *)
Theorem C07_selection_arith :
  forall (im : image) (o : binop) (s : astate) (sp : Z) (t s1 s2 : atemp) (a b v : Z),
    frame_ok s sp -> rem_operand_ok t -> rem_operand_ok s1 -> rem_operand_ok s2 ->
    lget s sp s1 = Some a -> lget s sp s2 = Some b -> in64 a -> eval_op o a b = OpVal v ->
    exists s', run_straight im (a_arith o t s1 s2) s = MOk s' /\
               lget s' sp t = Some v /\ preserved_rem s s' sp t.
Proof. exact a64_arith_ok. Qed.
Print Assumptions C07_selection_arith.

(* the three-address core shared by add/sub/mul/div: loads of spilled operands into X2/X3, one
   instruction, store of a spilled target - any aliasing of target and operands *)
Theorem C07_selection_simple_op :
  forall (im : image) f g ok (s : astate) (sp : Z) (t s1 s2 : atemp) (a b : Z),
    simple_op im f g ok ->
    frame_ok s sp -> operand_ok t -> operand_ok s1 -> operand_ok s2 ->
    lget s sp s1 = Some a -> lget s sp s2 = Some b -> ok a b ->
    exists s', run_straight im (a_op f t s1 s2) s = MOk s' /\
               lget s' sp t = Some (g a b) /\ preserved s s' sp t.
Proof. exact a64_simple_op_ok. Qed.
Print Assumptions C07_selection_simple_op.

(* rem = SDIV + MSUB through X3, with X10 evacuated to the scratch slot when everything is spilled *)
Theorem C07_selection_rem :
  forall (im : image) (s : astate) (sp : Z) (t s1 s2 : atemp) (a b : Z),
    frame_ok s sp -> rem_operand_ok t -> rem_operand_ok s1 -> rem_operand_ok s2 ->
    lget s sp s1 = Some a -> lget s sp s2 = Some b -> in64 a -> div_defined a b ->
    exists s', run_straight im (a_op r_rem t s1 s2) s = MOk s' /\
               lget s' sp t = Some (Z.rem a b) /\ preserved_rem s s' sp t.
Proof. exact a64_rem_ok. Qed.
Print Assumptions C07_selection_rem.

Theorem C07_selection_mov :
  forall (im : image) (s : astate) (sp : Z) (t src : atemp),
    frame_ok s sp -> operand_ok t -> operand_ok src ->
    exists s', run_straight im (a_mov t src) s = MOk s' /\
               lget s' sp t = lget s sp src /\ preserved s s' sp t.
Proof. exact a64_mov_ok. Qed.
Print Assumptions C07_selection_mov.

(* literal synthesis: for EVERY 64-bit value the MOVZ/MOVN/MOVK sequence leaves the value in the
   register and touches nothing else (half-word selection: Proof/A64ImmHw.hw_load_immediate_ok) *)
Theorem C07_load_immediate_every_value :
  forall (im : image) (n : N) (v : Z) (s : astate),
    - 2 ^ 63 <= v < 2 ^ 63 ->
    exists s', run_straight im (imm_code (X n) v) s = MOk s' /\ xget s' n = Some v /\ only_reg n s s'.
Proof. exact a64_imm_code_ok. Qed.
Print Assumptions C07_load_immediate_every_value.
(* ... into a register or, through X2, into a spill slot *)
Theorem C07_selection_load_immediate :
  forall (im : image) (s : astate) (sp : Z) (t : atemp) (v : Z),
    frame_ok s sp -> operand_ok t -> in64 v ->
    exists s', run_straight im (a_load_immediate t v) s = MOk s' /\
               lget s' sp t = Some v /\ preserved s s' sp t.
Proof. exact a64_load_immediate_ok. Qed.
Print Assumptions C07_selection_load_immediate.

(* comparisons: the flags are those of SUBS on the two operands ... *)
Theorem C07_selection_compare :
  forall (im : image) (s : astate) (sp : Z) (t1 t2 : atemp) (a b : Z),
    frame_ok s sp -> operand_ok t1 -> operand_ok t2 ->
    lget s sp t1 = Some a -> lget s sp t2 = Some b ->
    exists s', run_straight im (compare t1 t2) s = MOk s' /\ flags s' = Some (cmp_flags a b) /\
               flags_preserving s s' sp.
Proof. exact a64_compare_ok. Qed.
Print Assumptions C07_selection_compare.
Theorem C07_selection_compare_zero :
  forall (im : image) (s : astate) (sp : Z) (t : atemp) (a : Z),
    frame_ok s sp -> operand_ok t -> lget s sp t = Some a ->
    exists s', run_straight im (compare_immediate t 0) s = MOk s' /\ flags s' = Some (cmp_flags a 0) /\
               flags_preserving s s' sp.
Proof. exact a64_compare_zero_ok. Qed.
Print Assumptions C07_selection_compare_zero.
(* ... the NZCV conditions EQ NE LT LE GT GE decide exactly the signed comparisons ... *)
Theorem C07_flags_decide_signed_comparison :
  forall (sort : ifsort) (a b : Z), in64 a -> in64 b -> cond_holds sort (cmp_flags a b) = eval_cmp sort a b.
Proof. exact cond_holds_cmp. Qed.
Print Assumptions C07_flags_decide_signed_comparison.
(* ... so the conditional branch is taken exactly when the AxCut comparison holds (all six sorts) *)
Theorem C07_selection_conditional_branch :
  forall (im : image) (sort : ifsort) (l : string) (s : astate) (a b : Z),
    flags s = Some (cmp_flags a b) -> in64 a -> in64 b ->
    step im (bcc sort l) s = if eval_cmp sort a b then goto_label im s l else Next s.
Proof. exact a64_bcc_step. Qed.
Print Assumptions C07_selection_conditional_branch.

Theorem C07_selection_load_label :
  forall (im : image) (s : astate) (sp : Z) (t : atemp) (l : string) (addr : Z),
    frame_ok s sp -> operand_ok t -> label_addr im l = Some addr ->
    exists s', run_straight im (a_load_label t l) s = MOk s' /\ lget s' sp t = Some addr /\ preserved s s' sp t.
Proof. exact a64_load_label_ok. Qed.
Print Assumptions C07_selection_load_label.
Theorem C07_selection_jump :
  forall (im : image) (s : astate) (sp : Z) (t : atemp) (addr : Z),
    frame_ok s sp -> operand_ok t -> lget s sp t = Some addr ->
    exists s', run_straight im (removelast (a_jump t)) s = MOk s' /\
               step im (last (a_jump t) RET) s' = goto_addr im s' addr /\
               (forall l, loc_ok l -> l <> AR TEMP -> lget s' sp l = lget s sp l) /\ heap s' = heap s /\ out s' = out s.
Proof. exact a64_jump_ok. Qed.
Print Assumptions C07_selection_jump.
Theorem C07_selection_add_and_jump :
  forall (im : image) (s : astate) (sp : Z) (t : atemp) (i addr : Z),
    frame_ok s sp -> operand_ok t -> lget s sp t = Some addr ->
    exists s', run_straight im (removelast (a_add_and_jump t i)) s = MOk s' /\
               step im (last (a_add_and_jump t i) RET) s' = goto_addr im s' (wrap (addr + i)) /\
               heap s' = heap s /\ out s' = out s.
Proof. exact a64_add_and_jump_ok. Qed.
Print Assumptions C07_selection_add_and_jump.
(* switch: table address + tag, tag in a register or in a spill slot *)
Theorem C07_selection_switch_dispatch :
  forall (im : image) (s : astate) (sp : Z) (tag : atemp) (l : string) (base off : Z),
    frame_ok s sp -> operand_ok tag -> label_addr im l = Some base -> lget s sp tag = Some off ->
    exists s', run_straight im (a_load_label (AR TEMP) l ++ a_arith Sum (AR TEMP) (AR TEMP) tag) s = MOk s' /\
               step im (BR TEMP) s' = goto_addr im s' (wrap (base + off)) /\
               (forall l, loc_ok l -> l <> AR TEMP -> l <> AR TEMP2 -> lget s' sp l = lget s sp l) /\
               heap s' = heap s /\ out s' = out s.
Proof. exact a64_switch_dispatch_ok. Qed.
Print Assumptions C07_selection_switch_dispatch.

(* explicit substitutions (C11 on AArch64): the code emitted for a move graph in which every target
   has one source - chains, cycles (one value saved in X2), fan-out, spill slots on either side
   (spill-to-spill through X3) - performs the assignment simultaneously: every target ends up with the
   initial value of its source, every other variable temporary is unchanged.  Generic theorem
   (Model/ParMoves.parallel_moves_correct) composed with C07_selection_mov and the save/restore code. *)
Theorem C07_selection_parallel_moves :
  forall (im : image) (am : amap atemp) (code : list acode) (s : astate) (sp : Z),
    frame_ok s sp ->
    indeg1 atemp a64_teqb am -> nodup_targets atemp a64_teqb am -> amap_ok atemp operand_ok am ->
    parallel_moves_code a64_backend am = Ok code ->
    exists s', run_straight im code s = MOk s' /\ frame_ok s' sp /\ heap s' = heap s /\ out s' = out s /\
               (forall a b, edge atemp a64_teqb am a b -> lget s' sp b = lget s sp a) /\
               (forall u, operand_ok u -> (forall a, ~ edge atemp a64_teqb am a u) -> lget s' sp u = lget s sp u).
Proof. exact a64_parallel_moves_ok. Qed.
Print Assumptions C07_selection_parallel_moves.

(* the model's address arithmetic is the crate's (values regenerated from the code), and the
   jump-table stride is the size of a B instruction *)
Theorem C07_constants_agree :
  map stack_offset [0; 1; 2; 3; 4; 5; 6; 7]%N = Generated.Constants.A64C.stack_offset_samples /\
  map (field_offset Fst) [0; 1; 2; 3]%N = Generated.Constants.A64C.field_offset_fst /\
  map (field_offset Snd) [0; 1; 2; 3]%N = Generated.Constants.A64C.field_offset_snd /\
  map jump_length [0; 1; 2; 3; 4; 5]%N = Generated.Constants.A64C.jump_length_samples /\
  (forall l n, jump_length n = Z.of_N n * isize (B l)).
Proof.
  exact (conj a64_stack_offset_samples (conj (proj1 a64_field_offset_samples)
          (conj (proj2 a64_field_offset_samples) (conj a64_jump_length_samples a64_jump_length_is_isize)))).
Qed.
Print Assumptions C07_constants_agree.

(* What the selection lemmas cover, as one statement; the gap to the full L1 -> L2 layer is listed
   in the header (memory operations, print, prologue/epilogue, parallel-move instantiation). *)
Theorem C07_selection_partial :
  forall (im : image) (s : astate) (sp : Z), frame_ok s sp ->
    (forall o t s1 s2 a b v,
        rem_operand_ok t -> rem_operand_ok s1 -> rem_operand_ok s2 ->
        lget s sp s1 = Some a -> lget s sp s2 = Some b -> in64 a -> eval_op o a b = OpVal v ->
        exists s', run_straight im (a_arith o t s1 s2) s = MOk s' /\ lget s' sp t = Some v /\ preserved_rem s s' sp t) /\
    (forall t src, operand_ok t -> operand_ok src ->
        exists s', run_straight im (a_mov t src) s = MOk s' /\ lget s' sp t = lget s sp src /\ preserved s s' sp t) /\
    (forall t v, operand_ok t -> in64 v ->
        exists s', run_straight im (a_load_immediate t v) s = MOk s' /\ lget s' sp t = Some v /\ preserved s s' sp t) /\
    (forall t1 t2 a b, operand_ok t1 -> operand_ok t2 -> lget s sp t1 = Some a -> lget s sp t2 = Some b ->
        exists s', run_straight im (compare t1 t2) s = MOk s' /\ flags s' = Some (cmp_flags a b) /\ flags_preserving s s' sp).
Proof.
  intros im s sp F. repeat split; intros.
  - eapply a64_arith_ok; eauto.
  - eapply a64_mov_ok; eauto.
  - eapply a64_load_immediate_ok; eauto.
  - eapply a64_compare_ok; eauto.
Qed.
Print Assumptions C07_selection_partial.

(* The full property, stated but not proved (see the header): for every linearly well-typed
   program within capacity, the emitted code behaves like the AxCut linear machine.  What remains
   is the generic simulation L0 -> L1 and the memory operations at L1 -> L2. *)
Definition C07_codegen_correct_statement : Prop :=
  forall (p : prog) (lc : N) (cs : list acode) (n : nat) (lc' : N) (args : list Z) (fuel : nat) (o : obs),
    a64_compile p lc = Ok (cs, n, lc') ->
    run_linear fuel p args = o -> defined o = true ->
    exists outer inner, fst (run_a64 outer inner cs args) = o.
Definition a64_codegen_correct : Prop := C07_codegen_correct_statement.
