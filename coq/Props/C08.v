(* C08: RISC-V code generation preserves AxCut semantics.
   Only statements here; proofs live in Proof/RVSel.v, the model in Model/RV.v, the ISA semantics
   in Sem/RVSem.v.

   STATUS.  Proved for all inputs: every method of the `Instructions` trait (instruction selection),
   the jump-table stride, and the allocator operations share / erase / release / acquire as
   refinements of the abstract heap operations.  NOT proved: the refinement of `store`/`load` for
   arbitrary field lists, the generic layer (Model/Backend.code_statement simulates the linear
   machine) and hence the composition `rv_codegen_correct`, which is therefore only STATED below
   (a `Definition ... : Prop`).  The composition and `three_backends_agree` are checked by
   execution on every run (modelrun sem-rv): the Rust-emitted code is run on Sem/RVSem.v against
   Sem/AxSem.run_linear and against the x86-64 code of the same program on Sem/X86Sem.v. *)
From Coq Require Import List ZArith NArith String Bool FMapPositive.
From SCC Require Import Base.Sexp Lang.AxSyn Sem.AxSem Model.Backend Model.RV Sem.RVSem Generated.Constants Proof.RVSel.
From SCC Require Model.X86 Sem.X86Sem Model.RunRV.
Import ListNotations.
Local Open Scope list_scope.
Local Open Scope Z_scope.

(* A register write changes exactly that register (never x0) and nothing in memory. *)
Theorem C08_rset_spec : forall s t v r,
  rget (rset s t v) r = (if (N.eqb r t && negb (N.eqb t 0))%bool then v else rget s r)
  /\ heap (rset s t v) = heap s /\ hw (rset s t v) = hw s.
Proof. exact rset_spec. Qed.
Print Assumptions C08_rset_spec.

(* add/sub/mul/div/rem: the single emitted instruction computes `eval_op` into the target for ANY three registers (every aliasing of target and operands, x0 included) and any contents; the source-level undefined cases of div/rem (divisor 0, min_int / -1) are reported as undefined, never given the hardware's value. *)
Theorem C08_rv_arith_sel : forall im pc o t s1 s2 s x y,
  rget s s1 = Some x -> rget s s2 = Some y ->
  exists c, b_arith rv_backend o t s1 s2 = [c] /\
    step im pc c s = match eval_op o x y with
                     | OpVal z => Next (rset s t (Some z))
                     | OpUndef w => Undefd w s
                     end.
Proof. exact rv_arith_sel. Qed.
Print Assumptions C08_rv_arith_sel.

(* An undefined operand register is a fault, not a silently wrong value. *)
Theorem C08_rv_arith_undef_operand : forall im pc o t s1 s2 s,
  rget s s1 = None \/ rget s s2 = None ->
  exists c, b_arith rv_backend o t s1 s2 = [c] /\ step im pc c s = Fault "undef-operand" s.
Proof. exact rv_arith_undef_operand. Qed.
Print Assumptions C08_rv_arith_undef_operand.

(* mov. *)
Theorem C08_rv_mov_sel : forall im pc t s0 s,
  exists c, b_mov rv_backend t s0 = [c] /\ step im pc c s = Next (rset s t (rget s s0)).
Proof. exact rv_mov_sel. Qed.
Print Assumptions C08_rv_mov_sel.

(* load_immediate: any 64-bit immediate. *)
Theorem C08_rv_load_immediate_sel : forall im pc t i s,
  exists c, b_load_immediate rv_backend t i = [c] /\ step im pc c s = Next (rset s t (Some i)).
Proof. exact rv_load_immediate_sel. Qed.
Print Assumptions C08_rv_load_immediate_sel.

(* load_label. *)
Theorem C08_rv_load_label_sel : forall im pc t l a s,
  label_addr im l = Some a ->
  exists c, b_load_label rv_backend t l = [c] /\ step im pc c s = Next (rset s t (Some a)).
Proof. exact rv_load_label_sel. Qed.
Print Assumptions C08_rv_load_label_sel.

(* jump_label and jump_label_fixed emit the same 4-byte JAL x0. *)
Theorem C08_rv_jump_label_sel : forall im pc l i s,
  find_label (labels im) l = Some i ->
  exists c, b_jump_label rv_backend l = [c] /\ b_jump_label_fixed rv_backend l = [c] /\
            step im pc c s = Jump s i /\ isize c = 4.
Proof. exact rv_jump_label_sel. Qed.
Print Assumptions C08_rv_jump_label_sel.

(* jump (indirect): lands on the instruction whose address the register holds. *)
Theorem C08_rv_jump_sel : forall im pc t a i s,
  rget s t = Some a -> a mod 2 = 0 -> PM.find (key a) (index_at im) = Some i ->
  exists c, b_jump rv_backend t = [c] /\ step im pc c s = Jump s i.
Proof. exact rv_jump_sel. Qed.
Print Assumptions C08_rv_jump_sel.

(* add_and_jump: TEMP <- t + i, then jump there; only TEMP is written. *)
Theorem C08_rv_add_and_jump_sel : forall im pc t i a j s,
  rget s t = Some a -> fits12 i = true -> wrap (a + i) mod 2 = 0 ->
  PM.find (key (wrap (a + i))) (index_at im) = Some j ->
  exists c1 c2, b_add_and_jump rv_backend t i = [c1; c2] /\
    step im pc c1 s = Next (rset s TEMP (Some (wrap (a + i)))) /\
    step im (pc + isize c1) c2 (rset s TEMP (Some (wrap (a + i)))) = Jump (rset s TEMP (Some (wrap (a + i)))) j.
Proof. exact rv_add_and_jump_sel. Qed.
Print Assumptions C08_rv_add_and_jump_sel.

(* The six two-operand conditional jumps: taken iff `eval_cmp` holds (signed). *)
Theorem C08_rv_jcc2_sel : forall im pc so a b l s x y,
  rget s a = Some x -> rget s b = Some y ->
  exists c, b_jcc2 rv_backend so a b l = [c] /\
    step im pc c s = if eval_cmp so x y then goto_label im s l else Next s.
Proof. exact rv_jcc2_sel. Qed.
Print Assumptions C08_rv_jcc2_sel.

(* The six compare-with-zero conditional jumps (second operand x0). *)
Theorem C08_rv_jcc1_sel : forall im pc so a l s x,
  rget s a = Some x ->
  exists c, b_jcc1 rv_backend so a l = [c] /\
    step im pc c s = if eval_cmp so x 0 then goto_label im s l else Next s.
Proof. exact rv_jcc1_sel. Qed.
Print Assumptions C08_rv_jcc1_sel.

(* `jump_length` of the model = the crate's `jump_length` on the regenerated samples. *)
Theorem C08_rv_jump_length_samples :
  map (fun n => jump_length (N.of_nat n)) (seq 0 6) = RVC.jump_length_samples.
Proof. exact rv_jump_length_samples. Qed.
Print Assumptions C08_rv_jump_length_samples.

(* `field_offset` of the model = the crate's on the regenerated samples. *)
Theorem C08_rv_field_offset_samples :
  map (fun n => field_offset Fst (N.of_nat n)) (seq 0 4) = RVC.field_offset_fst /\
  map (fun n => field_offset Snd (N.of_nat n)) (seq 0 4) = RVC.field_offset_snd.
Proof. exact rv_field_offset_samples. Qed.
Print Assumptions C08_rv_field_offset_samples.

(* The register assignment and block layout constants the lemmas rely on, as regenerated from the crate. *)
Theorem C08_rv_register_constants :
  (ZERO, TEMP, HEAP, FREE, RETURN1, RESERVED, REGISTER_NUM, FIELDS_PER_BLOCK) = (0, 1, 2, 3, 10, 4, 32, 3)%N
  /\ REFERENCE_COUNT_OFFSET = 0 /\ NEXT_ELEMENT_OFFSET = 0.
Proof. exact rv_register_constants. Qed.
Print Assumptions C08_rv_register_constants.

(* Address of the k-th table entry = table address + jump_length k, from the instruction size; the entry address is even and an instruction start. *)
Theorem C08_rv_jump_table_stride : forall pre l ls post k lk,
  let cs := pre ++ LAB l :: (map (fun x => JAL ZERO x) ls ++ post) in
  let im := mk_image cs in
  ~ In (LAB l) post ->
  nth_error ls k = Some lk ->
  exists table entry,
    label_addr im l = Some table /\
    PM.find (key (table + jump_length (N.of_nat k))) (index_at im) = Some entry /\
    PM.find entry (code im) = Some (JAL ZERO lk) /\
    PM.find entry (addr_of im) = Some (table + jump_length (N.of_nat k)) /\
    (table + jump_length (N.of_nat k)) mod 2 = 0 /\
    isize (JAL ZERO lk) = 4.
Proof. exact rv_jump_table_stride. Qed.
Print Assumptions C08_rv_jump_table_stride.

(* The dispatch sequence LA/ADD/JALR of `switch` (and `invoke` via add_and_jump) reaches the k-th entry. *)
Theorem C08_rv_switch_dispatch : forall pre l ls post k lk v s pc,
  let cs := pre ++ LAB l :: (map (fun x => JAL ZERO x) ls ++ post) in
  let im := mk_image cs in
  ~ In (LAB l) post -> nth_error ls k = Some lk ->
  v <> TEMP -> rget s v = Some (jump_length (N.of_nat k)) ->
  CODE_BASE + size_of cs <= max_int ->
  exists table entry s1 s2,
    b_load_label rv_backend TEMP l ++ b_arith rv_backend Sum TEMP TEMP v ++ b_jump rv_backend TEMP
      = [LA TEMP l; ADD TEMP TEMP v; JALR ZERO TEMP 0] /\
    step im pc (LA TEMP l) s = Next s1 /\
    step im (pc + 8) (ADD TEMP TEMP v) s1 = Next s2 /\
    step im (pc + 12) (JALR ZERO TEMP 0) s2 = Jump s2 entry /\
    PM.find entry (code im) = Some (JAL ZERO lk) /\
    s2 = rset s TEMP (Some (table + jump_length (N.of_nat k))).
Proof. exact rv_switch_dispatch. Qed.
Print Assumptions C08_rv_switch_dispatch.

(* The small-step relation used below is the executable machine of Sem/RVSem.v. *)
Theorem C08_run_chunk_one : forall im stop pc s pc' s' f,
  one im pc s pc' s' -> pc <> stop ->
  run_chunk (S f) im stop pc s = run_chunk f im stop pc' s'.
Proof. exact run_chunk_one. Qed.
Print Assumptions C08_run_chunk_one.

(* `placed` is satisfiable: every fragment of a program with pairwise distinct labels is placed in the program's image. *)
Theorem C08_placed_mk_image : forall pre cs post,
  NoDup (labels_of (pre ++ cs ++ post)) ->
  placed (mk_image (pre ++ cs ++ post)) (padd 1 (List.length pre)) cs.
Proof. exact placed_mk_image. Qed.
Print Assumptions C08_placed_mk_image.

(* share_block_n refines the abstract `share` of the allocator (DESIGN.md Appendix D, on words); clobbers only TEMP. *)
Theorem C08_rv_share_block_n_refines : forall im i t n lc s h p,
  placed im i (fst (r_share_block_n t n lc)) ->
  t <> ZERO -> t <> TEMP -> t <> HEAP -> t <> FREE ->
  represents s h -> rget s t = Some p -> (p = 0 \/ valid_addr p) -> fits12 (Z.of_N n) = true ->
  exists s',
    star im i s (padd i (List.length (fst (r_share_block_n t n lc)))) s' /\
    represents s' (a_share p (Z.of_N n) h) /\
    (forall r, r <> TEMP -> rget s' r = rget s r).
Proof. exact rv_share_block_n_refines. Qed.
Print Assumptions C08_rv_share_block_n_refines.

(* erase_block refines the abstract `erase` (decrement, or push onto the lazy free list at count 0); clobbers TEMP, updates FREE. *)
Theorem C08_rv_erase_block_refines : forall im i t lc s h p,
  placed im i (fst (r_erase_block t lc)) ->
  t <> ZERO -> t <> TEMP -> t <> HEAP -> t <> FREE ->
  represents s h -> rget s t = Some p -> (p = 0 \/ valid_addr p) ->
  exists s',
    star im i s (padd i (List.length (fst (r_erase_block t lc)))) s' /\
    represents s' (a_erase p h) /\
    (forall r, r <> TEMP -> r <> FREE -> rget s' r = rget s r).
Proof. exact rv_erase_block_refines. Qed.
Print Assumptions C08_rv_erase_block_refines.

(* release_block (load in release mode) pushes the block onto the linear free list. *)
Theorem C08_rv_release_block_refines : forall im i t s h b,
  placed im i (release_block t) ->
  t <> ZERO -> t <> HEAP ->
  represents s h -> rget s t = Some b -> valid_addr b ->
  exists s',
    star im i s (padd i 2) s' /\
    represents s' (a_release b h) /\
    (forall r, r <> HEAP -> rget s' r = rget s r).
Proof. exact rv_release_block_refines. Qed.
Print Assumptions C08_rv_release_block_refines.

(* acquire_block refines the abstract `acquire` in all three cases: next element of the linear list / bump allocation with FREE = HEAP + field_offset(Fst, FIELDS_PER_BLOCK) / head of the lazy list with its three children erased. *)
Theorem C08_rv_acquire_block_refines : forall im i t t2 lc s h,
  placed im i (fst (acquire_block t t2 lc)) ->
  t <> ZERO -> t <> TEMP -> t <> HEAP -> t <> FREE ->
  t2 <> ZERO -> t2 <> TEMP -> t2 <> HEAP -> t2 <> FREE -> t <> t2 ->
  represents s h ->
  valid_addr (hp h) ->
  (words h (hp h) = 0 -> valid_block (fp h)) ->
  (words h (hp h) = 0 -> words h (fp h) <> 0 ->
     children_ok (fp h) [0; 1; 2]%N {| words := upd (words h) (fp h) 0; hp := fp h; fp := words h (fp h) |}) ->
  exists s',
    star im i s (padd i (List.length (fst (acquire_block t t2 lc)))) s' /\
    represents s' (snd (a_acquire h)) /\
    rget s' t = Some (fst (a_acquire h)) /\
    (forall r, r <> t -> r <> t2 -> r <> TEMP -> r <> HEAP -> r <> FREE -> rget s' r = rget s r).
Proof. exact rv_acquire_block_refines. Qed.
Print Assumptions C08_rv_acquire_block_refines.

(* PARTIAL: `rv_codegen_correct` (stated at the end of this file) is proved only for ONE program and four argument values, by computation (allocation, store, load, switch through a jump table, arithmetic).  The gap is the whole quantification over programs: store/load for arbitrary contexts, the generic simulation, the composition. *)
Theorem C08_rv_codegen_correct_instance_partial :
  exists cs n lc',
    rv_compile ex_prog 0%N = Ok (cs, n, lc') /\
    (forall a, In a [0; 5; -7; 4611686018427387904] ->
       fst (run_rv 10 1000 cs [a]) = run_linear 100 ex_prog [a] /\
       run_linear 100 ex_prog [a] = ([], OExit (wrap (wrap (a * 2) + 2)))).
Proof. exact rv_end_to_end_example. Qed.
Print Assumptions C08_rv_codegen_correct_instance_partial.

(* ---------- the full property, stated ----------
   `lin_wt` is the linear typing judgement of AxCut (property C12's checker); it is a parameter of
   the statement because its Coq definition lives with the linearization work.  What remains to
   prove it: (1) store/load refinement for arbitrary contexts (chains of blocks), (2) the generic
   simulation `code_statement` vs `exec_linear` under the representation relation "environment
   position i <-> registers RESERVED+2i, RESERVED+2i+1; object <-> chain of blocks with header =
   references - 1" (shared with C06/C07/C09), (3) gluing with the lemmas above.  The heap of the
   ISA model is finite, so the conclusion allows the run to stop at the end of the heap. *)
Definition heap_exhausted (o : obs) : Prop :=
  snd o = OStuck "out-of-bounds-store" \/ snd o = OStuck "out-of-bounds-load".

Definition rv_codegen_correct (lin_wt : prog -> Prop) : Prop :=
  forall (p : prog) (lc lc' : N) (cs : list rcode) (n : nat) (args : list Z) (z : Z) (fuel : nat),
    lin_wt p -> prog_has_print p = false -> (RunRV.max_live p <= RunRV.RV_CAPACITY)%nat ->
    rv_compile p lc = Ok (cs, n, lc') ->
    run_linear fuel p args = ([], OExit z) ->
    exists outer inner,
      fst (run_rv outer inner cs args) = ([], OExit z) \/ heap_exhausted (fst (run_rv outer inner cs args)).

(* within capacity the code generator does not fail (the capacity limit is exactly the panic
   "Out of registers"); checked on every run by modelrun sem-rv (class=rv-capacity-panic) *)
Definition rv_within_capacity_compiles (lin_wt : prog -> Prop) : Prop :=
  forall (p : prog) (lc : N),
    lin_wt p -> prog_has_print p = false -> (RunRV.max_live p <= RunRV.RV_CAPACITY)%nat ->
    exists r, rv_compile p lc = Ok r.

(* agreement of the back ends: a corollary of the three correctness theorems once they exist;
   until then by correspondence + execution only (modelrun sem-rv, class=rv-x86-disagree) *)
Definition three_backends_agree (lin_wt : prog -> Prop) : Prop :=
  forall (p : prog) (lc lcx lc' lcx' : N) (cs : list rcode) (xs : list X86.xcode) (n nx : nat) (args : list Z) (z : Z) (fuel : nat),
    lin_wt p -> prog_has_print p = false -> (RunRV.max_live p <= RunRV.RV_CAPACITY)%nat ->
    (List.length args <= 5)%nat ->
    rv_compile p lc = Ok (cs, n, lc') -> X86.x86_compile p lcx = Ok (xs, nx, lcx') ->
    run_linear fuel p args = ([], OExit z) ->
    exists outer inner,
      fst (run_rv outer inner cs args) = fst (X86Sem.run_x86 outer inner xs args)
      \/ heap_exhausted (fst (run_rv outer inner cs args)).
