(* C05: Linearization preserves semantics and makes every environment exact.
   Only statements here; models in Model/Linearize.v + Model/LinCheck.v, reference semantics in
   Sem/AxSem.v, proofs in Proof/Lin*.v.

   Reading guide
   - `prog_ok p`           : the hypotheses on the input (executable): every definition is typed in the
                             non-linear discipline (`ax_check`: every use finds its variable, by id, with
                             the expected kind and type; xtor / label signatures respected; one clause per
                             xtor in declaration order), binders are pairwise distinct and distinct from
                             the parameters, all ids are at most `max_id`.
   - `linearize p`         : the model of `Prog::linearize`, tied to the Rust code by the correspondence
                             check `lin` on every run of ./check C05.
   - `lin_check_prog q`    : the ordered linear discipline the back ends assume, as a checker;
                             `lin_wt` is the same discipline as an inductive predicate. *)
From Coq Require Import String List ZArith NArith Bool Permutation.
From SCC Require Import Base.Sexp Lang.AxSyn Sem.AxSem Model.Linearize Model.LinCheck.
From SCC Require Import Proof.LinBasics Proof.LinFbs Proof.LinFreshen Proof.LinTyping Proof.LinearizeProof.
From SCC Require Import Proof.LinMachine Proof.LinSim Proof.LinExample.
Import ListNotations.
Open Scope N_scope.

(* ---- 1. filter_by_set: the swap_remove loop keeps exactly the live bindings, once each ---- *)
Theorem C05_fbs_perm : forall (c : ctx) (s : list N),
  Permutation (filter_by_set c s) (filter (keep_in s) c).
Proof. exact fbs_perm. Qed.
Print Assumptions C05_fbs_perm.

(* a kept binding whose position survives the shrinking stays at its position (so a kept prefix is
   not moved: this is what makes the "context is already right" test succeed on linear input) *)
Theorem C05_fbs_positions : forall (c : ctx) (s : list N) (i : nat) (b : binding),
  nth_error c i = Some b -> mem (idn (bvar b)) s = true -> (i < length (filter_by_set c s))%nat ->
  nth_error (filter_by_set c s) i = Some b.
Proof. exact fbs_positions. Qed.
Print Assumptions C05_fbs_positions.

(* ---- 2. freshen ---- *)
Theorem C05_freshen_nodup : forall (c : ctx) (cl : list N) (m : N) (c' : ctx) (m' : N),
  freshen c cl m = (c', m') ->
  (forall x, In x cl -> x <= m) -> (forall x, In x (ids c) -> x <= m) ->
  NoDup (ids c') /\ (forall x, In x (ids c') -> ~ In x cl).
Proof. exact freshen_nodup. Qed.
Print Assumptions C05_freshen_nodup.

Theorem C05_freshen_positions : forall (c : ctx) (cl : list N) (m : N) (c' : ctx) (m' : N),
  freshen c cl m = (c', m') ->
  same_shape c c' /\
  (forall i b, nth_error c i = Some b -> ~ In (idn (bvar b)) cl ->
               ~ In (idn (bvar b)) (ids (firstn i c)) -> nth_error c' i = Some b).
Proof. exact freshen_positions. Qed.
Print Assumptions C05_freshen_positions.

(* ---- 3. the checker of the ordered linear discipline is sound for the predicate ---- *)
Theorem C05_lin_check_sound : forall (S : sigs) (s : stmt) (c : ctx),
  lin_check S c s = true -> lin_wt S c s.
Proof. exact lin_check_sound. Qed.
Print Assumptions C05_lin_check_sound.

(* ---- 4. exact environments: all nine statement forms, Create included ---- *)
Theorem C05_linearize_exact : forall p : prog,
  prog_ok p = true -> lin_check_prog (linearize p) = true.
Proof. exact linearize_exact. Qed.
Print Assumptions C05_linearize_exact.

Theorem C05_linearize_exact_wt : forall p : prog,
  prog_ok p = true ->
  Forall (fun d => lin_wt (sigs_of (linearize p)) (dctx d) (dbody d)) (pdefs (linearize p)).
Proof. exact linearize_exact_wt. Qed.
Print Assumptions C05_linearize_exact_wt.

(* the signatures (labels with parameter lists, type declarations) are untouched, so the
   discipline is stated against the same declarations before and after *)
Theorem C05_linearize_same_signatures : forall p : prog,
  prog_ok p = true -> sigs_of (linearize p) = sigs_of p.
Proof. exact sigs_of_linearize. Qed.
Print Assumptions C05_linearize_same_signatures.

(* ---- 5. operands stay available; binders stay unique; fresh ids above max_id ---- *)
Theorem C05_linearize_keeps_operands : forall p : prog,
  prog_ok p = true ->
  forallb (fun d => ops_kept (dctx d) (dbody d)) (pdefs (linearize p)) = true.
Proof. exact linearize_keeps_operands. Qed.
Print Assumptions C05_linearize_keeps_operands.

Theorem C05_linearize_unique : forall p : prog,
  prog_ok p = true ->
  pmax p <= pmax (linearize p) /\
  Forall2 (fun d d' =>
             dname d' = dname d /\ dctx d' = dctx d /\
             binders_ns (dbody d') = binders (dbody d) /\
             NoDup (ids (dctx d') ++ binders_ns (dbody d')) /\
             (forall x, In x (binders (dbody d')) -> x <= pmax (linearize p)))
          (pdefs p) (pdefs (linearize p)).
Proof. exact linearize_unique. Qed.
Print Assumptions C05_linearize_unique.

(* ---- 6. semantics preserved: forward simulation from the named machine (environments are
   finite maps, the reading of programs before the pass) to the linear machine (environments are
   lists handled positionally, the reading the back ends implement).  Every run of the input that
   ends with `exit` or in undefined arithmetic (division by zero, min_int / -1) is reproduced by the
   linearized program with the same prints in the same order and the same outcome, for every
   sufficiently large amount of fuel.  All statement forms, closures and the renaming done by
   Create included.  Not covered: runs of the input that get stuck (not possible for well-typed
   programs if the named machine is type-sound - not proved here) and divergence. ---- *)
Theorem C05_linearize_preserves : forall p : prog,
  prog_ok p = true ->
  forall (args : list Z) (n : nat) (o : obs),
    run_named n p args = o ->
    ((exists z, snd o = OExit z) \/ (exists w, snd o = OUndef w)) ->
    exists n', forall k, run_linear (n' + k) (linearize p) args = o.
Proof. exact linearize_preserves_stable. Qed.
Print Assumptions C05_linearize_preserves.

(* ---- the hypotheses are satisfiable and the conclusions are not vacuous: the program of
   Proof/LinExample.v (closure capturing two of four parameters, switch on a live list, nested
   continuation closure, call with a duplicated argument) ---- *)
Example C05_example_hypotheses : prog_ok ex_prog = true.
Proof. vm_compute. reflexivity. Qed.
Example C05_example_input_not_linear : lin_check_prog ex_prog = false.
Proof. vm_compute. reflexivity. Qed.
Example C05_example_output_linear : lin_check_prog (linearize ex_prog) = true.
Proof. exact (linearize_exact ex_prog C05_example_hypotheses). Qed.
Example C05_example_fresh_ids : (pmax ex_prog, pmax (linearize ex_prog)) = (27, 30).
Proof. vm_compute. reflexivity. Qed.
Example C05_example_behaviour :
  run_named 100 ex_prog [5%Z; 7%Z] = ([(true, 22%Z)], OExit 22) /\
  run_linear 100 (linearize ex_prog) [5%Z; 7%Z] = ([(true, 22%Z)], OExit 22) /\
  snd (run_linear 100 ex_prog [5%Z; 7%Z]) = OStuck "create-no-env"%string.
Proof. vm_compute. repeat split. Qed.
