(* C16: formatting a program never changes it.
   Only statements here; proofs live in Proof/Fmt*.v, models in Model/{Printer,Parser,FmtClass}.v.

   print   = d_prog c        the `Print` impls as documents, for a configuration c = (width, allow_linebreaks,
                             omit_decl_sep, indent)                                    (Model/Printer.v)
   tokens  = the token stream a document has under fun.lalrpop's lexer, independent of layout
   parse   = the grammar of fun.lalrpop on a token list                               (Model/Parser.v)
   wf_prog = "parser shaped": a tree the parser can produce                            (Proof/FmtDefs.v)
   zsafe_prog = no `if` has a literal 0 adjacent to its comparison operator            (Model/FmtClass.v) *)
From Coq Require Import List ZArith NArith String Bool.
From SCC Require Import Lang.FunSyn Model.Printer Model.Parser Model.Pretty Model.FmtClass Proof.FmtDefs Proof.FmtLex Proof.FmtPretty Proof.FmtProof.

(* Layout independence.  [renders d s]: s arises from the document d by writing every atom as its text,
   every space / line / hardline as ANY non-empty string of blanks and every line_ as ANY string of
   blanks, chosen independently at each occurrence (an over-approximation of the `pretty` crate: all
   widths, all indentations, all group decisions).  Every such text of a printed parser-shaped
   program lexes to one and the same token stream.  No guard: this also holds inside the defect class. *)
Theorem C16_layout_independent :
  forall c p s, wf_prog p = true -> renders (d_prog c p) s -> lex_string s = Some (tokens (d_prog c p)).
Proof. exact layout_independent. Qed.
Print Assumptions C16_layout_independent.

(* Structure of the proof: a general lemma about safe documents, and the printer yields safe documents. *)
Theorem C16_render_any_layout_tokens :
  forall d s, safe_doc d = true -> words_ok d = true -> renders d s -> lex_string s = Some (tokens d).
Proof. exact render_any_layout_tokens. Qed.
Print Assumptions C16_render_any_layout_tokens.
Theorem C16_print_is_safe :
  forall c p, wf_prog p = true -> safe_doc (d_prog c p) = true /\ words_ok (d_prog c p) = true.
Proof. exact print_is_safe. Qed.
Print Assumptions C16_print_is_safe.

(* Full strength: for every configuration and every parser-shaped program, parsing the printed
   program yields the same tree.  This is FALSE of the faithful model (and of the implementation):
   `if 1 == -0 { 1 } else { 2 }` comes back as the zero-comparison form. *)
Theorem C16_roundtrip_refuted :
  ~ (forall c p, wf_prog p = true -> parse (tokens (d_prog c p)) = Some p).
Proof. exact roundtrip_refuted. Qed.
Print Assumptions C16_roundtrip_refuted.

(* ... and the output may not parse at all (`if 0 == x + -0 {..}` prints as `if x + 0 == 0 {..}`). *)
Theorem C16_unparsable_output_refuted :
  exists c p, wf_prog p = true /\ parse (tokens (d_prog c p)) = None.
Proof. exact unparsable_output. Qed.
Print Assumptions C16_unparsable_output_refuted.

(* Under the decidable guard that excludes the defect class - and nothing else that the
   correspondence run could find: the closed form `renorm` of the class is compared with the
   implementation on every case - the round trip holds for every configuration. *)
Theorem C16_roundtrip_guarded :
  forall c p, wf_prog p = true -> zsafe_prog p = true -> parse (tokens (d_prog c p)) = Some p.
Proof. exact roundtrip_guarded. Qed.
Print Assumptions C16_roundtrip_guarded.

(* The guard is contained in "the defect-class model predicts an unchanged tree". *)
Theorem C16_guard_within_class_model :
  forall p, zsafe_prog p = true -> renorm p = Some p.
Proof. exact zsafe_renorm. Qed.
Print Assumptions C16_guard_within_class_model.

(* Printing the reparsed program gives the same document (hence the same text at that configuration). *)
Theorem C16_idempotent_guarded :
  forall c p, wf_prog p = true -> zsafe_prog p = true ->
    option_map (d_prog c) (parse (tokens (d_prog c p))) = Some (d_prog c p).
Proof. exact idempotent_guarded. Qed.
Print Assumptions C16_idempotent_guarded.

(* Without the guard even the token stream of the second print differs (`if 0 > -0`). *)
Theorem C16_idempotent_refuted :
  ~ (forall c p q, wf_prog p = true -> parse (tokens (d_prog c p)) = Some q ->
                   tokens (d_prog c q) = tokens (d_prog c p)).
Proof. exact idempotent_refuted. Qed.
Print Assumptions C16_idempotent_refuted.

(* The property on text: formatting at any width and indentation (indeed any layout) and parsing the
   result yields the same tree; formatting that again with any configuration yields the same document. *)
Theorem C16_roundtrip_text_guarded :
  forall c p s, wf_prog p = true -> zsafe_prog p = true -> renders (d_prog c p) s -> parse_text s = Some p.
Proof. exact roundtrip_text_guarded. Qed.
Print Assumptions C16_roundtrip_text_guarded.

Theorem C16_idempotent_text_guarded :
  forall c c2 p s, wf_prog p = true -> zsafe_prog p = true -> renders (d_prog c p) s ->
    option_map (d_prog c2) (parse_text s) = Some (d_prog c2 p).
Proof. exact idempotent_text_guarded. Qed.
Print Assumptions C16_idempotent_text_guarded.

(* The layout algorithm of the `pretty` crate as modelled in Model/Pretty.v (compared with the real
   output byte for byte on every run) produces one of the layouts quantified over above; so for the
   modelled formatter itself:  parse (format p) = p  and  format (parse (format p)) = format p. *)
Theorem C16_pretty_layout_is_a_rendering :
  forall width d, renders d (render width d).
Proof. exact render_renders. Qed.
Print Assumptions C16_pretty_layout_is_a_rendering.

Theorem C16_roundtrip_pretty_guarded :
  forall c p, wf_prog p = true -> zsafe_prog p = true -> parse_text (render (pwidth c) (d_prog c p)) = Some p.
Proof. exact roundtrip_pretty_guarded. Qed.
Print Assumptions C16_roundtrip_pretty_guarded.

Theorem C16_idempotent_pretty_guarded :
  forall c p, wf_prog p = true -> zsafe_prog p = true ->
    option_map (fun q => render (pwidth c) (d_prog c q)) (parse_text (render (pwidth c) (d_prog c p)))
    = Some (render (pwidth c) (d_prog c p)).
Proof. exact idempotent_pretty_guarded. Qed.
Print Assumptions C16_idempotent_pretty_guarded.
