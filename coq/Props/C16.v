(* C16: formatting a program never changes it.
   Only statements here; proofs live in Proof/Fmt*.v, models in Model/{Printer,Parser,FmtClass}.v.

   print   = d_prog c        the `Print` impls as documents, for a configuration c = (width, allow_linebreaks,
                             omit_decl_sep, indent)                                    (Model/Printer.v)
   tokens  = the token stream a document has under fun.lalrpop's lexer, independent of layout
   parse   = the grammar of fun.lalrpop on a token list                               (Model/Parser.v)
   wf_prog = "parser shaped": a tree the parser can produce                            (Proof/FmtDefs.v)

   The zero-literal defect (two findings of C16: a literal 0 of an operand printed next to the
   comparison operator of an `if` changed the tree or made the text unparsable) is REPAIRED in /repo
   (fix commit c039e57): d_prog models the repaired `impl Print for IfC`, and the round trip and
   idempotence hold WITHOUT a guard.  old_d_prog = the printer before the repair, zsafe_prog = the guard
   the theorems needed then (no `if` has a literal 0 adjacent to its operator; Model/FmtClass.v): they
   only occur in the regression statements at the end. *)
From Coq Require Import List ZArith NArith String Bool.
From SCC Require Import Base.Sexp.
From SCC Require Import Lang.FunSyn Model.Printer Model.Parser Model.Pretty Model.FmtClass Proof.FmtDefs Proof.FmtLex Proof.FmtPretty Proof.FmtProof.

(* Layout independence.  [renders d s]: s arises from the document d by writing every atom as its text,
   every space / line / hardline as ANY non-empty string of blanks and every line_ as ANY string of
   blanks, chosen independently at each occurrence (an over-approximation of the `pretty` crate: all
   widths, all indentations, all group decisions).  Every such text of a printed parser-shaped
   program lexes to one and the same token stream.  (The one comment the repaired printer writes,
   `//` + hardline, renders as "//", a newline and any string of blanks.) *)
Theorem C16_layout_independent :
  forall c p s, wf_prog p = true -> renders (d_prog c p) s -> lex_string s = Some (tokens (d_prog c p)).
Proof. exact layout_independent. Qed.
Print Assumptions C16_layout_independent.

(* Structure of the proof: a general lemma about safe documents, and the printer yields safe documents. *)
Theorem C16_render_any_layout_tokens :
  forall d s, safe_doc d = true -> words_ok d = true -> renders d s -> lex_string s = Some (tokens d).
Proof. exact render_any_layout_tokens. Qed.
Print Assumptions C16_render_any_layout_tokens.
Theorem C16_print_is_safe :
  forall c p, wf_prog p = true -> safe_doc (d_prog c p) = true /\ words_ok (d_prog c p) = true.
Proof. exact print_is_safe. Qed.
Print Assumptions C16_print_is_safe.

(* Full strength: for every configuration and every parser-shaped program, parsing the printed
   program yields the same tree.  tokens_print (the glued atom stream of the document is the direct
   token printer T_prog) + roundtrip_tokens (the parser reads T_prog p back to p). *)
Theorem C16_roundtrip :
  forall c p, wf_prog p = true -> parse (tokens (d_prog c p)) = Some p.
Proof. exact roundtrip. Qed.
Print Assumptions C16_roundtrip.

(* Printing the reparsed program gives the same document (hence the same text at that configuration). *)
Theorem C16_idempotent :
  forall c p, wf_prog p = true ->
    option_map (d_prog c) (parse (tokens (d_prog c p))) = Some (d_prog c p).
Proof. exact idempotent. Qed.
Print Assumptions C16_idempotent.

(* the statement that was refuted before the repair (`if 0 > -0`), now positively *)
Theorem C16_idempotent_tokens :
  forall c p q, wf_prog p = true -> parse (tokens (d_prog c p)) = Some q ->
                tokens (d_prog c q) = tokens (d_prog c p).
Proof. exact idempotent_tokens. Qed.
Print Assumptions C16_idempotent_tokens.

(* The property on text: formatting at any width and indentation (indeed any layout) and parsing the
   result yields the same tree; formatting that again with any configuration yields the same document. *)
Theorem C16_roundtrip_text :
  forall c p s, wf_prog p = true -> renders (d_prog c p) s -> parse_text s = Some p.
Proof. exact roundtrip_text. Qed.
Print Assumptions C16_roundtrip_text.

Theorem C16_idempotent_text :
  forall c c2 p s, wf_prog p = true -> renders (d_prog c p) s ->
    option_map (d_prog c2) (parse_text s) = Some (d_prog c2 p).
Proof. exact idempotent_text. Qed.
Print Assumptions C16_idempotent_text.

(* The layout algorithm of the `pretty` crate as modelled in Model/Pretty.v (compared with the real
   output byte for byte on every run) produces one of the layouts quantified over above; so for the
   modelled formatter itself:  parse (format p) = p  and  format (parse (format p)) = format p. *)
Theorem C16_pretty_layout_is_a_rendering :
  forall width d, renders d (render width d).
Proof. exact render_renders. Qed.
Print Assumptions C16_pretty_layout_is_a_rendering.

Theorem C16_roundtrip_pretty :
  forall c p, wf_prog p = true -> parse_text (render (pwidth c) (d_prog c p)) = Some p.
Proof. exact roundtrip_pretty. Qed.
Print Assumptions C16_roundtrip_pretty.

Theorem C16_idempotent_pretty :
  forall c p, wf_prog p = true ->
    option_map (fun q => render (pwidth c) (d_prog c q)) (parse_text (render (pwidth c) (d_prog c p)))
    = Some (render (pwidth c) (d_prog c p)).
Proof. exact idempotent_pretty. Qed.
Print Assumptions C16_idempotent_pretty.

(* ---------- REPAIRED defect (fix commit c039e57 of /repo), kept as regression statements ----------
   Before the fix `impl Print for IfC` wrote `if fst cmp snd` / `if fst cmp 0` whatever the operands
   were; a literal 0 that ends fst or starts snd then stood next to the operator and the lexer fused
   them (r"0\s*==", r"==\s*0", ...).  [old_d_prog] is the model of that printer (only used here). *)

(* `if 1 == -0 { 1 } else { 2 }` came back as the zero-comparison form. *)
Theorem C16_roundtrip_refuted_before_fix :
  ~ (forall c p, wf_prog p = true -> parse (tokens (old_d_prog c p)) = Some p).
Proof. exact old_roundtrip_refuted. Qed.
Print Assumptions C16_roundtrip_refuted_before_fix.

(* ... and the output might not parse at all (`if 0 == x + -0 {..}` was printed `if x + 0 == 0 {..}`). *)
Theorem C16_unparsable_output_before_fix :
  exists c p, wf_prog p = true /\ parse (tokens (old_d_prog c p)) = None.
Proof. exact old_unparsable_output. Qed.
Print Assumptions C16_unparsable_output_before_fix.

(* Even the token stream of the second print differed (`if 0 > -0`: `0 < 0`, then `0 > 0`). *)
Theorem C16_idempotent_refuted_before_fix :
  ~ (forall c p q, wf_prog p = true -> parse (tokens (old_d_prog c p)) = Some q ->
                   tokens (old_d_prog c q) = tokens (old_d_prog c p)).
Proof. exact old_idempotent_refuted. Qed.
Print Assumptions C16_idempotent_refuted_before_fix.

(* The CURRENT printer on the witnesses (corpus/fun/c16_*.sc; the model follows the repaired code and
   is compared with it byte for byte on every run, these files included): `-0` for a leading 0 of the
   second operand, the zero-left form for a zero comparison whose operand ends in 0, a comment where the
   first operand of a general comparison ends in 0; each text parses back to its program. *)
Theorem C16_witnesses_fixed :
  render 80 (d_prog wit_cfg wit_minus_zero)
    = ("def main(): i64 {" ++ nl ++ "    if 1 == -0 { 1 } else { 2 }" ++ nl ++ "}")%string /\
  render 80 (d_prog wit_cfg wit_unparsable)
    = ("def main(x: i64): i64 {" ++ nl ++ "    if 0 == x + 0 { 1 } else { 2 }" ++ nl ++ "}")%string /\
  render 80 (d_prog wit_cfg wit_flip)
    = ("def main(): i64 {" ++ nl ++ "    if 0 > 0 { 1 } else { 2 }" ++ nl ++ "}")%string /\
  render 80 (d_prog wit_cfg wit_comment)
    = ("def main(x: i64): i64 {" ++ nl ++ "    if 0 //" ++ nl ++ "    < x {" ++ nl ++ "        1" ++ nl ++ "    } else {" ++ nl
       ++ "        2" ++ nl ++ "    }" ++ nl ++ "}")%string /\
  render 80 (d_prog wit_cfg wit_snd_op)
    = ("def main(x: i64): i64 {" ++ nl ++ "    if x == -0 + 1 { 1 } else { 2 }" ++ nl ++ "}")%string /\
  parse_text (render 80 (d_prog wit_cfg wit_minus_zero)) = Some wit_minus_zero /\
  parse_text (render 80 (d_prog wit_cfg wit_unparsable)) = Some wit_unparsable /\
  parse_text (render 80 (d_prog wit_cfg wit_flip)) = Some wit_flip /\
  parse_text (render 80 (d_prog wit_cfg wit_comment)) = Some wit_comment /\
  parse_text (render 80 (d_prog wit_cfg wit_snd_op)) = Some wit_snd_op.
Proof. exact witnesses_fixed. Qed.
Print Assumptions C16_witnesses_fixed.

(* The repair is conservative: outside the repaired class the new printer builds the very same
   document as the old one (so the same text at every width and indentation) ... *)
Theorem C16_repair_conservative :
  forall c p, zsafe_prog p = true -> d_prog c p = old_d_prog c p.
Proof. exact repair_conservative. Qed.
Print Assumptions C16_repair_conservative.

(* ... hence the guarded theorem of the old printer still stands (the guard is satisfiable by a program
   with every kind of comparison: FmtProof.zsafe_example) ... *)
Theorem C16_roundtrip_guarded_before_fix :
  forall c p, wf_prog p = true -> zsafe_prog p = true -> parse (tokens (old_d_prog c p)) = Some p.
Proof. exact old_roundtrip_guarded. Qed.
Print Assumptions C16_roundtrip_guarded_before_fix.

(* ... and the guard is contained in "the closed form of the old behaviour predicts an unchanged tree"
   ([old_renorm], which the correspondence run uses to name a recurrence of the repaired class). *)
Theorem C16_guard_within_class_model :
  forall p, zsafe_prog p = true -> old_renorm p = Some p.
Proof. exact zsafe_renorm. Qed.
Print Assumptions C16_guard_within_class_model.
