(* C19: output size is polynomial - continuations are shared, not duplicated.
   Only statements here.  Measures: Lang/FunSyn.v size_fcprog, Lang/CoreSyn.v size_cprog (node counts;
   arguments are terms, so they count), Lang/FsSize.v fs_wprog and Lang/AxSize.v ax_size_prog (nodes
   plus the length of every variable list).  Proofs: Proof/SizeLin.v, Proof/SizeCodegen.v,
   Proof/Fun2CoreProof.v (sharing lemmas). *)
From Coq Require Import List ZArith NArith String Bool.
From SCC Require Import Base.Sexp Lang.FunSyn Lang.CoreSyn Lang.AxSyn Lang.AxSize Lang.FsSize Lang.CoreSize
     Model.Fun2Core Model.Focus Model.Shrink Model.SizeDefs Model.Linearize Model.Backend
     Model.Uniquify Proof.Fun2CoreProof Proof.SizeLin Proof.SizeCodegen Proof.SizeShrink Proof.SizeFocus Proof.SizeGen Proof.SizeUniquify Model.SizeFun Proof.SizeFun2CoreFv Proof.SizeFun2Core Proof.SizeFun2CoreEntry Proof.SizeFun2CoreProg
     Model.ParMoves Model.LinCheck Model.X86 Model.SizeWf Proof.SizeParMoves Proof.SizeExchange Proof.SizeCodegenWf Proof.SizeX86 Proof.SizePipeline Proof.Fun2CoreExamples Proof.SizeFun2CoreRefute Proof.SizeA64 Proof.SizeRV Proof.SizeLinWidth.
From SCC Require Model.A64 Model.RV.
Import ListNotations.
Open Scope N_scope.

(* ---------- the property at full strength (statements) ---------- *)
(* number of variables of a source program: the largest number of parameters + binders of a definition *)
Definition fun_vars (p : fcprog) : N :=
  fold_right N.max 0 (map (fun d => len (used_binders (fdbody d) (fvars (fdctx d)))) (fcpdefs p)).

(* Fun -> Core: linear in size x (1 + variables), for a constant c1 independent of the program.
   NOT proved as a whole (see C19_fun2core_*_shares_continuation for the proved heart of it). *)
Definition fun2core_size_statement (c1 : N) : Prop :=
  forall (p : fcprog) (c : cprog), compile_prog p = Fun2Core.Ok c ->
    size_cprog c <= c1 * size_fcprog p * (1 + fun_vars p).

(* focusing: linear (every non-value argument is named once).  Proved for statements and for the
   focusing half of Prog::focus (C19_focus_stmt_size, C19_focus_size_partial); the uniquify half, a
   renaming, is not covered.  c_wprog = node count + clause-context lengths (Lang/CoreSize.v). *)
Definition focus_size_statement (c2 : N) : Prop :=
  forall (p : cprog) (q : fsprog), focus_prog p = Backend.Ok q -> fs_wprog q <= c2 * c_wprog p.

(* shrinking, the SHARP form: linear in size x (1 + xtors) x (1 + width).  NOT proved; what is proved
   (C19_shrink_size below) is quadratic in the weighted size, with coefficients from the declarations. *)
Definition shrink_size_statement (c3 : N) : Prop :=
  forall (p : fsprog) (q : prog), shrink_prog p = SOk q ->
    ax_size_prog q <= c3 * (1 + N.max (decl_xtors (fspdata p)) (decl_xtors (fspcodata p))) * fs_wprog p * (1 + ax_width_prog q).

(* ---------- (a) Fun -> Core: the continuation of a branching construct is shared ---------- *)
(* re-exports of the two lemmas of C02 (same statements): `if` and multi-clause `case` with a
   continuation that is not a leaf lift it ONCE (`share`); every branch receives the SAME small
   continuation k = mu~ x. share_f_n(free variables) of size 2 + |free variables|, and the lifted
   definition's body is at most 2 nodes larger than the continuation. *)
Theorem C19_fun2core_ifc_shares_continuation : forall cur s ca cb wt we cont st r st',
  cont_is_small cont = false ->
  wc_ifc cur s ca cb wt we cont st = Fun2Core.Ok (r, st') ->
  exists k st1 d a b t e st2 st3,
    share cur cont st = Fun2Core.Ok (k, st1) /\
    st_lifted st1 = d :: st_lifted st /\
    (size_cstmt (cdbody d) <= size_cterm cont + 2)%N /\
    (size_cterm k = 2 + N.of_nat (List.length (cdctx d)))%N /\
    wt k st2 = Fun2Core.Ok (t, st3) /\ we k st3 = Fun2Core.Ok (e, st') /\
    r = CIfC (sort_of s) a b t e /\
    (size_cstmt r = 1 + size_cterm a + match b with Some b' => size_cterm b' | None => 0 end
                    + size_cstmt t + size_cstmt e)%N.
Proof. exact fun2core_ifc_shares_continuation. Qed.
Print Assumptions C19_fun2core_ifc_shares_continuation.

Theorem C19_fun2core_case_shares_continuation : forall cur wscrut sty n ccls cont st r st',
  cont_is_small cont = false -> (2 <= n)%nat ->
  wc_case cur wscrut sty n ccls cont st = Fun2Core.Ok (r, st') ->
  exists k st1 d,
    share cur cont st = Fun2Core.Ok (k, st1) /\
    st_lifted st1 = d :: st_lifted st /\
    (size_cstmt (cdbody d) <= size_cterm cont + 2)%N /\
    (size_cterm k = 2 + N.of_nat (List.length (cdctx d)))%N /\
    exists cls st2 ty, ccls k st1 = Fun2Core.Ok (cls, st2) /\ wscrut (CXCase CCns cls ty) st2 = Fun2Core.Ok (r, st').
Proof. exact fun2core_case_shares_continuation. Qed.
Print Assumptions C19_fun2core_case_shares_continuation.

(* ---------- (b) linearization ---------- *)
(* one statement: the linearized statement is at most twice as big plus, per statement, three times
   (1 + the number of variables that can be in scope): every statement gains at most one Substitute
   (Create also its closure-environment annotation), no longer than the current context plus the
   statement's own arguments; contexts only grow by the binders passed.  Holds for every fuel. *)
Theorem C19_lin_size : forall fuel s c m,
  ax_size (fst (lin fuel s c m)) <= 2 * ax_size s + ax_nstmts s * (3 * (1 + (len c + ax_nbind s))).
Proof. exact lin_size. Qed.
Print Assumptions C19_lin_size.

Theorem C19_linearize_size : forall p,
  ax_size_prog (linearize p) <= 2 * ax_size_prog p + 3 * ax_nstmts_prog p * (1 + ax_width_prog p).
Proof. exact linearize_size_lemma. Qed.
Print Assumptions C19_linearize_size.

Theorem C19_linearize_size_poly : forall p,
  ax_size_prog (linearize p) <= ax_size_prog p * (5 + 3 * ax_width_prog p).
Proof. exact linearize_size_poly_lemma. Qed.
Print Assumptions C19_linearize_size_poly.

(* ---------- (c) code generation, any back end ---------- *)
(* [cost_model B K]: the abstract costs of the back end's operations (hypotheses, not proved for the
   three concrete back ends): single operations emit <= K instructions, store/load <= K * (1 + fields),
   print <= K * (1 + context length), the parallel moves of one Substitute <= K * (1 + old + new
   context length). *)
Definition cost_model {Code Temp : Type} (B : backend Code Temp) (K : N) : Prop :=
  1 <= K /\
  (forall c, len (b_mark B c) <= K) /\ (forall t, len (b_jump B t) <= K) /\
  (forall l, len (b_jump_label B l) <= K) /\ (forall l, len (b_jump_label_fixed B l) <= K) /\
  (forall so a b l, len (b_jcc2 B so a b l) <= K) /\ (forall so a l, len (b_jcc1 B so a l) <= K) /\
  (forall t z, len (b_load_immediate B t z) <= K) /\ (forall t l, len (b_load_label B t l) <= K) /\
  (forall t z, len (b_add_and_jump B t z) <= K) /\ (forall o a b c, len (b_arith B o a b c) <= K) /\
  (forall a b, len (b_mov B a b) <= K) /\
  (forall nl t c, len (b_print B nl t c) <= K * (1 + len c)) /\
  (forall t lc, len (fst (b_erase B t lc)) <= K) /\ (forall t n lc, len (fst (b_share_n B t n lc)) <= K) /\
  (forall a r lc code lc', b_store B a r lc = Backend.Ok (code, lc') -> len code <= K * (1 + len a)) /\
  (forall a r lc code lc', b_load B a r lc = Backend.Ok (code, lc') -> len code <= K * (1 + len a)) /\
  (forall tm c nc code, code_exchange B tm c nc = Backend.Ok code -> len code <= K * (1 + len c + len nc)).

(* the code of a statement: K x (size x (5 + 2 x largest context length met)) *)
Theorem C19_codegen_size : forall {Code Temp : Type} (B : backend Code Temp) (K : N), cost_model B K ->
  forall types s c lc code lc',
  code_statement B types s c lc = Backend.Ok (code, lc') ->
  len code <= K * (ax_size s * (5 + 2 * ax_maxw s (len c))).
Proof.
  intros Code Temp B K (H1 & H2 & H3 & H4 & H5 & H6 & H7 & H8 & H9 & H10 & H11 & H12 & H13 & H14 & H15 & H16 & H17 & H18).
  eapply codegen_size_lemma; eauto.
Qed.
Print Assumptions C19_codegen_size.

(* the sharper recursive bound, and whole programs (`translate`: label + code per definition) *)
Theorem C19_codegen_size_exact : forall {Code Temp : Type} (B : backend Code Temp) (K : N), cost_model B K ->
  forall types ds lc code lc',
  translate B types ds lc = Backend.Ok (code, lc') -> len code <= K * cg_bound_defs ds.
Proof.
  intros Code Temp B K (H1 & H2 & H3 & H4 & H5 & H6 & H7 & H8 & H9 & H10 & H11 & H12 & H13 & H14 & H15 & H16 & H17 & H18).
  eapply translate_size_lemma; eauto.
Qed.
Print Assumptions C19_codegen_size_exact.

Theorem C19_cg_bound_poly : forall s n, cg_bound s n <= ax_size s * (5 + 2 * ax_maxw s n).
Proof. exact cg_bound_poly. Qed.
Print Assumptions C19_cg_bound_poly.

(* ---------- (d) shrinking ---------- *)
(* the sharing step: a critical pair at a declared type with >= 2 xtors whose expanded side is not a
   leaf lifts that side ONCE; every clause of the eta-expansion gets a call of size 1 + |free variables|
   <= 1 + 2 * weight; all clauses together: #xtors * (2 + 2 * max arity + size of that call) *)
Theorem C19_shrink_critical_pair_shares : forall fuel E vp sp vc sc name xs st r st',
  shrink_critical_pairs (shrink_stmt fuel E) E vp sp vc sc (CDecl name) st = SOk (r, st') ->
  xtors_of E (CDecl name) name = SOk xs -> (2 <= List.length xs)%nat ->
  let cod := is_codata (e_codata E) (CDecl name) in
  let expand := if cod then sp else sc in
  let keep := if cod then sc else sp in
  let ve := if cod then vp else vc in
  let vk := if cod then vc else vp in
  is_leaf_statement expand = false ->
  exists call st1 cls st2 next,
    lift (shrink_stmt fuel E) E expand st = SOk (call, st1) /\
    ax_size call = 1 + len (typed_free_vars expand) /\
    len (typed_free_vars expand) <= 2 * fs_wstmt expand /\
    critical_clauses (e_codata E) ve (shrink_ty (CDecl name)) call xs st1 = (cls, st2) /\
    ax_size_cls cls <= len xs * (2 + 2 * env_A E + ax_size call) /\
    shrink_stmt fuel E keep st2 = SOk (next, st') /\
    r = Create vk (Decl name) None cls next.
Proof. exact critical_pair_shares_lemma. Qed.
Print Assumptions C19_shrink_critical_pair_shares.

(* one statement, every fuel: the shrunk statement plus everything lifted while producing it *)
Theorem C19_shrink_stmt_size : forall fuel E s st r st',
  shrink_stmt fuel E s st = SOk (r, st') ->
  ax_size r + ax_size_defs (s_lifted st') <=
  ax_size_defs (s_lifted st) + fs_wstmt s * ((2 + env_X E * (2 + env_A E)) + 2 * (1 + env_X E) * fs_wstmt s).
Proof. exact shrink_stmt_size. Qed.
Print Assumptions C19_shrink_stmt_size.

(* whole programs: quadratic in the weighted size of the focused program; X = largest number of xtors
   of a type (the continuation type _Cont included), A = largest xtor arity *)
Theorem C19_shrink_size : forall p q, shrink_prog p = SOk q ->
  ax_size_prog q <= fs_wprog p * ((2 + prog_X p * (2 + prog_A p)) + 2 * (1 + prog_X p) * fs_wprog p).
Proof. exact shrink_size_lemma. Qed.
Print Assumptions C19_shrink_size.

(* ---------- focusing ---------- *)
(* a focused statement is at most 4 times as heavy as its source: every non-value argument is named
   once (3 nodes), the continuation of `bind` is used exactly once *)
Theorem C19_focus_stmt_size : forall s m s' m',
  focus_stmt s m = Backend.Ok (s', m') -> fs_wstmt s' <= 4 * c_wstmt s.
Proof. exact focus_stmt_size. Qed.
Print Assumptions C19_focus_stmt_size.

(* PARTIAL: Prog::focus = uniquify, then focus every definition; the bound is relative to the
   uniquified program p1.  MISSING for focus_size_statement 4: c_wprog p1 = c_wprog p (uniquify only
   renames bound variables; its model substitutes terms for variables under fuel and the size
   preservation of that pass is not proved). *)
Theorem C19_focus_size_partial : forall p p1 q,
  uniquify_prog p = Backend.Ok p1 -> focus_prog p = Backend.Ok q -> fs_wprog q <= 4 * c_wprog p1.
Proof. exact focus_prog_size_partial_lemma. Qed.
Print Assumptions C19_focus_size_partial.

(* ---------- round 2: the renaming pass and the unconditional focusing bound ---------- *)
(* `uniquify` (first half of Prog::focus) replaces variables by variables and renames binders: it
   preserves the weighted size and the node count exactly (Proof/SizeUniquify.v) *)
Theorem C19_uniquify_size : forall p p1, uniquify_prog p = Backend.Ok p1 ->
  c_wprog p1 = c_wprog p /\ size_cprog p1 = size_cprog p.
Proof. exact uniquify_size_lemma. Qed.
Print Assumptions C19_uniquify_size.

(* the stated focus_size_statement, with c2 = 4: Prog::focus at most quadruples the weighted size *)
Theorem C19_focus_size : focus_size_statement 4.
Proof. exact focus_prog_size_lemma. Qed.
Print Assumptions C19_focus_size.

(* ---------- round 2: Fun -> Core, whole programs, every term form ---------- *)
(* the free-variable inclusion behind it (no fragment, no scoping hypothesis): the free bindings of the
   translation of t against cont are typed variable occurrences of t (Model/SizeFun.v tocc) or free in
   cont; compiler-generated names never escape.  Hence a shared continuation has at most
   (distinct typed occurrences of the definition) + 2 parameters. *)
Theorem C19_fun2core_free_vars : forall codata cur t cont st s st',
  wc codata cur false t cont st = Fun2Core.Ok (s, st') -> cont_cns cont ->
  forall b, In b (Fun2Core.tfv_stmt s []) -> In b (tocc t) \/ In b (Fun2Core.tfv_term cont []).
Proof. exact occ_wc. Qed.
Print Assumptions C19_fun2core_free_vars.

(* one definition body: Q = 6 + (2 + k) * (|U| + 2) per source node, U any list containing the typed
   occurrences; k = 0 node counts, k = 1 weighted sizes; `lz` = everything lifted so far *)
Theorem C19_fun2core_wc_size : forall codata cur k U t cont st s st',
  wc codata cur false t cont st = Fun2Core.Ok (s, st') -> cok U cont -> incl (tocc t) U ->
  cz_stmt k s + lz k st' + 2 <= lz k st + fz k t * (6 + 2 * (len U + 2) + k * (len U + 2)) + cz_term k cont.
Proof. exact sz_wc. Qed.
Print Assumptions C19_fun2core_wc_size.

(* whole programs, all definitions incl. the lifted share_* ones and - since fix f929eb7 of /repo, when main is called -
   the entry point  main<n>(params) { main(params, mu~x. exit x) }  of 5 + #params nodes.  The slack of main's own bound
   pays for the entry point except, in the node count, for the #params argument variables (the parameters of a definition
   are not nodes of the source): additive term entry_params p (Model/SizeFun.v) = #params of main when some call targets
   main, else 0 (C19_entry_params; the term is needed: C19_fun2core_size_without_entry_refuted).  The weighted size counts
   the parameters and its bound needs no additive term.  fun_occ p = the largest number of
   DISTINCT typed variable occurrences (name, chirality, type) in one definition: for a type-checked
   program at most the parameters and binders of the definition (C19_fun2core_size_scoped); always <= size.
   Node counts: linear in size x (5 + occurrences);  weighted sizes (f_wprog counts the binders of
   clauses and definitions, c_wprog the clause/definition contexts): the form the pipeline needs. *)
Theorem C19_fun2core_size : forall p c, compile_prog p = Fun2Core.Ok c ->
  size_cprog c <= size_fcprog p * (10 + 2 * fun_occ p) + entry_params p /\
  c_wprog c <= f_wprog p * (12 + 3 * fun_occ p) /\
  fun_occ p <= size_fcprog p.
Proof.
  intros p c H. split; [exact (fun2core_size_nodes p c H)|]. split; [exact (fun2core_size_weighted p c H)|].
  exact (fun_occ_le_size p).
Qed.
Print Assumptions C19_fun2core_size.
(* the additive term: 0 when main is not called (so the statement before fix f929eb7 is the instance for such programs),
   always at most the weighted source size *)
Theorem C19_entry_params : forall p,
  (calls_main_prog p = false -> entry_params p = 0) /\ entry_params p <= f_wprog p.
Proof. intros p. split; [exact (entry_params_ncm p) | exact (entry_params_le p)]. Qed.
Print Assumptions C19_entry_params.
(* the entry point has EXACTLY 5 + #params nodes (weighted: 5 + 2 #params) *)
Theorem C19_fun2core_entry_size : forall k codata d nm ul e ule,
  compile_main false (entry_fdef d nm) codata ul = Fun2Core.Ok (e, ule) ->
  cz_defs k e = 5 + len (fdctx d) + k * len (fdctx d).
Proof. exact entry_size. Qed.
Print Assumptions C19_fun2core_entry_size.
(* without the additive term the node bound is FALSE of a value of type fcprog whose call of main passes fewer
   arguments than main has parameters (`def main(x1 .. x30) { main() }`: 2 source nodes, bound 20, 40 Core nodes); the
   type checker rejects that program.  (Whether the term can be dropped for arity-consistent programs is open.) *)
Theorem C19_fun2core_size_without_entry_refuted :
  ~ (forall p c, compile_prog p = Fun2Core.Ok c -> size_cprog c <= size_fcprog p * (10 + 2 * fun_occ p)).
Proof. exact fun2core_size_without_entry_refuted. Qed.
Print Assumptions C19_fun2core_size_without_entry_refuted.
(* non-vacuity: the call-to-main witness (corpus/fun/call_main_nontail.sc): main is called, one parameter; source 15
   nodes, output [size_cprog] nodes within the bound *)
Example C19_fun2core_size_call_main_example :
  calls_main_prog call_main_witness = true /\ entry_params call_main_witness = 1 /\
  match compile_prog call_main_witness with
  | Fun2Core.Ok c => N.leb (size_cprog c) (f2c_bound_nodes call_main_witness) && N.leb (c_wprog c) (f2c_bound_weighted call_main_witness)
  | Fun2Core.Err _ => false
  end = true.
Proof. repeat split; vm_compute; reflexivity. Qed.
Print Assumptions C19_fun2core_size_call_main_example.

(* in terms of binders, for scoped programs: occ_scoped p (Model/SizeFun.v, a boolean containment check) = every
   typed occurrence of a definition is one of its parameters / let variables / clause parameters / labels at the
   declared type; fun_tb p = the largest number of those in a definition.  This is the stated form
   size x (1 + variables), with the scoping hypothesis it needs. *)
Theorem C19_fun2core_size_scoped : forall p c, compile_prog p = Fun2Core.Ok c -> occ_scoped p = true ->
  size_cprog c <= size_fcprog p * (10 + 2 * fun_tb p) + entry_params p /\ c_wprog c <= f_wprog p * (12 + 3 * fun_tb p).
Proof. exact fun2core_size_scoped. Qed.
Print Assumptions C19_fun2core_size_scoped.

(* the form STATED in round 1 (fun2core_size_statement above, with the parameters + binders of a
   definition as second factor) quantifies over all values of type fcprog, ill-scoped ones included, and
   is false of the model for the calibrated constant 12: Proof/SizeFun2CoreRefute.v, a definition without
   binders mentioning 40 variables bound nowhere under 40 nested `case (if ..)`: 322 source nodes, 3966 Core
   nodes > 12 * 322 * (1 + 0).  The type checker rejects that program; the proved bound C19_fun2core_size
   counts the distinct typed occurrences (40 here) instead of the binders. *)
Theorem C19_fun2core_size_statement_unscoped_refuted : ~ fun2core_size_statement 12.
Proof. exact fun2core_size_statement_12_refuted. Qed.
Print Assumptions C19_fun2core_size_statement_unscoped_refuted.

(* in the size alone: quadratic, for every program the translation accepts *)
Theorem C19_fun2core_size_quadratic : forall p c, compile_prog p = Fun2Core.Ok c ->
  size_cprog c <= size_fcprog p * (10 + 2 * size_fcprog p) + entry_params p.
Proof. exact fun2core_size_quadratic. Qed.
Print Assumptions C19_fun2core_size_quadratic.

(* ---------- round 2: the cost model, discharged for x86-64 ---------- *)
(* [cost_model B K] above asks the parallel-move bound of EVERY move table tm; that is more than any back
   end can give: with duplicate target ids the spanning "tree" of the algorithm unfolds a DAG.  The
   provable form restricts the last clause to the move table of a Substitute whose old and new contexts
   have pairwise distinct ids ([cost_model_wf], Proof/SizeCodegenWf.v; the other clauses are the
   same), and the generic theorem asks that of every Substitute met ([sub_wf], Model/SizeWf.v). *)
Theorem C19_cost_model_weaker : forall {Code Temp : Type} (B : backend Code Temp) (K : N),
  cost_model B K -> cost_model_wf B K.
Proof.
  intros Code Temp B K (H1 & H2 & H3 & H4 & H5 & H6 & H7 & H8 & H9 & H10 & H11 & H12 & H13 & H14 & H15 & H16 & H17 & H18).
  repeat split; auto. intros re c code _ _ H. apply H18 in H. rewrite SizeLin.len_map in H. exact H.
Qed.
Print Assumptions C19_cost_model_weaker.

Theorem C19_codegen_size_wf : forall {Code Temp : Type} (B : backend Code Temp) (K : N), cost_model_wf B K ->
  forall types ds lc code lc', sub_wf_defs ds = true ->
  translate B types ds lc = Backend.Ok (code, lc') -> len code <= K * cg_bound_defs ds.
Proof. intros Code Temp B K H. apply translate_size_wf_cm. exact H. Qed.
Print Assumptions C19_codegen_size_wf.

(* the precondition holds of everything the linear discipline accepts, in particular of linearize's output
   for checked programs (C05_linearize_exact: prog_ok p -> lin_check_prog (linearize p)) *)
Theorem C19_lin_check_sub_wf : forall p, lin_check_prog p = true -> sub_wf_prog p = true.
Proof. exact lin_check_prog_sub_wf. Qed.
Print Assumptions C19_lin_check_sub_wf.

(* the counting lemma of the parallel-move algorithm (any temporaries): in-degree <= 1 and duplicate-free
   target sets give at most 2 pseudo-instructions per edge and one per key *)
Theorem C19_parallel_moves_count : forall (T : Type) (eqb : T -> T -> bool),
  (forall a b, reflect (a = b) (eqb a b)) ->
  forall fuel (A : amap T) rs, indeg1 T eqb A -> nodup_targets T eqb A -> spanning_forest T eqb fuel A = Some rs ->
  (List.length (flat_map (root_moves T) rs) <= 2 * List.length (all_targets T A) + List.length A)%nat.
Proof. exact parallel_moves_len. Qed.
Print Assumptions C19_parallel_moves_count.

(* ... and in-degree <= 1 cannot be dropped: a chain of d diamonds (two sources for one target) makes the first
   root's spanning tree unfold the DAG - 1020 pseudo-instructions for 32 edges and 24 keys, 16380 for 48 / 36.
   This is why the parallel-move clause of the round-1 [cost_model] (every move table) is too strong. *)
Example C19_parallel_moves_indeg1_needed :
  diamonds_count 8 = Some (1020, 32, 24) /\ diamonds_count 12 = Some (16380, 48, 36).
Proof. split; vm_compute; reflexivity. Qed.
Print Assumptions C19_parallel_moves_indeg1_needed.

(* x86-64: K = 40 + 13 * FIELDS_PER_BLOCK (= 79 with 3 fields per block) *)
Theorem C19_x86_cost_model : cost_model_wf x86_backend x86_K.
Proof. apply x86_cost_model_wf. intros c. vm_compute. discriminate. Qed.
Print Assumptions C19_x86_cost_model.

Theorem C19_x86_codegen_size : forall types ds lc code lc',
  sub_wf_defs ds = true ->
  translate x86_backend types ds lc = Backend.Ok (code, lc') -> len code <= x86_K * cg_bound_defs ds.
Proof. intros types ds lc code lc'. apply x86_translate_size. intros c. vm_compute. discriminate. Qed.
Print Assumptions C19_x86_codegen_size.

(* the whole routine: preamble, setup, argument moves, code, cleanup *)
Theorem C19_x86_compile_size : forall p lc r n lc',
  sub_wf_prog p = true -> x86_compile p lc = Backend.Ok (r, n, lc') ->
  len r <= 30 + x86_K * cg_bound_defs (pdefs p).
Proof. exact x86_compile_size. Qed.
Print Assumptions C19_x86_compile_size.

(* AArch64: K = 40 + 15 * FIELDS_PER_BLOCK (= 85); RISC-V: K = 20 + 13 * FIELDS_PER_BLOCK (= 59; the model emits
   nothing for print and rv_compile rejects programs that print, as the real back end panics there) *)
Theorem C19_a64_cost_model : cost_model_wf A64.a64_backend a64_K.
Proof. apply a64_cost_model_wf. intros c. vm_compute. discriminate. Qed.
Print Assumptions C19_a64_cost_model.

Theorem C19_a64_compile_size : forall p lc r n lc',
  sub_wf_prog p = true -> A64.a64_compile p lc = Backend.Ok (r, n, lc') ->
  len r <= 28 + a64_K * cg_bound_defs (pdefs p).
Proof. exact a64_compile_size. Qed.
Print Assumptions C19_a64_compile_size.

Theorem C19_rv_cost_model : cost_model_wf RV.rv_backend rv_K.
Proof. exact rv_cost_model_wf. Qed.
Print Assumptions C19_rv_cost_model.

Theorem C19_rv_compile_size : forall p lc r n lc',
  sub_wf_prog p = true -> RV.rv_compile p lc = Backend.Ok (r, n, lc') ->
  len r <= rv_K * cg_bound_defs (pdefs p).
Proof. exact rv_compile_size. Qed.
Print Assumptions C19_rv_compile_size.

(* ---------- round 2: the composition ---------- *)
(* AxCut after shrinking and after linearization, from the source alone (no hypothesis but that the stages
   succeed).  W = f_wprog p (weighted source size), V = fun_occ p, X = fun_X p, A = fun_A p (declarations);
     pipeline_shrunk_bound p = b_shrunk (b_focused W V) X A,   pipeline_ax_bound p = b_linearized (that),
     b_focused W V = 4 W (12 + 3 V),  b_shrunk w X A = w ((2 + X (2 + A)) + 2 (1 + X) w),
     b_linearized S = S (5 + 3 S)      (Model/SizeFun.v);
   closed forms with w = pl_w p = 12 W (4 + V), d = pl_d p = 4 + X (4 + A): d w^2 and 8 (d w^2)^2. *)
Theorem C19_pipeline_ax_size : forall p c q s,
  compile_prog p = Fun2Core.Ok c -> focus_prog c = Backend.Ok q -> shrink_prog q = SOk s ->
  ax_size_prog s <= pipeline_shrunk_bound p /\ ax_size_prog (linearize s) <= pipeline_ax_bound p /\
  pipeline_shrunk_bound p <= pl_d p * pl_w p ^ 2 /\ pipeline_ax_bound p <= 8 * (pl_d p * pl_w p ^ 2) ^ 2.
Proof.
  intros p c q s H1 H2 H3. split; [exact (pipeline_shrunk_size p c q s H1 H2 H3)|].
  split; [exact (pipeline_ax_size p c q s H1 H2 H3)|]. split; [exact (pipeline_shrunk_closed p) | exact (pipeline_ax_closed p)].
Qed.
Print Assumptions C19_pipeline_ax_size.

(* the largest context the code generator meets on a linearized statement, in terms of the statement BEFORE
   linearization (factor 2: a Create rearranges the context into rest ++ captured environment) *)
Theorem C19_lin_max_context : forall fuel s c m,
  ax_maxw (fst (lin fuel s c m)) (len c) <= 2 * len c + 2 * ax_size s.
Proof. exact lin_maxw. Qed.
Print Assumptions C19_lin_max_context.

Theorem C19_cg_bound_linearize : forall p,
  cg_bound_defs (pdefs (linearize p)) <= ax_size_prog (linearize p) * (5 + 4 * ax_size_prog p).
Proof. exact cg_bound_linearize. Qed.
Print Assumptions C19_cg_bound_linearize.

(* instructions of the x86-64 routine (preamble, setup, code, cleanup):
     <= 30 + x86_K * L * (5 + 4 S),  S = pipeline_shrunk_bound p, L = pipeline_ax_bound p,
     <= 30 + 72 * x86_K * (d w^2)^3
   i.e. degree 6 in W (4 + V) and degree 3 in the declaration coefficient: shrinking and linearization each
   square (their proved bounds are size x (1 + width) and width <= size is the only width estimate that needs no
   scoping invariant), code generation multiplies by the size before linearization.  Guard: the Substitutes
   of the linearized program have distinct ids (sub_wf; implied by lin_check_prog, which C05_linearize_exact
   gives for prog_ok inputs). *)
Theorem C19_pipeline_size : forall p c q s lc r n lc',
  compile_prog p = Fun2Core.Ok c -> focus_prog c = Backend.Ok q -> shrink_prog q = SOk s ->
  sub_wf_prog (linearize s) = true ->
  x86_compile (linearize s) lc = Backend.Ok (r, n, lc') ->
  len r <= 30 + x86_K * (pipeline_ax_bound p * (5 + 4 * pipeline_shrunk_bound p)) /\
  pipeline_ax_bound p * (5 + 4 * pipeline_shrunk_bound p) <= 72 * (pl_d p * pl_w p ^ 2) ^ 3.
Proof.
  intros p c q s lc r n lc' H1 H2 H3 HW H5. split; [exact (pipeline_x86_size p c q s lc r n lc' H1 H2 H3 HW H5)|].
  exact (pipeline_cg_closed p).
Qed.
Print Assumptions C19_pipeline_size.

(* the guard discharged through C05 (linearize_exact) when the shrunk program passes the boolean checker prog_ok
   (typed, binders unique); modelrun evaluates sub_wf on the real linearized program of every case *)
Theorem C19_pipeline_size_prog_ok : forall p c q s lc r n lc',
  compile_prog p = Fun2Core.Ok c -> focus_prog c = Backend.Ok q -> shrink_prog q = SOk s ->
  prog_ok s = true ->
  x86_compile (linearize s) lc = Backend.Ok (r, n, lc') ->
  len r <= 30 + x86_K * (pipeline_ax_bound p * (5 + 4 * pipeline_shrunk_bound p)).
Proof. exact pipeline_x86_size_prog_ok. Qed.
Print Assumptions C19_pipeline_size_prog_ok.

(* the hypotheses are satisfiable and the stage bounds are of a sensible size on a small program with two
   shared continuations (Proof/Fun2CoreExamples.v ex_shared: 33 nodes): 259 instructions; the per-stage
   bound of the code generator gives 17410, the end-to-end composition is astronomically loose *)
Example C19_pipeline_example :
  pipeline_run ex_shared =
    Some (33, 36, 5, 1, 1, (73, 84, 85, 63, 93), (660, 972), (220, 259, true, true, true),
          (10975529531126448, 209780290354108469245288878, 17410)).
Proof. vm_compute. reflexivity. Qed.
Print Assumptions C19_pipeline_example.
