(* C15: the type checker accepts exactly the well-typed programs.
   Only statements here; proofs live in Proof/Check*.v.
     check          Model/Check.v     faithful model of fun::syntax::program::Program::check
     check_repaired Model/Check.v     the same with the one-line repair of the instance-order defect
     has_type       Sem/FunTyping.v   the declarative typing rules (independent of the model)
   Full-strength statements first; both are FALSE of the faithful model (and of the real checker:
   the witnesses are in corpus/fun/c15-*.sc and are re-confirmed on every run). *)
From Coq Require Import List String Bool Permutation.
From SCC Require Import Lang.FunSyn Model.Check Sem.FunTyping Sem.FunErase Proof.CheckWitness.

(* Soundness, full statement: `forall p q, check p = COk q -> has_type p`.  False: an ill-formed
   type inside a data/codata declaration is accepted (types in declarations are checked by head
   name only, instantiated signatures only where the xtor is applied). *)
Theorem C15_check_sound_refuted : ~ (forall p q, check p = COk q -> has_type p).
Proof. exact check_sound_refuted_lemma. Qed.
Print Assumptions C15_check_sound_refuted.

(* Completeness, full statement: `forall p, has_type p -> exists q, check p = COk q`.  False: a
   constructor or `new` checked against a type whose instance has not been created yet is
   "undefined" (instances are created lazily, in the order in which types are met). *)
Theorem C15_check_complete_refuted : ~ (forall p, has_type p -> exists q, check p = COk q).
Proof. exact check_complete_refuted_lemma. Qed.
Print Assumptions C15_check_complete_refuted.

(* ... and acceptance is not even invariant under reordering the definitions of a program. *)
Theorem C15_check_order_dependent_refuted :
  exists p p', Permutation (fpdecls p) (fpdecls p') /\ (exists q, check p = COk q) /\ (exists e, check p' = CErr e).
Proof.
  exists p_instance_order_fixed, p_instance_order_late.
  destruct check_order_dependent_lemma as [Ha [Hr Hp]].
  split; [exact Hp|]. split; [exact Ha|]. eexists; exact Hr.
Qed.
Print Assumptions C15_check_order_dependent_refuted.
