(* C15: the type checker accepts exactly the well-typed programs.
   Only statements here; proofs live in Proof/Check*.v.
     check            Model/Check.v     faithful model of fun::syntax::program::Program::check (as it is
                                        since fixes d524b1f, eb42971, 5b8c76f of /repo)
     check_before_fix Model/Check.v     the same without the line that fix d524b1f added (regression statements)
     old_check_decls  Model/Check.v     the same with the declaration types checked by head name only, the code
                                        before fix eb42971 (regression statements)
     old_check_main   Model/Check.v     the same without the comparison of main's return type with i64, the code
                                        before fix 5b8c76f (regression statements; C12)
     has_type         Sem/FunTyping.v   the declarative typing rules (independent of the model)
   Soundness was FALSE of the checker until fix eb42971 (types written in data/codata declarations were checked
   by head name only; former known finding C15-lazy-declaration-types, witnesses corpus/fun/c15-ill-accepted-*.sc,
   now regression inputs).  Completeness was false until fix d524b1f (instance-creation order; witnesses
   corpus/fun/c15-wt-instance-order*.sc).  Now: for identifier-like names (every parsed program) the checker
   DECIDES the typing rules (C15_check_exact_poly_partial, C15_check_decides). *)
From Coq Require Import List String Bool Permutation.
From SCC Require Import Lang.SynUtil Lang.FunSyn Model.Check Sem.FunTyping Sem.FunErase Proof.CheckWitness Proof.CheckAnn Proof.TypingReject Proof.CheckMono Proof.CheckProof.
From SCC Require Import Proof.PrintInj Proof.CheckPoly Proof.CheckPolySound Proof.CheckPolyProg Proof.CheckPolyProgC Proof.CheckPolyProof.
From SCC Require Import Sem.FunNames Sem.FunClosed Proof.CheckBuild Proof.CheckInst Proof.CheckArity Proof.CheckScope Proof.CheckDecls Proof.CheckFixed.
Import ListNotations.

(* Soundness, full statement: `forall p q, check p = COk q -> has_type p`.
   REGRESSION (fix eb42971): it was false of the checker that looked only at the head name of a type inside a
   data/codata declaration ([old_check_decls]) - for a PARSED program (identifier-like names): `data Foo { C(x: List) }`
   with `data List[A] {..}` was accepted.  The witness is rejected by [check] now (C15_declaration_witnesses_rejected).
   For the current checker soundness is proved for all programs with identifier-like names
   (C15_check_sound_poly_partial below); over ALL syntax trees the statement stays false for a reason no parser can
   trigger (C15_names_guard_needed: a type literally named `List[i64]`). *)
Theorem C15_regression_old_check_decls_unsound :
  ~ (forall p q, prog_names_ok p = true -> old_check_decls p = COk q -> has_type p).
Proof.
  intro H. destruct decl_type_args_accepted_before_fix as [q Hq].
  assert (Hn : prog_names_ok p_decl_type_args = true) by (vm_compute; reflexivity).
  specialize (H _ _ Hn Hq). unfold has_type in H. rewrite decl_type_args_ill_typed in H. discriminate.
Qed.
Print Assumptions C15_regression_old_check_decls_unsound.
(* the three shapes of the former finding (wrong number of type arguments, undeclared type in argument position, type
   parameter applied to arguments): ill-typed, accepted by the old code, rejected by the checker - the witnesses
   discriminate *)
Theorem C15_declaration_witnesses_rejected :
  (has_type_b p_decl_type_args = false /\ (exists q, old_check_decls p_decl_type_args = COk q)
     /\ check p_decl_type_args = CErr EWrongNumberOfTypeArguments)
  /\ (has_type_b p_decl_unknown_type = false /\ (exists q, old_check_decls p_decl_unknown_type = COk q)
     /\ check p_decl_unknown_type = CErr EUndefined)
  /\ (has_type_b p_param_applied = false /\ (exists q, old_check_decls p_param_applied = COk q)
     /\ check p_param_applied = CErr EWrongNumberOfTypeArguments).
Proof.
  exact (conj (conj decl_type_args_ill_typed (conj decl_type_args_accepted_before_fix decl_type_args_rejected))
        (conj (conj decl_unknown_type_ill_typed (conj decl_unknown_type_accepted_before_fix decl_unknown_type_rejected))
              (conj param_applied_ill_typed (conj param_applied_accepted_before_fix param_applied_rejected)))).
Qed.
Print Assumptions C15_declaration_witnesses_rejected.
(* old_check_gen with both switches on IS the checker: the old_ copies differ from it in exactly the repaired places *)
Theorem C15_old_check_gen_current : forall p, old_check_gen true true p = check p.
Proof. exact old_check_gen_current. Qed.
Print Assumptions C15_old_check_gen_current.

(* ---------- partial versions: programs without type parameters and type arguments ----------
   [mono_prog p] (Proof/CheckMono.v): every data/codata declaration has an empty parameter list,
   every type written in the program is i64 or a declared name without arguments, every case and
   destructor call has an empty type-argument list.
   GAP: for programs WITH type parameters neither direction is proved (there both rest on the
   correspondence run).  Soundness is false there (witness above; the conjecture is that it holds
   once the declarations are required to be well-formed, [decls_ok]); completeness is conjectured.
   What is missing is the injectivity of printed instance names ([print_ty]) for identifier-like
   names and the agreement of HashMap-based substitution with positional instantiation. *)
Theorem C15_check_sound_partial : forall p q, mono_prog p = true -> check p = COk q -> has_type p.
Proof. exact check_sound_partial. Qed.
Print Assumptions C15_check_sound_partial.

(* Completeness, full statement `forall p, has_type p -> exists q, check p = COk q`: proved on the
   fragment ... *)
Theorem C15_check_complete_partial :
  forall p, mono_prog p = true -> has_type p -> exists q, check p = COk q.
Proof. exact check_complete_partial. Qed.
Print Assumptions C15_check_complete_partial.
(* ... so on the fragment the checker decides the typing rules, and its verdict depends on the
   order of the declarations only as far as the rules' verdict does. *)
Theorem C15_check_exact_partial :
  forall p, mono_prog p = true -> (has_type p <-> exists q, check p = COk q).
Proof. exact check_exact_partial. Qed.
Print Assumptions C15_check_exact_partial.
Theorem C15_check_order_independent_partial : forall p p', mono_prog p = true -> mono_prog p' = true ->
  (has_type p <-> has_type p') -> ((exists q, check p = COk q) <-> (exists q, check p' = COk q)).
Proof. exact check_order_independent_partial. Qed.
Print Assumptions C15_check_order_independent_partial.

(* The former counterexamples to completeness (a constructor / `new` checked against a type whose
   instance no earlier definition had created) are accepted, in every order of the definitions ... *)
Theorem C15_instance_order_witnesses_accepted :
  (exists q, check p_instance_order = COk q) /\ (exists q, check p_instance_order_fixed = COk q)
  /\ (exists q, check p_instance_order_late = COk q).
Proof. exact (conj instance_order_accepted (conj instance_order_fixed_accepted instance_order_late_accepted)). Qed.
Print Assumptions C15_instance_order_witnesses_accepted.
(* ... and they are discriminating regression inputs: without the line added by fix d524b1f the
   model rejects the first (a well-typed program of the fragment) and accepts or rejects the other
   two depending on the order of the same declarations; on the fragment that was the only possible
   wrong rejection (Undefined). *)
Theorem C15_regression_before_fix_incomplete :
  ~ (forall p, mono_prog p = true -> has_type p -> exists q, check_before_fix p = COk q).
Proof. exact check_before_fix_incomplete_in_fragment. Qed.
Print Assumptions C15_regression_before_fix_incomplete.
Theorem C15_regression_before_fix_order_dependent :
  exists p p', Permutation (fpdecls p) (fpdecls p') /\ (exists q, check_before_fix p = COk q) /\ (exists e, check_before_fix p' = CErr e).
Proof.
  exists p_instance_order_fixed, p_instance_order_late.
  destruct check_before_fix_order_dependent as [Ha [Hr Hp]].
  split; [exact Hp|]. split; [exact Ha|]. eexists; exact Hr.
Qed.
Print Assumptions C15_regression_before_fix_order_dependent.
Theorem C15_regression_before_fix_undefined_only_partial : forall p, mono_prog p = true -> has_type p ->
  (exists q, check_before_fix p = COk q) \/ check_before_fix p = CErr EUndefined.
Proof. exact check_before_fix_undefined_only_partial. Qed.
Print Assumptions C15_regression_before_fix_undefined_only_partial.

(* ---------- the checked program is the parsed program plus annotations ---------- *)
(* For every accepted program: the checked definitions are the parsed definitions, in the same
   order, with the same names, parameters and result types; each body is the parsed body with
   annotation fields filled in and the clauses of every case/new permuted ([ann_of]: same tree up
   to ty/chi/clause-context fields and clause order) ... *)
Theorem C15_check_annotates :
  forall p q, check p = COk q -> Forall2 def_ann (fcpdefs q) (defs_of (fpdecls p)).
Proof. exact check_annotates. Qed.
Print Assumptions C15_check_annotates.
(* ... and no annotation is missing. *)
Theorem C15_check_annotated : forall p q, check p = COk q -> annotated_fcprog q = true.
Proof. exact check_annotated. Qed.
Print Assumptions C15_check_annotated.

(* ---------- single ill-typed edits are rejected by the typing rules ----------
   "for all programs and all sites": the conclusion holds for EVERY program that contains the
   edited construct ANYWHERE in the body of a definition ([occurs]); no hypothesis on the rest of
   the program (it need not be well-typed). *)
Theorem C15_reject_wrong_argument_count_call : forall p d f args r,
  In d (fdefs (fpdecls p)) -> occurs (FCall f args r) (fdbody d) ->
  (forall d', find_def (fdefs (fpdecls p)) f = Some d' -> List.length args <> List.length (fdctx d')) ->
  has_type_b p = false.
Proof. exact reject_wrong_argument_count_call. Qed.
Print Assumptions C15_reject_wrong_argument_count_call.
Theorem C15_reject_wrong_argument_count_ctor : forall p d k args r,
  In d (fdefs (fpdecls p)) -> occurs (FCtor k args r) (fdbody d) ->
  (forall td sg, In td (tdecls (fpdecls p)) -> find_xsig td k = Some sg -> List.length args <> List.length (xs_args sg)) ->
  has_type_b p = false.
Proof. exact reject_wrong_argument_count_ctor. Qed.
Print Assumptions C15_reject_wrong_argument_count_ctor.
Theorem C15_reject_wrong_argument_count_dtor : forall p d s k targs args r,
  In d (fdefs (fpdecls p)) -> occurs (FDtor s k targs args r) (fdbody d) ->
  (forall td sg, In td (tdecls (fpdecls p)) -> find_xsig td k = Some sg -> List.length args <> List.length (xs_args sg)) ->
  has_type_b p = false.
Proof. exact reject_wrong_argument_count_dtor. Qed.
Print Assumptions C15_reject_wrong_argument_count_dtor.

(* a variable that is neither a parameter nor bound by a let / label / clause of the body *)
Theorem C15_reject_unbound_variable : forall p d x a c,
  In d (fdefs (fpdecls p)) -> occurs (FVar x a c) (fdbody d) ->
  ~ In x (map fbvar (fdctx d)) -> ~ In x (binders (fdbody d)) ->
  has_type_b p = false.
Proof. exact reject_unbound_variable. Qed.
Print Assumptions C15_reject_unbound_variable.

(* a case in which some constructor of the matched type has no clause (removing a clause of a
   well-typed case gives exactly this), or with no clause at all *)
Theorem C15_reject_missing_clause : forall p d s targs c0 cls r,
  In d (fdefs (fpdecls p)) -> occurs (FCase s targs (c0 :: cls) r) (fdbody d) ->
  (forall td sg, find_xtor (tdecls (fpdecls p)) FData (clause_xtor c0) = Some (td, sg) ->
     exists k, In k (map xs_name (td_xtors td)) /\ ~ In k (map clause_xtor (c0 :: cls))) ->
  has_type_b p = false.
Proof. exact reject_missing_clause_case. Qed.
Print Assumptions C15_reject_missing_clause.
Theorem C15_reject_empty_case : forall p d s targs r,
  In d (fdefs (fpdecls p)) -> occurs (FCase s targs [] r) (fdbody d) -> has_type_b p = false.
Proof. exact reject_empty_case. Qed.
Print Assumptions C15_reject_empty_case.
(* for `new` the missing destructor is relative to the type the term is checked against (the same
   clause list may be complete for another codata type), so the statement is local: at that type the
   term is ill-typed in every environment. *)
Theorem C15_reject_missing_clause_new_partial : forall ts fs cls r n targs td k,
  find_type ts n = Some td -> In k (map xs_name (td_xtors td)) -> ~ In k (map clause_xtor cls) ->
  forall G, chk ts fs G (FNew cls r) (FDecl n targs) = false.
Proof. exact new_missing_clause. Qed.
Print Assumptions C15_reject_missing_clause_new_partial.

Theorem C15_reject_duplicated_clause_case : forall p d s targs cls r x l1 l2 l3,
  In d (fdefs (fpdecls p)) -> occurs (FCase s targs cls r) (fdbody d) ->
  map clause_xtor cls = l1 ++ x :: l2 ++ x :: l3 -> has_type_b p = false.
Proof. exact reject_duplicated_clause_case. Qed.
Print Assumptions C15_reject_duplicated_clause_case.
Theorem C15_reject_duplicated_clause_new : forall p d cls r x l1 l2 l3,
  In d (fdefs (fpdecls p)) -> occurs (FNew cls r) (fdbody d) ->
  map clause_xtor cls = l1 ++ x :: l2 ++ x :: l3 -> has_type_b p = false.
Proof. exact reject_duplicated_clause_new. Qed.
Print Assumptions C15_reject_duplicated_clause_new.
Theorem C15_reject_extra_clause : forall p d s targs c0 cls r c,
  In d (fdefs (fpdecls p)) -> occurs (FCase s targs (c0 :: cls) r) (fdbody d) -> In c (c0 :: cls) ->
  (forall td sg, find_xtor (tdecls (fpdecls p)) FData (clause_xtor c0) = Some (td, sg) ->
     ~ In (clause_xtor c) (map xs_name (td_xtors td))) ->
  has_type_b p = false.
Proof. exact reject_extra_clause_case. Qed.
Print Assumptions C15_reject_extra_clause.
Theorem C15_reject_wrong_binder_count_case : forall p d s targs c0 cls r pl x xs cx body,
  In d (fdefs (fpdecls p)) -> occurs (FCase s targs (c0 :: cls) r) (fdbody d) ->
  In (FClause pl x xs cx body) (c0 :: cls) ->
  (forall td sg, In td (tdecls (fpdecls p)) -> find_xsig td x = Some sg -> List.length xs <> List.length (xs_args sg)) ->
  has_type_b p = false.
Proof. exact reject_wrong_binder_count_case. Qed.
Print Assumptions C15_reject_wrong_binder_count_case.
Theorem C15_reject_wrong_binder_count_new : forall p d cls r pl x xs cx body,
  In d (fdefs (fpdecls p)) -> occurs (FNew cls r) (fdbody d) -> In (FClause pl x xs cx body) cls ->
  (forall td sg, In td (tdecls (fpdecls p)) -> find_xsig td x = Some sg -> List.length xs <> List.length (xs_args sg)) ->
  has_type_b p = false.
Proof. exact reject_wrong_binder_count_new. Qed.
Print Assumptions C15_reject_wrong_binder_count_new.
Theorem C15_reject_wrong_type_argument_count_dtor : forall p d s k targs args r,
  In d (fdefs (fpdecls p)) -> occurs (FDtor s k targs args r) (fdbody d) ->
  (forall td sg, In td (tdecls (fpdecls p)) -> find_xsig td k = Some sg -> List.length targs <> List.length (td_params td)) ->
  has_type_b p = false.
Proof. exact reject_wrong_type_argument_count_dtor. Qed.
Print Assumptions C15_reject_wrong_type_argument_count_dtor.
Theorem C15_reject_wrong_type_argument_count_case : forall p d s targs c0 cls r,
  In d (fdefs (fpdecls p)) -> occurs (FCase s targs (c0 :: cls) r) (fdbody d) ->
  (forall td sg, In td (tdecls (fpdecls p)) -> find_xsig td (clause_xtor c0) = Some sg -> List.length targs <> List.length (td_params td)) ->
  has_type_b p = false.
Proof. exact reject_wrong_type_argument_count_case. Qed.
Print Assumptions C15_reject_wrong_type_argument_count_case.
Theorem C15_reject_unknown_definition : forall p d f args r,
  In d (fdefs (fpdecls p)) -> occurs (FCall f args r) (fdbody d) -> find_def (fdefs (fpdecls p)) f = None ->
  has_type_b p = false.
Proof. exact reject_unknown_definition. Qed.
Print Assumptions C15_reject_unknown_definition.
Theorem C15_reject_unknown_constructor : forall p d k args r,
  In d (fdefs (fpdecls p)) -> occurs (FCtor k args r) (fdbody d) ->
  (forall td, In td (tdecls (fpdecls p)) -> find_xsig td k = None) -> has_type_b p = false.
Proof. exact reject_unknown_constructor. Qed.
Print Assumptions C15_reject_unknown_constructor.
Theorem C15_reject_unknown_destructor : forall p d s k targs args r,
  In d (fdefs (fpdecls p)) -> occurs (FDtor s k targs args r) (fdbody d) ->
  (forall td, In td (tdecls (fpdecls p)) -> find_xsig td k = None) -> has_type_b p = false.
Proof. exact reject_unknown_destructor. Qed.
Print Assumptions C15_reject_unknown_destructor.

(* two definitions, or two type declarations, with the same name anywhere in a program; a
   constructor declared twice in one data type *)
Theorem C15_reject_duplicate_declaration : forall l1 d l2 d' l3,
  same_kind d d' = true -> decl_name d = decl_name d' ->
  has_type_b (mkfprog (l1 ++ d :: l2 ++ d' :: l3)) = false.
Proof. exact reject_duplicate_declaration. Qed.
Print Assumptions C15_reject_duplicate_declaration.
Theorem C15_reject_duplicate_constructor : forall l1 n ps c1 k sg1 c2 sg2 c3 l2,
  has_type_b (mkfprog (l1 ++ FDData (mkfdata n ps (c1 ++ mkfctor k sg1 :: c2 ++ mkfctor k sg2 :: c3)) :: l2)) = false.
Proof. exact reject_duplicate_constructor. Qed.
Print Assumptions C15_reject_duplicate_constructor.

(* ====================================================================================================
   Round 2: the polymorphic fragment (type parameters, type arguments, instances keyed by printed names)
   ==================================================================================================== *)

(* ---------- soundness and completeness for programs WITH type parameters ----------
   One boolean guard:
     [prog_names_ok p]  (Sem/FunNames.v)  every type / constructor / destructor name occurring in p
        is free of the characters "[" "]" "," " " and is not "i64".  True of every parsed program (the lexer's
        classes [A-Z][a-zA-Z0-9_]* and [a-z][a-zA-Z0-9_]*, "i64" being a keyword); needed because instances are
        keyed by PRINTED names: without it a type may be NAMED like an instance ([C15_names_guard_needed]).
   The former second guard [decl_types_wf ts] (Sem/FunNames.v: the types written inside the data/codata declarations
   are well-formed) is no longer a hypothesis: since fix eb42971 the checker ESTABLISHES it, for all programs
   (C15_check_accepts_only_wf_declarations).
   GAP to the full statement: none other than the guard on names. *)
Theorem C15_check_accepts_only_wf_declarations : forall p q,
  check p = COk q -> decl_types_wf (tdecls (fpdecls p)) = true.
Proof. exact (check_gen_decl_types_wf true). Qed.
Print Assumptions C15_check_accepts_only_wf_declarations.
Theorem C15_check_rejects_ill_formed_declaration : forall p,
  decl_types_wf (tdecls (fpdecls p)) = false -> exists e, check p = CErr e.
Proof. exact (check_gen_rejects_ill_formed_decl true). Qed.
Print Assumptions C15_check_rejects_ill_formed_declaration.
(* the check of a declaration type is exactly the rule, in every state the checker can be in: *)
Theorem C15_check_template_exact : forall ts fs st ps t, tables ts fs st ->
  forallb (fun p => negb (is_some (find_type ts p))) ps = true ->
  (ty_check_template st ps t = COk tt <-> wf_tty ts ps t = true).
Proof. intros ts fs st ps t Tb Hf. exact (ty_check_template_iff ts fs st Tb ps Hf t). Qed.
Print Assumptions C15_check_template_exact.
(* nothing is instantiated by that check, so non-regular recursion in a declaration is fine:
   data Wrap[A] { W(x: A) }  data Nest[A] { Flat(x: A), Deep(n: Nest[Wrap[A]]) } with Deep(Flat(W(5))) : Nest[i64] *)
Example C15_nonregular_declaration_accepted :
  has_type_b p_nest = true /\ prog_names_ok p_nest = true
  /\ exists q, check p_nest = COk q /\ map fdaname (fcpdata q) = ["Nest[Wrap[i64]]"; "Nest[i64]"; "Wrap[i64]"]%string.
Proof. exact nest_accepted. Qed.
Print Assumptions C15_nonregular_declaration_accepted.

Theorem C15_check_sound_poly_partial : forall p q,
  prog_names_ok p = true -> check p = COk q -> has_type p.
Proof. exact check_sound. Qed.
Print Assumptions C15_check_sound_poly_partial.
Theorem C15_check_complete_poly_partial : forall p,
  prog_names_ok p = true -> has_type p -> exists q, check p = COk q.
Proof. exact check_complete_poly'. Qed.
Print Assumptions C15_check_complete_poly_partial.
(* for identifier-like names the checker accepts exactly the programs that satisfy the typing rules ... *)
Theorem C15_check_exact_poly_partial : forall p, prog_names_ok p = true ->
  (has_type p <-> exists q, check p = COk q).
Proof. exact check_exact. Qed.
Print Assumptions C15_check_exact_poly_partial.
(* ... i.e. it decides them: every program is accepted or rejected according to the boolean specification *)
Theorem C15_check_decides : forall p, prog_names_ok p = true ->
  (has_type_b p = true -> exists q, check p = COk q) /\ (has_type_b p = false -> exists e, check p = CErr e).
Proof. exact check_decides. Qed.
Print Assumptions C15_check_decides.
Theorem C15_check_order_independent_poly_partial : forall p p', prog_names_ok p = true -> prog_names_ok p' = true ->
  (has_type p <-> has_type p') -> ((exists q, check p = COk q) <-> (exists q, check p' = COk q)).
Proof. exact check_order_independent. Qed.
Print Assumptions C15_check_order_independent_poly_partial.
(* the checker before fix d524b1f was sound under the same guard, so that fix only added acceptances *)
Theorem C15_regression_before_fix_sound_poly_partial : forall p q,
  prog_names_ok p = true -> check_before_fix p = COk q ->
  has_type p /\ exists q', check p = COk q'.
Proof. exact check_before_fix_sound. Qed.
Print Assumptions C15_regression_before_fix_sound_poly_partial.
(* the entry point (fix 5b8c76f; the rule `main : i64` of Sem/FunTyping.v def_ok): in the checked program every
   definition named main returns i64 - for ALL programs; a main of another type is rejected with Mismatch (the former
   witness of C12's finding main-non-integer-result, accepted by the code before the fix) *)
Theorem C15_check_main_i64 : forall p q d,
  check p = COk q -> In d (fcpdefs q) -> fdname d = "main"%string -> fdret d = FI64.
Proof. exact check_main_i64. Qed.
Print Assumptions C15_check_main_i64.
Example C15_main_witness_rejected :
  check p_main_nonint = CErr EMismatch /\ has_type_b p_main_nonint = false /\ prog_names_ok p_main_nonint = true
  /\ exists q, old_check_main p_main_nonint = COk q.
Proof. exact main_nonint_rejected. Qed.
Print Assumptions C15_main_witness_rejected.
(* the guards are satisfiable by a program with nested instances at several types, which is well-typed
   and accepted (corpus/fun/c15-poly-nested-instances.sc) ... *)
Example C15_poly_guards_satisfiable :
  prog_names_ok p_poly = true /\ decl_types_wf (tdecls (fpdecls p_poly)) = true /\ has_type p_poly
  /\ exists q, check p_poly = COk q
       /\ map fdaname (fcpdata q) = ["List[List[i64]]"; "List[i64]"; "Pair[List[i64], i64]"; "Pair[i64, List[i64]]"]%string
       /\ map fcoaname (fcpcodata q) = ["Fun[i64, i64]"]%string.
Proof. exact (conj p_poly_names_ok (conj p_poly_decl_types_wf (conj p_poly_well_typed p_poly_accepted))). Qed.
Print Assumptions C15_poly_guards_satisfiable.
(* ... and the name guard cannot be dropped (a syntax tree whose type is literally named "List[i64]"; no parsed
   program): the full statement over ALL syntax trees is false *)
Theorem C15_names_guard_needed :
  ~ (forall p q, decl_types_wf (tdecls (fpdecls p)) = true -> check p = COk q -> has_type p).
Proof. exact check_sound_without_names_guard_refuted. Qed.
Print Assumptions C15_names_guard_needed.
Theorem C15_check_sound_all_syntax_trees_refuted : ~ (forall p q, check p = COk q -> has_type p).
Proof. intro H. apply check_sound_without_names_guard_refuted. intros p q _ Hq. exact (H p q Hq). Qed.
Print Assumptions C15_check_sound_all_syntax_trees_refuted.

(* ---------- the instance table ----------
   Instances are keyed by PRINTED names (`List[i64]`, `Pair[i64, List[i64]]`); later stages find the
   declaration of a type by that name (fun2core::compile_ty, lookup_type_declaration: "Type .. not found").
   (a) printing is injective in (head, arguments) for identifier-like names - two different instances never
       share a name, and no parsed declaration can be named like an instance; without the condition it is not; *)
Theorem C15_instance_names_injective : forall n1 a1 n2 a2,
  name_ok n1 = true -> name_ok n2 = true -> tys_names_ok a1 = true -> tys_names_ok a2 = true ->
  print_ty (FDecl n1 a1) = print_ty (FDecl n2 a2) -> n1 = n2 /\ a1 = a2.
Proof.
  intros n1 a1 n2 a2 H1 H2 A1 A2 E.
  assert (FDecl n1 a1 = FDecl n2 a2) as Heq by (apply print_ty_inj; [rewrite ty_names_ok_decl, H1, A1|rewrite ty_names_ok_decl, H2, A2|exact E]; reflexivity).
  inversion Heq. auto.
Qed.
Print Assumptions C15_instance_names_injective.
Example C15_instance_names_collide_without_guard :
  print_ty (FDecl "List" [FI64]) = print_ty (FDecl "List[i64]" [])
  /\ print_ty (FDecl "P" [FDecl "A" []; FDecl "B" []]) = print_ty (FDecl "P" [FDecl "A, B" []])
  /\ print_ty (FDecl "P" [FI64]) = print_ty (FDecl "P" [FDecl "i64" []]).
Proof. exact print_collision_without_name_ok. Qed.
Print Assumptions C15_instance_names_collide_without_guard.
(* (b) the declarations of the checked program have pairwise different names ... *)
Theorem C15_instance_names_distinct : forall p q,
  prog_names_ok p = true -> check p = COk q -> NoDup (decl_names q).
Proof. exact (check_instance_names_distinct true). Qed.
Print Assumptions C15_instance_names_distinct.
(* ... and each of them is a declared template instantiated (positionally) at well-formed type arguments,
   under the printed name of that instance; *)
Theorem C15_instances_are_instantiated_templates : forall p q,
  prog_names_ok p = true -> check p = COk q ->
  Forall (is_data_instance (tdecls (fpdecls p))) (fcpdata q) /\ Forall (is_codata_instance (tdecls (fpdecls p))) (fcpcodata q).
Proof. exact (check_instances_spec true). Qed.
Print Assumptions C15_instances_are_instantiated_templates.
(* (c) closure. [defs_closed q] (Sem/FunClosed.v): every type of a definition signature, every let annotation,
   every annotation of a variable / call / constructor / destructor / `new` term and every type argument of a
   destructor call or case is i64 or has a declaration in q under its printed name.  These are the types of all
   producers, i.e. everything a later stage looks up.  GAP to the full statement [fcprog_closed]: the field types
   of the instance declarations, the binder contexts of clauses and the annotations merely passed down
   (if / print / let / label / goto / exit / case) need not be declared - see the refutation below. *)
Theorem C15_output_closed_partial : forall p q,
  prog_names_ok p = true -> check p = COk q -> defs_closed q = true.
Proof. exact (check_output_closed true). Qed.
Print Assumptions C15_output_closed_partial.
(* the declared names are closed under type arguments: with `List[Pair[i64, Foo]]` also `Pair[i64, Foo]` and `Foo` *)
Theorem C15_instances_closed_under_type_arguments : forall p q n a,
  prog_names_ok p = true -> check p = COk q -> name_ok n = true -> tys_names_ok a = true ->
  In (print_ty (FDecl n a)) (decl_names q) -> forallb (ty_declared (decl_names q)) a = true.
Proof. exact (check_instances_closed_under_targs true). Qed.
Print Assumptions C15_instances_closed_under_type_arguments.
(* full closure is FALSE of the faithful model and of the real checker (corpus/fun/c15_unused_field_type.sc,
   c15_unused_instance_field.sc): create_instance inserts the substituted field types without Ty::check, clause
   binders are not checked either.  Not a defect by itself: the program is well-typed, and no later stage looks the
   undeclared type up (C12's stage checkers and all three code generators accept the witnesses). *)
Theorem C15_output_closed_refuted : ~ (forall p q, has_type p -> check p = COk q -> fcprog_closed q = true).
Proof. exact output_closed_refuted. Qed.
Print Assumptions C15_output_closed_refuted.
Example C15_output_closed_witness :
  prog_names_ok p_unused_field_type = true /\ has_type_b p_unused_field_type = true
  /\ exists q, check p_unused_field_type = COk q /\ decl_names q = ["Foo"%string] /\ defs_closed q = true /\ fcprog_closed q = false.
Proof. exact unused_field_type_witness. Qed.
Print Assumptions C15_output_closed_witness.
(* (d) the internal panic of check_with_table ("Couldn't find constructor .. in symbol_table") is unreachable:
   once the definitions are checked, every instance has all its xtor instances *)
Theorem C15_collect_cannot_panic : forall p st defs st1,
  prog_names_ok p = true -> build_symbol_table p = COk st ->
  check_defs (defs_of (fpdecls p)) st = COk (defs, st1) ->
  exists das cos, collect_types st1 (st_types st1) = COk (das, cos).
Proof. exact (collect_cannot_panic true). Qed.
Print Assumptions C15_collect_cannot_panic.

(* ---------- arity: a wrong number of type arguments is rejected by the CHECKER at every site ----------
   [bad_arity ts t] (Proof/CheckArity.v): somewhere inside t (at the top or nested in its arguments) a declared
   type is applied to a number of arguments different from its number of parameters - too few or too many.
   One theorem per site; "for all programs" with identifier-like names (every parsed program).  They rest on
   Ty::check being sound for [wf_ty], whose arity test is an equality: with the model's test
   `args.len() != params.len()` weakened to `<` the proofs fail (tried: Proof/CheckPoly.v breaks, the theorems of
   round 1 do not).  Surplus and missing arguments at every syntactic site are the mutation class `type-args`
   of the correspondence run. *)
Theorem C15_arity_definition_signature : forall p d t, prog_names_ok p = true -> In d (fdefs (fpdecls p)) ->
  In t (fdret d :: map fbty (fdctx d)) -> bad_arity (tdecls (fpdecls p)) t -> exists e, check p = CErr e.
Proof. exact arity_def_signature. Qed.
Print Assumptions C15_arity_definition_signature.
Theorem C15_arity_let_annotation : forall p d x vty a b r, prog_names_ok p = true -> In d (fdefs (fpdecls p)) ->
  occurs (FLet x vty a b r) (fdbody d) -> bad_arity (tdecls (fpdecls p)) vty -> exists e, check p = CErr e.
Proof. exact arity_let_annotation. Qed.
Print Assumptions C15_arity_let_annotation.
Theorem C15_arity_destructor : forall p d s k targs args r, prog_names_ok p = true -> In d (fdefs (fpdecls p)) ->
  occurs (FDtor s k targs args r) (fdbody d) ->
  (forall td sg, In td (tdecls (fpdecls p)) -> find_xsig td k = Some sg -> List.length targs <> List.length (td_params td))
  \/ (exists t, In t targs /\ bad_arity (tdecls (fpdecls p)) t) ->
  exists e, check p = CErr e.
Proof. exact arity_destructor. Qed.
Print Assumptions C15_arity_destructor.
Theorem C15_arity_case : forall p d s targs c0 cls r, prog_names_ok p = true -> In d (fdefs (fpdecls p)) ->
  occurs (FCase s targs (c0 :: cls) r) (fdbody d) ->
  (forall td sg, In td (tdecls (fpdecls p)) -> find_xsig td (clause_xtor c0) = Some sg -> List.length targs <> List.length (td_params td))
  \/ (exists t, In t targs /\ bad_arity (tdecls (fpdecls p)) t) ->
  exists e, check p = CErr e.
Proof. exact arity_case. Qed.
Print Assumptions C15_arity_case.
(* constructor and `new` carry no type arguments of their own: the arguments are those of the type they are
   checked against.  In every state the checker can be in ([tables], [pinv]: established by build_symbol_table,
   preserved by every step) the check against a declared type with a wrong number of arguments fails. *)
Theorem C15_arity_constructor : forall ts fs, poly_world ts fs -> forall eager st ctx x args r n targs td,
  tables ts fs st -> pinv ts st -> ctx_names_ok ctx = true ->
  term_names_ok (FCtor x args r) = true -> ty_names_ok (FDecl n targs) = true ->
  find_type ts n = Some td -> List.length targs <> List.length (td_params td) ->
  exists e, check_term_gen eager (FCtor x args r) st ctx (FDecl n targs) = CErr e.
Proof. exact arity_constructor. Qed.
Print Assumptions C15_arity_constructor.
Theorem C15_arity_new : forall ts fs, poly_world ts fs -> forall eager st ctx cls r n targs td,
  tables ts fs st -> pinv ts st -> ctx_names_ok ctx = true ->
  term_names_ok (FNew cls r) = true -> ty_names_ok (FDecl n targs) = true ->
  find_type ts n = Some td -> List.length targs <> List.length (td_params td) ->
  exists e, check_term_gen eager (FNew cls r) st ctx (FDecl n targs) = CErr e.
Proof. exact arity_new. Qed.
Print Assumptions C15_arity_new.
(* Ty::check itself *)
Theorem C15_arity_ty_check : forall ts fs, poly_world ts fs -> forall st t,
  tables ts fs st -> pinv ts st -> ty_names_ok t = true -> bad_arity ts t -> exists e, ty_check t st = CErr e.
Proof. exact arity_ty_check. Qed.
Print Assumptions C15_arity_ty_check.
(* the types written in data/codata declarations: the SPECIFICATION rejects, for all programs ... *)
Theorem C15_reject_wrong_type_argument_count_decl_field : forall p td s t,
  In td (tdecls (fpdecls p)) -> In s (td_xtors td) ->
  (In t (map fbty (xs_args s)) \/ xs_ret s = Some t) ->
  bad_arity_in_decl (tdecls (fpdecls p)) (td_params td) t -> has_type_b p = false.
Proof. exact reject_wrong_type_argument_count_decl_field. Qed.
Print Assumptions C15_reject_wrong_type_argument_count_decl_field.
(* ... and since fix eb42971 so does the checker, for all programs (no guard at all) ... *)
Theorem C15_arity_declaration_field : forall p td s t, In td (tdecls (fpdecls p)) -> In s (td_xtors td) ->
  (In t (map fbty (xs_args s)) \/ xs_ret s = Some t) ->
  bad_arity_in_decl (tdecls (fpdecls p)) (td_params td) t -> exists e, check p = CErr e.
Proof. exact arity_decl_field. Qed.
Print Assumptions C15_arity_declaration_field.
(* ... regression: the checker before that fix did not (witness `data Foo { C(x: List) }`) *)
Theorem C15_regression_old_arity_declaration_field_refuted :
  ~ (forall p td s t, prog_names_ok p = true -> In td (tdecls (fpdecls p)) -> In s (td_xtors td) ->
       (In t (map fbty (xs_args s)) \/ xs_ret s = Some t) ->
       bad_arity_in_decl (tdecls (fpdecls p)) (td_params td) t -> exists e, old_check_decls p = CErr e).
Proof. exact old_arity_decl_field_refuted. Qed.
Print Assumptions C15_regression_old_arity_declaration_field_refuted.
(* satisfiable: surplus / missing / nested wrong applications at a signature, a let, a destructor, a case *)
Example C15_arity_examples :
  check p_arity_sig = CErr EWrongNumberOfTypeArguments /\ check p_arity_let = CErr EWrongNumberOfTypeArguments
  /\ check p_arity_dtor = CErr EWrongNumberOfTypeArguments /\ check p_arity_case = CErr EWrongNumberOfTypeArguments
  /\ prog_names_ok p_arity_sig = true /\ prog_names_ok p_arity_let = true
  /\ prog_names_ok p_arity_dtor = true /\ prog_names_ok p_arity_case = true.
Proof. exact arity_examples. Qed.
Print Assumptions C15_arity_examples.

(* ---------- scopes (round 2, after the seeded change `scope leak between clauses`) ----------
   Model side: the context in which the body of a case / new clause is checked is EXACTLY the context of the
   case / new term followed by that clause's own binders - no sibling's binder, whatever the declaration order of
   the xtors.  [clause_checked_in ctx pcls c']: c' stems from a clause of pcls with the same xtor and binder names,
   its annotated context binds exactly these names, and its body is the result of that clause's checker run in
   `ctx ++ clause_ctx c'`.  A model that followed a checker keeping ONE growing context for all clauses could not
   prove these (nor soundness). *)
Theorem C15_clause_context_exact : forall is_case sfx T xtors pcls st ctx cls' leftover st',
  check_clauses is_case sfx T xtors pcls st ctx = COk (cls', leftover, st') ->
  Forall (clause_checked_in ctx pcls) cls'.
Proof. exact check_clauses_context_exact. Qed.
Print Assumptions C15_clause_context_exact.
Theorem C15_case_clause_context_exact : forall eager s targs cls r st ctx T s' targs' cls' r' st',
  check_term_gen eager (FCase s targs cls r) st ctx T = COk (FCase s' targs' cls' r', st') ->
  Forall (body_checked_in eager ctx cls) cls'.
Proof. exact case_clause_context_exact. Qed.
Print Assumptions C15_case_clause_context_exact.
Theorem C15_new_clause_context_exact : forall eager cls r st ctx T cls' r' st',
  check_term_gen eager (FNew cls r) st ctx T = COk (FNew cls' r', st') ->
  Forall (body_checked_in eager ctx cls) cls'.
Proof. exact new_clause_context_exact. Qed.
Print Assumptions C15_new_clause_context_exact.
(* A name used where it is NOT in scope - [occ_sc s sc t]: s occurs in t and sc are exactly the names bound on the
   path from the root of t to s (a let variable only in its body, a label only in its body, a clause's binders only
   in that clause's body, nothing in a scrutinee or bound term); [use_of x s]: s is the variable x or `goto x` - is
   rejected by the rules for all programs and sites, whatever ELSE in the definition binds the name (a sibling
   clause, an enclosing term's other branch, ...): the mutation classes `scope-leak` and `scope-esc` ... *)
Theorem C15_reject_scope_leak : forall p d x s sc, In d (fdefs (fpdecls p)) ->
  use_of x s -> occ_sc s sc (fdbody d) -> ~ In x sc -> ~ In x (map fbvar (fdctx d)) ->
  has_type_b p = false.
Proof. exact reject_scope_leak. Qed.
Print Assumptions C15_reject_scope_leak.
(* ... and by the checker *)
Theorem C15_check_rejects_scope_leak : forall p d x s sc, prog_names_ok p = true -> In d (fdefs (fpdecls p)) ->
  use_of x s -> occ_sc s sc (fdbody d) -> ~ In x sc -> ~ In x (map fbvar (fdctx d)) ->
  exists e, check p = CErr e.
Proof. exact check_rejects_scope_leak. Qed.
Print Assumptions C15_check_rejects_scope_leak.
(* the two effects of a scope leak between clauses, as witnesses: a sibling's binder is unbound (rejected), and the
   OUTER variable is what a sibling sees when another clause re-binds its name at another type (accepted) *)
Example C15_scope_witnesses :
  (check p_sibling_binder = CErr EUnboundVariable /\ has_type_b p_sibling_binder = false)
  /\ (exists d, In d (fdefs (fpdecls p_sibling_binder))
        /\ occ_sc (FVar "a" None None) ["b"%string] (fdbody d) /\ ~ In "a"%string ["b"%string] /\ ~ In "a"%string (map fbvar (fdctx d)))
  /\ (has_type_b p_outer_in_sibling = true /\ exists q, check p_outer_in_sibling = COk q).
Proof. exact (conj sibling_binder_rejected (conj sibling_binder_is_scope_leak outer_in_sibling_accepted)). Qed.
Print Assumptions C15_scope_witnesses.
