(* C20: runtime contract - arguments, printing, exit status exact for all 64-bit values.
   Only statements here; the models are in Model/Runtime.v, the proofs in Proof/RuntimeProof.v.
   `decimal v` is Coq's own conversion: bytes of NilZero.string_of_int (Z.to_int v). *)
From Coq Require Import List ZArith String DecimalString.
From SCC Require Import Generated.Constants Model.Runtime Proof.RuntimeProof.
Import ListNotations.
Open Scope Z_scope.

(* --- printing ------------------------------------------------------------------------------- *)
(* For every signed 64-bit value print_i64 hands write() exactly the decimal representation:
   a '-' for negatives, the digits most significant first, nothing else. *)
Theorem C20_print_i64_digits :
  forall v, - 2 ^ 63 <= v < 2 ^ 63 -> bytes (print_i64 v) = decimal v.
Proof. exact print_i64_digits. Qed.
Print Assumptions C20_print_i64_digits.

(* println_i64: the same followed by one newline. *)
Theorem C20_println_i64_digits :
  forall v, - 2 ^ 63 <= v < 2 ^ 63 -> bytes (println_i64 v) = decimal v ++ [10].
Proof. exact println_i64_digits. Qed.
Print Assumptions C20_println_i64_digits.

(* Both hold whatever the uninitialised buffer contained. *)
Theorem C20_print_independent_of_buffer_contents :
  forall init v, in_i64 v -> List.length init = Z.to_nat (buf_size false) ->
    bytes (print_gen false init v) = decimal v.
Proof. exact print_i64_digits_gen. Qed.
Print Assumptions C20_print_independent_of_buffer_contents.

Theorem C20_println_independent_of_buffer_contents :
  forall init v, in_i64 v -> List.length init = Z.to_nat (buf_size true) ->
    bytes (print_gen true init v) = decimal v ++ [10].
Proof. exact println_i64_digits_gen. Qed.
Print Assumptions C20_println_independent_of_buffer_contents.

(* No store leaves the buffer of MAX_DIGITS_INT (+1) bytes (the value of MAX_DIGITS_INT is the one in
   io.c now), the loop ends within print_fuel = 20 iterations, `start` never goes below &buf[0], and
   exactly the bytes from `start` to the end of the buffer are written. *)
Theorem C20_print_never_overruns :
  forall line init v, - 2 ^ 63 <= v < 2 ^ 63 -> List.length init = Z.to_nat (buf_size line) ->
    let r := print_gen line init v in
    overrun r = false /\ fuel_ok r = true /\ 0 <= final_start r /\
    Z.of_nat (List.length (bytes r)) = buf_size line - final_start r.
Proof. exact print_never_overruns. Qed.
Print Assumptions C20_print_never_overruns.

(* Fuel: the digit loop terminates within 20 iterations for every 64-bit magnitude. *)
Theorem C20_print_fuel_suffices :
  forall m b start, 0 <= m < 2 ^ 64 -> digit_loop print_fuel m b start <> None.
Proof. exact print_fuel_suffices. Qed.
Print Assumptions C20_print_fuel_suffices.

(* Sanity of the specification: `decimal v` read back with Coq's parser is v. *)
Theorem C20_decimal_parses_back :
  forall v, NilZero.int_of_string (string_of_bytes (decimal v)) = Some (Z.to_int v) /\ Z.of_int (Z.to_int v) = v.
Proof. exact decimal_parses_back. Qed.
Print Assumptions C20_decimal_parses_back.

(* --- arguments ------------------------------------------------------------------------------ *)
(* atoll on the decimal representation of an int64 returns it (domain: exactly those strings). *)
Theorem C20_atoll_decimal :
  forall v, - 2 ^ 63 <= v < 2 ^ 63 -> atoll (decimal v) = v.
Proof. exact atoll_decimal. Qed.
Print Assumptions C20_atoll_decimal.

(* The driver instantiated for n parameters calls asm_main exactly once, with the n values given in
   decimal on the command line, unchanged and in order. *)
Theorem C20_arguments_reach_main :
  forall n asm_main prog vs, List.length vs = n -> Forall in_i64 vs ->
    d_calls (driver n asm_main (prog :: map decimal vs)) = [vs].
Proof. exact arguments_reach_main. Qed.
Print Assumptions C20_arguments_reach_main.

(* A wrong number of arguments is reported (message + the NUL that sizeof includes), asm_main is not
   called, exit status 1. *)
Theorem C20_wrong_argc_reports :
  forall n asm_main argv, List.length argv <> S n ->
    let r := driver n asm_main argv in
    d_output r = error_arguments /\ d_calls r = [] /\ d_status r = 1.
Proof. exact wrong_argc_reports. Qed.
Print Assumptions C20_wrong_argc_reports.

(* --- exit status ---------------------------------------------------------------------------- *)
(* With the right number of arguments the exit status is the low eight bits of what asm_main left in
   the return register (main returns its low 32 bits as an int; the parent sees that & 0377). *)
Theorem C20_exit_status_low8 :
  forall n asm_main argv out rax, List.length argv = S n ->
    asm_main (map atoll (firstn n (tl argv))) = (out, rax) ->
    let r := driver n asm_main argv in
    d_status r = rax mod 256 /\ d_main_returns r = i32_of_bits rax /\ d_output r = out /\ 0 <= d_status r < 256.
Proof. exact exit_status_low8. Qed.
Print Assumptions C20_exit_status_low8.

(* --- register shuffles (instruction lists generated from the compiled crates) ----------------- *)
(* x86-64, n <= 5 parameters: after the moves emitted by move_arguments(n), the integer register of
   parameter i holds what System V argument register i+1 held on entry. *)
Theorem C20_move_arguments_x86_ok :
  forall n moves, (n <= 5)%nat -> nth_error X86RT.move_arguments n = Some moves ->
    forall (rf : regfile) i, (i < n)%nat -> exec_moves moves rf (x86_param_reg i) = rf (x86_arg (S i)).
Proof. exact move_arguments_x86_ok. Qed.
Print Assumptions C20_move_arguments_x86_ok.

(* AArch64, n <= 7: parameter i receives X(i+1). *)
Theorem C20_move_arguments_a64_ok :
  forall n moves, (n <= 7)%nat -> nth_error A64RT.move_arguments n = Some moves ->
    forall (rf : regfile) i, (i < n)%nat -> exec_moves moves rf (a64_param_reg i) = rf (Z.of_nat (S i)).
Proof. exact move_arguments_a64_ok. Qed.
Print Assumptions C20_move_arguments_a64_ok.

(* The whole prologue (register saves, spill area, heap/free pointer initialisation, moves): the
   parameters and the heap pointer arrive, whatever values the other instructions write. *)
Theorem C20_setup_x86_ok :
  forall n effects, (n <= 5)%nat -> nth_error X86RT.setup_effects n = Some effects ->
    forall (rf : regfile) (havoc : nat -> Z),
      let rf' := exec_effects effects havoc 0 rf in
      (forall i, (i < n)%nat -> rf' (x86_param_reg i) = rf (x86_arg (S i))) /\ rf' X86C.HEAP = rf (x86_arg 0).
Proof. exact setup_x86_ok. Qed.
Print Assumptions C20_setup_x86_ok.

Theorem C20_setup_a64_ok :
  forall n effects, (n <= 7)%nat -> nth_error A64RT.setup_effects n = Some effects ->
    forall (rf : regfile) (havoc : nat -> Z),
      let rf' := exec_effects effects havoc 0 rf in
      (forall i, (i < n)%nat -> rf' (a64_param_reg i) = rf (Z.of_nat (S i))) /\ rf' A64C.HEAP = rf 0.
Proof. exact setup_a64_ok. Qed.
Print Assumptions C20_setup_a64_ok.

(* End to end: n <= 5 (x86-64) / n <= 7 (AArch64) int64 values given in decimal on the command line;
   if at the call the driver makes the registers are as the calling convention says (entry_regs: the
   trusted link between the C call and the assembly entry), then after the prologue the integer
   register of parameter i holds the i-th value and HEAP holds the heap pointer. *)
Theorem C20_x86_arguments_end_to_end :
  forall n vs asm_main prog effects heap (rf : regfile) havoc,
    (n <= 5)%nat -> List.length vs = n -> Forall in_i64 vs ->
    nth_error X86RT.setup_effects n = Some effects ->
    (forall args, In args (d_calls (driver n asm_main (prog :: map decimal vs))) -> entry_regs x86_arg heap args rf) ->
    let rf' := exec_effects effects havoc 0 rf in
    (forall i, (i < n)%nat -> rf' (x86_param_reg i) = nth i vs 0) /\ rf' X86C.HEAP = heap.
Proof. exact x86_arguments_end_to_end. Qed.
Print Assumptions C20_x86_arguments_end_to_end.

Theorem C20_a64_arguments_end_to_end :
  forall n vs asm_main prog effects heap (rf : regfile) havoc,
    (n <= 7)%nat -> List.length vs = n -> Forall in_i64 vs ->
    nth_error A64RT.setup_effects n = Some effects ->
    (forall args, In args (d_calls (driver n asm_main (prog :: map decimal vs))) -> entry_regs Z.of_nat heap args rf) ->
    let rf' := exec_effects effects havoc 0 rf in
    (forall i, (i < n)%nat -> rf' (a64_param_reg i) = nth i vs 0) /\ rf' A64C.HEAP = heap.
Proof. exact a64_arguments_end_to_end. Qed.
Print Assumptions C20_a64_arguments_end_to_end.

(* The transliterated move_arguments functions are the code: same lists for every supported n, panic
   beyond; supported numbers 0..5 and 0..7; number_of_arguments is passed through unchanged. *)
Theorem C20_move_arguments_model_is_code :
  (map x86_move_arguments (seq_nat 6) = map Some X86RT.move_arguments /\
   x86_move_arguments 6 = None /\ X86RT.max_main_args = 5 /\ X86RT.nargs_passed_through = [0; 1; 2; 3; 4; 5]) /\
  (map a64_move_arguments (seq_nat 8) = map Some A64RT.move_arguments /\
   a64_move_arguments 8 = None /\ A64RT.max_main_args = 7 /\ A64RT.nargs_passed_through = [0; 1; 2; 3; 4; 5; 6; 7]).
Proof. exact (conj x86_move_arguments_is_code a64_move_arguments_is_code). Qed.
Print Assumptions C20_move_arguments_model_is_code.

(* The registers named in the statements above are the code's: integer half of environment position
   i (Utils::variable_temporary), and arg(0..5) print as the System V registers, X0..X7 as AAPCS64's. *)
Theorem C20_registers_are_code :
  (map x86_param_reg (seq_nat 6) = X86RT.param_int_regs /\ map a64_param_reg (seq_nat 8) = A64RT.param_int_regs) /\
  (map (fun r => nth (Z.to_nat r) X86RT.reg_names ""%string) X86C.arg_regs = sysv_arg_names /\
   map (fun r => nth r A64RT.reg_names ""%string) (seq_nat 8) = aapcs64_arg_names /\ A64C.HEAP = 0).
Proof. exact (conj param_regs_are_code arg_regs_follow_abi). Qed.
Print Assumptions C20_registers_are_code.
