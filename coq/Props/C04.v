(* C04: shrinking focused Core into AxCut preserves semantics.
   Only statements here; definitions live in Model/Shrink.v (the model of core2axcut),
   Sem/FsCheck.v (wt_fs, unique_binders, ids_bounded), Sem/AxCheck.v, Sem/AxSem.v, Sem/CoreSem.v;
   proofs in Proof/ShrinkProof.v. *)
From Coq Require Import List ZArith NArith String Bool.
From SCC Require Import Sem.FsFrag2 Lang.CoreSyn Lang.AxSyn Sem.AxSem Sem.FsCheck Sem.AxCheck Model.Shrink Proof.ShrinkProof Proof.ShrinkSem Proof.ShrinkExample.
From SCC Require Import Proof.ShrinkRn Proof.ShrinkSimProg Proof.ShrinkTyProg Proof.ShrinkSimClosed Proof.ShrinkExample2 Proof.ShrinkExample2Ok.
From SCC Require Sem.CoreSem.
Import ListNotations.

(* On a well-typed focused program shrinking never panics: the final `panic!("cannot happen")` of
   FsCut::shrink, the "Xtor not found" panic of shrink_known_cuts, the "Type not found" panic of
   lookup_type_declaration and the `_Cont` assertion are unreachable, and the fuel given to the
   non-structural recursion (the size of the definition's body) suffices. *)
Theorem C04_shrink_total : forall p, wt_fs p = true -> exists q, shrink_prog p = SOk q.
Proof. exact shrink_total. Qed.
Print Assumptions C04_shrink_total.

(* The chirality collapse of shrink_binding, for every (chirality, kind of type) combination. *)
Theorem C04_shrink_binding_chirality : forall codata v n,
  shrink_binding codata (mkcb v CPrd CI64) = mkb v Ext I64 /\
  shrink_binding codata (mkcb v CCns CI64) = mkb v Cns (Decl cont_name) /\
  (is_codata codata (CDecl n) = false ->
     shrink_binding codata (mkcb v CPrd (CDecl n)) = mkb v Prd (Decl n) /\
     shrink_binding codata (mkcb v CCns (CDecl n)) = mkb v Cns (Decl n)) /\
  (is_codata codata (CDecl n) = true ->
     shrink_binding codata (mkcb v CPrd (CDecl n)) = mkb v Cns (Decl n) /\
     shrink_binding codata (mkcb v CCns (CDecl n)) = mkb v Prd (Decl n)).
Proof. exact shrink_binding_chirality. Qed.
Print Assumptions C04_shrink_binding_chirality.

(* A cut of a known constructor against a case (of a cocase against a known destructor) continues
   with the body of the first clause for that xtor, the clause parameters replaced by the
   arguments zipped in order; by typing that clause exists and has as many parameters as there are
   arguments. *)
Theorem C04_known_cut_selects_ctor : forall data codata defs G rec E c1 x args t1 ty c2 cls t2 st,
  check_term data codata defs G CPrd ty (FsXtor c1 x args t1) = None ->
  check_term data codata defs G CCns ty (FsXCase c2 cls t2) = None ->
  exists cl,
    find (fun c => cident_eqb (clause_xtor c) x) cls = Some cl /\ clause_xtor cl = x /\
    List.length (clause_ctx cl) = List.length args /\
    shrink_cut rec E (FsXtor c1 x args t1) ty (FsXCase c2 cls t2) st
    = rec (subst_stmt (combine (cids (clause_ctx cl)) (cvars args)) (clause_body cl)) st.
Proof. exact known_cut_selects_ctor. Qed.
Print Assumptions C04_known_cut_selects_ctor.
Theorem C04_known_cut_selects_dtor : forall data codata defs G rec E c1 cls t1 ty c2 x args t2 st,
  check_term data codata defs G CPrd ty (FsXCase c1 cls t1) = None ->
  check_term data codata defs G CCns ty (FsXtor c2 x args t2) = None ->
  exists cl,
    find (fun c => cident_eqb (clause_xtor c) x) cls = Some cl /\ clause_xtor cl = x /\
    List.length (clause_ctx cl) = List.length args /\
    shrink_cut rec E (FsXCase c1 cls t1) ty (FsXtor c2 x args t2) st
    = rec (subst_stmt (combine (cids (clause_ctx cl)) (cvars args)) (clause_body cl)) st.
Proof. exact known_cut_selects_dtor. Qed.
Print Assumptions C04_known_cut_selects_dtor.
(* the zipped substitution sends the i-th parameter to the i-th argument *)
Theorem C04_known_cut_substitution : forall ids args i nm d,
  NoDup ids -> List.length ids = List.length args -> i < List.length ids ->
  subst_ident (combine ids args) (nm, nth i ids 0%N) = nth i args d.
Proof. exact subst_combine_nth. Qed.
Print Assumptions C04_known_cut_substitution.

(* A cut of two abstractions <mu a.sp | mu~ x.sc> becomes `create v = {..}; next` where `next` -
   the side that runs first - is the producer's body for i64 and data types (v = a) and the
   consumer's body for codata types (v = x). *)
Theorem C04_critical_pair_order : forall rec E vp sp vc sc ty st s st',
  shrink_critical_pairs rec E vp sp vc sc ty st = SOk (s, st') ->
  match ty with
  | CI64 =>
      exists body next st1,
        rec sc st = SOk (body, st1) /\ rec sp st1 = SOk (next, st') /\
        s = Create vp (Decl cont_name) None [(ret_name, [mkb vc Ext I64], body)] next
  | CDecl n =>
      exists cls next st2,
        all_let_clauses cls /\
        if is_codata (e_codata E) ty
        then rec sc st2 = SOk (next, st') /\ s = Create vc (Decl n) None cls next
        else rec sp st2 = SOk (next, st') /\ s = Create vp (Decl n) None cls next
  end.
Proof. exact critical_pair_order. Qed.
Print Assumptions C04_critical_pair_order.

(* `lift`: the call passes the free variables of the lifted statement (BTreeSet order, duplicate-free);
   the new definition has one fresh parameter per free variable in the same order with the same
   name/chirality/type, pairwise distinct; its body is the statement with the free variables renamed
   to the parameters; its label is new (printed form) with respect to the labels used so far. *)
Theorem C04_lift_closed : forall rec E s st r st',
  lift rec E s st = SOk (r, st') ->
  let fvs := typed_free_vars s in
  let params := fresh_params fvs (s_max st) in
  ssorted cbinding_compare fvs /\ NoDup fvs /\ NoDup (cids params) /\
  Forall2 (fun p f => fst (cbvar p) = fst (cbvar f) /\ cbchi p = cbchi f /\ cbty p = cbty f) params fvs /\
  exists label body st3,
    fst label = ("lift_" ++ e_label E ++ "_")%string /\
    (s_max st + N.of_nat (List.length fvs) < snd label)%N /\
    existsb (fun u => String.eqb (show_cident u) (show_cident label)) (s_used st) = false /\
    r = Call label (shrink_context (e_codata E) fvs) /\
    rec (subst_stmt (combine (cids fvs) (cvars params)) s)
        (mksst (snd label) (s_lifted st) (label :: s_used st)) = SOk (body, st3) /\
    st' = mksst (s_max st3) (mkd label (shrink_context (e_codata E) params) body :: s_lifted st3) (s_used st3).
Proof. exact lift_closed. Qed.
Print Assumptions C04_lift_closed.

(* max_id only grows and bounds the id of every variable of the output (binders and occurrences,
   parameters of lifted definitions included) - what linearization relies on. *)
Theorem C04_shrink_ids_bounded : forall p q,
  ids_bounded p = true -> shrink_prog p = SOk q ->
  (fspmax p <= pmax q)%N /\ forallb (def_le (pmax q)) (pdefs q) = true.
Proof. exact shrink_ids_bounded. Qed.
Print Assumptions C04_shrink_ids_bounded.

(* every id introduced (lifted labels, their parameters, binders) is > the input's max_id, <= the
   output's max_id, and the introduced ids are pairwise distinct *)
Theorem C04_shrink_fresh_ids : forall p q,
  ids_bounded p = true -> shrink_prog p = SOk q ->
  let B := lifted_binders (pdefs q) in
  (forall x, In x B -> (fspmax p < x)%N -> (x <= pmax q)%N) /\
  NoDup (filter (fun x => N.ltb (fspmax p) x) B).
Proof. exact shrink_fresh_ids. Qed.
Print Assumptions C04_shrink_fresh_ids.

(* The printed names of the output's definitions (what the back ends use as assembly labels) are
   pairwise distinct whenever those of the input are: a lifted label never prints like an input
   definition or another lifted label (the repaired label loop of `lift`, /repo fix fd7ddb1). *)
Theorem C04_lift_label_fresh : forall p q,
  NoDup (map (fun d => show_cident (fsdname d)) (fspdefs p)) -> shrink_prog p = SOk q ->
  NoDup (map (fun d => show_ident (dname d)) (pdefs q)).
Proof. exact lift_label_fresh. Qed.
Print Assumptions C04_lift_label_fresh.

(* SEMANTIC PRESERVATION.  Full statement (the property C04):

     shrink_correct : forall p q n args o,
       wt_fs p = true -> unique_binders p = true -> shrink_prog p = SOk q ->
       CoreSem.run_fs n p args = o -> good o ->            (* the Core run ends with exit / undefined arithmetic *)
       exists m, run_named m q args = o.

   Proved below for the FIRST-ORDER INTEGER FRAGMENT only ([frag_prog]: literal and operation against
   mu~, ifc, print, exit, calls with integer producer arguments; identifiers with the same id have
   the same name, which `uniquify` guarantees).  GAP: every construct that involves a consumer -
   integer continuations (_Cont/Ret: literal/operation/variable against a covariable, critical pairs at
   i64), renaming cuts, data and codata (let/switch/create/invoke, known cuts), eta expansion of unknown
   cuts and critical pairs, lifted statements.  For the full language the statement is CHECKED on every
   run of ./check C04: Core machine on the focused input = AxCut machine on the Rust output (= model
   output) for every corpus and generated program and argument tuple. *)
Theorem C04_shrink_correct_partial : forall p q n args o,
  frag_prog p = true ->
  (forall d, In d (fspdefs p) -> consistent (cvars (fsdctx d) ++ idents (fsdbody d))) ->
  shrink_prog p = SOk q ->
  CoreSem.run_fs n p args = o -> good o ->
  exists m, run_named m q args = o.
Proof. exact shrink_correct_partial. Qed.
Print Assumptions C04_shrink_correct_partial.

(* the preconditions are satisfiable on a real program (examples/Tuples/Tuples.sc, focused by the real
   pipeline, read back by the Coq reader): wt_fs, unique_binders, ids_bounded hold; the model shrinks
   it to a program that passes wt_ax; both machines print 2 and exit with 0 *)
Theorem C04_example_real_program_wt :
  match tuples_focused with
  | Some p => wt_fs p && unique_binders p && ids_bounded p
  | None => false
  end = true.
Proof. exact tuples_wt_fs. Qed.
Print Assumptions C04_example_real_program_wt.
Theorem C04_example_real_program_shrinks :
  match tuples_focused with
  | Some p =>
      match shrink_prog p with
      | SOk q => wt_ax q
                 && obs_eqb (run_named 1000 q []) ([(true, 2%Z)], OExit 0)
                 && obs_eqb (CoreSem.run_fs 5000 p []) ([(true, 2%Z)], OExit 0)
      | SErr _ => false
      end
  | None => false
  end = true.
Proof. exact tuples_shrunk_ok. Qed.
Print Assumptions C04_example_real_program_shrinks.

(* SEMANTIC PRESERVATION FOR THE WHOLE LANGUAGE, on a fragment given by boolean predicates:

     frag2_prog p = names_ok p && main_int p
       names_ok p : in every definition, every variable occurrence is spelled like the binding its id refers
                    to ([nc_stmt], Proof/ShrinkRn.v) - what `uniquify` establishes.  The checkers wt_fs /
                    unique_binders, the substitution of core2axcut and its free-variable computation look at
                    the numeric id only, the Core machine at name and id; without it the statement is FALSE
                    (a lifted statement would pass a variable spelled unlike its binder, and the call gets
                    stuck in a branch the Core machine never reaches).
       main_int p : the parameters of the entry point are integer producers (what run_fs can be started on)
     decls_ok p   : parameter types of definitions and field types of xtors are declared (needed for the
                    typing of the output, see C12_shrink_preserves_typing_fragment2)

   EVERY construct is covered: top-level calls and recursion; data types (let, switch, known cuts resolved
   by substitution); consumers (mu~ bindings, renaming cuts, integer continuations as closures of the
   codata type _Cont, create/invoke); eta expansion of variable cuts; critical pairs at i64, at data
   (producer first) and at codata (consumer first, the producer re-run by name at every destructor); lifted
   statements.  Proof: forward simulation with a typed, step-indexed relation between Core machine values and
   AxCut values that follows the chirality collapse (Proof/ShrinkRel.v); renamings are carried as functions
   (Proof/ShrinkRn.v); cases in Proof/ShrinkSim{A,B,C,D,E,Eta,Lift,Crit,Top}.v.
   [good o]: the Core run ends with exit or with undefined arithmetic (stuck reasons are not compared,
   out-of-fuel runs say nothing). *)
Theorem C04_shrink_correct_fragment2 : forall p q n args o,
  frag2_prog p = true -> decls_ok p = true ->
  wt_fs p = true -> unique_binders p = true -> ids_bounded p = true ->
  shrink_prog p = SOk q ->
  CoreSem.run_fs n p args = o -> good o ->
  exists m, run_named m q args = o.
Proof. exact shrink_correct_fragment2_closed. Qed.
Print Assumptions C04_shrink_correct_fragment2.

(* the same for the larger input fragment without decls_ok, with the hypothesis that the OUTPUT passes the
   AxCut checker (binders fresh along every path, definition names distinct) *)
Theorem C04_shrink_correct_fragment2_wt_ax : forall p q n args o,
  frag2_prog p = true -> wt_fs p = true -> unique_binders p = true -> ids_bounded p = true ->
  shrink_prog p = SOk q -> wt_ax q = true ->
  CoreSem.run_fs n p args = o -> good o ->
  exists m, run_named m q args = o.
Proof. exact shrink_correct_fragment2. Qed.
Print Assumptions C04_shrink_correct_fragment2_wt_ax.

(* non-vacuity: a real focused program (Proof/ShrinkExample2.v: lists, a lazy pair, recursion, two
   critical pairs whose expanded side is LIFTED) satisfies every hypothesis; both machines run on it *)
Theorem C04_example_fragment2 :
  match frag2_focused with
  | Some p =>
      match shrink_prog p with
      | SOk q =>
          frag2_prog p && decls_ok p && wt_fs p && unique_binders p && ids_bounded p && wt_ax q
          && Nat.eqb (List.length (filter (fun d => is_lifted_name (dname d)) (pdefs q))) 2
          && existsb (fun t => negb (Nat.eqb (List.length (txtors t)) 0)) (ptypes q)
          && obs_eqb (CoreSem.run_fs 3000 p [0%Z]) (frag2_expected 0) && obs_eqb (run_named 1000 q [0%Z]) (frag2_expected 0)
          && obs_eqb (CoreSem.run_fs 3000 p [3%Z]) (frag2_expected 3) && obs_eqb (run_named 1000 q [3%Z]) (frag2_expected 3)
      | SErr _ => false
      end
  | None => false
  end = true.
Proof. exact frag2_example_ok. Qed.
Print Assumptions C04_example_fragment2.
