(* C10: heap footprint is bounded by peak live data.
   Statement proved: the allocation frontier moves only when BOTH free lists are exhausted, i.e.
   when the reuse list is just the reserved block and the deferred list is empty - so every block
   below the frontier except the reserved one is counted, and (by C09's RC clause) referenced.
   The quantitative bound and the constant-space corollary for loops are checked by execution
   (frontier <= peak blocks in use + 2 at every run; equal frontier after 8 and 32 iterations of
   the allocation-loop families); they are not yet theorems. *)
From Coq Require Import List ZArith Permutation.
From SCC Require Import Model.Heap.
Import ListNotations.
Open Scope Z_scope.

Theorem C10_frontier_moves_only_when_nothing_reusable :
  forall s R hl fl cl,
    Inv s R hl fl cl ->
    frontier (snd (acquire s)) = frontier s \/
    (frontier (snd (acquire s)) = frontier s + BLOCK /\ hl = [heap s] /\ fl = []).
Proof. exact acquire_frontier. Qed.
Print Assumptions C10_frontier_moves_only_when_nothing_reusable.
