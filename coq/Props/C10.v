(* C10: heap footprint is bounded by peak live data.
   Proofs in Model/Heap.v (acquire_frontier) and Proof/HeapTrace.v.

   PROVED (abstract allocator, operation traces from the initial state)
     * the allocation frontier moves only when BOTH free lists are exhausted, i.e. when the reuse
       list is just the reserved block and the deferred list is empty       [C10_frontier_moves_only_when_nothing_reusable]
     * quantitative bound: (frontier - base) / 64 <= peak + 1, where peak bounds the number of
       blocks in use (counted + deferred) over the states of the trace.  The constant is 1 (the
       block reserved in the heap register), and it is tight                 [C10_footprint_bound]
     * once the peak has been attained the frontier is EXACTLY base + (peak + 1) * 64 and never
       moves again                                                           [C10_footprint_exact]
     * the number of blocks in use is a function of the state (it does not depend on the choice
       of the ghost lists)                                                   [C10_in_use_unique]
     * space independent of the number of repetitions, in the form: two traces from the initial
       state with the same peak of blocks in use end with the same frontier; instantiated with
       setup ++ n1 x body and setup ++ n2 x body                             [C10_loop_space_constant, C10_loop_space_constant_iter]
       and: from any reachable state whose frontier stands at peak + 1 blocks, a continuation
       that stays within the peak leaves the frontier where it is           [C10_frontier_stable_after_peak]
       Relation to the property text: "a computation that repeatedly builds and drops structures"
       has a peak of simultaneously reachable blocks that does not depend on the number of
       repetitions (that is a fact about the program, given here as the hypotheses peak_bound /
       peak_attained); the theorem turns it into equal frontiers.  "Reachable" in the text is
       "counted + deferred" here: a dropped structure stays counted beneath its deferred root until
       allocation recycles it, which is why the in-use count, not the reachable count, is the
       measure that is exact.
   ROUND 2: the lifting from operation traces to programs is proved (Props/C09.v C09_program_heap_safe), so
   the statements hold for every run of a linearity-checked program on the heap-instrumented linear machine
   (C10_program_*, at the end of this file, with a concrete loop as example).  Not proved: that the real
   code of a statement performs exactly the operations the instrumented machine lists (checked in lockstep
   by heaplock-x86, see C09); the executable check (frontier <= peak + 2 at every run; equal frontier after 8
   and 32 iterations of the allocation-loop families) remains. *)
From Coq Require Import List ZArith Permutation.
From SCC Require Import Model.Heap Proof.HeapMore Proof.HeapTrace.
Import ListNotations.
Open Scope Z_scope.

Theorem C10_frontier_moves_only_when_nothing_reusable :
  forall s R hl fl cl,
    Inv s R hl fl cl ->
    frontier (snd (acquire s)) = frontier s \/
    (frontier (snd (acquire s)) = frontier s + BLOCK /\ hl = [heap s] /\ fl = []).
Proof. exact acquire_frontier. Qed.
Print Assumptions C10_frontier_moves_only_when_nothing_reusable.

Theorem C10_footprint_bound :
  forall base ops pk,
    0 < base -> pre_trace (init base) [] ops -> peak_bound base ops pk ->
    (frontier (fst (grun ops (init base, []))) - base) / BLOCK <= Z.of_nat pk + 1.
Proof. exact footprint_bound. Qed.
Print Assumptions C10_footprint_bound.

Theorem C10_footprint_exact :
  forall base ops pk,
    0 < base -> pre_trace (init base) [] ops -> peak_bound base ops pk -> peak_attained base ops pk ->
    frontier (fst (grun ops (init base, []))) = base + (Z.of_nat pk + 1) * BLOCK.
Proof. exact footprint_exact. Qed.
Print Assumptions C10_footprint_exact.

Theorem C10_in_use_unique :
  forall base sr n1 n2, in_use base sr n1 -> in_use base sr n2 -> n1 = n2.
Proof. exact in_use_unique. Qed.
Print Assumptions C10_in_use_unique.

Theorem C10_loop_space_constant :
  forall base ops1 ops2 pk,
    0 < base -> pre_trace (init base) [] ops1 -> pre_trace (init base) [] ops2 ->
    peak_bound base ops1 pk -> peak_attained base ops1 pk ->
    peak_bound base ops2 pk -> peak_attained base ops2 pk ->
    frontier (fst (grun ops1 (init base, []))) = frontier (fst (grun ops2 (init base, []))).
Proof. exact loop_space_constant. Qed.
Print Assumptions C10_loop_space_constant.

Theorem C10_loop_space_constant_iter :
  forall base setup body n1 n2 pk,
    0 < base ->
    pre_trace (init base) [] (setup ++ iterate n1 body) -> pre_trace (init base) [] (setup ++ iterate n2 body) ->
    peak_bound base (setup ++ iterate n1 body) pk -> peak_attained base (setup ++ iterate n1 body) pk ->
    peak_bound base (setup ++ iterate n2 body) pk -> peak_attained base (setup ++ iterate n2 body) pk ->
    frontier (fst (grun (setup ++ iterate n1 body) (init base, []))) =
    frontier (fst (grun (setup ++ iterate n2 body) (init base, []))).
Proof. exact loop_space_constant_iter. Qed.
Print Assumptions C10_loop_space_constant_iter.

(* the form "an iteration that stays within a peak already reached does not move the frontier" *)
Theorem C10_frontier_stable_after_peak :
  forall base (pk : nat) ops s R hl fl cl,
    InvA base s R hl fl cl -> pre_trace s R ops ->
    (forall sr n, In sr (states ops (s, R)) -> in_use base sr n -> (n <= pk)%nat) ->
    frontier s - base = (Z.of_nat pk + 1) * BLOCK ->
    frontier (fst (grun ops (s, R))) = frontier s.
Proof. exact frontier_stable_after_peak. Qed.
Print Assumptions C10_frontier_stable_after_peak.

(* ====================================================================================== *)
(* C10 on PROGRAMS (round 2).  By Props/C09.v `C09_program_heap_safe` the operation trace of every
   run of a linearity-checked program on the instrumented machine (Sem/AxHeap.v) satisfies
   `pre_trace`, so the footprint theorems hold for programs. *)
From SCC Require Import Lang.AxSyn Model.LinCheck Sem.AxHeap Proof.AxHeapTyping Proof.AxHeapSafe Proof.AxHeapProps
  Proof.AxHeapExample Proof.AxHeapExampleFacts.

Theorem C10_program_footprint_bound : forall base p args,
  lin_check_prog p = true -> entry_ext p = true -> 0 < base ->
  forall tr c pk, hreach base p args tr c -> peak_bound base tr pk ->
  (frontier (hc_heap c) - base) / BLOCK <= Z.of_nat pk + 1.
Proof. exact prog_footprint_bound. Qed.
Print Assumptions C10_program_footprint_bound.

Theorem C10_program_footprint_exact : forall base p args,
  lin_check_prog p = true -> entry_ext p = true -> 0 < base ->
  forall tr c pk, hreach base p args tr c -> peak_bound base tr pk -> peak_attained base tr pk ->
  frontier (hc_heap c) = base + (Z.of_nat pk + 1) * BLOCK.
Proof. exact prog_footprint_exact. Qed.
Print Assumptions C10_program_footprint_exact.

(* loops run in constant space: two runs of a program - any arguments, any numbers of iterations -
   in which the same peak of blocks in use is attained end with the same frontier *)
Theorem C10_program_loop_space_constant : forall base p args1 args2 tr1 c1 tr2 c2 pk,
  lin_check_prog p = true -> entry_ext p = true -> 0 < base ->
  hreach base p args1 tr1 c1 -> hreach base p args2 tr2 c2 ->
  peak_bound base tr1 pk -> peak_attained base tr1 pk -> peak_bound base tr2 pk -> peak_attained base tr2 pk ->
  frontier (hc_heap c1) = frontier (hc_heap c2).
Proof. exact prog_loop_space_constant. Qed.
Print Assumptions C10_program_loop_space_constant.

(* the steady state of a loop, stated with the abstract machine: from a reachable configuration c
   whose frontier stands at pk + 1 blocks, ANY continuation c -> c' (any number of further
   iterations; in particular iterations that return the heap to a state with the same number of
   blocks in use) during which at most pk blocks are in use leaves the frontier where it is *)
Theorem C10_program_frontier_stable : forall base p args tr c tr' c' (pk : nat),
  lin_check_prog p = true -> entry_ext p = true -> 0 < base ->
  hreach base p args tr c -> hsteps p c tr' c' ->
  (forall sr n, In sr (states tr' (hc_heap c, roots (hc_env c))) -> in_use base sr n -> (n <= pk)%nat) ->
  frontier (hc_heap c) - base = (Z.of_nat pk + 1) * BLOCK ->
  frontier (hc_heap c') = frontier (hc_heap c).
Proof. exact prog_frontier_stable. Qed.
Print Assumptions C10_program_frontier_stable.

(* and from any reachable configuration the footprint stays below max(where it stood, peak + 1) *)
Theorem C10_program_footprint_from : forall base p args tr c tr' c' (pk : nat),
  lin_check_prog p = true -> entry_ext p = true -> 0 < base ->
  hreach base p args tr c -> hsteps p c tr' c' ->
  (forall sr n, In sr (states tr' (hc_heap c, roots (hc_env c))) -> in_use base sr n -> (n <= pk)%nat) ->
  frontier (hc_heap c) - base <= (Z.of_nat pk + 1) * BLOCK ->
  frontier (hc_heap c') - base <= (Z.of_nat pk + 1) * BLOCK.
Proof. exact prog_footprint_from. Qed.
Print Assumptions C10_program_footprint_from.

(* the peak hypotheses can be computed: `peak_n` walks the reuse list in every state of the trace
   (blocks in use = blocks below the frontier - length of the reuse list) *)
Theorem C10_peak_computable : forall base fuel ops pk,
  0 < base -> pre_trace (init base) [] ops -> peak_n base fuel ops (init base) = Some pk ->
  peak_bound base ops pk /\ peak_attained base ops pk.
Proof. exact peak_n_peak. Qed.
Print Assumptions C10_peak_computable.

(* non-vacuity: the loop program of Proof/AxHeapExample.v with 3 and with 30 iterations: peak 5 blocks
   in use in both runs, and - by the theorems - the same frontier, 6 blocks above the base *)
Example C10_example_peaks :
  (peak_bound 4096 (hx_trace 3) 5 /\ peak_attained 4096 (hx_trace 3) 5) /\
  (peak_bound 4096 (hx_trace 30) 5 /\ peak_attained 4096 (hx_trace 30) 5).
Proof. exact (conj hx_peak_3 hx_peak_30). Qed.
Print Assumptions C10_example_peaks.

Example C10_example_loop_constant_space :
  exists c1 c2, hreach 4096 hx_lin [3; 100] (hx_trace 3) c1 /\ hreach 4096 hx_lin [30; 100] (hx_trace 30) c2 /\
    frontier (hc_heap c1) = frontier (hc_heap c2) /\ frontier (hc_heap c1) = 4096 + (5 + 1) * BLOCK.
Proof. exact hx_loop_space. Qed.
Print Assumptions C10_example_loop_constant_space.
