(* C10: heap footprint is bounded by peak live data.
   Proofs in Model/Heap.v (acquire_frontier) and Proof/HeapTrace.v.

   PROVED (abstract allocator, operation traces from the initial state)
     * the allocation frontier moves only when BOTH free lists are exhausted, i.e. when the reuse
       list is just the reserved block and the deferred list is empty       [C10_frontier_moves_only_when_nothing_reusable]
     * quantitative bound: (frontier - base) / 64 <= peak + 1, where peak bounds the number of
       blocks in use (counted + deferred) over the states of the trace.  The constant is 1 (the
       block reserved in the heap register), and it is tight                 [C10_footprint_bound]
     * once the peak has been attained the frontier is EXACTLY base + (peak + 1) * 64 and never
       moves again                                                           [C10_footprint_exact]
     * the number of blocks in use is a function of the state (it does not depend on the choice
       of the ghost lists)                                                   [C10_in_use_unique]
     * space independent of the number of repetitions, in the form: two traces from the initial
       state with the same peak of blocks in use end with the same frontier; instantiated with
       setup ++ n1 x body and setup ++ n2 x body                             [C10_loop_space_constant, C10_loop_space_constant_iter]
       and: from any reachable state whose frontier stands at peak + 1 blocks, a continuation
       that stays within the peak leaves the frontier where it is           [C10_frontier_stable_after_peak]
       Relation to the property text: "a computation that repeatedly builds and drops structures"
       has a peak of simultaneously reachable blocks that does not depend on the number of
       repetitions (that is a fact about the program, given here as the hypotheses peak_bound /
       peak_attained); the theorem turns it into equal frontiers.  "Reachable" in the text is
       "counted + deferred" here: a dropped structure stays counted beneath its deferred root until
       allocation recycles it, which is why the in-use count, not the reachable count, is the
       measure that is exact.
   NOT YET PROVED: the lifting from operation traces to programs (as C09); the executable check
   (frontier <= peak + 2 at every run, peak sampled at statement boundaries only; equal frontier
   after 8 and 32 iterations of the allocation-loop families) covers that link. *)
From Coq Require Import List ZArith Permutation.
From SCC Require Import Model.Heap Proof.HeapMore Proof.HeapTrace.
Import ListNotations.
Open Scope Z_scope.

Theorem C10_frontier_moves_only_when_nothing_reusable :
  forall s R hl fl cl,
    Inv s R hl fl cl ->
    frontier (snd (acquire s)) = frontier s \/
    (frontier (snd (acquire s)) = frontier s + BLOCK /\ hl = [heap s] /\ fl = []).
Proof. exact acquire_frontier. Qed.
Print Assumptions C10_frontier_moves_only_when_nothing_reusable.

Theorem C10_footprint_bound :
  forall base ops pk,
    0 < base -> pre_trace (init base) [] ops -> peak_bound base ops pk ->
    (frontier (fst (grun ops (init base, []))) - base) / BLOCK <= Z.of_nat pk + 1.
Proof. exact footprint_bound. Qed.
Print Assumptions C10_footprint_bound.

Theorem C10_footprint_exact :
  forall base ops pk,
    0 < base -> pre_trace (init base) [] ops -> peak_bound base ops pk -> peak_attained base ops pk ->
    frontier (fst (grun ops (init base, []))) = base + (Z.of_nat pk + 1) * BLOCK.
Proof. exact footprint_exact. Qed.
Print Assumptions C10_footprint_exact.

Theorem C10_in_use_unique :
  forall base sr n1 n2, in_use base sr n1 -> in_use base sr n2 -> n1 = n2.
Proof. exact in_use_unique. Qed.
Print Assumptions C10_in_use_unique.

Theorem C10_loop_space_constant :
  forall base ops1 ops2 pk,
    0 < base -> pre_trace (init base) [] ops1 -> pre_trace (init base) [] ops2 ->
    peak_bound base ops1 pk -> peak_attained base ops1 pk ->
    peak_bound base ops2 pk -> peak_attained base ops2 pk ->
    frontier (fst (grun ops1 (init base, []))) = frontier (fst (grun ops2 (init base, []))).
Proof. exact loop_space_constant. Qed.
Print Assumptions C10_loop_space_constant.

Theorem C10_loop_space_constant_iter :
  forall base setup body n1 n2 pk,
    0 < base ->
    pre_trace (init base) [] (setup ++ iterate n1 body) -> pre_trace (init base) [] (setup ++ iterate n2 body) ->
    peak_bound base (setup ++ iterate n1 body) pk -> peak_attained base (setup ++ iterate n1 body) pk ->
    peak_bound base (setup ++ iterate n2 body) pk -> peak_attained base (setup ++ iterate n2 body) pk ->
    frontier (fst (grun (setup ++ iterate n1 body) (init base, []))) =
    frontier (fst (grun (setup ++ iterate n2 body) (init base, []))).
Proof. exact loop_space_constant_iter. Qed.
Print Assumptions C10_loop_space_constant_iter.

(* the form "an iteration that stays within a peak already reached does not move the frontier" *)
Theorem C10_frontier_stable_after_peak :
  forall base (pk : nat) ops s R hl fl cl,
    InvA base s R hl fl cl -> pre_trace s R ops ->
    (forall sr n, In sr (states ops (s, R)) -> in_use base sr n -> (n <= pk)%nat) ->
    frontier s - base = (Z.of_nat pk + 1) * BLOCK ->
    frontier (fst (grun ops (s, R))) = frontier s.
Proof. exact frontier_stable_after_peak. Qed.
Print Assumptions C10_frontier_stable_after_peak.
