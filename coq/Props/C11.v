(* C11: explicit substitutions are compiled as simultaneous assignments.
   Only statements here; proofs live in Model/ and Proof/. *)
From Coq Require Import List Bool.
From SCC Require Import Model.ParMoves.

(* The code emitted by the generic parallel-move algorithm (spanning forest, depth-first emission,
   one saved value per cycle) performs the whole assignment simultaneously: every target ends up
   with the initial value of its source and every temporary that is no target is unchanged - for
   every move graph in which each target has at most one source (cycles, chains, fan-out
   included), every initial contents and every value type. *)
Theorem C11_parallel_moves_simultaneous :
  forall (T : Type) (eqb : T -> T -> bool) (eqb_spec : forall a b, reflect (a = b) (eqb a b)) (V : Type)
         (fuel : nat) (A : amap T) (is : list (pinstr T)) (st0 : T -> V) (sc0 : V),
    indeg1 T eqb A -> nodup_targets T eqb A ->
    parallel_moves T eqb fuel A = Some is ->
    let c' := exec T eqb V is (st0, sc0) in
    (forall a b, edge T eqb A a b -> fst c' b = st0 a) /\
    (forall u, (forall a, ~ edge T eqb A a u) -> fst c' u = st0 u).
Proof. exact parallel_moves_correct. Qed.
Print Assumptions C11_parallel_moves_simultaneous.

(* The algorithm never runs out of fuel when called with the number of targets plus two, i.e. the
   Rust recursion terminates on every such graph. *)
Theorem C11_parallel_moves_terminates :
  forall (T : Type) (eqb : T -> T -> bool) (eqb_spec : forall a b, reflect (a = b) (eqb a b)) (A : amap T),
    indeg1 T eqb A -> parallel_moves T eqb (length (all_targets T A) + 2) A <> None.
Proof. exact parallel_moves_terminates. Qed.
Print Assumptions C11_parallel_moves_terminates.

(* ======================================================================================== *)
(* x86-64: the same statement about the INSTRUCTIONS, on the ISA semantics of Sem/X86Sem.v    *)
(* ======================================================================================== *)
From Coq Require Import ZArith NArith String FMapPositive Permutation Sorted.
From SCC Require Import Lang.AxSyn Model.Backend Model.X86 Sem.X86Sem Proof.X86State Proof.X86Sel Proof.X86Exec
     Proof.X86MemSubst Proof.X86ParMoves Proof.SubstGraph Proof.X86Subst.
Local Open Scope Z_scope.

(* (i) The code `parallel_moves_code x86_backend A` (x_mov / x_store_temporary / x_restore_temporary
   chosen by x_contains_spill_edge), run as straight-line code from ANY ISA state with a valid spill
   frame, for ANY assignment map A with in-degree <= 1 over variable temporaries (registers other
   than rsp and rcx, spill slots other than the reserved slot 0): every target location holds the
   initial value of its source, every other variable location is unchanged, and heap, output, flags,
   rsp and the stack outside the spill area are unchanged (only rcx and spill slot 0 may change). *)
Theorem C11_x86_parallel_moves_simultaneous :
  forall (im : image) (A : amap xtemp) (code : list xcode) (s : xstate) (sp : Z),
    indeg1 xtemp (teqb x86_backend) A -> nodup_targets xtemp (teqb x86_backend) A ->
    (forall t, In t (map fst A) \/ In t (all_targets xtemp A) -> var_temp t) ->
    parallel_moves_code x86_backend A = Ok code ->
    frame_ok s sp ->
    exists s', exec_straight im code s = Some s' /\
      (forall a b, edge xtemp (teqb x86_backend) A a b -> lget s' sp b = lget s sp a) /\
      (forall u, var_temp u -> (forall a, ~ edge xtemp (teqb x86_backend) A a u) -> lget s' sp u = lget s sp u) /\
      frame_ok s' sp /\ same_frame s s' sp.
Proof. exact x86_parallel_moves_ok. Qed.
Print Assumptions C11_x86_parallel_moves_simultaneous.

Theorem C11_x86_parallel_moves_total :
  forall A : amap xtemp, indeg1 xtemp (teqb x86_backend) A -> exists code, parallel_moves_code x86_backend A = Ok code.
Proof. exact x86_parallel_moves_total. Qed.
Print Assumptions C11_x86_parallel_moves_total.

(* the key fact about the model of axcut2x86_64::parallel_moves::contains_spill_edge: when it
   answers false, no move of the root goes from a spill slot to a spill slot, so rcx (the staging
   register of such moves) is free to hold the value saved for the cycle *)
Theorem C11_x86_spill_edge_sound :
  forall (k : xtemp) (cs : list (tree xtemp)),
    x_contains_spill_edge (StartNode xtemp k cs) = false ->
    Forall (fun i => match i with Mov _ d s => is_spill d && is_spill s = false | _ => True end)
           (root_moves xtemp (StartNode xtemp k cs)).
Proof. exact root_spill_free. Qed.
Print Assumptions C11_x86_spill_edge_sound.

(* (ii) Every Substitute the compiler emits meets the hypotheses of (i): for a context with pairwise
   distinct ids and pairwise distinct new ids, the map built by `connections (transpose re ctx)` has
   in-degree <= 1, duplicate-free target sets and strictly increasing keys (any back end whose
   Temporary order is a strict total order and whose numbering is injective), and its edges are
   exactly old variable -> the new variables it is assigned to, per temporary. *)
Theorem C11_substitute_graph_indeg1 :
  forall (Code Temp : Type) (B : backend Code Temp), backend_ok B ->
  forall (ctx : ctx) (re : list (binding * ident)) (am : amap Temp),
    NoDup (ids ctx) -> NoDup (new_ids re) ->
    connections B (transpose re ctx) ctx (map fst re) = Ok am ->
    indeg1 Temp (teqb B) am /\ nodup_targets Temp (teqb B) am /\
    StronglySorted (fun a b => b_tcompare B a b = Datatypes.Lt) (map fst am) /\
    (forall a, In a (map fst am) -> exists i bi n, nth_error ctx i = Some bi /\ (n = Snd \/ bchi bi <> Ext) /\ tpos B n i = Ok a).
Proof. intros Code Temp B OK. exact (transpose_connections_indeg1 B OK). Qed.
Print Assumptions C11_substitute_graph_indeg1.

Theorem C11_substitute_graph_edges :
  forall (Code Temp : Type) (B : backend Code Temp), backend_ok B ->
  forall (ctx : ctx) (re : list (binding * ident)) (am : amap Temp),
    NoDup (ids ctx) -> NoDup (new_ids re) ->
    connections B (transpose re ctx) ctx (map fst re) = Ok am ->
    forall a b, edge Temp (teqb B) am a b <->
      exists i j bi pj n, nth_error ctx i = Some bi /\ nth_error re j = Some pj /\
        idn (snd pj) = idn (bvar bi) /\ (n = Snd \/ bchi bi <> Ext) /\ tpos B n i = Ok a /\ tpos B n j = Ok b.
Proof. intros Code Temp B OK. exact (connections_edges B OK). Qed.
Print Assumptions C11_substitute_graph_edges.

Theorem C11_x86_backend_ok : backend_ok x86_backend.
Proof. exact x86_backend_ok. Qed.
Print Assumptions C11_x86_backend_ok.

(* (iii) Reference counts, generic part: `code_weakening_contraction` emits exactly one abstract
   operation per object (non-Ext) variable of the context - erase for 0 targets, nothing for 1,
   share (k-1) for k >= 2 - each variable once (a permutation of the object bindings), in the order
   of binding_compare (the BTreeMap order), on the first temporary of the variable. *)
Theorem C11_weakening_contraction_counts :
  forall (Code Temp : Type) (B : backend Code Temp) (ctx : ctx) (re : list (binding * ident)) (lc : N) (code : list Code) (lc' : N),
    NoDup (ids ctx) ->
    code_weakening_contraction B (transpose re ctx) ctx lc = Ok (code, lc') ->
    exists order : list (nat * binding),
      Permutation (map snd order) (filter is_obj ctx) /\
      StronglySorted (fun x y => binding_compare (snd x) (snd y) = Datatypes.Lt) order /\
      (forall i b, In (i, b) order -> nth_error ctx i = Some b) /\
      exists ops, Forall2 (fun ib o => exists t, tpos B Fst (fst ib) = Ok t /\ o = rc_op_for t (count_targets re (snd ib))) order ops /\
                  (code, lc') = emit_rc B (List.concat ops) lc.
Proof. intros Code Temp B. exact (weakening_contraction_counts B). Qed.
Print Assumptions C11_weakening_contraction_counts.

(* (iii) x86-64 meaning of the two operations, for a block pointer p in a register or a spill slot,
   inside any image that contains the code with its own labels: null -> no effect; share n -> header
   += n; erase -> header = 0: the block is pushed on the deferred-free list (header := FREE,
   FREE := p), else header -= 1.  Registers other than rcx (and FREE for erase), the stack and the
   output are unchanged. *)
Theorem C11_x86_share_meaning :
  forall im pc s sp t n lc p f,
    let code := fst (x_share_block_n t n lc) in
    code_at im pc code -> labels_at im pc code ->
    frame_ok s sp -> loc_ok t -> t <> XR TEMP ->
    lget s sp t = Some p -> (p = 0 \/ block_ok p) -> fits32 (Z.of_N n) = true ->
    rget s FREE = Some f ->
    exists s', exec_to im pc s (padd pc (List.length code)) s' /\
               (heap s', f) = share_h p (Z.of_N n) (heap s, f) /\
               (forall r, r <> TEMP -> rget s' r = rget s r) /\
               stack s' = stack s /\ out s' = out s.
Proof. exact x86_share_ok. Qed.
Print Assumptions C11_x86_share_meaning.

Theorem C11_x86_erase_meaning :
  forall im pc s sp t lc p f,
    let code := fst (x_erase_block t lc) in
    code_at im pc code -> labels_at im pc code ->
    frame_ok s sp -> loc_ok t -> t <> XR TEMP -> t <> XR FREE ->
    lget s sp t = Some p -> (p = 0 \/ block_ok p) ->
    rget s FREE = Some f ->
    exists s' f', exec_to im pc s (padd pc (List.length code)) s' /\
               rget s' FREE = Some f' /\
               (heap s', f') = erase_h p (heap s, f) /\
               (forall r, r <> TEMP -> r <> FREE -> rget s' r = rget s r) /\
               stack s' = stack s /\ out s' = out s.
Proof. exact x86_erase_ok. Qed.
Print Assumptions C11_x86_erase_meaning.

(* (iv) THE PROPERTY on x86-64.  For every explicit substitution `Substitute re (Call l args)` in a
   context with pairwise distinct ids and pairwise distinct new ids - any assignment of old to new
   variables, any mix of integer and object variables, any placement across registers and spill
   slots (whatever temporary_from_position hands out) - whose code the model emits, embedded in any
   program image with its own labels, from every ISA state with a valid spill frame in which FREE
   is defined and every object variable holds null or an 8-aligned heap address:
   control arrives at the final `jmp l_`, in a state where
   - every new variable's temporaries hold what its source's held before (ONE simultaneous
     assignment: all values are read from the initial state);
   - (heap, FREE) is the result of applying, for each object variable exactly once, with k = its
     number of targets: erase (k = 0: header 0 -> pushed on the deferred-free list, else header-1),
     nothing (k = 1), header += k-1 (k >= 2) - to the block its first temporary pointed to; no
     other heap word is written (count_h only ever adds header keys);
   - nothing else changes: variable locations outside the new context, the HEAP register, rsp, the
     output and the stack outside the spill area (rcx, the flags and spill slot 0 are scratch).
   Remaining distance to the Rust code: the model is tied to it by the correspondence check, not
   by proof; the same instruction-level statement is CHECKED (exhaustively for m,n <= 5, all kinds
   and window offsets) on the instructions the Rust code emits, see Model/SubstGen.v. *)
Theorem C11_x86_substitute_simultaneous :
  forall im pc types ctx re l args lc code lc' s sp f,
    NoDup (ids ctx) -> NoDup (new_ids re) ->
    Z.of_nat (List.length re) <= 2147483647 ->
    code_statement x86_backend types (Substitute re (Call l args)) ctx lc = Ok (code, lc') ->
    code_at im pc code -> labels_at im pc code ->
    frame_ok s sp -> rget s FREE = Some f ->
    (forall i b t, nth_error ctx i = Some b -> is_obj b = true -> tpos x86_backend Fst i = Ok t ->
       exists p, lget s sp t = Some p /\ (p = 0 \/ block_ok p)) ->
    exists (s' : xstate) (f' : Z) (order : list (nat * binding)) (ptr : nat -> Z),
      exec_to im pc s (padd pc (List.length code - 1)) s' /\
      nth_error code (List.length code - 1) = Some (JMPL (show_ident l +++ "_")) /\
      (forall i j bi pj n a b, nth_error ctx i = Some bi -> nth_error re j = Some pj -> idn (snd pj) = idn (bvar bi) ->
         (n = Snd \/ bchi bi <> Ext) -> tpos x86_backend n i = Ok a -> tpos x86_backend n j = Ok b ->
         lget s' sp b = lget s sp a) /\
      Permutation (map snd order) (filter is_obj ctx) /\
      (forall i b, In (i, b) order -> nth_error ctx i = Some b /\
                                      exists t, tpos x86_backend Fst i = Ok t /\ lget s sp t = Some (ptr i)) /\
      rget s' FREE = Some f' /\
      (heap s', f') = fold_left (fun hf ib => count_h (ptr (fst ib)) (count_targets re (snd ib)) hf) order (heap s, f) /\
      (forall u, var_temp u -> u <> XR FREE -> (forall j n, tpos x86_backend n j = Ok u -> (List.length re <= j)%nat) ->
                 lget s' sp u = lget s sp u) /\
      rget s' HEAP = rget s HEAP /\ frame_ok s' sp /\ out s' = out s /\
      (forall k, (forall p, slot_ok p -> k <> key (slot_addr sp p)) -> PM.find k (stack s') = PM.find k (stack s)).
Proof. exact x86_substitute_ok. Qed.
Print Assumptions C11_x86_substitute_simultaneous.

(* AArch64 and RISC-V: their Temporary orders and numberings satisfy `backend_ok`, so
   C11_substitute_graph_indeg1 / C11_substitute_graph_edges / C11_weakening_contraction_counts hold for
   their models too; the instruction-level statements for these two back ends follow below
   (theorems named C11_a64_... and C11_rv_...). *)
From SCC Require Model.A64 Model.RV Proof.SubstBackends.
Theorem C11_a64_backend_ok : backend_ok A64.a64_backend.
Proof. exact SubstBackends.a64_backend_ok. Qed.
Print Assumptions C11_a64_backend_ok.
Theorem C11_rv_backend_ok : backend_ok RV.rv_backend.
Proof. exact SubstBackends.rv_backend_ok. Qed.
Print Assumptions C11_rv_backend_ok.

(* ======================================================================================== *)
(* AArch64: the same statements about the INSTRUCTIONS, on the ISA semantics Sem/A64Sem.v.    *)
(* Proofs: Proof/A64PM.v (moves; also exported as C07_selection_parallel_moves),              *)
(* Proof/A64MemSubst.v (share/erase), Proof/A64Subst.v (frame of the moves, whole Substitute).*)
(* Scratch state of this back end: X2 (TEMP: the value that closes a cycle, a spilled pointer *)
(* of share/erase), X3 (TEMP2: staging register of spill-to-spill moves, the header of        *)
(* share/erase), the flags.  There is no spill-edge analysis (contains_spill_edge = false):    *)
(* two scratch registers make it unnecessary.  `operand_ok t`: t is a register Xn other than  *)
(* X2/X3 or a spill slot below SPILL_NUM - every temporary the numbering hands out is.         *)
(* ======================================================================================== *)
From SCC Require Sem.A64Sem Proof.A64State Proof.A64Sel Proof.A64PM Proof.A64Exec Proof.A64MemSubst Proof.A64Subst.

(* (i) the parallel moves: register-register, register-spill, spill-register, spill-spill through X3,
   cycles broken by one value saved in X2 - run as straight-line code from ANY state with a valid spill
   frame, for ANY assignment map with in-degree <= 1 over variable temporaries: every target holds the
   initial value of its source, every other variable location (HEAP = X0 and FREE = X1 included) is
   unchanged, and so are heap, output, flags, SP and the stack outside the spill area. *)
Theorem C11_a64_parallel_moves_simultaneous :
  forall (im : A64Sem.image) (am : amap A64.atemp) (code : list A64.acode) (s : A64Sem.astate) (sp : Z),
    indeg1 A64.atemp A64PM.a64_teqb am -> nodup_targets A64.atemp A64PM.a64_teqb am ->
    A64PM.amap_ok A64.atemp A64Sel.operand_ok am ->
    parallel_moves_code A64.a64_backend am = Ok code ->
    A64State.frame_ok s sp ->
    exists s', A64Sem.run_straight im code s = A64Sem.MOk s' /\
      (forall a b, edge A64.atemp A64PM.a64_teqb am a b -> A64State.lget s' sp b = A64State.lget s sp a) /\
      (forall u, A64Sel.operand_ok u -> (forall a, ~ edge A64.atemp A64PM.a64_teqb am a u) ->
                 A64State.lget s' sp u = A64State.lget s sp u) /\
      A64State.frame_ok s' sp /\ A64Sem.heap s' = A64Sem.heap s /\ A64Sem.out s' = A64Sem.out s /\
      A64Sem.flags s' = A64Sem.flags s /\
      (forall k, (forall p, A64State.slot_ok p -> k <> A64Sem.key (A64State.slot_addr sp p)) ->
                 A64Sem.PM.find k (A64Sem.stack s') = A64Sem.PM.find k (A64Sem.stack s)).
Proof. exact A64Subst.a64_parallel_moves_frame_ok. Qed.
Print Assumptions C11_a64_parallel_moves_simultaneous.

Theorem C11_a64_parallel_moves_total :
  forall am : amap A64.atemp, indeg1 A64.atemp A64PM.a64_teqb am -> exists code, parallel_moves_code A64.a64_backend am = Ok code.
Proof. exact A64Subst.a64_parallel_moves_total. Qed.
Print Assumptions C11_a64_parallel_moves_total.

(* (iii) AArch64 meaning of the two reference-count operations, inside any image that contains the code
   with its own labels.  The header is updated by LDR X3 / ADD|SUB X3 / STR X3; the tests are CMP #0 +
   B.EQ, i.e. on the 64-bit value (A64Exec.erase_h tests `wrap header = 0`; for a 64-bit header that is
   `header = 0`, lemma A64Exec.erase_h_in64). *)
Theorem C11_a64_share_meaning :
  forall im pc s sp t n lc p f,
    let code := fst (A64.a_share_block_n t n lc) in
    A64Exec.code_at im pc code -> A64Exec.labels_at im pc code ->
    A64State.frame_ok s sp -> A64Sel.operand_ok t ->
    A64State.lget s sp t = Some p -> (p = 0 \/ A64Exec.block_ok p) ->
    exists s', A64Exec.exec_to im pc s (A64Exec.padd pc (List.length code)) s' /\
               (A64Sem.heap s', f) = A64Exec.share_h p (Z.of_N n) (A64Sem.heap s, f) /\
               (forall r, r <> A64.TEMP -> r <> A64.TEMP2 -> A64Sem.rget s' r = A64Sem.rget s r) /\
               A64Sem.stack s' = A64Sem.stack s /\ A64Sem.out s' = A64Sem.out s.
Proof. exact A64MemSubst.a64_share_ok. Qed.
Print Assumptions C11_a64_share_meaning.

Theorem C11_a64_erase_meaning :
  forall im pc s sp t lc p f,
    let code := fst (A64.a_erase_block t lc) in
    A64Exec.code_at im pc code -> A64Exec.labels_at im pc code ->
    A64State.frame_ok s sp -> A64Sel.operand_ok t -> t <> A64.AR A64.FREE ->
    A64State.lget s sp t = Some p -> (p = 0 \/ A64Exec.block_ok p) ->
    A64Sem.rget s A64.FREE = Some f ->
    exists s' f', A64Exec.exec_to im pc s (A64Exec.padd pc (List.length code)) s' /\
               A64Sem.rget s' A64.FREE = Some f' /\
               (A64Sem.heap s', f') = A64Exec.erase_h p (A64Sem.heap s, f) /\
               (forall r, r <> A64.TEMP -> r <> A64.TEMP2 -> r <> A64.FREE -> A64Sem.rget s' r = A64Sem.rget s r) /\
               A64Sem.stack s' = A64Sem.stack s /\ A64Sem.out s' = A64Sem.out s.
Proof. exact A64MemSubst.a64_erase_ok. Qed.
Print Assumptions C11_a64_erase_meaning.

(* (iv) THE PROPERTY on AArch64, word for word the x86-64 statement (C11_x86_substitute_simultaneous)
   with X2, X3 and the flags as scratch state; no bound on the number of variables is needed (the
   increment is an ADD immediate the semantics does not range-check; its encodability is C14's matter).
   The hypotheses are satisfiable: Example A64Subst.a64_substitute_hyps_satisfiable (a swap through a
   cycle, a duplicated object, a dropped object; 26 instructions). *)
Theorem C11_a64_substitute_simultaneous :
  forall im pc types ctx re l args lc code lc' s sp f,
    NoDup (ids ctx) -> NoDup (new_ids re) ->
    code_statement A64.a64_backend types (Substitute re (Call l args)) ctx lc = Ok (code, lc') ->
    A64Exec.code_at im pc code -> A64Exec.labels_at im pc code ->
    A64State.frame_ok s sp -> A64Sem.rget s A64.FREE = Some f ->
    (forall i b t, nth_error ctx i = Some b -> is_obj b = true -> tpos A64.a64_backend Fst i = Ok t ->
       exists p, A64State.lget s sp t = Some p /\ (p = 0 \/ A64Exec.block_ok p)) ->
    exists (s' : A64Sem.astate) (f' : Z) (order : list (nat * binding)) (ptr : nat -> Z),
      A64Exec.exec_to im pc s (A64Exec.padd pc (List.length code - 1)) s' /\
      nth_error code (List.length code - 1) = Some (A64.B (show_ident l +++ "_")) /\
      (forall i j bi pj n a b, nth_error ctx i = Some bi -> nth_error re j = Some pj -> idn (snd pj) = idn (bvar bi) ->
         (n = Snd \/ bchi bi <> Ext) -> tpos A64.a64_backend n i = Ok a -> tpos A64.a64_backend n j = Ok b ->
         A64State.lget s' sp b = A64State.lget s sp a) /\
      Permutation (map snd order) (filter is_obj ctx) /\
      (forall i b, In (i, b) order -> nth_error ctx i = Some b /\
                                      exists t, tpos A64.a64_backend Fst i = Ok t /\ A64State.lget s sp t = Some (ptr i)) /\
      A64Sem.rget s' A64.FREE = Some f' /\
      (A64Sem.heap s', f') =
        fold_left (fun hf ib => A64Exec.count_h (ptr (fst ib)) (count_targets re (snd ib)) hf) order (A64Sem.heap s, f) /\
      (forall u, A64Sel.operand_ok u -> u <> A64.AR A64.FREE ->
                 (forall j n, tpos A64.a64_backend n j = Ok u -> (List.length re <= j)%nat) ->
                 A64State.lget s' sp u = A64State.lget s sp u) /\
      A64Sem.rget s' A64.HEAP = A64Sem.rget s A64.HEAP /\ A64State.frame_ok s' sp /\ A64Sem.out s' = A64Sem.out s /\
      (forall k, (forall p, A64State.slot_ok p -> k <> A64Sem.key (A64State.slot_addr sp p)) ->
                 A64Sem.PM.find k (A64Sem.stack s') = A64Sem.PM.find k (A64Sem.stack s)).
Proof. exact A64Subst.a64_substitute_ok. Qed.
Print Assumptions C11_a64_substitute_simultaneous.

(* ======================================================================================== *)
(* RISC-V: every temporary is a register (no spills); moves are MV, a cycle is broken through  *)
(* X1 (TEMP).  The code contains no stack access at all.  Execution inside an image is the     *)
(* relation RVSel.star (one step = one step of Sem/RVSem.v, C08_run_chunk_one); RVSel.placed =  *)
(* the code sits in the image with its own labels.  The heap is seen through RVSel.represents  *)
(* (words, HEAP = X2, FREE = X3) as in C08's refinement theorems for share/erase, which are    *)
(* reused here.  Proofs: Proof/RVSubst.v.                                                      *)
(* ======================================================================================== *)
From SCC Require Sem.RVSem Proof.RVSel Proof.RVSubst.

Theorem C11_rv_parallel_moves_simultaneous :
  forall (im : RVSem.image) (i : positive) (am : amap RV.rtemp) (code : list RV.rcode) (s : RVSem.rstate),
    indeg1 RV.rtemp RVSubst.rv_teqb am -> nodup_targets RV.rtemp RVSubst.rv_teqb am ->
    A64PM.amap_ok RV.rtemp RVSubst.rv_operand_ok am ->
    parallel_moves_code RV.rv_backend am = Ok code ->
    RVSel.at_code im i code ->
    exists s', RVSel.star im i s (RVSel.padd i (List.length code)) s' /\
      RVSem.heap s' = RVSem.heap s /\ RVSem.hw s' = RVSem.hw s /\
      (forall a b, edge RV.rtemp RVSubst.rv_teqb am a b -> RVSem.rget s' b = RVSem.rget s a) /\
      (forall u, RVSubst.rv_operand_ok u -> (forall a, ~ edge RV.rtemp RVSubst.rv_teqb am a u) -> RVSem.rget s' u = RVSem.rget s u).
Proof. exact RVSubst.rv_parallel_moves_ok. Qed.
Print Assumptions C11_rv_parallel_moves_simultaneous.

Theorem C11_rv_parallel_moves_total :
  forall am : amap RV.rtemp, indeg1 RV.rtemp RVSubst.rv_teqb am -> exists code, parallel_moves_code RV.rv_backend am = Ok code.
Proof. exact RVSubst.rv_parallel_moves_total. Qed.
Print Assumptions C11_rv_parallel_moves_total.

(* THE PROPERTY on RISC-V.  `Z.of_nat (length re) <= 2048`: the increment k-1 of a shared object must fit
   the 12-bit immediate of ADDI, which Sem/RVSem.v checks (the back end cannot name more than 14
   variables anyway).  a_count p k: erase (k = 0), nothing (k = 1), header += k-1 (k >= 2) on the
   abstract heap of RVSel.  Satisfiable: Example RVSubst.rv_substitute_hyps_satisfiable. *)
Theorem C11_rv_substitute_simultaneous :
  forall im i types ctx re l args lc code lc' s h,
    NoDup (ids ctx) -> NoDup (new_ids re) ->
    Z.of_nat (List.length re) <= 2048 ->
    code_statement RV.rv_backend types (Substitute re (Call l args)) ctx lc = Ok (code, lc') ->
    RVSel.placed im i code ->
    RVSel.represents s h ->
    (forall k b t, nth_error ctx k = Some b -> is_obj b = true -> tpos RV.rv_backend Fst k = Ok t ->
       exists p, RVSem.rget s t = Some p /\ (p = 0 \/ RVSel.valid_addr p)) ->
    exists (s' : RVSem.rstate) (order : list (nat * binding)) (ptr : nat -> Z),
      RVSel.star im i s (RVSel.padd i (List.length code - 1)) s' /\
      nth_error code (List.length code - 1) = Some (RV.JAL RV.ZERO (show_ident l +++ "_")) /\
      (forall k j bk pj n a b, nth_error ctx k = Some bk -> nth_error re j = Some pj -> idn (snd pj) = idn (bvar bk) ->
         (n = Snd \/ bchi bk <> Ext) -> tpos RV.rv_backend n k = Ok a -> tpos RV.rv_backend n j = Ok b ->
         RVSem.rget s' b = RVSem.rget s a) /\
      Permutation (map snd order) (filter is_obj ctx) /\
      (forall k b, In (k, b) order -> nth_error ctx k = Some b /\
                                      exists t, tpos RV.rv_backend Fst k = Ok t /\ RVSem.rget s t = Some (ptr k)) /\
      RVSel.represents s' (fold_left (fun h kb => RVSubst.a_count (ptr (fst kb)) (count_targets re (snd kb)) h) order h) /\
      (forall u, u <> RV.TEMP -> u <> RV.FREE -> (forall j n, tpos RV.rv_backend n j = Ok u -> (List.length re <= j)%nat) ->
                 RVSem.rget s' u = RVSem.rget s u).
Proof. exact RVSubst.rv_substitute_ok. Qed.
Print Assumptions C11_rv_substitute_simultaneous.
