(* C11: explicit substitutions are compiled as simultaneous assignments.
   Only statements here; proofs live in Model/ and Proof/. *)
From Coq Require Import List Bool.
From SCC Require Import Model.ParMoves.

(* The code emitted by the generic parallel-move algorithm (spanning forest, depth-first emission,
   one saved value per cycle) performs the whole assignment simultaneously: every target ends up
   with the initial value of its source and every temporary that is no target is unchanged - for
   every move graph in which each target has at most one source (cycles, chains, fan-out
   included), every initial contents and every value type. *)
Theorem C11_parallel_moves_simultaneous :
  forall (T : Type) (eqb : T -> T -> bool) (eqb_spec : forall a b, reflect (a = b) (eqb a b)) (V : Type)
         (fuel : nat) (A : amap T) (is : list (pinstr T)) (st0 : T -> V) (sc0 : V),
    indeg1 T eqb A -> nodup_targets T eqb A ->
    parallel_moves T eqb fuel A = Some is ->
    let c' := exec T eqb V is (st0, sc0) in
    (forall a b, edge T eqb A a b -> fst c' b = st0 a) /\
    (forall u, (forall a, ~ edge T eqb A a u) -> fst c' u = st0 u).
Proof. exact parallel_moves_correct. Qed.
Print Assumptions C11_parallel_moves_simultaneous.

(* The algorithm never runs out of fuel when called with the number of targets plus two, i.e. the
   Rust recursion terminates on every such graph. *)
Theorem C11_parallel_moves_terminates :
  forall (T : Type) (eqb : T -> T -> bool) (eqb_spec : forall a b, reflect (a = b) (eqb a b)) (A : amap T),
    indeg1 T eqb A -> parallel_moves T eqb (length (all_targets T A) + 2) A <> None.
Proof. exact parallel_moves_terminates. Qed.
Print Assumptions C11_parallel_moves_terminates.

(* ======================================================================================== *)
(* x86-64: the same statement about the INSTRUCTIONS, on the ISA semantics of Sem/X86Sem.v    *)
(* ======================================================================================== *)
From Coq Require Import ZArith NArith String FMapPositive Permutation Sorted.
From SCC Require Import Lang.AxSyn Model.Backend Model.X86 Sem.X86Sem Proof.X86State Proof.X86Sel Proof.X86Exec
     Proof.X86MemSubst Proof.X86ParMoves Proof.SubstGraph Proof.X86Subst.
Local Open Scope Z_scope.

(* (i) The code `parallel_moves_code x86_backend A` (x_mov / x_store_temporary / x_restore_temporary
   chosen by x_contains_spill_edge), run as straight-line code from ANY ISA state with a valid spill
   frame, for ANY assignment map A with in-degree <= 1 over variable temporaries (registers other
   than rsp and rcx, spill slots other than the reserved slot 0): every target location holds the
   initial value of its source, every other variable location is unchanged, and heap, output, flags,
   rsp and the stack outside the spill area are unchanged (only rcx and spill slot 0 may change). *)
Theorem C11_x86_parallel_moves_simultaneous :
  forall (im : image) (A : amap xtemp) (code : list xcode) (s : xstate) (sp : Z),
    indeg1 xtemp (teqb x86_backend) A -> nodup_targets xtemp (teqb x86_backend) A ->
    (forall t, In t (map fst A) \/ In t (all_targets xtemp A) -> var_temp t) ->
    parallel_moves_code x86_backend A = Ok code ->
    frame_ok s sp ->
    exists s', exec_straight im code s = Some s' /\
      (forall a b, edge xtemp (teqb x86_backend) A a b -> lget s' sp b = lget s sp a) /\
      (forall u, var_temp u -> (forall a, ~ edge xtemp (teqb x86_backend) A a u) -> lget s' sp u = lget s sp u) /\
      frame_ok s' sp /\ same_frame s s' sp.
Proof. exact x86_parallel_moves_ok. Qed.
Print Assumptions C11_x86_parallel_moves_simultaneous.

Theorem C11_x86_parallel_moves_total :
  forall A : amap xtemp, indeg1 xtemp (teqb x86_backend) A -> exists code, parallel_moves_code x86_backend A = Ok code.
Proof. exact x86_parallel_moves_total. Qed.
Print Assumptions C11_x86_parallel_moves_total.

(* the key fact about the model of axcut2x86_64::parallel_moves::contains_spill_edge: when it
   answers false, no move of the root goes from a spill slot to a spill slot, so rcx (the staging
   register of such moves) is free to hold the value saved for the cycle *)
Theorem C11_x86_spill_edge_sound :
  forall (k : xtemp) (cs : list (tree xtemp)),
    x_contains_spill_edge (StartNode xtemp k cs) = false ->
    Forall (fun i => match i with Mov _ d s => is_spill d && is_spill s = false | _ => True end)
           (root_moves xtemp (StartNode xtemp k cs)).
Proof. exact root_spill_free. Qed.
Print Assumptions C11_x86_spill_edge_sound.

(* (ii) Every Substitute the compiler emits meets the hypotheses of (i): for a context with pairwise
   distinct ids and pairwise distinct new ids, the map built by `connections (transpose re ctx)` has
   in-degree <= 1, duplicate-free target sets and strictly increasing keys (any back end whose
   Temporary order is a strict total order and whose numbering is injective), and its edges are
   exactly old variable -> the new variables it is assigned to, per temporary. *)
Theorem C11_substitute_graph_indeg1 :
  forall (Code Temp : Type) (B : backend Code Temp), backend_ok B ->
  forall (ctx : ctx) (re : list (binding * ident)) (am : amap Temp),
    NoDup (ids ctx) -> NoDup (new_ids re) ->
    connections B (transpose re ctx) ctx (map fst re) = Ok am ->
    indeg1 Temp (teqb B) am /\ nodup_targets Temp (teqb B) am /\
    StronglySorted (fun a b => b_tcompare B a b = Datatypes.Lt) (map fst am) /\
    (forall a, In a (map fst am) -> exists i bi n, nth_error ctx i = Some bi /\ (n = Snd \/ bchi bi <> Ext) /\ tpos B n i = Ok a).
Proof. intros Code Temp B OK. exact (transpose_connections_indeg1 B OK). Qed.
Print Assumptions C11_substitute_graph_indeg1.

Theorem C11_substitute_graph_edges :
  forall (Code Temp : Type) (B : backend Code Temp), backend_ok B ->
  forall (ctx : ctx) (re : list (binding * ident)) (am : amap Temp),
    NoDup (ids ctx) -> NoDup (new_ids re) ->
    connections B (transpose re ctx) ctx (map fst re) = Ok am ->
    forall a b, edge Temp (teqb B) am a b <->
      exists i j bi pj n, nth_error ctx i = Some bi /\ nth_error re j = Some pj /\
        idn (snd pj) = idn (bvar bi) /\ (n = Snd \/ bchi bi <> Ext) /\ tpos B n i = Ok a /\ tpos B n j = Ok b.
Proof. intros Code Temp B OK. exact (connections_edges B OK). Qed.
Print Assumptions C11_substitute_graph_edges.

Theorem C11_x86_backend_ok : backend_ok x86_backend.
Proof. exact x86_backend_ok. Qed.
Print Assumptions C11_x86_backend_ok.

(* (iii) Reference counts, generic part: `code_weakening_contraction` emits exactly one abstract
   operation per object (non-Ext) variable of the context - erase for 0 targets, nothing for 1,
   share (k-1) for k >= 2 - each variable once (a permutation of the object bindings), in the order
   of binding_compare (the BTreeMap order), on the first temporary of the variable. *)
Theorem C11_weakening_contraction_counts :
  forall (Code Temp : Type) (B : backend Code Temp) (ctx : ctx) (re : list (binding * ident)) (lc : N) (code : list Code) (lc' : N),
    NoDup (ids ctx) ->
    code_weakening_contraction B (transpose re ctx) ctx lc = Ok (code, lc') ->
    exists order : list (nat * binding),
      Permutation (map snd order) (filter is_obj ctx) /\
      StronglySorted (fun x y => binding_compare (snd x) (snd y) = Datatypes.Lt) order /\
      (forall i b, In (i, b) order -> nth_error ctx i = Some b) /\
      exists ops, Forall2 (fun ib o => exists t, tpos B Fst (fst ib) = Ok t /\ o = rc_op_for t (count_targets re (snd ib))) order ops /\
                  (code, lc') = emit_rc B (List.concat ops) lc.
Proof. intros Code Temp B. exact (weakening_contraction_counts B). Qed.
Print Assumptions C11_weakening_contraction_counts.

(* (iii) x86-64 meaning of the two operations, for a block pointer p in a register or a spill slot,
   inside any image that contains the code with its own labels: null -> no effect; share n -> header
   += n; erase -> header = 0: the block is pushed on the deferred-free list (header := FREE,
   FREE := p), else header -= 1.  Registers other than rcx (and FREE for erase), the stack and the
   output are unchanged. *)
Theorem C11_x86_share_meaning :
  forall im pc s sp t n lc p f,
    let code := fst (x_share_block_n t n lc) in
    code_at im pc code -> labels_at im pc code ->
    frame_ok s sp -> loc_ok t -> t <> XR TEMP ->
    lget s sp t = Some p -> (p = 0 \/ block_ok p) -> fits32 (Z.of_N n) = true ->
    rget s FREE = Some f ->
    exists s', exec_to im pc s (padd pc (List.length code)) s' /\
               (heap s', f) = share_h p (Z.of_N n) (heap s, f) /\
               (forall r, r <> TEMP -> rget s' r = rget s r) /\
               stack s' = stack s /\ out s' = out s.
Proof. exact x86_share_ok. Qed.
Print Assumptions C11_x86_share_meaning.

Theorem C11_x86_erase_meaning :
  forall im pc s sp t lc p f,
    let code := fst (x_erase_block t lc) in
    code_at im pc code -> labels_at im pc code ->
    frame_ok s sp -> loc_ok t -> t <> XR TEMP -> t <> XR FREE ->
    lget s sp t = Some p -> (p = 0 \/ block_ok p) ->
    rget s FREE = Some f ->
    exists s' f', exec_to im pc s (padd pc (List.length code)) s' /\
               rget s' FREE = Some f' /\
               (heap s', f') = erase_h p (heap s, f) /\
               (forall r, r <> TEMP -> r <> FREE -> rget s' r = rget s r) /\
               stack s' = stack s /\ out s' = out s.
Proof. exact x86_erase_ok. Qed.
Print Assumptions C11_x86_erase_meaning.

(* (iv) THE PROPERTY on x86-64.  For every explicit substitution `Substitute re (Call l args)` in a
   context with pairwise distinct ids and pairwise distinct new ids - any assignment of old to new
   variables, any mix of integer and object variables, any placement across registers and spill
   slots (whatever temporary_from_position hands out) - whose code the model emits, embedded in any
   program image with its own labels, from every ISA state with a valid spill frame in which FREE
   is defined and every object variable holds null or an 8-aligned heap address:
   control arrives at the final `jmp l_`, in a state where
   - every new variable's temporaries hold what its source's held before (ONE simultaneous
     assignment: all values are read from the initial state);
   - (heap, FREE) is the result of applying, for each object variable exactly once, with k = its
     number of targets: erase (k = 0: header 0 -> pushed on the deferred-free list, else header-1),
     nothing (k = 1), header += k-1 (k >= 2) - to the block its first temporary pointed to; no
     other heap word is written (count_h only ever adds header keys);
   - nothing else changes: variable locations outside the new context, the HEAP register, rsp, the
     output and the stack outside the spill area (rcx, the flags and spill slot 0 are scratch).
   Remaining distance to the Rust code: the model is tied to it by the correspondence check, not
   by proof; the same instruction-level statement is CHECKED (exhaustively for m,n <= 5, all kinds
   and window offsets) on the instructions the Rust code emits, see Model/SubstGen.v. *)
Theorem C11_x86_substitute_simultaneous :
  forall im pc types ctx re l args lc code lc' s sp f,
    NoDup (ids ctx) -> NoDup (new_ids re) ->
    Z.of_nat (List.length re) <= 2147483647 ->
    code_statement x86_backend types (Substitute re (Call l args)) ctx lc = Ok (code, lc') ->
    code_at im pc code -> labels_at im pc code ->
    frame_ok s sp -> rget s FREE = Some f ->
    (forall i b t, nth_error ctx i = Some b -> is_obj b = true -> tpos x86_backend Fst i = Ok t ->
       exists p, lget s sp t = Some p /\ (p = 0 \/ block_ok p)) ->
    exists (s' : xstate) (f' : Z) (order : list (nat * binding)) (ptr : nat -> Z),
      exec_to im pc s (padd pc (List.length code - 1)) s' /\
      nth_error code (List.length code - 1) = Some (JMPL (show_ident l +++ "_")) /\
      (forall i j bi pj n a b, nth_error ctx i = Some bi -> nth_error re j = Some pj -> idn (snd pj) = idn (bvar bi) ->
         (n = Snd \/ bchi bi <> Ext) -> tpos x86_backend n i = Ok a -> tpos x86_backend n j = Ok b ->
         lget s' sp b = lget s sp a) /\
      Permutation (map snd order) (filter is_obj ctx) /\
      (forall i b, In (i, b) order -> nth_error ctx i = Some b /\
                                      exists t, tpos x86_backend Fst i = Ok t /\ lget s sp t = Some (ptr i)) /\
      rget s' FREE = Some f' /\
      (heap s', f') = fold_left (fun hf ib => count_h (ptr (fst ib)) (count_targets re (snd ib)) hf) order (heap s, f) /\
      (forall u, var_temp u -> u <> XR FREE -> (forall j n, tpos x86_backend n j = Ok u -> (List.length re <= j)%nat) ->
                 lget s' sp u = lget s sp u) /\
      rget s' HEAP = rget s HEAP /\ frame_ok s' sp /\ out s' = out s /\
      (forall k, (forall p, slot_ok p -> k <> key (slot_addr sp p)) -> PM.find k (stack s') = PM.find k (stack s)).
Proof. exact x86_substitute_ok. Qed.
Print Assumptions C11_x86_substitute_simultaneous.

(* AArch64 and RISC-V: their Temporary orders and numberings satisfy `backend_ok`, so
   C11_substitute_graph_indeg1 / C11_substitute_graph_edges / C11_weakening_contraction_counts hold for
   their models too.  At the instruction level the property is checked for these two back ends (the
   emitted instructions are executed on Sem/A64Sem.v and Sem/RVSem.v, exhaustively for m,n <= 5), not
   proved. *)
From SCC Require Model.A64 Model.RV Proof.SubstBackends.
Theorem C11_a64_backend_ok : backend_ok A64.a64_backend.
Proof. exact SubstBackends.a64_backend_ok. Qed.
Print Assumptions C11_a64_backend_ok.
Theorem C11_rv_backend_ok : backend_ok RV.rv_backend.
Proof. exact SubstBackends.rv_backend_ok. Qed.
Print Assumptions C11_rv_backend_ok.
