(* C11: explicit substitutions are compiled as simultaneous assignments.
   Only statements here; proofs live in Model/ and Proof/. *)
From Coq Require Import List Bool.
From SCC Require Import Model.ParMoves.

(* The code emitted by the generic parallel-move algorithm (spanning forest, depth-first emission,
   one saved value per cycle) performs the whole assignment simultaneously: every target ends up
   with the initial value of its source and every temporary that is no target is unchanged - for
   every move graph in which each target has at most one source (cycles, chains, fan-out
   included), every initial contents and every value type. *)
Theorem C11_parallel_moves_simultaneous :
  forall (T : Type) (eqb : T -> T -> bool) (eqb_spec : forall a b, reflect (a = b) (eqb a b)) (V : Type)
         (fuel : nat) (A : amap T) (is : list (pinstr T)) (st0 : T -> V) (sc0 : V),
    indeg1 T eqb A -> nodup_targets T eqb A ->
    parallel_moves T eqb fuel A = Some is ->
    let c' := exec T eqb V is (st0, sc0) in
    (forall a b, edge T eqb A a b -> fst c' b = st0 a) /\
    (forall u, (forall a, ~ edge T eqb A a u) -> fst c' u = st0 u).
Proof. exact parallel_moves_correct. Qed.
Print Assumptions C11_parallel_moves_simultaneous.

(* The algorithm never runs out of fuel when called with the number of targets plus two, i.e. the
   Rust recursion terminates on every such graph. *)
Theorem C11_parallel_moves_terminates :
  forall (T : Type) (eqb : T -> T -> bool) (eqb_spec : forall a b, reflect (a = b) (eqb a b)) (A : amap T),
    indeg1 T eqb A -> parallel_moves T eqb (length (all_targets T A) + 2) A <> None.
Proof. exact parallel_moves_terminates. Qed.
Print Assumptions C11_parallel_moves_terminates.
