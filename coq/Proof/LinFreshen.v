(* `TypingContext::freshen`: same length, same kinds/types/names position by position, first
   occurrences kept; the resulting ids are pairwise distinct, avoid `clashes`, and every new id
   lies in (max_id, max_id']. *)
From Coq Require Import String List ZArith NArith Bool Lia Permutation.
From SCC Require Import Base.Sexp Lang.AxSyn Model.Linearize Model.LinCheck Proof.LinBasics.
Import ListNotations.
Open Scope list_scope.
Open Scope N_scope.

Definition same_shape (a b : ctx) : Prop :=
  Forall2 (fun x y => bchi x = bchi y /\ bty x = bty y /\ fst (bvar x) = fst (bvar y)) a b.

Lemma same_shape_kt : forall a b, same_shape a b -> same_kt a b.
Proof. intros a b H; induction H; constructor; auto. tauto. Qed.
Lemma same_shape_length : forall a b, same_shape a b -> length a = length b.
Proof. intros a b H; induction H; simpl; auto. Qed.

Theorem freshen_spec : forall c cl m c' m',
  freshen c cl m = (c', m') ->
  (forall x, In x cl -> x <= m) -> (forall x, In x (ids c) -> x <= m) ->
  m <= m' /\ same_shape c c' /\ NoDup (ids c') /\
  (forall x, In x (ids c') -> ~ In x cl) /\
  (forall x, In x (ids c') -> In x (ids c) \/ (m < x /\ x <= m')).
Proof.
  induction c as [|b r IH]; intros cl m c' m' H Hcl Hc; simpl in *.
  - inversion H; subst. repeat split; try constructor; simpl; try tauto; lia.
  - destruct (mem (idn (bvar b)) cl) eqn:M.
    + destruct (freshen r cl (m + 1)) as [r' m1] eqn:E. inversion H; subst; clear H.
      apply IH in E.
      2:{ intros x Hx. apply Hcl in Hx. lia. }
      2:{ intros x Hx. specialize (Hc x (or_intror Hx)). lia. }
      destruct E as [E1 [E2 [E3 [E4 E5]]]].
      split; [lia|]. split; [constructor; auto|]. simpl.
      split.
      * constructor; auto. intros Hin. apply E5 in Hin. destruct Hin as [Hin|Hin]; [|lia].
        specialize (Hc _ (or_intror Hin)). lia.
      * split.
        -- intros x [<-|Hx]; auto. intros Hin. apply Hcl in Hin. lia.
        -- intros x [<-|Hx]; [right; lia|]. apply E5 in Hx. destruct Hx; [auto|right; lia].
    + destruct (freshen r (idn (bvar b) :: cl) m) as [r' m1] eqn:E. inversion H; subst; clear H.
      apply mem_false in M.
      apply IH in E.
      2:{ intros x [<-|Hx]; auto. }
      2:{ intros x Hx. auto. }
      destruct E as [E1 [E2 [E3 [E4 E5]]]].
      split; auto. split; [constructor; auto|]. simpl.
      split.
      * constructor; auto. intros Hin. apply E4 in Hin. simpl in Hin. tauto.
      * split.
        -- intros x [<-|Hx]; auto. intros Hin. apply E4 in Hx. simpl in Hx. tauto.
        -- intros x [<-|Hx]; auto. apply E5 in Hx. tauto.
Qed.

Theorem freshen_nodup : forall c cl m c' m',
  freshen c cl m = (c', m') ->
  (forall x, In x cl -> x <= m) -> (forall x, In x (ids c) -> x <= m) ->
  NoDup (ids c') /\ (forall x, In x (ids c') -> ~ In x cl).
Proof. intros c cl m c' m' H H1 H2. destruct (freshen_spec _ _ _ _ _ H H1 H2); tauto. Qed.

(* same length, same kinds/types/names; an element whose id neither clashes nor occurred before
   is kept as it is *)
Theorem freshen_positions : forall c cl m c' m',
  freshen c cl m = (c', m') ->
  same_shape c c' /\
  (forall i b, nth_error c i = Some b -> ~ In (idn (bvar b)) cl ->
               ~ In (idn (bvar b)) (ids (firstn i c)) -> nth_error c' i = Some b).
Proof.
  induction c as [|b r IH]; intros cl m c' m' H; simpl in *.
  - inversion H; subst. split; [constructor|]. intros [|i] b0 Hn; discriminate.
  - destruct (mem (idn (bvar b)) cl) eqn:M.
    + destruct (freshen r cl (m + 1)) as [r' m1] eqn:E. inversion H; subst; clear H.
      apply IH in E. destruct E as [E1 E2]. split; [constructor; auto|].
      intros [|i] b0 Hn Hcl Hpre; simpl in *.
      * inversion Hn; subst. apply mem_In in M. tauto.
      * apply E2; auto.
    + destruct (freshen r (idn (bvar b) :: cl) m) as [r' m1] eqn:E. inversion H; subst; clear H.
      apply IH in E. destruct E as [E1 E2]. split; [constructor; auto|].
      intros [|i] b0 Hn Hcl Hpre; simpl in *; auto.
      apply E2; auto. simpl. intros [Heq|Hin]; auto.
Qed.

Lemma freshen_bound : forall c cl m c' m',
  freshen c cl m = (c', m') ->
  (forall x, In x cl -> x <= m) -> (forall x, In x (ids c) -> x <= m) ->
  forall x, In x (ids c') -> x <= m'.
Proof.
  intros c cl m c' m' H H1 H2 x Hx.
  destruct (freshen_spec _ _ _ _ _ H H1 H2) as [E1 [E2 [E3 [E4 E5]]]].
  apply E5 in Hx. destruct Hx as [Hx|Hx]; [|lia]. apply H2 in Hx. lia.
Qed.
