(* ======================================================================================
   Proof/Fun2CoreIds  -  every variable identifier of a fun2core output has id 0 (Identifier::new), so the
   output satisfies C03's precondition:   compile_prog p = Ok c -> pre_check c = true.
   Discharges the stage-output condition `pre_check c` of the compositions for fun2core outputs.
   ====================================================================================== *)
From Coq Require Import List ZArith NArith String Bool Lia.
From SCC Require Import Base.Sexp Lang.SynUtil Lang.FunSyn Lang.FunTy Lang.CoreSyn.
From SCC Require Import Model.Backend Model.Uniquify Model.FocusCheck Model.Fun2Core.
From SCC Require Import Proof.CoreInd Proof.SubstProof Proof.CheckLemmas Proof.PathLemmas
     Proof.Fun2CoreProof Proof.Fun2CoreTfv Proof.Fun2CoreInv Proof.Fun2CoreProg Proof.CoreTyFv Proof.Fun2CoreTyProg.
Import ListNotations.
Open Scope string_scope.
Open Scope list_scope.

Notation zt t := (ids_le_term 0 t = true).
Notation zs s := (ids_le_stmt 0 s = true).

(* the typed free variables of a statement carry ids of the statement *)
Lemma fv_ids_all : forall T,
  (forall t, ids_le_term T t = true -> forall b, In b (fvt t) -> (cid_id (cbvar b) <= T)%N) /\
  (forall a, ids_le_arg T a = true -> forall b, In b (fv_of_arg a) -> (cid_id (cbvar b) <= T)%N) /\
  (forall c, ids_le_clause T c = true -> forall b, fv_of_clause c b -> (cid_id (cbvar b) <= T)%N) /\
  (forall s, ids_le_stmt T s = true -> forall b, In b (fvs s) -> (cid_id (cbvar b) <= T)%N).
Proof.
  intros T. apply core_mutind.
  - intros c v t H b Hb. apply fvt_var in Hb. subst b. simpl in *. apply N.leb_le. exact H.
  - intros n _ b Hb. apply fvt_lit in Hb. contradiction.
  - intros a o b IHa IHb H bb Hb. simpl in H. apply andb_true_iff in H. destruct H as [H1 H2].
    apply fvt_op in Hb. destruct Hb as [Hb|Hb]; [apply IHa | apply IHb]; assumption.
  - intros c v s t IHs H b Hb. simpl in H. apply andb_true_iff in H. destruct H as [_ H]. apply fvt_mu_1 in Hb. apply IHs; assumption.
  - intros c x args t F H b Hb. simpl in H. apply fvt_xtor in Hb. apply fva_in in Hb. destruct Hb as [a [Ha Hb]].
    rewrite Forall_forall in F. rewrite forallb_forall in H. exact (F a Ha (H a Ha) b Hb).
  - intros c cls t F H b Hb. simpl in H. apply fvt_xcase in Hb. apply fvc_in in Hb. destruct Hb as [cl [Hc Hb]].
    rewrite Forall_forall in F. rewrite forallb_forall in H. exact (F cl Hc (H cl Hc) b Hb).
  - intros p IH H b Hb. exact (IH H b Hb).
  - intros k IH H b Hb. exact (IH H b Hb).
  - intros c x ctx body IH H b [Hb _]. simpl in H. apply andb_true_iff in H. destruct H as [_ H]. exact (IH H b Hb).
  - intros p t k IHp IHk H b Hb. simpl in H. apply andb_true_iff in H. destruct H as [H1 H2].
    apply fvs_cut in Hb. destruct Hb as [Hb|Hb]; [apply IHp | apply IHk]; assumption.
  - intros so a b t e IHa IHb IHt IHe H bb Hb. simpl in H.
    apply andb_true_iff in H. destruct H as [H He]. apply andb_true_iff in H. destruct H as [H Ht]. apply andb_true_iff in H. destruct H as [Ha Hb0].
    apply fvs_ifc in Hb. destruct Hb as [Hb|[Hb|[Hb|Hb]]]; [apply IHa; assumption | | apply IHt; assumption | apply IHe; assumption].
    destruct b as [b'|]; [|contradiction]. simpl in IHb. apply IHb; assumption.
  - intros nl a next IHa IHn H b Hb. simpl in H. apply andb_true_iff in H. destruct H as [H1 H2].
    apply fvs_print in Hb. destruct Hb as [Hb|Hb]; [apply IHa | apply IHn]; assumption.
  - intros f args t F H b Hb. simpl in H. apply fvs_call in Hb. apply fva_in in Hb. destruct Hb as [a [Ha Hb]].
    rewrite Forall_forall in F. rewrite forallb_forall in H. exact (F a Ha (H a Ha) b Hb).
  - intros a t IH H b Hb. simpl in H. apply fvs_exit in Hb. exact (IH H b Hb).
Qed.

Definition lifted0 (st : cstate) : Prop := Forall (fun d => ids_le_def 0 d = true) (st_lifted st).

Lemma cids0_compile_ctx : forall ctx, forallb (fun i => N.leb i 0) (cids (compile_ctx ctx)) = true.
Proof. induction ctx as [|b r IH]; simpl; [reflexivity | exact IH]. Qed.
Lemma forallb_app_true : forall (X : Type) (f : X -> bool) a b, forallb f a = true -> forallb f b = true -> forallb f (a ++ b) = true.
Proof. intros. rewrite forallb_app, H, H0. reflexivity. Qed.

Lemma args_of_bindings0 : forall bs, (forall b, In b bs -> (cid_id (cbvar b) <= 0)%N) -> forallb (ids_le_arg 0) (map arg_of_binding bs) = true.
Proof.
  induction bs as [|b r IH]; intros H; simpl; [reflexivity|]. rewrite IH; [|intros b' Hb'; apply H; right; exact Hb'].
  rewrite andb_true_r. pose proof (H b (or_introl eq_refl)) as Hb. unfold arg_of_binding. destruct (cbchi b); simpl; apply N.leb_le; exact Hb.
Qed.

Section Ids.
  Variable cdt : list ctydecl.
  Variable cur : string.
  Notation wc' := (wc cdt cur false).
  Notation cmp' := (cmp cdt cur false).

  Lemma share0 : forall cont st k st', share cur cont st = Ok (k, st') -> zt cont -> lifted0 st -> zt k /\ lifted0 st'.
  Proof.
    intros cont st k st' H Hc Hl. destruct (share_inv _ _ _ _ _ H) as [var [ty [body [stv [name [Hm [Hv [Hlift Hk]]]]]]]].
    assert (Hb : zs body /\ (cid_id var <= 0)%N /\ st_lifted stv = st_lifted st).
    { destruct (is_mu cont) eqn:Emu.
      - destruct cont; try discriminate. destruct Hm as [-> [-> [-> ->]]]. simpl in Hc. apply andb_true_iff in Hc. destruct Hc as [H1 H2].
        apply N.leb_le in H1. auto.
      - assert (Hm' : exists x, fresh_var st = Ok (x, stv) /\ var = new_id x /\ ty = cterm_type cont /\
                                body = CCut (CXVar CPrd (new_id x) ty) ty cont) by (destruct cont; try exact Hm; discriminate).
        destruct Hm' as [x [Hx [-> [_ ->]]]]. destruct (fresh_in_vars_inv _ _ _ _ Hx) as [_ [_ [_ Hl0]]].
        simpl. rewrite Hc. repeat split; auto. reflexivity. }
    destruct Hb as [Hb [Hvar Hls]].
    assert (Hfv : forall b, In b (tfv_stmt body []) -> (cid_id (cbvar b) <= 0)%N) by (apply (proj2 (proj2 (proj2 (fv_ids_all 0%N)))); exact Hb).
    split.
    - subst k. simpl. rewrite (args_of_bindings0 _ Hfv), andb_true_r. apply N.leb_le. exact Hvar.
    - unfold lifted0. rewrite Hlift, Hls. constructor; [|exact Hl]. unfold ids_le_def. simpl. rewrite Hb, andb_true_r.
      apply forallb_forall. intros i Hi. unfold cids in Hi. apply in_map_iff in Hi. destruct Hi as [b [<- Hb0]]. apply N.leb_le. apply Hfv. exact Hb0.
  Qed.

  Definition ZW (t : fterm) : Prop := forall cont st s st', wc' t cont st = Ok (s, st') -> zt cont -> lifted0 st -> zs s /\ lifted0 st'.
  Definition ZC (t : fterm) : Prop := forall ty st c st', cmp' t ty st = Ok (c, st') -> lifted0 st -> zt c /\ lifted0 st'.

  Lemma z_default : forall (w : cterm -> M cstmt) ty st c st',
    (forall cont st0 s st0', w cont st0 = Ok (s, st0') -> zt cont -> lifted0 st0 -> zs s /\ lifted0 st0') ->
    default_compile w ty st = Ok (c, st') -> lifted0 st -> zt c /\ lifted0 st'.
  Proof.
    intros w ty st c st' Hw H Hl. apply default_compile_inv in H. destruct H as [a [sta [s [Ha [Hs ->]]]]].
    destruct (fresh_in_vars_inv _ _ _ _ Ha) as [_ [_ [_ Hl0]]].
    destruct (Hw _ _ _ _ Hs eq_refl) as [Z1 Z2]; [unfold lifted0; rewrite Hl0; exact Hl|]. split; [simpl; exact Z1 | exact Z2].
  Qed.

  (* the repaired placement of a continuation under binders (fix d5d4151): < mu a. w(a) | cont > *)
  Lemma z_guard : forall binders (w : cterm -> M cstmt) lty,
    (forall cont st0 s st0', w cont st0 = Ok (s, st0') -> zt cont -> lifted0 st0 -> zs s /\ lifted0 st0') ->
    forall cont st s st', guard_capture false binders w lty cont st = Ok (s, st') -> zt cont -> lifted0 st -> zs s /\ lifted0 st'.
  Proof.
    intros binders w lty Hw cont st s st' H Hk Hl. apply guard_capture_inv in H.
    destruct H as [[_ H]|[_ [ty0 [a [sta [s0 [_ [Ha [_ [H ->]]]]]]]]]]; [eapply Hw; eauto|].
    destruct (fresh_in_vars_inv _ _ _ _ Ha) as [_ [_ [_ Hl0]]].
    destruct (Hw _ _ _ _ H eq_refl) as [Z1 Z2]; [unfold lifted0; rewrite Hl0; exact Hl|].
    split; [simpl; rewrite Z1, Hk; reflexivity | exact Z2].
  Qed.

  Lemma z_args : forall args, Forall ZC args -> forall st l st', subst_with (fun y => cmp' y) args st = Ok (l, st') ->
    lifted0 st -> forallb (ids_le_arg 0) l = true /\ lifted0 st'.
  Proof.
    intros args H. induction H as [|y r Hy Hr IH]; intros st l st' Hs Hl.
    - simpl in Hs. apply mret_inv in Hs. destruct Hs; subst. auto.
    - apply subst_with_cons_inv in Hs. destruct Hs as [a [st1 [rest [Ha [Hrest ->]]]]].
      apply compile_arg_inv in Ha. destruct Ha as [[v [ty [ty0 [_ [_ [-> ->]]]]]]|[_ [ty0 [c [_ [Ec ->]]]]]].
      + destruct (IH _ _ _ Hrest Hl) as [I1 I2]. simpl. rewrite I1. auto.
      + destruct (Hy _ _ _ _ Ec Hl) as [Y1 Y2]. destruct (IH _ _ _ Hrest Y2) as [I1 I2]. simpl. rewrite Y1, I1. auto.
  Qed.
  Lemma z_clauses : forall cls, Forall (fun c => ZW (clause_body c)) cls -> forall cont st l st',
    clauses_with (fun b => wc' b) cont cls st = Ok (l, st') -> zt cont -> lifted0 st ->
    forallb (ids_le_clause 0) l = true /\ lifted0 st'.
  Proof.
    intros cls H. induction H as [|c r Hc Hr IH]; intros cont st l st' Hs Hk Hl.
    - simpl in Hs. apply mret_inv in Hs. destruct Hs; subst. auto.
    - destruct c as [pl x names ctx body]. apply clauses_with_cons_inv in Hs. destruct Hs as [c' [st1 [rest [Ha [Hrest ->]]]]].
      apply compile_clause_inv in Ha. destruct Ha as [body' [Hb ->]]. simpl in Hc.
      destruct (Hc _ _ _ _ Hb Hk Hl) as [B1 B2]. destruct (IH _ _ _ _ Hrest Hk B2) as [I1 I2].
      simpl. rewrite cids0_compile_ctx, B1, I1. auto.
  Qed.
  Lemma z_coclauses : forall cls, Forall (fun c => ZW (clause_body c)) cls -> forall st l st',
    coclauses_with (fun b => wc' b) cls st = Ok (l, st') -> lifted0 st ->
    forallb (ids_le_clause 0) l = true /\ lifted0 st'.
  Proof.
    intros cls H. induction H as [|c r Hc Hr IH]; intros st l st' Hs Hl.
    - simpl in Hs. apply mret_inv in Hs. destruct Hs; subst. auto.
    - destruct c as [pl x names ctx body]. apply coclauses_with_cons_inv in Hs. destruct Hs as [c' [st1 [rest [Ha [Hrest ->]]]]].
      apply compile_coclause_inv in Ha. destruct Ha as [ty0 [a [sta [body' [_ [Hfr [Hb ->]]]]]]]. simpl in Hc.
      destruct (fresh_in_vars_inv _ _ _ _ Hfr) as [_ [_ [_ Hl0]]].
      destruct (Hc _ _ _ _ Hb eq_refl) as [B1 B2]; [unfold lifted0; rewrite Hl0; exact Hl|].
      destruct (IH _ _ _ Hrest B2) as [I1 I2].
      simpl. rewrite B1, I1. unfold cids. rewrite map_app. fold (cids (compile_ctx ctx)). rewrite forallb_app, cids0_compile_ctx. auto.
  Qed.

  Lemma z_op : forall a b, ZC a -> ZC b -> forall o st c st', cmp_op (cmp' a CI64) o (cmp' b CI64) st = Ok (c, st') -> lifted0 st -> zt c /\ lifted0 st'.
  Proof.
    intros a b Ha Hb o st c st' H Hl. apply cmp_op_inv in H. destruct H as [a' [st1 [b' [E1 [E2 ->]]]]].
    destruct (Ha _ _ _ _ E1 Hl) as [A1 A2]. destruct (Hb _ _ _ _ E2 A2) as [B1 B2]. simpl. rewrite A1, B1. auto.
  Qed.

  Theorem z_all : forall t, ZW t /\ ZC t.
  Proof.
    induction t using fterm_ind'.
    - split.
      + intros cont st s st' H Hk Hl. rewrite wc_unfold in H. apply wc_var_inv in H. destruct H as [ty0 [_ [-> ->]]]. simpl. rewrite Hk. auto.
      + intros ty0 st c st' H Hl. rewrite cmp_unfold in H. apply cmp_var_inv in H. destruct H as [ty1 [_ [-> ->]]]. auto.
    - split.
      + intros cont st s st' H Hk Hl. rewrite wc_unfold in H. unfold wc_lit in H. apply mret_inv in H. destruct H as [-> ->]. simpl. auto.
      + intros ty0 st c st' H Hl. rewrite cmp_unfold in H. unfold cmp_lit in H. apply mret_inv in H. destruct H as [-> ->]. auto.
    - destruct IHt1 as [_ C1], IHt2 as [_ C2]. split.
      + intros cont st s st' H Hk Hl. rewrite wc_unfold in H. unfold wc_op in H. minv H. apply mret_inv in H. destruct H as [-> ->].
        destruct (z_op t1 t2 C1 C2 _ _ _ _ E Hl) as [Z1 Z2]. simpl. rewrite Z1, Hk. auto.
      + intros ty0 st c st' H Hl. rewrite cmp_unfold in H. exact (z_op t1 t2 C1 C2 o st c st' H Hl).
    - destruct IHt1 as [_ C1], IHt2 as [W2 _], IHt3 as [W3 _].
      assert (HW : ZW (FIfC s t1 b t2 t3 ty)).
      { intros cont st s0 st' H0 Hk Hl. rewrite wc_unfold in H0. apply wc_ifc_inv in H0.
        destruct H0 as [cont1 [st0 [a [sta [b' [stb [t [stt [e [Hsh [Ha [Hbb [Ht [He ->]]]]]]]]]]]]]].
        assert (Hc1 : zt cont1 /\ lifted0 st0).
        { destruct (cont_is_small cont); [destruct Hsh as [-> ->]; auto | eapply share0; eauto]. }
        destruct Hc1 as [Hk1 Hl0]. destruct (C1 _ _ _ _ Ha Hl0) as [A1 A2].
        assert (HB : match b' with Some b1 => zt b1 | None => True end /\ lifted0 stb).
        { destruct b as [b0|]; [destruct Hbb as [b1 [Hb1 ->]]; simpl in H; destruct H as [_ Cb]; eapply Cb; eauto | destruct Hbb as [-> ->]; auto]. }
        destruct HB as [B1 B2]. destruct (W2 _ _ _ _ Ht Hk1 B2) as [T1 T2]. destruct (W3 _ _ _ _ He Hk1 T2) as [E1 E2].
        simpl. rewrite A1, T1, E1. destruct b'; [rewrite B1|]; auto. }
      split; [exact HW|]. intros ty0 st c st' H0 Hl. rewrite cmp_unfold in H0. eapply z_default; [|exact H0|exact Hl].
      intros cont st0 s0 st0' Hs. eapply HW. rewrite wc_unfold. exact Hs.
    - destruct IHt1 as [_ C1], IHt2 as [W2 _].
      assert (HW : ZW (FPrint nl t1 t2 ty)).
      { intros cont st s0 st' H0 Hk Hl. rewrite wc_unfold in H0. apply wc_print_inv in H0. destruct H0 as [a [st1 [next [Ha [Hn ->]]]]].
        destruct (C1 _ _ _ _ Ha Hl) as [A1 A2]. destruct (W2 _ _ _ _ Hn Hk A2) as [N1 N2]. simpl. rewrite A1, N1. auto. }
      split; [exact HW|]. intros ty0 st c st' H0 Hl. rewrite cmp_unfold in H0. eapply z_default; [|exact H0|exact Hl].
      intros cont st0 s0 st0' Hs. eapply HW. rewrite wc_unfold. exact Hs.
    - destruct IHt1 as [W1 C1], IHt2 as [W2 _].
      assert (HW : ZW (FLet v vty t1 t2 ty)).
      { intros cont st s0 st' H0 Hk Hl. rewrite wc_unfold in H0. revert cont st s0 st' H0 Hk Hl. apply z_guard.
        intros cont st s0 st' H0 Hk Hl.
        destruct (ty_is_codata cdt (compile_ty vty)) eqn:Hcd.
        - apply wc_let_inv_codata in H0; [|exact Hcd]. destruct H0 as [body [st1 [pb [Hb [Hp ->]]]]].
          destruct (W2 _ _ _ _ Hb Hk Hl) as [B1 B2]. destruct (C1 _ _ _ _ Hp B2) as [P1 P2]. simpl. rewrite P1, B1. auto.
        - apply wc_let_inv in H0; [|exact Hcd]. destruct H0 as [body [st1 [Hb Hbd]]].
          destruct (W2 _ _ _ _ Hb Hk Hl) as [B1 B2]. eapply W1; [exact Hbd | simpl; exact B1 | exact B2]. }
      split; [exact HW|]. intros ty0 st c st' H0 Hl. rewrite cmp_unfold in H0. eapply z_default; [|exact H0|exact Hl].
      intros cont st0 s0 st0' Hs. eapply HW. rewrite wc_unfold. exact Hs.
    - assert (HA : Forall ZC args) by (eapply Forall_impl; [|exact H]; intros a [_ Ca]; exact Ca).
      assert (HW : ZW (FCall f args ret)).
      { intros cont st s0 st' H0 Hk Hl. rewrite wc_unfold in H0. apply wc_call_inv in H0. destruct H0 as [args' [ret0 [Hargs [_ ->]]]].
        destruct (z_args args HA _ _ _ Hargs Hl) as [A1 A2]. simpl. rewrite forallb_app, A1. simpl. rewrite Hk. auto. }
      split; [exact HW|]. intros ty0 st c st' H0 Hl. rewrite cmp_unfold in H0. eapply z_default; [|exact H0|exact Hl].
      intros cont st0 s0 st0' Hs. eapply HW. rewrite wc_unfold. exact Hs.
    - assert (HA : Forall ZC args) by (eapply Forall_impl; [|exact H]; intros a [_ Ca]; exact Ca).
      assert (HC : ZC (FCtor x args ty)).
      { intros ty0 st c st' H0 Hl. rewrite cmp_unfold in H0. apply cmp_ctor_inv in H0. destruct H0 as [args' [ty1 [Hargs [_ ->]]]].
        destruct (z_args args HA _ _ _ Hargs Hl) as [A1 A2]. simpl. auto. }
      split; [|exact HC]. intros cont st s0 st' H0 Hk Hl. rewrite wc_unfold in H0. unfold wc_ctor in H0.
      minv H0. apply mlift_inv in E. destruct E as [E ->]. minv H0. apply mret_inv in H0. destruct H0; subst.
      match goal with E0 : cmp_ctor _ _ _ ?sta = Ok (?c, ?stb) |- _ =>
        destruct (HC CI64 sta c stb) as [Z1 Z2]; [rewrite cmp_unfold; exact E0 | exact Hl |] end.
      simpl. rewrite Z1, Hk. auto.
    - destruct IHt as [Ws _].
      assert (HA : Forall ZC args) by (eapply Forall_impl; [|exact H]; intros a [_ Ca]; exact Ca).
      assert (HW : ZW (FDtor t x targs args ty)).
      { intros cont st s0 st' H0 Hk Hl. rewrite wc_unfold in H0. apply wc_dtor_inv in H0. destruct H0 as [args' [st1 [sty0 [Hargs [_ Hscrut]]]]].
        destruct (z_args args HA _ _ _ Hargs Hl) as [A1 A2]. eapply Ws; [exact Hscrut | | exact A2].
        simpl. rewrite forallb_app, A1. simpl. rewrite Hk. reflexivity. }
      split; [exact HW|]. intros ty0 st c st' H0 Hl. rewrite cmp_unfold in H0. eapply z_default; [|exact H0|exact Hl].
      intros cont st0 s0 st0' Hs. eapply HW. rewrite wc_unfold. exact Hs.
    - destruct IHt as [Ws _].
      assert (HB : Forall (fun c => ZW (clause_body c)) cls) by (eapply Forall_impl; [|exact H]; intros a [Wa _]; exact Wa).
      assert (HW : ZW (FCase t targs cls ty)).
      { intros cont st s0 st' H0 Hk Hl. rewrite wc_unfold in H0. revert cont st s0 st' H0 Hk Hl. apply z_guard.
        intros cont st s0 st' H0 Hk Hl. apply wc_case_inv in H0.
        destruct H0 as [cont1 [st0 [cls' [st1 [sty0 [Hsh [Hcls [_ Hscrut]]]]]]]].
        assert (Hc1 : zt cont1 /\ lifted0 st0).
        { destruct (Nat.leb (List.length cls) 1 || cont_is_small cont); [destruct Hsh as [-> ->]; auto | eapply share0; eauto]. }
        destruct Hc1 as [Hk1 Hl0]. destruct (z_clauses cls HB _ _ _ _ Hcls Hk1 Hl0) as [C1 C2].
        eapply Ws; [exact Hscrut | simpl; exact C1 | exact C2]. }
      split; [exact HW|]. intros ty0 st c st' H0 Hl. rewrite cmp_unfold in H0. eapply z_default; [|exact H0|exact Hl].
      intros cont st0 s0 st0' Hs. eapply HW. rewrite wc_unfold. exact Hs.
    - assert (HB : Forall (fun c => ZW (clause_body c)) cls) by (eapply Forall_impl; [|exact H]; intros a [Wa _]; exact Wa).
      assert (HC : ZC (FNew cls ty)).
      { intros ty0 st c st' H0 Hl. rewrite cmp_unfold in H0. apply cmp_new_inv in H0. destruct H0 as [cls' [ty1 [Hcls [_ ->]]]].
        destruct (z_coclauses cls HB _ _ _ Hcls Hl) as [C1 C2]. simpl. auto. }
      split; [|exact HC]. intros cont st s0 st' H0 Hk Hl. rewrite wc_unfold in H0. unfold wc_new in H0.
      minv H0. apply mlift_inv in E. destruct E as [E ->]. minv H0. apply mret_inv in H0. destruct H0; subst.
      match goal with E0 : cmp_new _ _ ?sta = Ok (?c, ?stb) |- _ =>
        destruct (HC CI64 sta c stb) as [Z1 Z2]; [rewrite cmp_unfold; exact E0 | exact Hl |] end.
      simpl. rewrite Z1, Hk. auto.
    - destruct IHt as [W _].
      assert (HC : ZC (FLabel l t ty)).
      { intros ty0 st c st' H0 Hl. rewrite cmp_unfold in H0. apply cmp_label_inv in H0. destruct H0 as [ty1 [s0 [_ [Hs ->]]]].
        destruct (W _ _ _ _ Hs eq_refl Hl) as [Z1 Z2]. simpl. auto. }
      split; [|exact HC]. intros cont st s0 st' H0 Hk Hl. rewrite wc_unfold in H0. unfold wc_label in H0.
      minv H0. apply mlift_inv in E. destruct E as [E ->]. minv H0. apply mret_inv in H0. destruct H0; subst.
      match goal with E0 : cmp_label _ _ _ ?sta = Ok (?c, ?stb) |- _ =>
        destruct (HC CI64 sta c stb) as [Z1 Z2]; [rewrite cmp_unfold; exact E0 | exact Hl |] end.
      simpl. rewrite Z1, Hk. auto.
    - destruct IHt as [W _].
      assert (HW : ZW (FGoto l t ty)).
      { intros cont st s0 st' H0 Hk Hl. rewrite wc_unfold in H0. apply wc_goto_inv in H0. destruct H0 as [ty0 [_ Hs]].
        eapply W; [exact Hs | reflexivity | exact Hl]. }
      split; [exact HW|]. intros ty0 st c st' H0 Hl. rewrite cmp_unfold in H0.
      eapply (z_default (fun _ => wc_goto false l (wc' t) ty (fterm_type t))); [|exact H0|exact Hl].
      intros cont st0 s0 st0' Hs. eapply (HW cont). rewrite wc_unfold. exact Hs.
    - destruct IHt as [_ Ca].
      assert (HW : ZW (FExit t ty)).
      { intros cont st s0 st' H0 Hk Hl. rewrite wc_unfold in H0. apply wc_exit_inv in H0. destruct H0 as [a [ty0 [Ha [_ ->]]]].
        destruct (Ca _ _ _ _ Ha Hl) as [A1 A2]. simpl. auto. }
      split; [exact HW|]. intros ty0 st c st' H0 Hl. rewrite cmp_unfold in H0.
      eapply (z_default (fun _ => wc_exit (cmp' t CI64) ty)); [|exact H0|exact Hl].
      intros cont st0 s0 st0' Hs. eapply (HW cont). rewrite wc_unfold. exact Hs.
    - destruct IHt as [W Ca]. split.
      + intros cont st s0 st' H0. rewrite wc_unfold in H0. eapply W; eauto.
      + intros ty0 st c st' H0. rewrite cmp_unfold in H0. eapply Ca; eauto.
  Qed.
End Ids.

(* ---------- definitions and programs ---------- *)
Lemma def_group0 : forall d cdt ul g ul', compile_def false d cdt ul = Ok (g, ul') -> forall x, In x g -> ids_le_def 0 x = true.
Proof.
  intros d cdt ul g ul' Hc. unfold compile_def in Hc.
  match type of Hc with context [run_def_body ?cd ?dd ?u ?k] =>
    destruct (run_def_body cd dd u k) as [[[a body] st']|?] eqn:Eb end; simpl in Hc; [|discriminate].
  injection Hc as <- _. unfold run_def_body in Eb. destruct (fterm_type (fdbody d)) as [bty|]; [|discriminate].
  apply mbind_inv in Eb. destruct Eb as [a0 [sta [Ha Eb]]]. apply mbind_inv in Eb. destruct Eb as [body0 [stb [Hwc Eb]]].
  apply mret_inv in Eb. destruct Eb as [E1 E2]. injection E1 as -> ->. subst stb.
  destruct (fresh_in_vars_inv _ _ _ _ Ha) as [_ [_ [_ Hl0]]]. simpl in Hl0.
  destruct (proj1 (z_all cdt (fdname d) (fdbody d)) _ _ _ _ Hwc eq_refl) as [Z1 Z2]; [unfold lifted0; rewrite Hl0; constructor|].
  intros x [<-|Hx].
  - unfold ids_le_def. simpl. rewrite Z1, andb_true_r. unfold cids. rewrite map_app. fold (cids (compile_ctx (fdctx d))).
    rewrite forallb_app, cids0_compile_ctx. reflexivity.
  - unfold lifted0 in Z2. rewrite Forall_forall in Z2. apply Z2. exact Hx.
Qed.
Lemma main_group0 : forall d cdt ul g ul', compile_main false d cdt ul = Ok (g, ul') -> forall x, In x g -> ids_le_def 0 x = true.
Proof.
  intros d cdt ul g ul' Hc. unfold compile_main in Hc.
  match type of Hc with context [run_def_body ?cd ?dd ?u ?k] =>
    destruct (run_def_body cd dd u k) as [[body st']|?] eqn:Eb end; simpl in Hc; [|discriminate].
  injection Hc as <- _. unfold run_def_body in Eb. destruct (fterm_type (fdbody d)) as [bty|]; [|discriminate].
  apply mbind_inv in Eb. destruct Eb as [x0 [sta [Ha Hwc]]].
  destruct (fresh_in_vars_inv _ _ _ _ Ha) as [_ [_ [_ Hl0]]]. simpl in Hl0.
  destruct (proj1 (z_all cdt (fdname d) (fdbody d)) _ _ _ _ Hwc eq_refl) as [Z1 Z2]; [unfold lifted0; rewrite Hl0; constructor|].
  intros x [<-|Hx].
  - unfold ids_le_def. simpl. rewrite Z1, andb_true_r. apply cids0_compile_ctx.
  - unfold lifted0 in Z2. rewrite Forall_forall in Z2. apply Z2. exact Hx.
Qed.

(* ids 0 everywhere: nothing to be unique about, every occurrence is in scope *)
Lemma scoped0_all : forall env,
  (forall t, ids_le_term 0 t = true -> scoped_term env t = true) /\
  (forall a, ids_le_arg 0 a = true -> scoped_arg env a = true) /\
  (forall c, ids_le_clause 0 c = true -> forall env', scoped_clause env' c = true) /\
  (forall s, ids_le_stmt 0 s = true -> forall env', scoped_stmt env' s = true).
Proof.
  intros env. (* the environment is irrelevant: state everything for all environments *)
  assert (H : (forall t, ids_le_term 0 t = true -> forall e, scoped_term e t = true) /\
              (forall a, ids_le_arg 0 a = true -> forall e, scoped_arg e a = true) /\
              (forall c, ids_le_clause 0 c = true -> forall e, scoped_clause e c = true) /\
              (forall s, ids_le_stmt 0 s = true -> forall e, scoped_stmt e s = true)).
  { apply core_mutind.
    - intros c v t H e. simpl in *. apply N.leb_le in H. assert (cid_id v = 0%N) by lia. rewrite H0. reflexivity.
    - reflexivity.
    - intros a o b IHa IHb H e. simpl in *. apply andb_true_iff in H. destruct H as [H1 H2]. rewrite (IHa H1), (IHb H2). reflexivity.
    - intros c v s t IHs H e. simpl in *. apply andb_true_iff in H. destruct H as [_ H]. apply IHs. exact H.
    - intros c x args t F H e. simpl in *. apply forallb_forall. intros a Ha. rewrite Forall_forall in F. rewrite forallb_forall in H. apply F; auto.
    - intros c cls t F H e. simpl in *. apply forallb_forall. intros a Ha. rewrite Forall_forall in F. rewrite forallb_forall in H. apply F; auto.
    - intros p IH H e. simpl in *. apply IH. exact H.
    - intros p IH H e. simpl in *. apply IH. exact H.
    - intros c x ctx body IH H e. simpl in *. apply andb_true_iff in H. destruct H as [_ H]. apply IH. exact H.
    - intros p t k IHp IHk H e. simpl in *. apply andb_true_iff in H. destruct H as [H1 H2]. rewrite (IHp H1), (IHk H2). reflexivity.
    - intros so a b t e0 IHa IHb IHt IHe H e. simpl in *.
      apply andb_true_iff in H. destruct H as [H He]. apply andb_true_iff in H. destruct H as [H Ht]. apply andb_true_iff in H. destruct H as [Ha Hb].
      rewrite (IHa Ha), (IHt Ht), (IHe He). destruct b as [b'|]; [simpl in IHb; rewrite (IHb Hb)|]; reflexivity.
    - intros nl a next IHa IHn H e. simpl in *. apply andb_true_iff in H. destruct H as [H1 H2]. rewrite (IHa H1), (IHn H2). reflexivity.
    - intros f args t F H e. simpl in *. apply forallb_forall. intros a Ha. rewrite Forall_forall in F. rewrite forallb_forall in H. apply F; auto.
    - intros a t IH H e. simpl in *. apply IH. exact H. }
  destruct H as [H1 [H2 [H3 H4]]]. repeat split; auto.
Qed.

Lemma pre_def0 : forall d, ids_le_def 0 d = true -> pre_def 0 d = true.
Proof.
  intros d H. unfold pre_def. rewrite H. simpl.
  assert (Hb : mem_le 0 (binder_ids_def d)).
  { unfold ids_le_def in H. apply andb_true_iff in H. destruct H as [H1 H2]. unfold binder_ids_def. apply mem_le_app. split.
    - intros i Hi. rewrite forallb_forall in H1. specialize (H1 i Hi). apply N.leb_le in H1. exact H1.
    - apply binders_le_stmt. exact H2. }
  assert (Hn : nonzero (binder_ids_def d) = []).
  { revert Hb. generalize (binder_ids_def d). induction l as [|x r IH]; intros Hb; [reflexivity|].
    unfold nonzero. simpl. assert (x = 0%N) by (specialize (Hb x (or_introl eq_refl)); lia). subst x. simpl.
    apply IH. intros i Hi. apply Hb. right. exact Hi. }
  rewrite Hn. simpl. unfold scoped_def. unfold ids_le_def in H. apply andb_true_iff in H. destruct H as [_ H2].
  apply (proj2 (proj2 (proj2 (scoped0_all [])))). exact H2.
Qed.

Theorem fun2core_pre_check : forall p c, compile_prog p = Fun2Core.Ok c -> pre_check c = true.
Proof.
  intros p c H. unfold compile_prog, compile_prog_gen in H.
  destruct (compile_defs false _ (fcpdefs p) _ _ [] []) as [defs|?] eqn:E; simpl in H; [|discriminate].
  injection H as <-. unfold pre_check. cbn [cpdefs cpmax]. apply forallb_forall. intros x Hx. apply pre_def0.
  destruct (compile_defs_cover _ _ _ _ _ _ _ _ E x Hx) as [[]|[[]|[d [ul1 [g [ul2 [[Hg|Hg] Hin]]]]]]];
    [eapply main_group0 | eapply def_group0]; eauto.
Qed.
