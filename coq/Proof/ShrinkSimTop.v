(* Proof/ShrinkSimTop.v (C04, fragment 2) - top-level calls and the simulation lemma for all
   statements: [FL_all : forall n, FLn p q n]. *)
From Coq Require Import List ZArith NArith String Bool Lia Wf_nat.
From SCC Require Import Base.Sexp Lang.SynUtil Lang.CoreSyn Lang.AxSyn Sem.AxSem Sem.FsCheck Model.Shrink
     Proof.ShrinkProof Proof.ShrinkSem Proof.ShrinkRn Proof.ShrinkRel Proof.ShrinkArgs Proof.ShrinkSimBase
     Proof.ShrinkSimA Proof.ShrinkSimB Proof.ShrinkSimData Proof.ShrinkSimC Proof.ShrinkSimD Proof.ShrinkSimE
     Proof.ShrinkSimEta Proof.ShrinkTfv Proof.ShrinkSimLift Proof.ShrinkSimCrit.
From SCC Require Sem.CoreSem.
Import ListNotations.
Open Scope list_scope.

Section Top.
Variable p : fsprog.
Variable q : prog.
Notation P := (CoreSem.fs2c_prog p).
Notation data := (fspdata p).
Notation codata := (fspcodata p).
Notation defs := (fspdefs p).
Notation m0 := (fspmax p).
Notation D := (data ++ [cont_int]).
Notation IHn := (IHn p q).

(* what is known of a definition of the input and of its image *)
Definition def_typed (d : fsdef) : Prop :=
  check_stmt data codata defs (fsdctx d) (fsdbody d) = None /\ NoDup (cids (fsdctx d)) /\
  ub_stmt (cids (fsdctx d)) (fsdbody d) = true /\ ctx_le m0 (fsdctx d) = true /\ ib_stmt m0 (fsdbody d) = true /\
  nc_stmt (cvars (fsdctx d)) (fsdbody d) = true.
Definition def_shrunk (d : fsdef) : Prop :=
  exists lbl st t st',
    shrink_stmt (fsz (fsdbody d)) (mksenv D codata lbl) (fsdbody d) st = SOk (t, st') /\
    (m0 <= s_max st)%N /\
    find_def q (fsdname d) = Some (mkd (fsdname d) (shrink_context codata (fsdctx d)) t) /\
    lifted_in q st'.

Hypothesis Hdisj : forall n, find_decl data n <> None -> find_decl codata n = None.
Hypothesis Hqfresh : forall d, In d (pdefs q) -> pfresh (ids (dctx d)) (dbody d) = true.
Hypothesis Hqnames : forall d, In d (pdefs q) -> find_def q (dname d) = Some d.
Hypothesis Hdefs : forall d, In d defs -> def_typed d /\ def_shrunk d.

Lemma inv_nil : forall st, (m0 <= s_max st)%N -> inv p [] (fun x => x) (fun x => x) st.
Proof.
  intros st H. constructor; auto; try (cbn; constructor); try (intros ? []).
Qed.

(* a definition body started in the environment of its parameters *)
Lemma def_sim : forall n, FLn p q n -> forall d vs avs e' ae' ,
  In d defs -> vrels p q n (fsdctx d) vs avs ->
  CoreSem.cbind (cvars (fsdctx d)) vs [] = Some e' ->
  forall t, find_def q (fsdname d) = Some (mkd (fsdname d) (shrink_context codata (fsdctx d)) t) ->
  bind (vars (shrink_context codata (fsdctx d))) avs = Some ae' ->
  forall out r, CoreSem.crun n P (CoreSem.Run (CoreSem.fs2c_stmt (fsdbody d)) e') out = r -> good r ->
  exists m, exec_named m q ae' t out = r.
Proof.
  intros n FL d vs avs e' ae' Hd Hv Hcb t Hfind Hbind out r Hrun Hg.
  destruct (Hdefs d Hd) as [(Hck & Hnd & Hub & Hcl & Hib & Hnc) (lbl & st & t0 & st' & Hsh & Hm & Hf0 & Hlift)].
  rewrite Hfind in Hf0. injection Hf0 as <-.
  assert (Hdq : In (mkd (fsdname d) (shrink_context codata (fsdctx d)) t) (pdefs q)) by (unfold find_def in Hfind; apply find_some in Hfind; tauto).
  pose proof (Hqfresh _ Hdq) as Hpf. cbn [dctx dbody] in Hpf.
  assert (Hids : forall i, In i (cids (fsdctx d)) -> ~ In i (cids (@nil cbinding)) /\ (i <= m0)%N).
  { intros i Hi. split; [intros [] | eapply ctx_le_ids; eauto]. }
  pose proof (inv_push_list p (fsdctx d) [] _ _ st (inv_nil st Hm) Hnd Hids) as Hinv. rewrite app_nil_r in Hinv.
  assert (He : erel p q n (fun x => occurs x (fsdbody d)) (fun x => (fun y => y) ((fun y => y) x))
                 (ids (shrink_context codata (fsdctx d))) (fsdctx d) e' ae').
  { pose proof (erel_push_list p q n (fun _ => True) (fun x => occurs x (fsdbody d)) (fun x => x) (fun x => x) [] [] [] [] ltac:(constructor)
                  ltac:(intros b []) (fsdctx d) vs (vars (shrink_context codata (fsdctx d))) avs e' ae') as H.
    rewrite !app_nil_r in H. eapply erel_weaken; [apply H | apply le_n | auto | ]; auto.
    - rewrite <- ids_vars, ids_shrink_context. exact Hnd.
    - rewrite vars_shrink_context. unfold cvars. rewrite map_map. reflexivity.
    - intros i Hi. apply in_rev_append in Hi as [Hi|[]]. rewrite ids_vars. exact Hi. }
  rewrite <- (rn_id (fsdbody d)) in Hsh at 2.
  destruct (FL (fsdbody d) _ lbl (fsdctx d) _ _ st t st' _ e' ae' Hinv Hck Hub Hib Hnc Hsh Hpf Hlift He _ _ Hrun Hg) as [m Hm'].
  rewrite arn_id in Hm'. exists m. exact Hm'.
Qed.

Ltac start :=
  unfold FLs; intros k lbl G rho th st t st' A e ae Hinv Hck Hub Hib Hnc Hsh Hpf Hlift He out r Hrun Hg;
  destruct k as [|k]; [discriminate Hsh|]; rewrite shrink_stmt_S in Hsh.

(* f(args) *)
Lemma fl_call : forall n, IHn n -> forall f args, FLs p q n (FsCall f args).
Proof.
  intros n IH f args. start. cbn [rn_stmt shrink_step] in Hsh. unfold shrink_identifier in Hsh. invsh Hsh.
  cbn [check_stmt] in Hck. destruct (find (fun d => cident_eqb (fsdname d) f) defs) as [d|] eqn:Hfd; [|discriminate Hck].
  pose proof (find_some _ _ Hfd) as [Hd Hname]. apply cident_eqb_eq in Hname.
  cbn [CoreSem.fs2c_stmt] in Hrun. core_step Hrun Hg n.
  apply start_args_eval in Hrun as (n1 & vs & Hle & Hvs & Hrun); [|exact Hg].
  cbn [CoreSem.finish_args] in Hrun. rewrite cfind_def_P in Hrun. unfold find_fsdef in Hrun. rewrite Hfd in Hrun.
  cbn [option_map CoreSem.fs2c_def cdctx cdbody] in Hrun.
  destruct (CoreSem.cbind (cvars (fsdctx d)) vs []) as [e'|] eqn:Ecb; [|exfalso; eapply cont_stuck; eauto].
  cbn [cont] in Hrun.
  assert (Hneed : forall b, In b args -> occurs (cbvar b) (FsCall f args)) by (intros b Hb; cbn [occurs]; now apply occ_args).
  destruct (args_rel p q _ _ _ _ _ _ _ _ He (inv_nd _ _ _ _ _ Hinv) _ _ _ Hck Hneed Hvs) as (avs & Hlk & Hrel).
  destruct (Hdefs d Hd) as [_ (lbl' & std & td & std' & _ & _ & Hfind & _)]. rewrite Hname in Hfind.
  destruct (vrels_length _ _ _ _ _ _ Hrel) as [_ Hla].
  destruct (bind_total (vars (shrink_context codata (fsdctx d))) avs) as [ae' Hbind].
  { rewrite vars_shrink_context. unfold cvars. rewrite map_length. lia. }
  rewrite <- Hname in Hfind.
  destruct (def_sim n1 (IH n1 ltac:(lia)) d vs avs e' ae' Hd ltac:(eapply vrels_le; [|exact Hrel]; lia) Ecb td Hfind Hbind _ _ Hrun Hg) as [m Hm].
  exists (S m). cbn [arn exec_named]. rewrite Hname in Hfind. rewrite Hfind. cbn [dctx dbody].
  rewrite vars_arn_shrink_rn, Hlk, Hbind. exact Hm.
Qed.

Theorem FL_all : forall n, FLn p q n.
Proof.
  induction n as [n IH] using lt_wf_ind. intros s. destruct s as [pr ty k|so a b t e|nl a nx|f args|v].
  - destruct pr as [c1 v1 t1|z|a o b|c1 v1 s1 t1|c1 x1 args1 t1|c1 cls1 t1];
    destruct k as [c2 v2 t2|z2|a2 o2 b2|c2 v2 s2 t2|c2 x2 args2 t2|c2 cls2 t2];
    try (unfold FLs; intros k lbl G rho th st t st' A e ae Hinv Hck Hub Hib Hnc Hsh; destruct k as [|k]; [discriminate Hsh|];
         rewrite shrink_stmt_S in Hsh; cbn [rn_stmt rn_term shrink_step shrink_cut] in Hsh; discriminate Hsh).
    + apply fl_unknown; auto.
    + apply fl_ren_mut; auto.
    + apply fl_invoke_dtor; auto.
    + apply fl_switch_case; auto.
    + apply fl_lit_var; auto.
    + apply fl_lit_mu; auto.
    + apply fl_op_var; auto.
    + apply fl_op_mu; auto.
    + apply fl_ren_mu; auto.
    + destruct ty; [apply fl_crit_i64; auto | apply fl_crit_decl; auto].
    + apply fl_let_dtor; auto.
    + apply fl_create_case; auto.
    + apply fl_invoke_ctor; auto.
    + apply fl_let_ctor; auto.
    + apply fl_known_ctor; auto.
    + apply fl_switch_cocase; auto.
    + apply fl_create_cocase; auto.
    + apply fl_known_dtor; auto.
  - apply fl_ifc; auto.
  - apply fl_print; auto.
  - apply fl_call; auto.
  - apply fl_exit; auto.
Qed.
End Top.
