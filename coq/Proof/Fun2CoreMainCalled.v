(* Proof/Fun2CoreMainCalled.v (property C02): a program whose `main` lies in the first-order integer fragment [islf]
   of C02_fun2core_correct_partial AND is called by another definition (so the repaired compile_prog, fix f929eb7 of
   /repo, compiles main with a return continuation and starts at the entry point main0).
   C02_fun2core_correct_partial keeps the hypothesis `calls_main_prog p = false` (its simulation [islf_sim] of
   Proof/Fun2CoreSim.v runs main's body against a CLOSED mu~ continuation in an environment of integers only; with a
   called main the body runs against the covariable a0 bound to a closure).  Such programs are covered by
   C02_fun2core_correct_fragment2 instead, when all their definitions satisfy prog_guard: here the witness, by the
   THEOREM. *)
From Coq Require Import List ZArith NArith String Bool.
From SCC Require Import Lang.FunSyn Lang.CoreSyn Sem.AxSem Sem.CoreSem Sem.FunSem Model.Fun2Core Model.Fun2CoreGuard
     Proof.Fun2CoreProof Proof.Fun2CoreInv Proof.Fun2CoreRel Proof.Fun2CoreProg.
Import ListNotations.
Local Open Scope string_scope.
Local Open Scope Z_scope.

(* def helper(k: i64): i64 { main(k) }
   def main(n: i64): i64 { println_i64(n + 1); if n == 0 { 1 } else { n * 2 } } *)
Definition islf_main_called_witness : fcprog :=
  mkfcprog [] []
    [mkfdef "helper" [mkfb "k" FPrd FI64] FI64
       (FCall "main" [FVar "k" (Some FI64) (Some FPrd)] (Some FI64));
     mkfdef "main" [mkfb "n" FPrd FI64] FI64
       (FPrint true (FOp (FVar "n" (Some FI64) (Some FPrd)) FSum (FLit 1))
          (FIfC FEq (FVar "n" (Some FI64) (Some FPrd)) None
             (FLit 1)
             (FOp (FVar "n" (Some FI64) (Some FPrd)) FProd (FLit 2))
             (Some FI64))
          (Some FI64))].

Lemma islf_main_called_witness_facts :
  main_in_fragment islf_main_called_witness = true /\ calls_main_prog islf_main_called_witness = true /\
  prog_guard islf_main_called_witness = true /\ NoDup (map fdname (fcpdefs islf_main_called_witness)) /\
  compile_prog islf_main_called_witness = Ok (compiled_or_empty islf_main_called_witness) /\
  run_core 200 (compiled_or_empty islf_main_called_witness) [4] = run_fun 200 islf_main_called_witness [4] /\
  run_fun 200 islf_main_called_witness [4] = ([(true, 5)], OExit 8) /\
  map cdname (cpdefs (compiled_or_empty islf_main_called_witness)) = [new_id "main0"; new_id "main"; new_id "helper"].
Proof.
  split; [vm_compute; reflexivity|]. split; [vm_compute; reflexivity|]. split; [vm_compute; reflexivity|].
  split; [repeat constructor; simpl; intuition discriminate|].
  vm_compute. repeat split; reflexivity.
Qed.

Lemma islf_main_called_witness_simulated : forall (c : cprog) (args : list Z) (n : nat) (o : obs),
  compile_prog islf_main_called_witness = Ok c ->
  run_fun n islf_main_called_witness args = o -> final o ->
  exists m, run_core m c args = o.
Proof.
  intros c args n o Hc Hr Hf.
  destruct islf_main_called_witness_facts as (_ & _ & Hg & Hnd & _).
  exact (fun2core_correct_fragment_lemma islf_main_called_witness c args n o Hc Hnd Hg Hr Hf).
Qed.
