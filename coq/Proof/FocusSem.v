(* C03, semantic part, proved fragment: programs whose entry definition is straight-line integer
   code - ifc / print / exit whose arguments are operator trees over literals and the (integer)
   parameters, no mu, no data or codata, no calls - and whose parameters already carry non-zero ids
   (in particular: a parameterless main).  For these, the focused program has exactly the
   observations of the original on the Core abstract machine (Sem/CoreSem.v), undefined
   arithmetic included, for every argument tuple.

   Method: a big-step evaluator [aeval]/[aexec] for the fragment; the source machine run equals it
   ([src_arg], [src_stmt]); `bind t k` runs to the statement produced by k in an environment
   extended by fresh bindings, the binding handed to k holding the value of t ([tgt_bind]); hence
   the focused statement equals the big-step result too ([tgt_stmt]). *)
From Coq Require Import List ZArith NArith String Bool Lia.
From SCC Require Import Base.Sexp Lang.CoreSyn Sem.AxSem Sem.CoreSem Model.Backend Model.Uniquify Model.Focus
     Model.FocusCheck Proof.CoreInd Proof.SubstProof Proof.CheckLemmas Proof.UniquifyProof Proof.FocusTheorems.
Import ListNotations.
Open Scope list_scope.

(* ---------- the fragment ---------- *)
Fixpoint aterm (t : cterm) : bool :=
  match t with
  | CXVar _ _ _ => true
  | CLit _ => true
  | COp a _ b => aterm a && aterm b
  | _ => false
  end.
Fixpoint astmt (s : cstmt) : bool :=
  match s with
  | CIfC _ a b t e =>
      aterm a && match b with Some b' => aterm b' | None => true end && astmt t && astmt e
  | CPrint _ a n => aterm a && astmt n
  | CExit a _ => aterm a
  | _ => false
  end.
Fixpoint avars (t : cterm) : list cident :=
  match t with
  | CXVar _ v _ => [v]
  | COp a _ b => avars a ++ avars b
  | _ => []
  end.
Fixpoint avars_stmt (s : cstmt) : list cident :=
  match s with
  | CIfC _ a b t e => avars a ++ match b with Some b' => avars b' | None => [] end ++ avars_stmt t ++ avars_stmt e
  | CPrint _ a n => avars a ++ avars_stmt n
  | CExit a _ => avars a
  | _ => []
  end.

Definition int_env (e : cenv) (vs : list cident) : Prop :=
  forall v, In v vs -> exists z, clookup e v = Some (BP (PInt z)).
Definition aval (e : cenv) (v : cident) : Z :=
  match clookup e v with Some (BP (PInt z)) => z | _ => 0%Z end.

Inductive ares := AV (z : Z) | AU (w : string).
Fixpoint aeval (e : cenv) (t : cterm) : ares :=
  match t with
  | CXVar _ v _ => AV (aval e v)
  | CLit n => AV n
  | COp a o b =>
      match aeval e a with
      | AU w => AU w
      | AV x =>
          match aeval e b with
          | AU w => AU w
          | AV y => match eval_op (ax_binop o) x y with OpVal z => AV z | OpUndef w => AU w end
          end
      end
  | _ => AV 0%Z
  end.
Fixpoint aexec (e : cenv) (s : cstmt) : prints * outcome :=
  match s with
  | CExit a _ => match aeval e a with AV z => ([], OExit z) | AU w => ([], OUndef w) end
  | CPrint nl a n =>
      match aeval e a with
      | AV z => let r := aexec e n in ((nl, z) :: fst r, snd r)
      | AU w => ([], OUndef w)
      end
  | CIfC so a b t el =>
      match aeval e a with
      | AU w => ([], OUndef w)
      | AV x =>
          match b with
          | None => if eval_cmp (ax_ifsort so) x 0 then aexec e t else aexec e el
          | Some b' =>
              match aeval e b' with
              | AU w => ([], OUndef w)
              | AV y => if eval_cmp (ax_ifsort so) x y then aexec e t else aexec e el
              end
          end
      end
  | _ => ([], OStuck "outside the fragment")
  end.

(* the result of a run that still has [out] (reversed) pending *)
Definition done (out : prints) (r : prints * outcome) : obs := (rev_append out [] ++ fst r, snd r).

(* ---------- machine runs ---------- *)
Lemma crun_next : forall f p c c' out, cstep p c = SNext c' -> crun (S f) p c out = crun f p c' out.
Proof. intros; simpl; rewrite H; reflexivity. Qed.
Lemma crun_halt : forall f p c o out, cstep p c = SHalt o -> crun (S f) p c out = finish out o.
Proof. intros; simpl; rewrite H; reflexivity. Qed.
Lemma crun_print : forall f p c c' nl z out, cstep p c = SPrint nl z c' -> crun (S f) p c out = crun f p c' ((nl, z) :: out).
Proof. intros; simpl; rewrite H; reflexivity. Qed.

Lemma int_env_app_l : forall e a b, int_env e (a ++ b) -> int_env e a.
Proof. intros e a b H v Hv. apply H. apply in_or_app; auto. Qed.
Lemma int_env_app_r : forall e a b, int_env e (a ++ b) -> int_env e b.
Proof. intros e a b H v Hv. apply H. apply in_or_app; auto. Qed.
Lemma int_env_aval : forall e v vs, int_env e vs -> In v vs -> clookup e v = Some (BP (PInt (aval e v))).
Proof. intros e v vs H Hv. destruct (H v Hv) as (z & E). unfold aval. rewrite E. reflexivity. Qed.

(* source: evaluating an argument of the fragment *)
Lemma src_arg : forall t, aterm t = true -> forall e, int_env e (avars t) ->
  exists d, forall p m fuel out,
    crun (d + fuel) p (Arg (CProducer t) e m) out =
    match aeval e t with
    | AV z => crun fuel p (App m (BP (PInt z))) out
    | AU w => finish out (OUndef w)
    end.
Proof.
  induction t; simpl; intros A e IE; try discriminate.
  - exists 1%nat. intros. apply crun_next. simpl.
    rewrite (int_env_aval e v [v]); auto. left; auto.
  - exists 1%nat. intros. apply crun_next. reflexivity.
  - apply andb_true_iff in A. destruct A as [A1 A2].
    destruct (IHt1 A1 e (int_env_app_l _ _ _ IE)) as (d1 & H1).
    destruct (IHt2 A2 e (int_env_app_r _ _ _ IE)) as (d2 & H2).
    exists (S (d1 + S (d2 + 1)))%nat. intros p m fuel out.
    change (S (d1 + S (d2 + 1)) + fuel)%nat with (S ((d1 + S (d2 + 1)) + fuel))%nat.
    rewrite (crun_next _ p _ (Arg (CProducer t1) e (MOpL o t2 e m))) by reflexivity.
    rewrite <- Nat.add_assoc. rewrite H1.
    destruct (aeval e t1) as [x|w]; auto.
    change (S (d2 + 1) + fuel)%nat with (S ((d2 + 1) + fuel))%nat.
    rewrite (crun_next _ p _ (Arg (CProducer t2) e (MOpR o x m))) by reflexivity.
    rewrite <- Nat.add_assoc. rewrite H2.
    destruct (aeval e t2) as [y|w]; auto.
    simpl. destruct (eval_op (ax_binop o) x y); reflexivity.
Qed.

Lemma done_cons : forall out nl z r, done ((nl, z) :: out) r = done out ((nl, z) :: fst r, snd r).
Proof.
  intros. unfold done; simpl. rewrite !rev_append_rev. simpl. rewrite !app_nil_r, <- app_assoc. reflexivity.
Qed.
Lemma finish_done : forall out o, finish out o = done out ([], o).
Proof. intros. unfold finish, done; simpl. rewrite app_nil_r. reflexivity. Qed.

Lemma src_stmt : forall s, astmt s = true -> forall e, int_env e (avars_stmt s) ->
  exists d, forall p fuel out, crun (d + fuel) p (Run s e) out = done out (aexec e s).
Proof.
  induction s as [pp ty kk|so a b t IHt el IHel|nl a n IHn|f args ty|a ty]; simpl; intros A e IE; try discriminate.
  - (* IfC *)
    apply andb_true_iff in A. destruct A as [A A4]. apply andb_true_iff in A. destruct A as [A A3].
    apply andb_true_iff in A. destruct A as [A1 A2].
    destruct (src_arg a A1 e (int_env_app_l _ _ _ IE)) as (d1 & H1).
    pose proof (int_env_app_r _ _ _ IE) as IE2.
    pose proof (int_env_app_r _ _ _ IE2) as IE3.
    destruct (IHt A3 e (int_env_app_l _ _ _ IE3)) as (dt & Ht).
    destruct (IHel A4 e (int_env_app_r _ _ _ IE3)) as (de & He).
    destruct b as [b0|].
    + destruct (src_arg b0 A2 e (int_env_app_l _ _ _ IE2)) as (d2 & H2).
      exists (S (d1 + S (d2 + S (dt + de))))%nat. intros p fuel out.
      change (S (d1 + S (d2 + S (dt + de))) + fuel)%nat with (S ((d1 + S (d2 + S (dt + de))) + fuel))%nat.
      rewrite (crun_next _ p _ (Arg (CProducer a) e (MIf1 so (Some b0) t el e))) by reflexivity.
      rewrite <- Nat.add_assoc. rewrite H1.
      destruct (aeval e a) as [x|w]; [|apply finish_done].
      change (S (d2 + S (dt + de)) + fuel)%nat with (S ((d2 + S (dt + de)) + fuel))%nat.
      rewrite (crun_next _ p _ (Arg (CProducer b0) e (MIf2 so x t el e))) by reflexivity.
      rewrite <- Nat.add_assoc. rewrite H2.
      destruct (aeval e b0) as [y|w]; [|apply finish_done].
      change (S (dt + de) + fuel)%nat with (S ((dt + de) + fuel))%nat.
      rewrite (crun_next _ p _ (Run (if eval_cmp (ax_ifsort so) x y then t else el) e)) by reflexivity.
      destruct (eval_cmp (ax_ifsort so) x y).
      * rewrite <- Nat.add_assoc. apply Ht.
      * replace (dt + de + fuel)%nat with (de + (dt + fuel))%nat by lia. apply He.
    + exists (S (d1 + S (dt + de)))%nat. intros p fuel out.
      change (S (d1 + S (dt + de)) + fuel)%nat with (S ((d1 + S (dt + de)) + fuel))%nat.
      rewrite (crun_next _ p _ (Arg (CProducer a) e (MIf1 so None t el e))) by reflexivity.
      rewrite <- Nat.add_assoc. rewrite H1.
      destruct (aeval e a) as [x|w]; [|apply finish_done].
      change (S (dt + de) + fuel)%nat with (S ((dt + de) + fuel))%nat.
      rewrite (crun_next _ p _ (Run (if eval_cmp (ax_ifsort so) x 0 then t else el) e)) by reflexivity.
      destruct (eval_cmp (ax_ifsort so) x 0).
      * rewrite <- Nat.add_assoc. apply Ht.
      * replace (dt + de + fuel)%nat with (de + (dt + fuel))%nat by lia. apply He.
  - (* Print *)
    apply andb_true_iff in A. destruct A as [A1 A2].
    destruct (src_arg a A1 e (int_env_app_l _ _ _ IE)) as (d1 & H1).
    destruct (IHn A2 e (int_env_app_r _ _ _ IE)) as (dn & Hn).
    exists (S (d1 + S dn))%nat. intros p fuel out.
    change (S (d1 + S dn) + fuel)%nat with (S ((d1 + S dn) + fuel))%nat.
    rewrite (crun_next _ p _ (Arg (CProducer a) e (MPrint nl n e))) by reflexivity.
    rewrite <- Nat.add_assoc. rewrite H1.
    destruct (aeval e a) as [z|w]; [|apply finish_done].
    change (S dn + fuel)%nat with (S (dn + fuel))%nat.
    rewrite (crun_print _ p _ (Run n e) nl z) by reflexivity.
    rewrite Hn. apply done_cons.
  - (* Exit *)
    destruct (src_arg a A e IE) as (d1 & H1).
    exists (S (d1 + 1))%nat. intros p fuel out.
    change (S (d1 + 1) + fuel)%nat with (S ((d1 + 1) + fuel))%nat.
    rewrite (crun_next _ p _ (Arg (CProducer a) e MExit)) by reflexivity.
    rewrite <- Nat.add_assoc. rewrite H1.
    destruct (aeval e a) as [z|w]; [|apply finish_done].
    simpl. apply finish_done.
Qed.

(* ---------- target: bind on the fragment ---------- *)
Open Scope string_scope.
Open Scope list_scope.
Open Scope N_scope.

(* the binding handed to the continuation and the counter at that moment *)
Fixpoint abind (t : cterm) (m : N) : cbinding * N :=
  match t with
  | CXVar _ v ty => (mkcb v CPrd ty, m)
  | CLit _ => (mkcb ("x", m + 1) CPrd CI64, m + 1)
  | COp a _ b =>
      let '(_, ma) := abind a m in
      let '(_, mb) := abind b ma in
      (mkcb ("x", mb + 1) CPrd CI64, mb + 1)
  | _ => (mkcb ("x", 0) CPrd CI64, m)
  end.

Definition fresh_ext (lo hi : N) (ext : cenv) : Prop :=
  forall y v, In (y, v) ext -> lo < cid_id y <= hi.

Lemma clookup_skip : forall ext e v, (forall y w, In (y, w) ext -> y <> v) -> clookup (ext ++ e) v = clookup e v.
Proof.
  induction ext as [|[y w] ext IH]; simpl; intros e v H; auto.
  destruct (cident_eqb y v) eqn:E.
  - apply cident_eqb_eq in E. exfalso. eapply H; eauto.
  - apply IH. intros; eapply H; eauto.
Qed.
Lemma clookup_fresh : forall lo hi ext e v, fresh_ext lo hi ext -> cid_id v <= lo -> clookup (ext ++ e) v = clookup e v.
Proof.
  intros lo hi ext e v F L. apply clookup_skip. intros y w Hy E. subst. specialize (F _ _ Hy). lia.
Qed.

Lemma avars_le : forall T t, aterm t = true -> ids_le_term T t = true -> forall v, In v (avars t) -> cid_id v <= T.
Proof.
  induction t; simpl; intros A I w Hw; try discriminate; try tauto.
  - destruct Hw as [<-|[]]. apply N.leb_le; auto.
  - apply andb_true_iff in A. apply andb_true_iff in I. destruct A, I. apply in_app_or in Hw. destruct Hw; auto.
Qed.

Lemma aeval_agree : forall t e e', aterm t = true -> (forall v, In v (avars t) -> clookup e' v = clookup e v) -> aeval e' t = aeval e t.
Proof.
  induction t; simpl; intros e e' A H; try discriminate; auto.
  - unfold aval. rewrite H; auto.
  - apply andb_true_iff in A. destruct A as [A1 A2].
    rewrite (IHt1 e e'), (IHt2 e e'); auto; intros; apply H; apply in_or_app; auto.
Qed.
Lemma int_env_agree : forall e e' vs, int_env e vs -> (forall v, In v vs -> clookup e' v = clookup e v) -> int_env e' vs.
Proof. intros e e' vs H A v Hv. rewrite A; auto. Qed.

Lemma abind_mono : forall t m, m <= snd (abind t m).
Proof.
  induction t; simpl; intros m; try lia.
  specialize (IHt1 m). destruct (abind t1 m) as [b1 ma]. simpl in *.
  specialize (IHt2 ma). destruct (abind t2 ma) as [b2 mb]. simpl in *. lia.
Qed.
Lemma abind_id : forall T t m, aterm t = true -> ids_le_term T t = true -> T <= m ->
  cid_id (cbvar (fst (abind t m))) <= snd (abind t m).
Proof.
  destruct t; simpl; intros m A I L; try discriminate; simpl; try lia.
  - apply N.leb_le in I. lia.
  - destruct (abind t1 m) as [b1 ma]. destruct (abind t2 ma) as [b2 mb]. simpl. lia.
Qed.

Ltac mstep := erewrite crun_next; [| simpl; reflexivity].

Lemma tgt_bind : forall t, aterm t = true -> forall k m s1 m2,
  k (fst (abind t m)) (snd (abind t m)) = Ok (s1, m2) ->
  exists s', bind_term CPrd t k m = Ok (s', m2) /\
  forall T q e, ids_le_term T t = true -> T <= m -> int_env e (avars t) ->
    exists d ext, fresh_ext m (snd (abind t m)) ext /\
      (forall fuel out, crun (d + fuel) q (Run (fs2c_stmt s') e) out =
         match aeval e t with
         | AV z => crun fuel q (Run (fs2c_stmt s1) (ext ++ e)) out
         | AU w => finish out (OUndef w)
         end) /\
      (forall z, aeval e t = AV z -> clookup (ext ++ e) (cbvar (fst (abind t m))) = Some (BP (PInt z))).
Proof.
  induction t as [c0 v ty|n|a IHa o b IHb| | |]; simpl; intros A k m s1 m2 K; try discriminate.
  - (* XVar *)
    exists s1. split; auto. intros T q e I L IE. exists 0%nat, []. split; [intros ? ? []|]. split.
    + intros; reflexivity.
    + intros z E. inversion E; subst. simpl. eapply int_env_aval; eauto. left; auto.
  - (* Lit *)
    rewrite K; simpl. eexists; split; [reflexivity|]. intros T q e I L IE.
    exists 1%nat, [(("x", m + 1), BP (PInt n))]. split; [|split].
    + intros y w [E|[]]. inversion E; subst; simpl. lia.
    + intros fuel out. simpl fs2c_stmt. change (1 + fuel)%nat with (S fuel). mstep. reflexivity.
    + intros z E. inversion E; subst. cbn [clookup app fst abind cbvar]. rewrite cident_eqb_refl. reflexivity.
  - (* Op *)
    apply andb_true_iff in A. destruct A as [A1 A2].
    destruct (abind a m) as [b1 ma] eqn:Ea. destruct (abind b ma) as [b2 mb] eqn:Eb. simpl in K.
    set (kb := fun (b1 : cbinding) (b2 : cbinding) (mb : N) =>
                 let '(x, m1) := fresh_var mb in
                 dor (s, m2) <- k (mkcb x CPrd CI64) m1;
                 Ok (FsCut (FsOp (cbvar b1) o (cbvar b2)) CI64 (FsMu CCns x s CI64), m2)).
    pose (sB := FsCut (FsOp (cbvar b1) o (cbvar b2)) CI64 (FsMu CCns ("x", mb + 1) s1 CI64)).
    assert (KB : kb b1 b2 mb = Ok (sB, m2)).
    { unfold kb, fresh_var, fresh_identifier. rewrite K. reflexivity. }
    destruct (IHb A2 (kb b1) ma sB m2) as (sb & EB & SimB).
    { rewrite Eb. simpl. exact KB. }
    destruct (IHa A1 (fun b1 ma => bind_term CPrd b (kb b1) ma) m sb m2) as (sa & EA & SimA).
    { rewrite Ea. simpl. exact EB. }
    exists sa. split; [exact EA|].
    intros T q e I L IE. apply andb_true_iff in I. destruct I as [I1 I2].
    pose proof (abind_mono a m) as Ma. rewrite Ea in Ma. simpl in Ma.
    pose proof (abind_mono b ma) as Mb. rewrite Eb in Mb. simpl in Mb.
    destruct (SimA T q e I1 L (int_env_app_l _ _ _ IE)) as (da & xa & Fa & Ra & La).
    rewrite Ea in Fa, La. simpl in Fa, La.
    assert (AGa : forall v, In v (avars b) -> clookup (xa ++ e) v = clookup e v).
    { intros v Hv. eapply clookup_fresh; eauto. pose proof (avars_le T b A2 I2 v Hv). lia. }
    assert (Lma : T <= ma) by lia.
    destruct (SimB T q (xa ++ e) I2 Lma (int_env_agree _ _ _ (int_env_app_r _ _ _ IE) AGa)) as (db & xb & Fb & Rb & Lb).
    rewrite Eb in Fb, Lb. simpl in Fb, Lb.
    rewrite (aeval_agree b e (xa ++ e) A2 AGa) in Rb, Lb.
    exists (da + (db + 6))%nat, ((("x", mb + 1), BP (PInt match aeval e (COp a o b) with AV z => z | AU _ => 0%Z end)) :: xb ++ xa).
    split; [|split].
    + intros y w [E|Hy].
      * inversion E; subst; simpl. lia.
      * apply in_app_or in Hy. destruct Hy as [Hy|Hy]; [specialize (Fb _ _ Hy) | specialize (Fa _ _ Hy)]; simpl; lia.
    + intros fuel out. rewrite <- Nat.add_assoc. rewrite Ra. simpl aeval.
      destruct (aeval e a) as [x|w]; auto.
      rewrite <- Nat.add_assoc. rewrite Rb.
      destruct (aeval e b) as [y|w]; auto.
      (* the administrative cut  < b1 o b2 | mutilde x. s1 > *)
      assert (L1 : clookup (xb ++ xa ++ e) (cbvar b1) = Some (BP (PInt x))).
      { rewrite clookup_skip; [apply La; auto|].
        intros y0 w Hy E. subst. specialize (Fb _ _ Hy).
        pose proof (abind_id T a m A1 I1 L) as Q. rewrite Ea in Q. simpl in Q. lia. }
      assert (L2 : clookup (xb ++ xa ++ e) (cbvar b2) = Some (BP (PInt y))) by (apply Lb; auto).
      simpl fs2c_stmt. change (6 + fuel)%nat with (S (S (S (S (S (S fuel)))))). 
      mstep. erewrite crun_next; [| simpl; unfold fs_var; rewrite L1; reflexivity].
      mstep. erewrite crun_next; [| simpl; unfold fs_var; rewrite L2; reflexivity].
      simpl crun at 1. destruct (eval_op (ax_binop o) x y) as [z|w]; [|reflexivity].
      try mstep. simpl. rewrite <- ?app_assoc. reflexivity.
    + intros z E. cbn [clookup app fst cbvar]. rewrite cident_eqb_refl. simpl aeval in *. rewrite E. reflexivity.
Qed.

Lemma avars_stmt_le : forall T s, astmt s = true -> ids_le_stmt T s = true -> forall v, In v (avars_stmt s) -> cid_id v <= T.
Proof.
  induction s as [pp ty kk|so a b t IHt el IHel|nl a n IHn|f args ty|a ty]; simpl; intros A I v Hv; try discriminate.
  - apply andb_true_iff in A. destruct A as [A A4]. apply andb_true_iff in A. destruct A as [A A3].
    apply andb_true_iff in A. destruct A as [A1 A2].
    apply andb_true_iff in I. destruct I as [I I4]. apply andb_true_iff in I. destruct I as [I I3].
    apply andb_true_iff in I. destruct I as [I1 I2].
    apply in_app_or in Hv. destruct Hv as [Hv|Hv]; [eapply avars_le; eauto|].
    apply in_app_or in Hv. destruct Hv as [Hv|Hv]; [destruct b; [eapply avars_le; eauto | destruct Hv]|].
    apply in_app_or in Hv. destruct Hv as [Hv|Hv]; auto.
  - apply andb_true_iff in A. destruct A as [A1 A2]. apply andb_true_iff in I. destruct I as [I1 I2].
    apply in_app_or in Hv. destruct Hv as [Hv|Hv]; [eapply avars_le; eauto | auto].
  - eapply avars_le; eauto.
Qed.

Lemma aexec_agree : forall s e e', astmt s = true ->
  (forall v, In v (avars_stmt s) -> clookup e' v = clookup e v) -> aexec e' s = aexec e s.
Proof.
  induction s as [pp ty kk|so a b t IHt el IHel|nl a n IHn|f args ty|a ty]; simpl; intros e e' A H; try discriminate.
  - apply andb_true_iff in A. destruct A as [A A4]. apply andb_true_iff in A. destruct A as [A A3].
    apply andb_true_iff in A. destruct A as [A1 A2].
    rewrite (aeval_agree a e e' A1) by (intros; apply H; apply in_or_app; auto).
    rewrite (IHt e e' A3) by (intros; apply H; apply in_or_app; right; apply in_or_app; right; apply in_or_app; auto).
    rewrite (IHel e e' A4) by (intros; apply H; apply in_or_app; right; apply in_or_app; right; apply in_or_app; auto).
    destruct b as [b0|]; auto.
    rewrite (aeval_agree b0 e e' A2) by (intros; apply H; apply in_or_app; right; apply in_or_app; auto). auto.
  - apply andb_true_iff in A. destruct A as [A1 A2].
    rewrite (aeval_agree a e e' A1) by (intros; apply H; apply in_or_app; auto).
    rewrite (IHn e e' A2) by (intros; apply H; apply in_or_app; auto). auto.
  - rewrite (aeval_agree a e e' A); auto.
Qed.

Ltac lk L := erewrite crun_next; [| simpl; unfold fs_var; rewrite L; reflexivity].

Lemma tgt_stmt : forall s, astmt s = true -> forall m T, ids_le_stmt T s = true -> T <= m ->
  exists s' m', focus_stmt s m = Ok (s', m') /\ m <= m' /\
  forall q e, int_env e (avars_stmt s) ->
    exists d, forall fuel out, crun (d + fuel) q (Run (fs2c_stmt s') e) out = done out (aexec e s).
Proof.
  induction s as [pp ty kk|so a b t IHt el IHel|nl a n IHn|f args ty|a ty]; simpl; intros A m T I L; try discriminate.
  - (* IfC *)
    apply andb_true_iff in A. destruct A as [A A4]. apply andb_true_iff in A. destruct A as [A A3].
    apply andb_true_iff in A. destruct A as [A1 A2].
    apply andb_true_iff in I. destruct I as [I I4]. apply andb_true_iff in I. destruct I as [I I3].
    apply andb_true_iff in I. destruct I as [I1 I2].
    destruct (abind a m) as [b1 ma] eqn:Ea.
    pose proof (abind_mono a m) as Ma. rewrite Ea in Ma. simpl in Ma.
    pose proof (abind_id T a m A1 I1 L) as Qa. rewrite Ea in Qa. simpl in Qa.
    destruct b as [b0|].
    + destruct (abind b0 ma) as [b2 mb] eqn:Eb.
      pose proof (abind_mono b0 ma) as Mb. rewrite Eb in Mb. simpl in Mb.
      destruct (IHt A3 mb T I3 ltac:(lia)) as (t' & m1 & Et & Lt & SimT).
      destruct (IHel A4 m1 T I4 ltac:(lia)) as (e' & m2 & Ee & Le & SimE).
      set (kb := fun (b1 b2 : cbinding) (mb : N) =>
                   dor (t', m1) <- focus_stmt t mb; dor (e', m2) <- focus_stmt el m1;
                   Ok (FsIfC so (cbvar b1) (Some (cbvar b2)) t' e', m2)).
      assert (KB : kb b1 b2 mb = Ok (FsIfC so (cbvar b1) (Some (cbvar b2)) t' e', m2)).
      { unfold kb. rewrite Et; simpl. rewrite Ee; simpl. reflexivity. }
      destruct (tgt_bind b0 A2 (kb b1) ma (FsIfC so (cbvar b1) (Some (cbvar b2)) t' e') m2) as (sb & EB & SimB).
      { rewrite Eb. simpl. exact KB. }
      destruct (tgt_bind a A1 (fun b1 ma => bind_term CPrd b0 (kb b1) ma) m sb m2) as (sa & EA & SimA).
      { rewrite Ea. simpl. exact EB. }
      exists sa, m2. split; [exact EA|]. split; [lia|].
      intros q e IE.
      pose proof (int_env_app_r _ _ _ IE) as IE2. pose proof (int_env_app_r _ _ _ IE2) as IE3.
      destruct (SimA T q e I1 L (int_env_app_l _ _ _ IE)) as (da & xa & Fa & Ra & La).
      rewrite Ea in Fa, La. simpl in Fa, La.
      assert (AGa : forall vs, (forall v, In v vs -> cid_id v <= T) -> forall v, In v vs -> clookup (xa ++ e) v = clookup e v).
      { intros vs H v Hv. eapply clookup_fresh; eauto. specialize (H v Hv). lia. }
      assert (Lma : T <= ma) by lia.
      destruct (SimB T q (xa ++ e) I2 Lma (int_env_agree _ _ _ (int_env_app_l _ _ _ IE2) (AGa _ (avars_le T b0 A2 I2))))
        as (db & xb & Fb & Rb & Lb).
      rewrite Eb in Fb, Lb. simpl in Fb, Lb.
      rewrite (aeval_agree b0 e (xa ++ e) A2 (AGa _ (avars_le T b0 A2 I2))) in Rb, Lb.
      assert (AGb : forall vs, (forall v, In v vs -> cid_id v <= T) -> forall v, In v vs -> clookup (xb ++ xa ++ e) v = clookup e v).
      { intros vs H v Hv. rewrite (clookup_fresh ma mb xb); auto; [eapply AGa; eauto|]. specialize (H v Hv). lia. }
      destruct (SimT q (xb ++ xa ++ e) (int_env_agree _ _ _ (int_env_app_l _ _ _ IE3) (AGb _ (avars_stmt_le T t A3 I3)))) as (dt & Rt).
      destruct (SimE q (xb ++ xa ++ e) (int_env_agree _ _ _ (int_env_app_r _ _ _ IE3) (AGb _ (avars_stmt_le T el A4 I4)))) as (de & Re).
      rewrite (aexec_agree t e (xb ++ xa ++ e) A3 (AGb _ (avars_stmt_le T t A3 I3))) in Rt.
      rewrite (aexec_agree el e (xb ++ xa ++ e) A4 (AGb _ (avars_stmt_le T el A4 I4))) in Re.
      exists (da + (db + (5 + (dt + de))))%nat. intros fuel out.
      rewrite <- Nat.add_assoc. rewrite Ra.
      destruct (aeval e a) as [x|w]; [|apply finish_done].
      rewrite <- Nat.add_assoc. rewrite Rb.
      destruct (aeval e b0) as [y|w]; [|apply finish_done].
      assert (L1 : clookup (xb ++ xa ++ e) (cbvar b1) = Some (BP (PInt x))).
      { rewrite clookup_skip; [apply La; auto|]. intros y0 w Hy E. subst. specialize (Fb _ _ Hy). lia. }
      assert (L2 : clookup (xb ++ xa ++ e) (cbvar b2) = Some (BP (PInt y))) by (apply Lb; auto).
      simpl fs2c_stmt. change (5 + (dt + de) + fuel)%nat with (S (S (S (S (S ((dt + de) + fuel)))))).
      mstep. lk L1. mstep. lk L2. mstep.
      destruct (eval_cmp (ax_ifsort so) x y).
      * rewrite <- Nat.add_assoc. apply Rt.
      * replace (dt + de + fuel)%nat with (de + (dt + fuel))%nat by lia. apply Re.
    + destruct (IHt A3 ma T I3 ltac:(lia)) as (t' & m1 & Et & Lt & SimT).
      destruct (IHel A4 m1 T I4 ltac:(lia)) as (e' & m2 & Ee & Le & SimE).
      set (ka := fun (b1 : cbinding) (ma : N) =>
                   dor (t', m1) <- focus_stmt t ma; dor (e', m2) <- focus_stmt el m1;
                   Ok (FsIfC so (cbvar b1) None t' e', m2)).
      destruct (tgt_bind a A1 ka m (FsIfC so (cbvar b1) None t' e') m2) as (sa & EA & SimA).
      { rewrite Ea. simpl. unfold ka. rewrite Et; simpl. rewrite Ee; simpl. reflexivity. }
      exists sa, m2. split; [exact EA|]. split; [lia|].
      intros q e IE.
      pose proof (int_env_app_r _ _ _ IE) as IE2. pose proof (int_env_app_r _ _ _ IE2) as IE3.
      destruct (SimA T q e I1 L (int_env_app_l _ _ _ IE)) as (da & xa & Fa & Ra & La).
      rewrite Ea in Fa, La. simpl in Fa, La.
      assert (AGa : forall vs, (forall v, In v vs -> cid_id v <= T) -> forall v, In v vs -> clookup (xa ++ e) v = clookup e v).
      { intros vs H v Hv. eapply clookup_fresh; eauto. specialize (H v Hv). lia. }
      destruct (SimT q (xa ++ e) (int_env_agree _ _ _ (int_env_app_l _ _ _ IE3) (AGa _ (avars_stmt_le T t A3 I3)))) as (dt & Rt).
      destruct (SimE q (xa ++ e) (int_env_agree _ _ _ (int_env_app_r _ _ _ IE3) (AGa _ (avars_stmt_le T el A4 I4)))) as (de & Re).
      rewrite (aexec_agree t e (xa ++ e) A3 (AGa _ (avars_stmt_le T t A3 I3))) in Rt.
      rewrite (aexec_agree el e (xa ++ e) A4 (AGa _ (avars_stmt_le T el A4 I4))) in Re.
      exists (da + (3 + (dt + de)))%nat. intros fuel out.
      rewrite <- Nat.add_assoc. rewrite Ra.
      destruct (aeval e a) as [x|w]; [|apply finish_done].
      assert (L1 : clookup (xa ++ e) (cbvar b1) = Some (BP (PInt x))) by (apply La; auto).
      simpl fs2c_stmt. change (3 + (dt + de) + fuel)%nat with (S (S (S ((dt + de) + fuel)))).
      mstep. lk L1. mstep.
      destruct (eval_cmp (ax_ifsort so) x 0).
      * rewrite <- Nat.add_assoc. apply Rt.
      * replace (dt + de + fuel)%nat with (de + (dt + fuel))%nat by lia. apply Re.
  - (* Print *)
    apply andb_true_iff in A. destruct A as [A1 A2]. apply andb_true_iff in I. destruct I as [I1 I2].
    destruct (abind a m) as [b1 ma] eqn:Ea.
    pose proof (abind_mono a m) as Ma. rewrite Ea in Ma. simpl in Ma.
    destruct (IHn A2 ma T I2 ltac:(lia)) as (n' & m1 & En & Ln & SimN).
    set (ka := fun (b1 : cbinding) (ma : N) => dor (n', m1) <- focus_stmt n ma; Ok (FsPrint nl (cbvar b1) n', m1)).
    destruct (tgt_bind a A1 ka m (FsPrint nl (cbvar b1) n') m1) as (sa & EA & SimA).
    { rewrite Ea. simpl. unfold ka. rewrite En; simpl. reflexivity. }
    exists sa, m1. split; [exact EA|]. split; [lia|].
    intros q e IE.
    destruct (SimA T q e I1 L (int_env_app_l _ _ _ IE)) as (da & xa & Fa & Ra & La).
    rewrite Ea in Fa, La. simpl in Fa, La.
    assert (AGa : forall v, In v (avars_stmt n) -> clookup (xa ++ e) v = clookup e v).
    { intros v Hv. eapply clookup_fresh; eauto. pose proof (avars_stmt_le T n A2 I2 v Hv). lia. }
    destruct (SimN q (xa ++ e) (int_env_agree _ _ _ (int_env_app_r _ _ _ IE) AGa)) as (dn & Rn).
    rewrite (aexec_agree n e (xa ++ e) A2 AGa) in Rn.
    exists (da + (3 + dn))%nat. intros fuel out.
    rewrite <- Nat.add_assoc. rewrite Ra.
    destruct (aeval e a) as [z|w]; [|apply finish_done].
    assert (L1 : clookup (xa ++ e) (cbvar b1) = Some (BP (PInt z))) by (apply La; auto).
    simpl fs2c_stmt. change (3 + dn + fuel)%nat with (S (S (S (dn + fuel)))).
    mstep. lk L1. erewrite crun_print; [| simpl; reflexivity].
    rewrite Rn. apply done_cons.
  - (* Exit *)
    destruct (abind a m) as [b1 ma] eqn:Ea.
    pose proof (abind_mono a m) as Ma. rewrite Ea in Ma. simpl in Ma.
    destruct (tgt_bind a A (fun b1 ma => Ok (FsExit (cbvar b1), ma)) m (FsExit (cbvar b1)) ma) as (sa & EA & SimA).
    { rewrite Ea. reflexivity. }
    exists sa, ma. split; [exact EA|]. split; [lia|].
    intros q e IE.
    destruct (SimA T q e I L IE) as (da & xa & Fa & Ra & La).
    rewrite Ea in Fa, La. simpl in Fa, La.
    exists (da + 3)%nat. intros fuel out.
    rewrite <- Nat.add_assoc. rewrite Ra.
    destruct (aeval e a) as [z|w]; [|apply finish_done].
    assert (L1 : clookup (xa ++ e) (cbvar b1) = Some (BP (PInt z))) by (apply La; auto).
    simpl fs2c_stmt. change (3 + fuel)%nat with (S (S (S fuel))).
    mstep. lk L1. erewrite crun_halt; [| simpl; reflexivity]. apply finish_done.
Qed.

(* ---------- programs ---------- *)
Definition entry_ok (p : cprog) : bool :=
  match cpdefs p with
  | d :: _ =>
      astmt (cdbody d)
      && forallb (fun b => match cbchi b with CPrd => true | CCns => false end && negb (N.eqb (cid_id (cbvar b)) 0)) (cdctx d)
      && forallb (fun v => existsb (cident_eqb v) (cvars (cdctx d))) (avars_stmt (cdbody d))
      && ids_le_stmt (cpmax p) (cdbody d)
  | [] => false
  end.

Lemma uq_context_nonzero : forall bs m,
  forallb (fun b => negb (N.eqb (cid_id (cbvar b)) 0)) bs = true -> uq_context bs m [] [] [] = (bs, [], [], m).
Proof.
  induction bs as [|b r IH]; intros m H; simpl in *; auto.
  apply andb_true_iff in H. destruct H as [H1 H2]. apply negb_true_iff in H1. rewrite H1.
  rewrite uq_context_acc. rewrite IH; auto.
Qed.

Lemma uq_aterm_id : forall t, aterm t = true -> forall f m, (depth_term t <= f)%nat -> uq_term f t m = Ok (t, m).
Proof.
  induction t; simpl; intros A f m D; try discriminate; (destruct f as [|f]; [lia|]); simpl; auto.
  apply andb_true_iff in A. destruct A as [A1 A2].
  rewrite IHt1; auto; try lia. simpl. rewrite IHt2; auto; try lia.
Qed.
Lemma uq_astmt_id : forall s, astmt s = true -> forall f m, (depth_stmt s <= f)%nat -> uq_stmt f s m = Ok (s, m).
Proof.
  induction s as [pp ty kk|so a b t IHt el IHel|nl a n IHn|g args ty|a ty]; simpl; intros A f m D; try discriminate;
    (destruct f as [|f]; [lia|]); simpl.
  - apply andb_true_iff in A. destruct A as [A A4]. apply andb_true_iff in A. destruct A as [A A3].
    apply andb_true_iff in A. destruct A as [A1 A2].
    rewrite uq_aterm_id; auto; try lia. simpl.
    destruct b as [b0|]; simpl.
    + rewrite uq_aterm_id; auto; try lia. simpl. rewrite IHt; auto; try lia. simpl. rewrite IHel; auto; try lia.
    + rewrite IHt; auto; try lia. simpl. rewrite IHel; auto; try lia.
  - apply andb_true_iff in A. destruct A as [A1 A2].
    rewrite uq_aterm_id; auto; try lia. simpl. rewrite IHn; auto; try lia.
  - rewrite uq_aterm_id; auto; try lia.
Qed.

Lemma cbind_lookup_int : forall xs vs e x,
  cbind xs vs [] = Some e -> (forall v, In v vs -> exists z, v = BP (PInt z)) -> In x xs ->
  exists z, clookup e x = Some (BP (PInt z)).
Proof.
  induction xs as [|y xs IH]; intros vs e x H V Hx; [destruct Hx|].
  destruct vs as [|v vs]; simpl in H; [discriminate|].
  destruct (cbind xs vs []) as [e'|] eqn:E; [|discriminate]. inversion H; subst. simpl.
  destruct (cident_eqb y x) eqn:Q.
  - destruct (V v (or_introl eq_refl)) as (z & ->). eauto.
  - destruct Hx as [->|Hx]; [rewrite cident_eqb_refl in Q; discriminate|].
    eapply IH; eauto. intros; apply V; right; auto.
Qed.

Lemma aexec_not_oof : forall s e, snd (aexec e s) <> OOutOfFuel.
Proof.
  induction s as [pp ty kk|so a b t IHt el IHel|nl a n IHn|g args ty|a ty]; intros e; simpl; try discriminate.
  - destruct (aeval e a); [|simpl; discriminate]. destruct b as [b0|].
    + destruct (aeval e b0); [|simpl; discriminate]. destruct (eval_cmp _ _ _); auto.
    + destruct (eval_cmp _ _ _); auto.
  - destruct (aeval e a); simpl; [apply IHn | discriminate].
  - destruct (aeval e a); simpl; discriminate.
Qed.

Lemma maprs_head : forall (X Y : Type) (g : X -> N -> res (Y * N)) x l m r,
  maprs g (x :: l) m = Ok r -> exists y m1 l', g x m = Ok (y, m1) /\ fst r = y :: l'.
Proof.
  intros X Y g x l m r H. simpl in H. destruct (g x m) as [[y m1]|]; simpl in H; [|discriminate].
  destruct (maprs g l m1) as [[l' m2]|]; simpl in H; [|discriminate]. inversion H; subst. simpl. eauto.
Qed.

Theorem focus_preserves_straight_line : forall p q args,
  pre_check p = true -> focus_wf p = true -> entry_ok p = true -> focus_prog p = Ok q ->
  exists n, forall fuel, (n <= fuel)%nat ->
    run_fs fuel q args = run_core fuel p args /\ snd (run_core fuel p args) <> OOutOfFuel.
Proof.
  intros p q args P W EO FQ. unfold entry_ok in EO.
  destruct (cpdefs p) as [|d ds] eqn:Dp; [discriminate|].
  apply andb_true_iff in EO. destruct EO as [EO Ib]. apply andb_true_iff in EO. destruct EO as [EO Cl].
  apply andb_true_iff in EO. destruct EO as [Ab Pc].
  destruct d as [name ctx body]. simpl in *.
  (* uniquify leaves the entry definition alone *)
  assert (NZ : forallb (fun b => negb (N.eqb (cid_id (cbvar b)) 0)) ctx = true).
  { eapply forallb_impl; [|exact Pc]. intros x _ H. apply andb_true_iff in H. tauto. }
  assert (UD : forall m, uq_def (mkcd name ctx body) m = Ok (mkcd name ctx body, m)).
  { intros m. unfold uq_def; simpl. rewrite uq_context_nonzero by auto. simpl.
    rewrite uq_astmt_id; auto. }
  unfold focus_prog, uniquify_prog in FQ. rewrite Dp in FQ.
  destruct (uq_defs_spec (cpdefs p) (cpmax p) (cpmax p)) as (ds1 & M & E1 & LM & _); try lia.
  { apply wf_pre_forall; split; auto. }
  rewrite Dp in E1. rewrite E1 in FQ. simpl in FQ.
  destruct (maprs_head _ _ _ _ _ _ _ E1) as (d1 & m1 & l1 & Ed1 & El1). rewrite UD in Ed1. inversion Ed1; subst d1 m1.
  simpl in El1. subst ds1.
  destruct (maprs focus_def (mkcd name ctx body :: l1) M) as [[qs M']|] eqn:E2; simpl in FQ; [|discriminate].
  inversion FQ; subst q. clear FQ.
  destruct (maprs_head _ _ _ _ _ _ _ E2) as (q0 & m2 & l2 & Eq0 & El2). simpl in El2. subst qs.
  unfold focus_def in Eq0. simpl in Eq0.
  destruct (tgt_stmt body Ab M (cpmax p) Ib LM) as (s' & m' & Es & _ & SimT).
  rewrite Es in Eq0. simpl in Eq0. inversion Eq0; subst q0 m2.
  unfold run_fs, run_core. simpl. rewrite Dp. simpl. unfold centry_env. simpl.
  destruct (forallb (fun b => match cbchi b with CPrd => true | CCns => false end) ctx); [|exists 0%nat; intros; split; [reflexivity | simpl; discriminate]].
  destruct (cbind (cvars ctx) (map (fun z => BP (PInt z)) args) []) as [e|] eqn:Ee;
    [|exists 0%nat; intros; split; [reflexivity | simpl; discriminate]].
  assert (IE : int_env e (avars_stmt body)).
  { intros v Hv. rewrite forallb_forall in Cl. specialize (Cl v Hv). apply existsb_exists in Cl.
    destruct Cl as (y & Hy & Q). apply cident_eqb_eq in Q. subst y.
    eapply cbind_lookup_int; eauto. intros b Hb. apply in_map_iff in Hb. destruct Hb as (z & <- & _). eauto. }
  destruct (src_stmt body Ab e IE) as (d1 & R1).
  destruct (SimT (fs2c_prog {| fspdefs := {| fsdname := name; fsdctx := ctx; fsdbody := s' |} :: l2;
                              fspdata := cpdata p; fspcodata := cpcodata p; fspmax := M' |}) e IE) as (d2 & R2).
  exists (d1 + d2)%nat. intros fuel Hf.
  replace fuel with (d1 + (fuel - d1))%nat at 2 3 by lia.
  replace fuel with (d2 + (fuel - d2))%nat at 1 by lia.
  rewrite R1. simpl in R2. rewrite R2. split; [reflexivity|]. unfold done; simpl. apply aexec_not_oof.
Qed.
