(* C06, heap statements, shared definitions: how the abstract heap of the instrumented linear machine
   (Sem/AxHeap.v, Model/Heap.v) and the heap words of an x86-64 state are related.

     pad3 / heq      agreement of an abstract state `a` (in practice `abs_heap F s`, whose blocks always
                     have three pointer slots) with the machine's abstract heap `hs` UP TO ZERO PADDING
                     (a block that was never written has `ps = []` in hs and [0;0;0] in abs_heap);
     P3              every block of hs has at most three pointer slots (only `alloc` writes slots, always three);
     wblocks/waddrs  the blocks of a chained object and the addresses of its field slots (pointer word at
                     a, data word at a + 8), read from the heap words w, head block first: a block that
                     is followed by another one holds two fields (16, 32) and the link (48), the last
                     block three fields;
     chain_fresh     the block reserved for the next round of `store_fields` is not one of the blocks
                     already written for this object (follows from the heap invariant: reserved block on
                     the reuse list, written blocks counted). *)
From Coq Require Import List ZArith NArith String Bool Lia.
From SCC Require Import Sem.X86Sem Proof.X86Mem.
From SCC Require Model.Heap.
Import ListNotations.
Open Scope Z_scope.

Definition LIMIT : Z := HEAP_BASE + HEAP_SIZE.

Definition pad3 (l : list Z) : list Z := [nth 0 l 0; nth 1 l 0; nth 2 l 0].

Definition heq (a hs : Heap.st) : Prop :=
  Heap.heap a = Heap.heap hs /\ Heap.free a = Heap.free hs /\ Heap.frontier a = Heap.frontier hs /\
  forall x, is_blk x ->
    Heap.hdr (Heap.m a x) = Heap.hdr (Heap.m hs x) /\ Heap.ps (Heap.m a x) = pad3 (Heap.ps (Heap.m hs x)).

Definition P3 (hs : Heap.st) : Prop := forall x, (List.length (Heap.ps (Heap.m hs x)) <= 3)%nat.

Lemma pad3_len3 l : List.length l = 3%nat -> pad3 l = l.
Proof. destruct l as [|a [|b [|c [|d r]]]]; cbn; intros H; try discriminate; reflexivity. Qed.
Lemma pad3_nil : pad3 [] = [0; 0; 0]. Proof. reflexivity. Qed.
Lemma pad3_nth l i : nth i (pad3 l) 0 = match i with O | S O | S (S O) => nth i l 0 | _ => 0 end.
Proof. destruct i as [|[|[|i]]]; cbn; auto. destruct i; reflexivity. Qed.

Lemma heq_eqB a' a hs : st_eqB a' a -> heq a hs -> heq a' hs.
Proof.
  intros (E1 & E2 & E3 & E4) (H1 & H2 & H3 & H4). split; [congruence|]. split; [congruence|]. split; [congruence|].
  intros x Hx. rewrite (E4 x Hx). now apply H4.
Qed.
Lemma heq_abs_ps F s hs x : heq (abs_heap F s) hs -> is_blk x ->
  pad3 (Heap.ps (Heap.m hs x)) = [hword s (x + 16); hword s (x + 32); hword s (x + 48)] /\ Heap.hdr (Heap.m hs x) = hword s x.
Proof. intros (_ & _ & _ & H) Hx. destruct (H x Hx) as [A B]. split; [now rewrite <- B|now rewrite <- A]. Qed.

(* ---------- chains of blocks in the heap words ---------- *)
Fixpoint wblocks (k : nat) (w : Z -> Z) (p : Z) : list Z :=
  p :: match k with O => [] | S k' => wblocks k' w (w (p + 48)) end.
Fixpoint waddrs (k : nat) (w : Z -> Z) (p : Z) : list Z :=
  match k with
  | O => [p + 16; p + 32; p + 48]
  | S k' => [p + 16; p + 32] ++ waddrs k' w (w (p + 48))
  end.
Lemma waddrs_length w : forall k p, List.length (waddrs k w p) = (2 * k + 3)%nat.
Proof. induction k as [|k IH]; intros p; cbn [waddrs List.length app]; [reflexivity|]. rewrite IH. lia. Qed.
Lemma wblocks_length w : forall k p, List.length (wblocks k w p) = S k.
Proof. induction k as [|k IH]; intros p; cbn [wblocks List.length]; [reflexivity|]. now rewrite IH. Qed.

(* the blocks of an object in the abstraction of a machine state are the chain of its words *)
Lemma obj_blocks_abs s : forall k p, Heap.obj_blocks k (abs_mem s) p = wblocks k (hword s) p.
Proof. induction k as [|k IH]; intros p; cbn [Heap.obj_blocks wblocks]; [reflexivity|]. f_equal. apply IH. Qed.

(* ---------- freshness of the reserved block along store_fields ---------- *)
Fixpoint chain_fresh (fuel : nat) (rest : list Z) (link : Z) (k : nat) (a : Heap.st) : Prop :=
  match fuel with
  | O => True
  | S f =>
      match rest with
      | [] => True
      | _ => ~ In (Heap.heap a) (Heap.obj_blocks k (Heap.m a) link) /\
             chain_fresh f (Heap.butlastn 2 rest)
               (fst (Heap.alloc (Heap.pad 2 (Heap.lastn 2 rest) ++ [link]) a)) (S k)
               (snd (Heap.alloc (Heap.pad 2 (Heap.lastn 2 rest) ++ [link]) a))
      end
  end.
Definition alloc_object_fresh (fields : list Z) (a : Heap.st) : Prop :=
  match fields with
  | [] => True
  | _ => chain_fresh (List.length fields) (Heap.butlastn 3 fields)
           (fst (Heap.alloc (Heap.pad 3 (Heap.lastn 3 fields)) a)) O
           (snd (Heap.alloc (Heap.pad 3 (Heap.lastn 3 fields)) a))
  end.
