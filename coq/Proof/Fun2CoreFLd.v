(* ======================================================================================
   Proof/Fun2CoreFLd  -  the call of a top-level definition, clause selection, and the small cases of
   the fundamental lemma (variables, literals, operators, exit, parentheses are in Fun2CoreFLe.v).
   ====================================================================================== *)
From Coq Require Import List ZArith NArith String Bool Lia.
From SCC Require Import Base.Sexp Lang.SynUtil Lang.FunSyn Lang.FunTy Lang.CoreSyn.
From SCC Require Import Sem.AxSem Sem.CoreSem Sem.FunSem Model.Fun2Core.
From SCC Require Import Proof.Fun2CoreProof Proof.Fun2CoreSim Proof.Fun2CoreTfv Proof.Fun2CoreInv Proof.Fun2CoreUB
     Proof.Fun2CoreRel Proof.Fun2CoreFLa Proof.Fun2CoreFLb Proof.Fun2CoreFLc.
Import ListNotations.
Open Scope string_scope.
Open Scope list_scope.

Lemma rev_append_twice_app : forall X (l a : list X), rev_append (rev_append l []) a = l ++ a.
Proof. intros X l a. rewrite !rev_append_rev, app_nil_r, rev_involutive. reflexivity. Qed.

Section FLd.
  Variable p : fcprog.
  Variable cp : cprog.
  Hypothesis Hcod : cpcodata cp = codata_of p.
  Hypothesis Hdefs : forall f d, ffind_def p f = Some d -> (f <> "main" \/ calls_main_prog p = true) -> callee_ok p cp d.

  Lemma chi_kind_list : forall (l1 l2 : list (fchi * bool)), list_eqb (chi_kind_eqb) l1 l2 = true -> l1 = l2.
  Proof.
    induction l1 as [|[c1 k1] r IH]; intros [|[c2 k2] r2]; simpl; intros H; try discriminate; [reflexivity|].
    apply andb_prop in H. destruct H as [H1 H2]. apply IH in H2. subst. unfold chi_kind_eqb in H1. simpl in H1.
    apply andb_prop in H1. destruct H1 as [Hc Hk]. apply Bool.eqb_prop in Hk. subst.
    destruct c1, c2; simpl in Hc; try discriminate; reflexivity.
  Qed.

  Lemma kinds_of_call : forall new args ctx,
    Forall2 (fun b y => okb p false y b /\ fkind b = compile_chi (arg_chi y)) new args ->
    map (fun y => (arg_chi y, tkind p y)) args = map (fun b => (fbchi b, f_is_codata p (fbty b))) ctx ->
    map fkind new = map (fun b => compile_chi (fbchi b)) ctx /\
    Forall2 (fun v b => vok (is_codata cp (compile_ty (fbty b))) v) new ctx.
  Proof.
    intros new args ctx H. revert ctx. induction H as [|b y r r' [Hb1 Hb2] Hr IH]; intros ctx E.
    - destruct ctx; [|discriminate]. split; constructor.
    - destruct ctx as [|c0 cr]; [discriminate|]. simpl in E. injection E as E1 E2 E3.
      destruct (IH cr E3) as [IH1 IH2]. split.
      + simpl. rewrite Hb2, E1, IH1. reflexivity.
      + constructor; [|exact IH2]. rewrite (is_codata_compile p cp Hcod), <- E2. exact Hb1.
  Qed.

  Lemma call_finish : forall N, (forall N', (N' < N)%nat -> forall t, flw p cp N' t) ->
    forall j, (j <= N)%nat -> forall f args ret e ce k cont new new',
    (f <> "main" \/ calls_main_prog p = true) -> call_kinds p f args ret = true ->
    Forall2 (brel p cp j) new new' ->
    Forall2 (fun b y => okb p false y b /\ fkind b = compile_chi (arg_chi y)) new args ->
    cont_shape cp (f_is_codata_o p ret) cont -> KS p cp j (f_is_codata_o p ret) k cont ce ->
    sim p cp j (FArgs (rev_append new []) [] e (AfCall f) k)
               (cargs_res cp (rev_append new' []) [CConsumer cont] ce (FinCall (new_id f))).
  Proof.
    intros N IHN j Hj f args ret e ce k cont new new' Hnm Hck Hnew Hkinds Hsh HKS.
    destruct j as [|j1]; [apply sim_zero|].
    destruct (ffind_def p f) as [d|] eqn:Ed;
      [|eapply sim_stuck; simpl; rewrite Ed; reflexivity].
    destruct (fbind (fvars (fdctx d)) new []) as [e'|] eqn:Eb;
      [|eapply sim_stuck; simpl; rewrite rev_append_nil_twice, Ed, Eb; reflexivity].
    eapply sim_fstep; [simpl; rewrite rev_append_nil_twice, Ed, Eb; reflexivity|].
    assert (Hname : fdname d = f).
    { unfold ffind_def in Ed. apply find_some in Ed. destruct Ed as [_ Ed]. apply String.eqb_eq in Ed. exact Ed. }
    destruct (Hdefs f d Ed Hnm) as [a [body [st [st' [ty [Hwc [Ha [Hab [Hac [Hctx [Hbnd [Hl [Hfind [Hf [Hws [Hkd Hkb]]]]]]]]]]]]]]]].
    unfold cargs_res. apply sim_cstep.
    destruct (KS_arg p cp _ _ _ _ ce (MArgs (rev_append new' []) [] ce (FinCall (new_id f))) Hsh HKS) as [kv [Hreach Hkk]].
    eapply sim_rreach; [|exact Hreach].
    apply sim_cstep. rewrite cstep_app_margs. unfold cargs_res.
    change (rev_append (BK kv :: rev_append new' []) []) with (rev_append (rev_append new' []) [BK kv]).
    rewrite rev_append_twice_app.
    unfold call_kinds in Hck. rewrite Ed in Hck. apply andb_prop in Hck. destruct Hck as [Hck Hret].
    apply chi_kind_list in Hck. apply Bool.eqb_prop in Hret.
    destruct (kinds_of_call _ _ _ Hkinds Hck) as [Hk1 Hk2].
    destruct (erel_binds p cp j1 [] (fdctx d) (Sof (fvs body)) (fun _ => True) new new' [] [(new_id a, BK kv)] e')
      as [ce1 [Hc [Hr Hlk]]].
    - eapply brels_mono; [exact Hnew | lia].
    - exact Hk2.
    - exact Hk1.
    - exact Eb.
    - intros bb Hg. simpl in Hg. discriminate.
    - intros x _ _. exact I.
    - simpl finish_args. rewrite <- Hname, Hfind. cbn [cdctx cdbody].
      unfold cvars. rewrite map_app. simpl map. fold (cvars (compile_ctx (fdctx d))).
      rewrite (cbind_snoc _ _ _ _ _ Hc).
      rewrite app_nil_r in Hr.
      assert (Hj1 : (j1 < N)%nat) by lia.
      apply (IHN j1 Hj1 (fdbody d) j1 (Nat.le_refl j1) (compile_ctx (fdctx d)) (fdname d)
                 (CXVar CCns (new_id a) ty) st body st' e' ce1 k Hwc Hf Hkd Hws Hl).
      + intros bb Hb. unfold compile_ctx in Hb. apply in_map_iff in Hb. destruct Hb as [b0 [E Hb0]]. subst bb.
        exists (fbvar b0). split; [reflexivity|]. apply Hctx. unfold fvars. apply in_map. exact Hb0.
      + exact Hbnd.
      + intros x Hx. simpl in Hx. destruct Hx as [Hx|[]]. subst x. exists a. split; [reflexivity | exact Ha].
      + exact I.
      + exact Hr.
      + apply CK_covar with (kv := kv).
        * rewrite Hlk.
          -- rewrite clookup_cons, cid_eqb_refl. reflexivity.
          -- intros Hin. unfold cvars, compile_ctx in Hin. rewrite map_map in Hin. apply in_map_iff in Hin.
             destruct Hin as [b0 [E Hb0]]. simpl in E. apply new_id_inj in E. apply Hac. rewrite <- E.
             unfold fvars. apply in_map. exact Hb0.
        * rewrite Hkb, <- Hret. eapply Kk_mono; [exact Hkk | lia].
  Qed.

  (* clause selection on both sides *)
  Lemma clauses_find : forall cur cont1 cls st cls' st',
    clauses_with (fun b => wc (codata_of p) cur false b) cont1 cls st = Ok (cls', st') ->
    forall tag,
    match ffind_clause cls tag with
    | None => cfind_clause cls' (new_id tag) = None
    | Some (FClause pl x names ctx body) =>
        exists body' sta stb,
          cfind_clause cls' (new_id tag) = Some (CClause CCns (new_id x) (compile_ctx ctx) body') /\
          wc (codata_of p) cur false body cont1 sta = Ok (body', stb) /\
          grows st sta /\ grows stb st' /\
          (forall bb, In bb (fvs body') -> ~ In bb (compile_ctx ctx) -> In bb (fvc cls')) /\
          In (FClause pl x names ctx body) cls
    end.
  Proof.
    intros cur cont1. induction cls as [|c r IH]; intros st cls' st' H tag.
    - simpl in H. apply mret_inv in H. destruct H; subst. reflexivity.
    - destruct c as [pl x names ctx body]. apply clauses_with_cons_inv in H.
      destruct H as [c' [st1 [rest [Hc [Hrest El]]]]]. subst cls'.
      apply compile_clause_inv in Hc. destruct Hc as [body' [Hbody Ec]]. subst c'.
      assert (Hg1 : grows st st1) by (eapply wc_grows; exact Hbody).
      assert (Hg2 : grows st1 st').
      { revert Hrest. apply mgrows_clauses_with. apply Forall_forall. intros c0 _ k0.
        apply (proj1 (wc_cmp_grows (codata_of p) cur false (clause_body c0))). }
      unfold ffind_clause, cfind_clause. simpl. rewrite cid_eqb_new_id.
      destruct (String.eqb x tag) eqn:E.
      + exists body', st, st1. split; [reflexivity|]. split; [exact Hbody|]. split; [apply grows_refl|].
        split; [exact Hg2|]. split; [|left; reflexivity].
        intros bb Hb Hn. apply fvc_cons_body; assumption.
      + specialize (IH _ _ _ Hrest tag). unfold ffind_clause, cfind_clause in IH.
        destruct (find (fun c => String.eqb (fcl_xtor c) tag) r) as [[pl0 x0 names0 ctx0 body0]|].
        * destruct IH as [b' [sta [stb [E1 [E2 [E3 [E4 [E5 E6]]]]]]]]. exists b', sta, stb.
          split; [exact E1|]. split; [exact E2|]. split; [eapply grows_trans; eauto|]. split; [exact E4|].
          split; [|right; exact E6].
          intros bb Hb Hn. apply fvc_cons_tail. apply E5; assumption.
        * exact IH.
  Qed.

  Lemma kinds_of_fields : forall ctx fields e e1,
    Forall dfield fields -> ctx_data p ctx = true ->
    fbind (fvars ctx) fields e = Some e1 ->
    map fkind fields = map (fun b => compile_chi (fbchi b)) ctx /\
    Forall2 (fun v b => vok (is_codata cp (compile_ty (fbty b))) v) fields ctx.
  Proof.
    induction ctx as [|c0 cr IH]; intros fields e e1 Hd Hp Hb; destruct fields as [|b fr]; simpl in Hb; try discriminate.
    - split; constructor.
    - destruct (fbind (fvars cr) fr e) as [er|] eqn:Er; [|discriminate].
      inversion Hd as [|? ? Hd1 Hd2]; subst. unfold ctx_data in Hp. simpl in Hp. apply andb_prop in Hp. destruct Hp as [Hp1 Hp2].
      apply andb_prop in Hp1. destruct Hp1 as [Hprd Hdata]. apply negb_true_iff in Hdata.
      destruct (IH fr e er Hd2 Hp2 Er) as [IH1 IH2]. split.
      + simpl. rewrite IH1. f_equal. destruct b as [v|k0]; [|contradiction]. destruct (fbchi c0); [reflexivity | discriminate].
      + constructor; [|exact IH2]. rewrite (is_codata_compile p cp Hcod), Hdata.
        destruct b as [v|k0]; [exact Hd1 | contradiction].
  Qed.
End FLd.
