(* C09 on AArch64, loads: `a_load` of any number of variables (objects chained over several blocks, memory.rs
   load_fields with the TEMPORARY_TEMP = X10 evacuation, load_register with the header test) refines
   `Heap.load_object (nlinks n) p` on the AArch64 ISA semantics.
     a64_lf_blk_ok        one block, the block pointer in a register or in a spill slot (then X10 is evacuated to
                          SPILL_TEMP = slot 0 once and restored after the last block);
     a64_load_fields_ok   the recursion of load_fields against the abstract walk `lf_abs` in emission order;
     a64_load_walk_full   a_load = header test, then the Release walk or decrement + the Share walk;
     a64_load_full        a_load = Heap.load_object (nlinks n) p, with the frame: the variables below the loaded ones
                          (X10 included), the output, `nonblk_same`, HEAP defined, FREE unchanged, `stack_frame`.
   Differences to x86-64 (Proof/X86MemLoadChain.v ... X86MemLoadStk.v): TEMPORARY_TEMP is X10 = `tpos 6` (the first
   temporary of variable 3), spill slots begin at position 26; Share-mode code clobbers TEMP2 = X3; the header is
   read into TEMP2 and tested by CMP #0 on the 64-bit value, decremented by SUBI/STR through TEMP2.

   SHARED WITH x86-64 (nothing is copied): `lf_ptr`, `lf_abs`, `lf_ok`, `lf_addrs`, `lf_share_ok`, `lf_ext`,
   `lf_abs_release_load_object`, `lf_abs_share_load_object`, ... of Proof/X86MemLoadChain.v, instantiated with the
   word function `hword s` of the AArch64 state. *)
From Coq Require Import List ZArith NArith String Bool Lia FMapPositive.
From SCC Require Import Base.Sexp Lang.AxSyn Sem.AxSem Model.Backend Model.A64 Sem.A64Sem Generated.Constants
     Proof.A64State Proof.A64ImmHw Proof.A64Imm Proof.A64Sel Proof.A64Exec Proof.A64MemSubst Proof.A64Mem Proof.A64MemOps
     Proof.A64MemLoad.
From SCC Require Model.Heap Model.X86 Sem.X86Sem Proof.X86Mem Proof.X86MemFrame Proof.X86MemStore Proof.X86MemStoreChain
     Proof.X86MemLoad Proof.X86MemLoadChain Proof.X86MemLoadFull Proof.X86HeapDefs Proof.HeapMore Proof.A64MemTop.
Import ListNotations.
Open Scope list_scope.
Open Scope Z_scope.

Notation rest_len := X86MemStoreChain.rest_len.
Notation lf_ptr := X86MemLoadChain.lf_ptr.
Notation lf_abs := X86MemLoadChain.lf_abs.
Notation lf_ok := X86MemLoadChain.lf_ok.
Notation blk_addrs := X86MemLoadChain.blk_addrs.
Notation lf_addrs := X86MemLoadChain.lf_addrs.
Notation lf_share_ok := X86MemLoadChain.lf_share_ok.
Notation XLast := X86.Last.

(* the abstract walk, unfolded once, in the vocabulary of Model/A64.v *)
Lemma lf_unfold f m w tl bp p : tl <> [] ->
  let cap := (3 - bp_n bp)%N in
  let rl := rest_len (List.length tl) cap in
  let rest := firstn rl tl in
  let next := skipn rl tl in
  let q := lf_ptr f w rest (xbp Other) p in
  lf_ptr (S f) w tl (xbp bp) p = w (q + 48) /\
  (forall a, lf_abs (S f) (xm m) w tl (xbp bp) p a = blk_abs (xm m) w next q cap (lf_abs f (xm m) w rest (xbp Other) p a)) /\
  (lf_ok (S f) (xm m) w tl (xbp bp) p -> lf_ok f (xm m) w rest (xbp Other) p /\ is_blk q /\ lv_kids (xm m) w (rev next) q cap) /\
  lf_addrs (S f) w tl (xbp bp) p = lf_addrs f w rest (xbp Other) p ++ blk_addrs q cap.
Proof.
  destruct tl as [|x r]; [contradiction|]. intros _. destruct bp; cbv zeta; (split; [reflexivity|split; [intros a; reflexivity|split; [intros H; exact H|reflexivity]]]).
Qed.

(* ---------- the logical contents of TEMPORARY_TEMP: in the register, or evacuated to SPILL_TEMP ---------- *)
Definition saved (s : astate) (sp : Z) (freed : bool) : option Z :=
  if freed then sget s sp SPILL_TEMP else rget s TEMPORARY_TEMP.
Definition lgetL (s : astate) (sp : Z) (freed : bool) (l : atemp) : option Z :=
  if atemp_eqb l (AR TEMPORARY_TEMP) then saved s sp freed else lget s sp l.
Lemma atemp_eqb_refl' a b : reflect (a = b) (atemp_eqb a b). Proof. apply atemp_eqb_spec. Qed.
Lemma lgetL_other s sp freed l : l <> AR TEMPORARY_TEMP -> lgetL s sp freed l = lget s sp l.
Proof. intros H. unfold lgetL. destruct (atemp_eqb_refl' l (AR TEMPORARY_TEMP)); [contradiction|reflexivity]. Qed.
Lemma lgetL_tt s sp freed : lgetL s sp freed (AR TEMPORARY_TEMP) = saved s sp freed.
Proof. unfold lgetL. destruct (atemp_eqb_refl' (AR TEMPORARY_TEMP) (AR TEMPORARY_TEMP)); [reflexivity|contradiction]. Qed.
Lemma lgetL_false s sp l : lgetL s sp false l = lget s sp l.
Proof. unfold lgetL, saved. destruct (atemp_eqb_refl' l (AR TEMPORARY_TEMP)) as [->|]; reflexivity. Qed.
Lemma tpos_tt k : tpos k = AR TEMPORARY_TEMP -> k = 6%N.
Proof. intros H. apply tpos_reg in H as [H _]. change TEMPORARY_TEMP with (X 10) in H. inversion H. lia. Qed.
Lemma tpos_not_tt k : k <> 6%N -> tpos k <> AR TEMPORARY_TEMP.
Proof. intros Hk H. apply tpos_tt in H. contradiction. Qed.
Lemma tpos_6 : tpos 6 = AR TEMPORARY_TEMP. Proof. reflexivity. Qed.

Definition blk_reg_of (t : atemp) : areg := match t with AR r => r | AS _ => TEMPORARY_TEMP end.
Definition lf_blk_code (t : atemp) (freed0 : bool) (bp : block_position) (m : load_mode) (klink : N) (lv : list acode) : list acode :=
  match t with
  | AR mr => rel_code m mr ++ link_load_code bp klink mr ++ lv
  | AS mp => ((if freed0 then [] else [STR TEMPORARY_TEMP SP (stack_offset SPILL_TEMP)]) ++ [LDR TEMPORARY_TEMP SP (stack_offset mp)]) ++
             (rel_code m TEMPORARY_TEMP ++ link_load_code bp klink TEMPORARY_TEMP ++ lv) ++
             (match bp with Last => [LDR TEMPORARY_TEMP SP (stack_offset SPILL_TEMP)] | Other => [] end)
  end.
Definition freed_after (t : atemp) (freed0 : bool) (bp : block_position) : bool :=
  match t with AR _ => freed0 | AS _ => match bp with Last => false | Other => true end end.
Definition untouched (l : atemp) : Prop := loc_ok l /\ l <> AR TEMP /\ l <> AR TEMP2 /\ l <> AR HEAP /\ l <> AS SPILL_TEMP.

Lemma tpos_untouched k : (k < MAXPOS)%N -> untouched (tpos k).
Proof.
  intros Hk. destruct (tpos_not_reserved k) as (U1 & _ & U3 & U4 & U5 & _).
  split; [now apply tpos_loc_ok|]. auto.
Qed.

Section LoadChain.
Variable im : image.

Ltac nxt HC k := eapply exec_next; [apply (HC k); reflexivity| |].

(* ---------- one block, the pointer in a register or in a spill slot ---------- *)
(* freed0 says whether X10 has been evacuated to slot SPILL_TEMP by an earlier block of this call of load_fields: only
   then may the code skip the evacuation; the logical value of X10 (`lgetL ... (AR TEMPORARY_TEMP)` = `saved`) is
   preserved by every block and is back in the register after the last one. *)
Lemma a64_lf_blk_ok pos bp next epr m lc lv lc' freed0 klink s sp p h F :
  let t := tpos (2 * N.of_nat (List.length epr)) in
  load_values (rev next) epr (blk_reg_of t) (3 - bp_n bp) m lc = Ok (lv, lc') ->
  next <> [] -> (N.of_nat (List.length next) <= 3 - bp_n bp)%N ->
  klink = (2 * N.of_nat (List.length epr + List.length next))%N ->
  (2 * N.of_nat (List.length epr) < MAXPOS)%N -> (bp = Other -> (klink < MAXPOS)%N) ->
  code_at im pos (lf_blk_code t freed0 bp m klink lv) -> labels_at im pos (lf_blk_code t freed0 bp m klink lv) -> frame_ok s sp ->
  (freed0 = true -> (26 <= 2 * N.of_nat (List.length epr))%N) ->
  lgetL s sp freed0 t = Some p -> is_blk p -> rget s HEAP = Some h ->
  lv_kids (xm m) (hword s) (rev next) p (3 - bp_n bp) ->
  (m = Share -> forall x, is_blk x -> min_int <= hword s x /\ hword s x + Z.of_nat (List.length next) <= max_int) ->
  let freed1 := freed_after t freed0 bp in
  exists s', exec_to im pos s (padd pos (List.length (lf_blk_code t freed0 bp m klink lv))) s' /\
    st_eqB (abs_heap F s') (blk_abs (xm m) (hword s) next p (3 - bp_n bp) (abs_heap F s)) /\
    (bp = Other -> lgetL s' sp freed1 (tpos klink) = Some (hword s (p + 48))) /\
    (forall i b, nth_error next i = Some b ->
       lgetL s' sp freed1 (tpos (2 * N.of_nat (List.length epr + i) + 1)) =
         Some (hword s (p + field_offset Snd (3 - bp_n bp - N.of_nat (List.length next) + N.of_nat i))) /\
       (bchi b <> Ext -> lgetL s' sp freed1 (tpos (2 * N.of_nat (List.length epr + i))) =
         Some (hword s (p + field_offset Fst (3 - bp_n bp - N.of_nat (List.length next) + N.of_nat i))))) /\
    (forall l, untouched l -> (forall k, (2 * N.of_nat (List.length epr) <= k <= klink)%N -> l <> tpos k) ->
       lgetL s' sp freed1 l = lgetL s sp freed0 l) /\
    nonblk_same s s' /\
    (m = Share -> forall x, is_blk x -> hword s x <= hword s' x <= hword s x + Z.of_nat (List.length next)) /\
    (exists h', rget s' HEAP = Some h') /\
    out s' = out s /\ frame_ok s' sp /\ stack_frame s s' sp.
Proof.
  intros t Hlv Hne Hlen Hkl Kt Hklm HC HL FR Hfr P Hb Hh Kids Room freed1.
  set (Eb := List.length epr) in *.
  assert (Hn1 : (1 <= List.length next)%nat) by (destruct next; [contradiction|cbn; lia]).
  destruct (tpos_not_reserved (2 * N.of_nat Eb)) as (NH & _ & NT & NT2 & _).
  pose proof (tpos_loc_ok _ Kt) as LKt.
  unfold freed1. clear freed1. subst t. destruct (tpos (2 * N.of_nat Eb)) as [mr|mp] eqn:Et; cbn [blk_reg_of lf_blk_code freed_after loc_ok] in *.
  - (* the pointer in a register *)
    assert (Hf0 : freed0 = false).
    { destruct freed0; [|reflexivity]. specialize (Hfr eq_refl). apply tpos_reg in Et as [_ Hlt]. lia. }
    subst freed0. rewrite lgetL_false in P. cbn [lget] in P.
    destruct (a64_load_block_ok im pos bp next epr m lc lv lc' mr klink s sp p h F Hlv Hne Hlen Hkl Hklm HC HL FR LKt P Hb Hh)
      as (s2 & ST & EQ & Vl & V & Oth & NB & Hd & HH & O & FR2 & SF2); auto; try congruence.
    { intros k Hk. rewrite <- Et. apply tpos_neq. fold Eb in Hk. lia. }
    exists s2. split; [exact ST|]. split; [exact EQ|].
    split; [intros Ho; rewrite lgetL_false; auto|]. split; [intros i b Hi; rewrite !lgetL_false; auto|].
    split; [|auto 10]. intros l (L1 & L2 & L3 & L4 & L5) Hr. rewrite !lgetL_false. now apply Oth.
  - (* the pointer in a spill slot *)
    destruct (tpos_slot _ _ Et) as (Emp & HE).
    rewrite lgetL_other in P by discriminate. cbn [lget] in P.
    assert (SPk : sp_ok sp) by apply FR.
    assert (Q0 : slot_ok SPILL_TEMP) by (unfold slot_ok; reflexivity).
    assert (Nmp : SPILL_TEMP <> mp) by (change SPILL_TEMP with 0%N; lia).
    apply code_at_app2 in HC as [HC1 HC2]. apply labels_at_app2 in HL as [_ HL2].
    apply code_at_app2 in HC2 as [HC2 HC3]. apply labels_at_app2 in HL2 as [HL2 _].
    (* evacuate (once) and fetch the pointer.
       SEEDED DEFECT (register_freed carried over from the Release call of load_fields into the Share call of
       load_register): the Share branch would start with freed0 = true although X10 still holds its variable and
       slot SPILL_TEMP holds garbage; then `saved s sp true` = the stale slot, not the value of X10, so the
       hypothesis `lgetL s sp freed0 ... ` of the walk would speak about the wrong value and the conclusion
       `lgetL s' sp false l = lgetL s sp freed0 l` for l = AR X10 would give the stale slot, not X10's old value. *)
    assert (SA : exists sA, exec_to im pos s (padd pos (List.length ((if freed0 then [] else [STR TEMPORARY_TEMP SP (stack_offset SPILL_TEMP)]) ++ [LDR TEMPORARY_TEMP SP (stack_offset mp)]))) sA /\
       rget sA TEMPORARY_TEMP = Some p /\ sget sA sp SPILL_TEMP = saved s sp freed0 /\
       (forall l, l <> AR TEMPORARY_TEMP -> l <> AS SPILL_TEMP -> loc_ok l -> lget sA sp l = lget s sp l) /\
       (forall a, hword sA a = hword s a) /\ out sA = out s /\ frame_ok sA sp /\ stack_frame s sA sp).
    { destruct freed0; cbn [app List.length saved] in *.
      - exists (rset s TEMPORARY_TEMP (Some p)). split; [|split; [|split; [|split; [|split; [|split; [|split]]]]]].
        + nxt HC1 0%nat. { rewrite (step_LDR_slot im s sp FR) by exact LKt. rewrite P. reflexivity. } apply exec_refl.
        + apply rget_rset_same. exact I.
        + apply sget_rset.
        + intros [r|q] N1 N2 L; cbn [lget]; [apply rget_rset_other; congruence|apply sget_rset].
        + intros a. apply hword_rset.
        + apply out_rset.
        + apply frame_ok_rset; [discriminate|exact FR].
        + apply stack_frame_eq, stack_rset.
      - set (s1 := sset s sp SPILL_TEMP (rget s TEMPORARY_TEMP)).
        assert (F1 : frame_ok s1 sp) by (apply frame_ok_sset; exact FR).
        exists (rset s1 TEMPORARY_TEMP (Some p)). split; [|split; [|split; [|split; [|split; [|split; [|split]]]]]].
        + nxt HC1 0%nat. { apply (step_STR_slot im s sp FR). exact Q0. }
          nxt HC1 1%nat. { rewrite (step_LDR_slot im s1 sp F1) by exact LKt. unfold s1 at 2. rewrite sget_sset_other by auto. rewrite P. reflexivity. }
          apply exec_refl.
        + apply rget_rset_same. exact I.
        + rewrite sget_rset. unfold s1. apply sget_sset_same.
        + intros [r|q] N1 N2 L; cbn [lget loc_ok] in *.
          * rewrite rget_rset_other by congruence. apply rget_sset.
          * rewrite sget_rset. unfold s1. apply sget_sset_other; auto. congruence.
        + intros a. rewrite hword_rset. reflexivity.
        + rewrite out_rset. reflexivity.
        + apply frame_ok_rset; [discriminate|exact F1].
        + apply (stack_frame_trans s s1); [apply stack_frame_sset; exact Q0|apply stack_frame_eq, stack_rset]. }
    destruct SA as (sA & STA & RA & SvA & OthA & WA & OA & FRA & SFA).
    destruct (a64_load_block_ok im _ bp next epr m lc lv lc' TEMPORARY_TEMP klink sA sp p h F Hlv Hne Hlen Hkl Hklm HC2 HL2 FRA I RA Hb)
      as (s2 & ST & EQ & Vl & V & Oth & NB & Hd & HH & O & FR2 & SF2); auto; try discriminate.
    { rewrite <- Hh. change (lget sA sp (AR HEAP) = lget s sp (AR HEAP)). apply OthA; [discriminate|discriminate|exact I]. }
    { intros k Hk. apply not_eq_sym, tpos_not_tt. lia. }
    { eapply X86MemLoad.lv_kids_congr; [|rewrite rev_length; exact Hlen|exact Kids]. intros j Hj. now rewrite WA. }
    { intros Hm x Hx. rewrite WA. now apply Room. }
    assert (S20 : sget s2 sp SPILL_TEMP = saved s sp freed0).
    { change (lget s2 sp (AS SPILL_TEMP) = saved s sp freed0). rewrite Oth; [exact SvA|exact Q0|discriminate|discriminate|discriminate|].
      intros k _. apply not_eq_sym, tpos_not_reserved. }
    assert (EQA : st_eqB (abs_heap F sA) (abs_heap F s)).
    { apply abs_heap_eqB; [exact WA| |].
      - change (lget sA sp (AR HEAP) = lget s sp (AR HEAP)). apply OthA; [discriminate|discriminate|exact I].
      - change (lget sA sp (AR FREE) = lget s sp (AR FREE)). apply OthA; [discriminate|discriminate|exact I]. }
    assert (EQ' : st_eqB (abs_heap F s2) (blk_abs (xm m) (hword s) next p (3 - bp_n bp) (abs_heap F s))).
    { eapply st_eqB_trans; [exact EQ|]. unfold X86MemLoadChain.blk_abs. apply X86MemLoad.lv_abs_congr.
      - destruct m; cbn [xm]; [apply X86MemFrame.release_st_eqB; auto|exact EQA].
      - intros j Hj. apply WA.
      - rewrite rev_length. exact Hlen.
      - eapply X86MemLoad.lv_kids_congr; [|rewrite rev_length; exact Hlen|exact Kids]. intros j Hj. now rewrite WA. }
    assert (NBs : nonblk_same s s2) by (intros a Ha; rewrite NB by exact Ha; apply WA).
    assert (Hds : m = Share -> forall x, is_blk x -> hword s x <= hword s2 x <= hword s x + Z.of_nat (List.length next)).
    { intros Hm x Hx. specialize (Hd Hm x Hx). now rewrite WA in Hd. }
    assert (Hspill : forall k, (2 * N.of_nat Eb <= k)%N -> tpos k <> AR TEMPORARY_TEMP) by (intros k Hk; apply tpos_not_tt; lia).
    (* the end of the block: restore after the last one *)
    assert (SE : exists s3, exec_to im (padd (padd pos (List.length ((if freed0 then [] else [STR TEMPORARY_TEMP SP (stack_offset SPILL_TEMP)]) ++ [LDR TEMPORARY_TEMP SP (stack_offset mp)])))
                                       (List.length (rel_code m TEMPORARY_TEMP ++ link_load_code bp klink TEMPORARY_TEMP ++ lv))) s2
                             (padd (padd (padd pos (List.length ((if freed0 then [] else [STR TEMPORARY_TEMP SP (stack_offset SPILL_TEMP)]) ++ [LDR TEMPORARY_TEMP SP (stack_offset mp)])))
                                       (List.length (rel_code m TEMPORARY_TEMP ++ link_load_code bp klink TEMPORARY_TEMP ++ lv)))
                                   (List.length (match bp with Last => [LDR TEMPORARY_TEMP SP (stack_offset SPILL_TEMP)] | Other => [] end))) s3 /\
       saved s3 sp (match bp with Last => false | Other => true end) = saved s sp freed0 /\
       (forall l, l <> AR TEMPORARY_TEMP -> lget s3 sp l = lget s2 sp l) /\
       (forall a, hword s3 a = hword s2 a) /\ rget s3 HEAP = rget s2 HEAP /\ rget s3 FREE = rget s2 FREE /\ out s3 = out s2 /\ frame_ok s3 sp /\
       stack_frame s2 s3 sp).
    { destruct bp; cbn [List.length padd saved].
      - exists (rset s2 TEMPORARY_TEMP (sget s2 sp SPILL_TEMP)). split; [|split; [|split; [|split; [|split; [|split; [|split; [|split]]]]]]].
        + eapply exec_next; [apply (HC3 0%nat); reflexivity| |apply exec_refl]. apply (step_LDR_slot im s2 sp FR2). exact Q0.
        + rewrite rget_rset_same by exact I. exact S20.
        + intros [r|q] N1; cbn [lget]; [apply rget_rset_other; congruence|apply sget_rset].
        + intros a. apply hword_rset.
        + apply rget_rset_other. discriminate.
        + apply rget_rset_other. discriminate.
        + apply out_rset.
        + apply frame_ok_rset; [discriminate|exact FR2].
        + apply stack_frame_eq, stack_rset.
      - exists s2. split; [apply exec_refl|]. split; [exact S20|]. split; [intros; reflexivity|]. split; [intros; reflexivity|].
        split; [reflexivity|]. split; [reflexivity|]. split; [reflexivity|]. split; [exact FR2|apply stack_frame_refl]. }
    destruct SE as (s3 & ST3 & Sv3 & Oth3 & W3 & H3 & F3 & O3 & FR3 & SF3).
    exists s3. split; [|split; [|split; [|split; [|split; [|split; [|split; [|split; [|split; [|split]]]]]]]]].
    + eapply exec_app_len; [exact STA|]. eapply exec_app_len; [exact ST|exact ST3].
    + eapply st_eqB_trans; [|exact EQ']. apply abs_heap_eqB; auto.
    + intros Ho. rewrite lgetL_other by (apply Hspill; lia). rewrite Oth3 by (apply Hspill; lia). rewrite <- WA. exact (Vl Ho).
    + intros i b Hi. destruct (V i b Hi) as [A B]. rewrite !WA in A, B.
      rewrite !lgetL_other by (apply Hspill; fold Eb; lia). rewrite !Oth3 by (apply Hspill; fold Eb; lia). auto.
    + intros l (L1 & L2 & L3 & L4 & L5) Hr. destruct (atemp_eqb_refl' l (AR TEMPORARY_TEMP)) as [->|Hl].
      * rewrite !lgetL_tt. exact Sv3.
      * rewrite !lgetL_other by exact Hl. rewrite Oth3 by exact Hl. rewrite Oth by auto. apply OthA; auto.
    + intros a Ha. rewrite W3. now apply NBs.
    + intros Hm x Hx. rewrite W3. now apply Hds.
    + destruct HH as (h' & HH). exists h'. now rewrite H3.
    + congruence.
    + exact FR3.
    + apply (stack_frame_trans s s2); [exact (stack_frame_trans _ _ _ _ SFA SF2)|exact SF3].
Qed.

(* ---------- the shape of one level of load_fields ---------- *)
Lemma load_values_pos bsrev : forall epr R ff m lc lv lc',
  load_values bsrev epr R ff m lc = Ok (lv, lc') -> bsrev <> [] ->
  (2 * N.of_nat (List.length epr + List.length bsrev) < MAXPOS + 1)%N.
Proof.
  destruct bsrev as [|b rest]; intros epr R ff m lc lv lc' H Hne; [contradiction|].
  cbn [load_values] in H.
  destruct (load_value b (epr ++ rev rest) R (ff - 1) m lc) as [[c1 lc1]|] eqn:E1; [|discriminate].
  destruct (load_value_shape _ _ _ _ _ _ _ _ E1) as (K & _). rewrite app_length, rev_length in K. cbn [List.length]. lia.
Qed.

Lemma load_fields_unfold fuel to_load existing bp m freed lc cs fr lc' :
  to_load <> [] -> load_fields (S fuel) to_load existing bp m freed lc = Ok (cs, fr, lc') ->
  let rl := rest_len (List.length to_load) (3 - bp_n bp) in
  let epr := existing ++ firstn rl to_load in
  let t := tpos (2 * N.of_nat (List.length epr)) in
  let klink := (2 * N.of_nat (List.length (existing ++ to_load)))%N in
  exists c0 freed0 lc0 lv,
    load_fields fuel (firstn rl to_load) existing Other m freed lc = Ok (c0, freed0, lc0) /\
    (2 * N.of_nat (List.length epr) < MAXPOS)%N /\
    (bp = Other -> (klink < MAXPOS)%N) /\
    load_values (rev (skipn rl to_load)) epr (blk_reg_of t) (3 - bp_n bp) m lc0 = Ok (lv, lc') /\
    cs = c0 ++ lf_blk_code t freed0 bp m klink lv /\
    fr = match t with AR _ => freed0 | AS _ => true end.
Proof.
  intros Hne H rl epr t klink. cbn [load_fields] in H. destruct to_load as [|x r]; [contradiction|].
  change (FIELDS_PER_BLOCK - bp_n bp)%N with (3 - bp_n bp)%N in H.
  fold (rest_len (List.length (x :: r)) (3 - bp_n bp)) in H. fold rl in H. fold epr in H.
  destruct (load_fields fuel (firstn rl (x :: r)) existing Other m freed lc) as [[[c0 freed0] lc0]|] eqn:E0; [|discriminate].
  cbn [rbind] in H.
  destruct (a_fresh Fst epr) as [t'|] eqn:Et; [|discriminate]. cbn [rbind] in H.
  apply a_fresh_tpos in Et as [-> Hk]. cbn [tnum_n] in *. rewrite N.add_0_r in *. fold t in H.
  exists c0, freed0, lc0.
  assert (Hlink : forall R c2, (match bp with Other => load_field Fst (existing ++ x :: r) R (FIELDS_PER_BLOCK - 1) | Last => Ok [] end) = Ok c2 ->
            c2 = link_load_code bp klink R /\ (bp = Other -> (klink < MAXPOS)%N)).
  { intros R c2 Hc. destruct bp; cbn [link_load_code].
    - inversion Hc. split; [reflexivity|discriminate].
    - change (FIELDS_PER_BLOCK - 1)%N with 2%N in Hc. apply load_field_shape in Hc as [K ->]. cbn [tnum_n] in *. rewrite N.add_0_r in *.
      split; [reflexivity|intros _; exact K]. }
  destruct t as [mr|mp] eqn:Etp; cbn [blk_reg_of lf_blk_code].
  - destruct (match bp with Other => load_field Fst (existing ++ x :: r) mr (FIELDS_PER_BLOCK - 1) | Last => Ok [] end) as [c2|] eqn:E2; [|discriminate].
    cbn [rbind] in H. destruct (Hlink _ _ E2) as [-> HK].
    destruct (load_values (rev (skipn rl (x :: r))) epr mr (3 - bp_n bp) m lc0) as [[c3 lc3]|] eqn:E3; [|discriminate]. cbn [rbind] in H.
    inversion H; subst. exists c3. split; [reflexivity|]. split; [exact Hk|]. split; [exact HK|]. split; [reflexivity|]. split; [|reflexivity].
    destruct m; reflexivity.
  - destruct (match bp with Other => load_field Fst (existing ++ x :: r) TEMPORARY_TEMP (FIELDS_PER_BLOCK - 1) | Last => Ok [] end) as [c2|] eqn:E2; [|discriminate].
    cbn [rbind] in H. destruct (Hlink _ _ E2) as [-> HK].
    destruct (load_values (rev (skipn rl (x :: r))) epr TEMPORARY_TEMP (3 - bp_n bp) m lc0) as [[c3 lc3]|] eqn:E3; [|discriminate]. cbn [rbind] in H.
    inversion H; subst. exists c3. split; [reflexivity|]. split; [exact Hk|]. split; [exact HK|]. split; [reflexivity|]. split; [|reflexivity].
    f_equal. rewrite <- !app_assoc. destruct freed0; destruct m; destruct bp; reflexivity.
Qed.

Definition frL (bp : block_position) (fr : bool) : bool := match bp with Last => false | Other => fr end.

(* ---------- the recursion of load_fields ---------- *)
(* `freed` is the register_freed flag of memory.rs on entry: it must be true only if X10 has really been evacuated
   (then some block pointer of this call sat in a spill slot, i.e. position >= 26).  The contents of every location
   are read through `lgetL`: X10's logical value is `saved`.
   SEEDED DEFECT (flag not reset between the two calls of load_fields in load_register): this lemma could then only be
   applied to the Share call with freed = true, whose hypotheses `26 <= 2 * |existing|` and
   `lgetL s sp true ...` (slot SPILL_TEMP holds X10's value) are false in the state after the header test - X10 is
   live and slot 0 is stale; `a64_load_walk_full` below applies it with freed = false, which is what the real
   code does. *)
Lemma a64_load_fields_ok : forall fuel to_load existing bp m freed lc cs fr lc' pos s sp p h F,
  load_fields fuel to_load existing bp m freed lc = Ok (cs, fr, lc') ->
  (List.length to_load < fuel)%nat -> (bp = Last -> to_load <> []) ->
  code_at im pos cs -> labels_at im pos cs -> frame_ok s sp ->
  (freed = true -> (26 <= 2 * N.of_nat (List.length existing))%N) ->
  lgetL s sp freed (tpos (2 * N.of_nat (List.length existing))) = Some p -> rget s HEAP = Some h ->
  lf_ok fuel (xm m) (hword s) to_load (xbp bp) p ->
  (m = Share -> forall x, is_blk x -> min_int <= hword s x /\ hword s x + Z.of_nat (List.length to_load) <= max_int) ->
  exists s', exec_to im pos s (padd pos (List.length cs)) s' /\
    st_eqB (abs_heap F s') (lf_abs fuel (xm m) (hword s) to_load (xbp bp) p (abs_heap F s)) /\
    (frL bp fr = true -> (26 <= 2 * N.of_nat (List.length existing + List.length to_load))%N) /\
    (bp = Other -> lgetL s' sp (frL bp fr) (tpos (2 * N.of_nat (List.length existing + List.length to_load))) =
                   Some (lf_ptr fuel (hword s) to_load (xbp bp) p)) /\
    (forall i b, nth_error to_load i = Some b ->
       let A := lf_addrs fuel (hword s) to_load (xbp bp) p in
       let a := nth (List.length A - List.length to_load + i) A 0 in
       lgetL s' sp (frL bp fr) (tpos (2 * N.of_nat (List.length existing + i) + 1)) = Some (hword s (a + 8)) /\
       (bchi b <> Ext -> lgetL s' sp (frL bp fr) (tpos (2 * N.of_nat (List.length existing + i))) = Some (hword s a))) /\
    (forall l, untouched l ->
       (forall k, (2 * N.of_nat (List.length existing) <= k <= 2 * N.of_nat (List.length existing + List.length to_load))%N -> l <> tpos k) ->
       lgetL s' sp (frL bp fr) l = lgetL s sp freed l) /\
    nonblk_same s s' /\
    (m = Share -> forall x, is_blk x -> hword s x <= hword s' x <= hword s x + Z.of_nat (List.length to_load)) /\
    (exists h', rget s' HEAP = Some h') /\ out s' = out s /\ frame_ok s' sp /\ stack_frame s s' sp.
Proof.
  induction fuel as [|fuel IH]; intros to_load existing bp m freed lc cs fr lc' pos s sp p h F Hlf Hfuel HLast HC HL FR Hfr P Hh OK Room; [lia|].
  set (E := List.length existing) in *.
  destruct to_load as [|x r].
  - (* nothing to load *)
    destruct bp; [specialize (HLast eq_refl); contradiction|].
    cbn [load_fields] in Hlf. inversion Hlf; subst cs fr lc'. cbn [frL List.length padd X86MemLoadChain.lf_abs X86MemLoadChain.lf_ptr xbp]. rewrite Nat.add_0_r.
    exists s. split; [apply exec_refl|]. split; [apply st_eqB_refl|]. split; [exact Hfr|]. split; [intros _; exact P|].
    split; [intros i b Hi; destruct i; discriminate|]. split; [auto|]. split; [apply nonblk_same_refl|]. split; [intros; lia|]. split; [eauto|]. split; [reflexivity|]. split; [exact FR|apply stack_frame_refl].
  - set (to_load := x :: r) in *. set (n := List.length to_load) in *.
    assert (Hne : to_load <> []) by discriminate.
    destruct (load_fields_unfold fuel to_load existing bp m freed lc cs fr lc' Hne Hlf) as (c0 & freed0 & lc0 & lv & Hlf0 & Kt & Hklm & Hlv & -> & Efr).
    destruct (lf_unfold fuel m (hword s) to_load bp p Hne) as (Uptr & Uabs & Uok & Uaddrs).
    fold n in Hlf0, Kt, Hlv, Efr, HC, HL, Hklm, Uptr, Uabs, Uok, Uaddrs |- *.
    set (cap := (3 - bp_n bp)%N) in *. set (rl := rest_len n cap) in *.
    set (rest := firstn rl to_load) in *. set (next := skipn rl to_load) in *.
    assert (Hcap : (cap = 3 \/ cap = 2)%N) by (unfold cap; destruct bp; cbn; auto).
    assert (Hrl : rl = (n - N.to_nat cap)%nat) by apply X86MemStoreChain.rest_len_val.
    assert (Hn : (1 <= n)%nat) by (unfold n, to_load; cbn; lia).
    assert (Lrest : List.length rest = rl) by (unfold rest; rewrite firstn_length; fold n; lia).
    assert (Lnext : List.length next = (n - rl)%nat) by (unfold next; rewrite skipn_length; reflexivity).
    assert (Lepr : List.length (existing ++ rest) = (E + rl)%nat) by (rewrite app_length, Lrest; reflexivity).
    assert (Lall : List.length (existing ++ to_load) = (E + n)%nat) by (rewrite app_length; reflexivity).
    assert (Hsplit : to_load = rest ++ next) by (unfold rest, next; now rewrite firstn_skipn).
    assert (Hnext : next <> []) by (intros Hx; rewrite Hx in Lnext; cbn [List.length] in Lnext; lia).
    rewrite Lepr, Lall in *.
    destruct (Uok OK) as (OK0 & Hbq & Kids). clear Uok.
    rewrite Uabs, Uptr, Uaddrs. clear Uabs Uptr Uaddrs.
    set (q := lf_ptr fuel (hword s) rest (xbp Other) p) in *.
    apply code_at_app2 in HC as [HC0 HC1]. apply labels_at_app2 in HL as [HL0 HL1].
    (* the blocks before *)
    destruct (IH rest existing Other m freed lc c0 freed0 lc0 pos s sp p h F Hlf0 ltac:(rewrite Lrest; lia) ltac:(discriminate) HC0 HL0 FR Hfr P Hh OK0)
      as (s1 & ST1 & EQ1 & Fr1 & Lk1 & V1 & Oth1 & NB1 & Hd1 & (h1 & H1) & O1 & FR1 & SF1).
    { intros Hm x' Hx'. destruct (Room Hm x' Hx'). rewrite Lrest. fold n in H0. lia. }
    cbn [frL] in Fr1, Lk1, V1, Oth1. rewrite Lrest in *. fold E q in Fr1, Lk1, V1, Oth1.
    specialize (Lk1 eq_refl).
    assert (Hfld1 : forall t j, (j < 3)%N -> hword s1 (q + field_offset t j) = hword s (q + field_offset t j)).
    { intros t j Hj. apply NB1. now apply field_not_blk. }
    (* this block *)
    assert (B3 : (N.of_nat (n - rl) <= cap)%N) by lia.
    assert (B4 : (2 * N.of_nat (E + n))%N = (2 * N.of_nat (E + rl + (n - rl)))%N) by (f_equal; f_equal; lia).
    assert (B14 : lv_kids (xm m) (hword s1) (rev next) q cap).
    { eapply X86MemLoad.lv_kids_congr; [|rewrite rev_length, Lnext; lia|exact Kids]. intros j Hj. symmetry. apply Hfld1. lia. }
    assert (B15 : m = Share -> forall x, is_blk x -> min_int <= hword s1 x /\ hword s1 x + Z.of_nat (n - rl) <= max_int).
    { intros Hm x' Hx'. destruct (Room Hm x' Hx') as [R1 R2]. destruct (Hd1 Hm x' Hx') as [D1 D2]. fold n in R2. lia. }
    pose proof (a64_lf_blk_ok (padd pos (List.length c0)) bp next (existing ++ rest) m lc0 lv lc' freed0 (2 * N.of_nat (E + n)) s1 sp q h1 F) as BL.
    cbv zeta in BL. rewrite Lepr, Lnext in BL. fold cap in BL.
    destruct (BL Hlv Hnext B3 B4 Kt Hklm HC1 HL1 FR1 Fr1 Lk1 Hbq H1 B14 B15) as (s2 & ST2 & EQ2 & Lk2 & V2 & Oth2 & NB2 & Hd2 & HH2 & O2 & FR2 & SF2).
    clear BL.
    assert (Hfa : freed_after (tpos (2 * N.of_nat (E + rl))) freed0 bp = frL bp fr).
    { rewrite Efr. destruct (tpos (2 * N.of_nat (E + rl))) as [mr|mp] eqn:Et; cbn [freed_after frL]; destruct bp; auto.
      destruct freed0; [|reflexivity]. specialize (Fr1 eq_refl). apply tpos_reg in Et as [_ Hlt]. lia. }
    rewrite Hfa in *.
    exists s2. split; [|split; [|split; [|split; [|split; [|split; [|split; [|split; [|split; [|split; [|split]]]]]]]]]].
    + eapply exec_app_len; eassumption.
    + eapply st_eqB_trans; [exact EQ2|].
      apply X86MemLoadChain.blk_abs_congr; [exact EQ1|intros j Hj; apply Hfld1; lia|exact Hbq|rewrite Lnext; lia|exact B14].
    + intros Hf. destruct bp; cbn [frL] in Hf; [discriminate|]. rewrite Efr in Hf.
      destruct (tpos (2 * N.of_nat (E + rl))) as [mr|mp] eqn:Et.
      * specialize (Fr1 Hf). lia.
      * apply tpos_slot in Et as [_ Ht]. lia.
    + intros Ho. rewrite (Lk2 Ho). f_equal. apply NB1. apply X86MemFrame.not_blk_off; [exact Hbq|lia].
    + intros i b Hi. cbv zeta. set (A := lf_addrs fuel (hword s) rest (xbp Other) p ++ blk_addrs q cap).
      set (a := nth (List.length A - n + i) A 0).
      assert (LA : (rl <= List.length (lf_addrs fuel (hword s) rest (xbp Other) p))%nat).
      { rewrite <- Lrest at 1. apply X86MemLoadChain.lf_addrs_length. rewrite Lrest. lia. }
      assert (LB : List.length (blk_addrs q cap) = N.to_nat cap) by (now apply X86MemLoadChain.blk_addrs_length).
      destruct (Nat.lt_ge_cases i rl) as [Hlt|Hge].
      * (* a variable of an earlier block *)
        assert (Hi' : nth_error rest i = Some b).
        { rewrite Hsplit in Hi. rewrite nth_error_app1 in Hi by (rewrite Lrest; exact Hlt). exact Hi. }
        destruct (V1 i b Hi') as [VS VF].
        assert (Ea : a = nth (List.length (lf_addrs fuel (hword s) rest (xbp Other) p) - rl + i) (lf_addrs fuel (hword s) rest (xbp Other) p) 0).
        { unfold a, A. rewrite app_length, LB. rewrite app_nth1 by lia. f_equal. lia. }
        rewrite Ea.
        assert (U : forall k, (k < 2 * N.of_nat (E + rl))%N -> untouched (tpos k) /\
                     (forall k', (2 * N.of_nat (E + rl) <= k' <= 2 * N.of_nat (E + n))%N -> tpos k <> tpos k')).
        { intros k Hk. split; [apply tpos_untouched; lia|]. intros k' Hk'. apply tpos_neq. lia. }
        split; [|intros Hx].
        -- destruct (U (2 * N.of_nat (E + i) + 1)%N ltac:(lia)) as [U1 U2]. rewrite (Oth2 _ U1 U2). exact VS.
        -- destruct (U (2 * N.of_nat (E + i))%N ltac:(lia)) as [U1 U2]. rewrite (Oth2 _ U1 U2). exact (VF Hx).
      * (* a variable of this block *)
        assert (Hi' : nth_error next (i - rl) = Some b).
        { rewrite Hsplit in Hi. rewrite nth_error_app2 in Hi by (rewrite Lrest; exact Hge). now rewrite Lrest in Hi. }
        assert (Hi'' : (i - rl < n - rl)%nat) by (rewrite <- Lnext; apply nth_error_Some; congruence).
        destruct (V2 _ b Hi') as [VS VF].
        replace (E + rl + (i - rl))%nat with (E + i)%nat in VS, VF by lia.
        set (j := (cap - N.of_nat (n - rl) + N.of_nat (i - rl))%N) in *.
        assert (Hj : (j < cap)%N) by (unfold j; lia).
        assert (Ea : a = q + field_offset Fst j).
        { unfold a, A. rewrite app_length, LB. rewrite app_nth2 by lia.
          pose proof (X86MemLoadChain.blk_addrs_nth q cap j Hcap Hj) as BN. fo. rewrite <- BN. f_equal. unfold j. lia. }
        rewrite Ea. replace (q + field_offset Fst j + 8) with (q + field_offset Snd j) by (rewrite !field_offset_val; cbn [tnum_n]; lia).
        rewrite <- !Hfld1 by lia. auto.
    + intros l U Hr. rewrite Oth2; [apply Oth1; [exact U|]|exact U|]; intros k Hk; apply Hr; lia.
    + eapply nonblk_same_trans; eassumption.
    + intros Hm x' Hx'. destruct (Hd1 Hm x' Hx'), (Hd2 Hm x' Hx'). fold n. lia.
    + exact HH2.
    + congruence.
    + exact FR2.
    + exact (stack_frame_trans _ _ _ _ SF1 SF2).
Qed.
End LoadChain.

Print Assumptions a64_load_fields_ok.

(* ====================================================================================== *)
(* a_load: the header test, then the Release walk or decrement + the Share walk *)
Section LoadFull.
Variable im : image.

Ltac nxt HC k := eapply exec_next; [apply (HC k); reflexivity| |].
Ltac padd_eq := rewrite <- ?padd_add; f_equal; repeat (rewrite app_length || cbn [List.length]); lia.

Lemma load_register_shape br to_load existing lc cs lc' :
  load_register br to_load existing lc = Ok (cs, lc') ->
  exists thn fr1 lc1 els fr2 lc2,
    load_fields (S (List.length to_load)) to_load existing Last Release false lc = Ok (thn, fr1, lc1) /\
    load_fields (S (List.length to_load)) to_load existing Last Share false lc1 = Ok (els, fr2, lc2) /\
    cs = fst (if_zero_then_else TEMP2 thn ([SUBI TEMP2 TEMP2 1; STR TEMP2 br REFERENCE_COUNT_OFFSET] ++ els) lc2).
Proof.
  unfold load_register. intros H.
  destruct (load_fields (S (List.length to_load)) to_load existing Last Release false lc) as [[[thn fr1] lc1]|] eqn:E1; [|discriminate].
  cbn [rbind] in H.
  destruct (load_fields (S (List.length to_load)) to_load existing Last Share false lc1) as [[[els fr2] lc2]|] eqn:E2; [|discriminate].
  cbn [rbind] in H.
  exists thn, fr1, lc1, els, fr2, lc2. split; [first [reflexivity|exact E1]|]. split; [first [reflexivity|exact E2]|].
  change cs with (fst (cs, lc')). congruence.
Qed.

(* what the walk needs of the object at p: every block of the chain is a block, the pointer slots that
   are shared are null or blocks, the counts are 64-bit values with room for one more reference per variable *)
Definition walk_pre (s : astate) (p : Z) (to_load : ctx) : Prop :=
  lf_ok (S (List.length to_load)) X86.Share (hword s) to_load XLast p /\
  (forall x, is_blk x -> min_int + 1 <= hword s x /\ hword s x + Z.of_nat (List.length to_load) <= max_int).

Theorem a64_load_walk_full pos to_load existing lc cs lc' s sp p h F :
  a_load to_load existing lc = Ok (cs, lc') -> to_load <> [] ->
  code_at im pos cs -> labels_at im pos cs -> frame_ok s sp ->
  lget s sp (tpos (2 * N.of_nat (List.length existing))) = Some p -> is_blk p -> rget s HEAP = Some h ->
  walk_pre s p to_load ->
  let fuel := S (List.length to_load) in
  exists s', exec_to im pos s (padd pos (List.length cs)) s' /\
    st_eqB (abs_heap F s')
      (if hword s p =? 0 then lf_abs fuel X86.Release (hword s) to_load XLast p (abs_heap F s)
       else lf_abs fuel X86.Share (hword s) to_load XLast p (Heap.dec p (abs_heap F s))) /\
    (forall i b, nth_error to_load i = Some b ->
       let A := lf_addrs fuel (hword s) to_load XLast p in
       let a := nth (List.length A - List.length to_load + i) A 0 in
       lget s' sp (tpos (2 * N.of_nat (List.length existing + i) + 1)) = Some (hword s (a + 8)) /\
       (bchi b <> Ext -> lget s' sp (tpos (2 * N.of_nat (List.length existing + i))) = Some (hword s a))) /\
    (forall k, (k < 2 * N.of_nat (List.length existing))%N -> lget s' sp (tpos k) = lget s sp (tpos k)) /\
    out s' = out s /\ frame_ok s' sp /\
    nonblk_same s s' /\ (exists h', rget s' HEAP = Some h') /\ rget s' FREE = rget s FREE /\ stack_frame s s' sp.
Proof.
  intros Hx Hne HC HL FR P Hb Hh (OK & Room) fuel.
  assert (Hk2E : (2 * N.of_nat (List.length existing) < MAXPOS)%N).
  { unfold a_load in Hx. destruct to_load; [contradiction|]. destruct (a_fresh Fst existing) as [t|] eqn:Et; [|discriminate].
    apply a_fresh_tpos in Et as [_ K]. cbn [tnum_n] in K. now rewrite N.add_0_r in K. }
  (* a common statement for the block register br that holds p, the header already in TEMP2 *)
  assert (Main : forall br cs1 pos1 s0 lcx, load_register br to_load existing lc = Ok (cs1, lcx) ->
     code_at im pos1 cs1 -> labels_at im pos1 cs1 -> frame_ok s0 sp -> gp br -> br <> TEMP2 ->
     rget s0 br = Some p -> rget s0 TEMP2 = Some (hword s p) ->
     lget s0 sp (tpos (2 * N.of_nat (List.length existing))) = Some p -> rget s0 HEAP = Some h ->
     (forall a, hword s0 a = hword s a) ->
     exists s', exec_to im pos1 s0 (padd pos1 (List.length cs1)) s' /\
       st_eqB (abs_heap F s')
         (if hword s p =? 0 then lf_abs fuel X86.Release (hword s) to_load XLast p (abs_heap F s0)
          else lf_abs fuel X86.Share (hword s) to_load XLast p (Heap.dec p (abs_heap F s0))) /\
       (forall i b, nth_error to_load i = Some b ->
          let A := lf_addrs fuel (hword s) to_load XLast p in
          let a := nth (List.length A - List.length to_load + i) A 0 in
          lget s' sp (tpos (2 * N.of_nat (List.length existing + i) + 1)) = Some (hword s (a + 8)) /\
          (bchi b <> Ext -> lget s' sp (tpos (2 * N.of_nat (List.length existing + i))) = Some (hword s a))) /\
       (forall k, (k < 2 * N.of_nat (List.length existing))%N -> lget s' sp (tpos k) = lget s0 sp (tpos k)) /\
       out s' = out s0 /\ frame_ok s' sp /\
       nonblk_same s s' /\ (exists h', rget s' HEAP = Some h') /\ rget s' FREE = rget s0 FREE /\ stack_frame s0 s' sp).
  { clear HC HL Hx pos cs. intros br cs pos s0 lcx Hlr HC HL FR0 Gb NB2 Rb RT2 P0 Hh0 W0.
    destruct (load_register_shape _ _ _ _ _ _ Hlr) as (thn & fr1 & lc1 & els & fr2 & lc2 & Ethn & Eels & ->).
    change REFERENCE_COUNT_OFFSET with 0 in *.
    set (eb := [SUBI TEMP2 TEMP2 1; STR TEMP2 br 0] ++ els) in *.
    destruct (ite_frame im pos TEMP2 thn eb lc2 HC HL) as (lt & le & _ & _ & CE & LE & _ & _ & _ & CT & LT & _ & _).
    pose proof (blk_heap_addr0 p Hb) as Ha.
    destruct (Room p Hb) as [Rlo Rhi].
    assert (I64 : min_int <= hword s p <= max_int) by lia.
    set (sa := set_flags s0 (Some (cmp_flags (hword s p) 0))).
    assert (FRa : frame_ok sa sp) by (now apply frame_ok_set_flags).
    assert (Wa : forall a, hword sa a = hword s a) by exact W0.
    assert (La : forall l, lget sa sp l = lget s0 sp l) by (intros l; apply lget_set_flags).
    assert (Pa : lgetL sa sp false (tpos (2 * N.of_nat (List.length existing))) = Some p) by (rewrite lgetL_false, La; exact P0).
    assert (Hha : rget sa HEAP = Some h) by (unfold sa; rewrite rget_set_flags; exact Hh0).
    assert (Frame : forall s1 s' : astate, (forall l, lget s1 sp l = lget s0 sp l) ->
              (forall l, untouched l ->
                (forall k, (2 * N.of_nat (List.length existing) <= k <= 2 * N.of_nat (List.length existing + List.length to_load))%N -> l <> tpos k) ->
                lgetL s' sp false l = lgetL s1 sp false l) ->
              (forall k, (k < 2 * N.of_nat (List.length existing))%N -> lget s' sp (tpos k) = lget s0 sp (tpos k)) /\
              rget s' FREE = rget s0 FREE).
    { intros s1 s' L1 Hfr. split.
      - intros k Hk. rewrite <- (lgetL_false s' sp), Hfr, lgetL_false; [apply L1|apply tpos_untouched; lia|intros k' Hk'; apply tpos_neq; lia].
      - change (lget s' sp (AR FREE) = lget s0 sp (AR FREE)).
        rewrite <- (lgetL_false s' sp), Hfr, lgetL_false; [apply L1| |intros k _; apply not_eq_sym, tpos_not_reserved].
        split; [exact I|]. split; [discriminate|]. split; [discriminate|]. split; discriminate. }
    destruct (Z.eqb_spec (hword s p) 0) as [H0|Hn0].
    - (* last reference: release the blocks, plain loads *)
      destruct (X86MemLoadChain.lf_ext X86.Release (hword s) (hword sa) (fun a _ => Wa a) fuel to_load XLast p (abs_heap F sa) (abs_heap F s0)
                  (X86MemLoadChain.lf_ok_release _ _ _ _ _ _ OK))
        as (X1 & X2 & X3 & X4); [apply abs_heap_eqB; [intros; reflexivity|apply rget_set_flags|apply rget_set_flags]|].
      destruct (a64_load_fields_ok im fuel to_load existing Last Release false lc thn fr1 lc1 _ sa sp p h F Ethn ltac:(unfold fuel; lia) (fun _ => Hne) CT LT FRa
                  ltac:(discriminate) Pa Hha X3 ltac:(discriminate))
        as (sb & STb & EQb & _ & _ & Vb & Ob & NBb & _ & HHb & Outb & FRb & SFb).
      cbn [frL xbp xm] in Vb, Ob, EQb.
      destruct (Frame sa sb La Ob) as [FrK FrF].
      exists sb. split; [|split; [|split; [|split; [exact FrK|split; [exact Outb|split; [exact FRb|split; [|split; [exact HHb|split; [exact FrF|]]]]]]]]].
      + eapply ite_zero; [exact HC|exact HL|exact RT2|rewrite H0; reflexivity|]. fold sa. rewrite padd_add' in STb. exact STb.
      + eapply st_eqB_trans; [exact EQb|exact X4].
      + intros i b Hi A a. destruct (Vb i b Hi) as [VS VF]. rewrite !lgetL_false in VS, VF. rewrite X2 in VS, VF.
        rewrite !Wa in VS, VF. auto.
      + intros a0 Hna. rewrite NBb by exact Hna. apply Wa.
      + apply (stack_frame_trans s0 sa); [apply stack_frame_eq; reflexivity|exact SFb].
    - (* other references remain: decrement the count, load and share.
         The Share walk starts with register_freed = false (Model/A64.v passes `false` to both calls of load_fields):
         X10 holds its variable here, slot SPILL_TEMP holds nothing.  SEEDED DEFECT: with the flag carried over from
         the Release call (true whenever a block pointer sits in a spill slot) `a64_load_fields_ok` would have to be
         applied with freed = true, and its hypothesis `lgetL sd sp true (tpos ...)`/its conclusion for l = AR X10
         (`lgetL s' sp false (AR X10) = saved sd sp true` = the stale slot 0) would not give
         `lget s' sp (tpos 6) = lget s0 sp (tpos 6)`: the conjunct `forall k < 2 * |existing|` fails for k = 6. *)
      assert (Wd : wrap (hword s p - 1) = hword s p - 1) by (apply wrap_in64; lia).
      set (s1 := rset sa TEMP2 (Some (hword s p - 1))).
      set (sd := hset s1 (p + 0) (hword s p - 1)).
      assert (R1b : rget s1 br = Some p) by (unfold s1, sa; rewrite rget_rset_other by congruence; rewrite rget_set_flags; exact Rb).
      assert (FRd : frame_ok sd sp) by (apply frame_ok_hset, frame_ok_rset; [discriminate|exact FRa]).
      assert (Wsd : forall a, hword sd a = if a =? p then hword s p - 1 else hword s a).
      { intros a. unfold sd. rewrite Z.add_0_r, hword_hset by (now apply is_blk_pos). unfold s1. rewrite hword_rset, Wa. reflexivity. }
      assert (Wnb : forall a, ~ is_blk a -> hword sd a = hword s a).
      { intros a Hna. rewrite Wsd. destruct (Z.eqb_spec a p) as [->|]; [contradiction|reflexivity]. }
      assert (Ld : forall l, l <> AR TEMP2 -> lget sd sp l = lget s0 sp l).
      { intros l Hl. unfold sd. rewrite lget_hset. unfold s1. rewrite <- La.
        destruct l as [r|q]; cbn [lget]; [apply rget_rset_other; congruence|apply sget_rset]. }
      assert (EQd : st_eqB (abs_heap F sd) (Heap.dec p (abs_heap F s0))).
      { assert (RHd : rget sd HEAP = rget s0 HEAP) by (change (lget sd sp (AR HEAP) = lget s0 sp (AR HEAP)); apply Ld; discriminate).
        assert (RFd : rget sd FREE = rget s0 FREE) by (change (lget sd sp (AR FREE) = lget s0 sp (AR FREE)); apply Ld; discriminate).
        unfold Heap.dec, abs_heap, reg_or0. cbn [Heap.m Heap.heap Heap.free Heap.frontier]. rewrite RHd, RFd.
        split; [reflexivity|]. split; [reflexivity|]. split; [reflexivity|].
        intros x Hx'. cbn [Heap.m]. change (Heap.hdr (abs_mem s0 p)) with (hword s0 p). rewrite W0.
        apply abs_mem_upd; auto. intros a. rewrite Wsd, W0. reflexivity. }
      destruct (X86MemLoadChain.lf_ext X86.Share (hword s) (hword sd) Wnb fuel to_load XLast p (abs_heap F sd) (Heap.dec p (abs_heap F s0)) OK EQd) as (X1 & X2 & X3 & X4).
      unfold eb in CE, LE. apply code_at_app2 in CE as [CE0 CE1]. apply labels_at_app2 in LE as [_ LE1].
      assert (Pd : lgetL sd sp false (tpos (2 * N.of_nat (List.length existing))) = Some p).
      { rewrite lgetL_false, Ld by apply tpos_not_temp2. exact P0. }
      assert (Hhd : rget sd HEAP = Some h).
      { change (lget sd sp (AR HEAP) = Some h). rewrite Ld by discriminate. exact Hh0. }
      destruct (a64_load_fields_ok im fuel to_load existing Last Share false lc1 els fr2 lc2 _ sd sp p h F Eels ltac:(unfold fuel; lia) (fun _ => Hne) CE1 LE1 FRd
                  ltac:(discriminate) Pd Hhd X3)
        as (se & STe & EQe & _ & _ & Ve & Oe & NBe & _ & HHe & Oute & FRe & SFe).
      { intros _ x Hx'. destruct (Room x Hx'). rewrite Wsd. destruct (x =? p); lia. }
      cbn [frL xbp xm] in Ve, Oe, EQe.
      assert (Oe' : forall l, untouched l ->
                (forall k, (2 * N.of_nat (List.length existing) <= k <= 2 * N.of_nat (List.length existing + List.length to_load))%N -> l <> tpos k) ->
                lgetL se sp false l = lgetL s0 sp false l).
      { intros l U Hr. rewrite (Oe l U Hr), !lgetL_false. apply Ld. apply U. }
      destruct (Frame s0 se (fun _ => eq_refl) Oe') as [FrK FrF].
      exists se. split; [|split; [|split; [|split; [exact FrK|split; [|split; [exact FRe|split; [|split; [exact HHe|split; [exact FrF|]]]]]]]]].
      + eapply ite_nz; [exact HC|exact HL|exact RT2|rewrite wrap_in64 by exact I64; now apply Z.eqb_neq|]. fold sa.
        nxt CE0 0%nat. { rewrite (step_SUBI_reg im sa TEMP2 TEMP2 (hword s p) 1) by (unfold sa; rewrite rget_set_flags; exact RT2). rewrite Wd. reflexivity. }
        fold s1.
        nxt CE0 1%nat. { apply (step_STR_h im s1 TEMP2 br 0 p (hword s p - 1) Gb R1b Ha). unfold s1. apply rget_rset_same. exact I. }
        fold sd.
        match type of STe with exec_to _ _ _ ?e _ => replace e with (padd pos (2 + List.length eb)) in STe by (unfold eb; padd_eq) end.
        exact STe.
      + eapply st_eqB_trans; [exact EQe|exact X4].
      + intros i b Hi A a. destruct (Ve i b Hi) as [VS VF]. rewrite !lgetL_false in VS, VF. rewrite X2 in VS, VF. fold A a in VS, VF.
        assert (Hi' : (i < List.length to_load)%nat) by (apply nth_error_Some; congruence).
        assert (LA : (List.length to_load <= List.length A)%nat) by (apply X86MemLoadChain.lf_addrs_length; unfold fuel; lia).
        assert (Hin : In a A) by (apply nth_In; lia).
        destruct (X86MemLoadChain.lf_addrs_in X86.Share (hword s) fuel to_load XLast p a OK Hin) as (q & j & Hq & Hj & Ea). fo.
        assert (N1 : ~ is_blk a) by (rewrite Ea; now apply field_not_blk).
        assert (N2 : ~ is_blk (a + 8)).
        { rewrite Ea. replace (q + field_offset Fst j + 8) with (q + field_offset Snd j) by (rewrite !field_offset_val; cbn [tnum_n]; lia).
          now apply field_not_blk. }
        rewrite (Wnb _ N1) in VF. rewrite (Wnb _ N2) in VS. auto.
      + rewrite Oute. reflexivity.
      + intros a0 Hna. rewrite NBe by exact Hna. now apply Wnb.
      + apply (stack_frame_trans s0 sd); [apply stack_frame_eq; unfold sd, s1, sa; cbn [stack set_heap]; now rewrite stack_rset|exact SFe]. }
  unfold a_load in Hx. destruct to_load as [|x0 r0]; [contradiction|].
  destruct (a_fresh Fst existing) as [t|] eqn:Et; [|discriminate]. cbn [rbind] in Hx.
  apply a_fresh_tpos in Et as [-> Hk]. cbn [tnum_n] in *. rewrite N.add_0_r in *.
  pose proof (blk_heap_addr0 p Hb) as Ha.
  pose proof (tpos_loc_ok _ Hk) as LK. destruct (tpos_not_reserved (2 * N.of_nat (List.length existing))) as (_ & _ & _ & NT2 & _).
  change REFERENCE_COUNT_OFFSET with 0 in *.
  destruct (tpos (2 * N.of_nat (List.length existing))) as [r|q] eqn:Etp; cbn [loc_ok lget] in *.
  - (* the object pointer in a register *)
    destruct (load_register r (x0 :: r0) existing lc) as [[c1 lc1]|] eqn:Elr; [|discriminate]. cbn [rbind fst snd] in Hx.
    inversion Hx; subst cs lc'. clear Hx.
    change (LDR TEMP2 r 0 :: c1) with ([LDR TEMP2 r 0] ++ c1) in *.
    apply code_at_app2 in HC as [HC1 HC2]. apply labels_at_app2 in HL as [_ HL2].
    set (s0 := rset s TEMP2 (Some (hword s (p + 0)))).
    assert (FR0 : frame_ok s0 sp) by (apply frame_ok_rset; [discriminate|exact FR]).
    assert (NrT : r <> TEMP2) by congruence.
    assert (L0 : forall l, l <> AR TEMP2 -> lget s0 sp l = lget s sp l).
    { intros [r'|q'] Hl; cbn [lget]; unfold s0; [apply rget_rset_other; congruence|apply sget_rset]. }
    destruct (Main r c1 _ s0 lc1 Elr HC2 HL2 FR0 LK NrT) as (s' & ST & EQ & V & O & Out & FR' & NB' & HH' & FF' & SF').
    { unfold s0. rewrite rget_rset_other by congruence. exact P. }
    { unfold s0. rewrite Z.add_0_r. apply rget_rset_same. exact I. }
    { unfold s0. rewrite rget_rset_other by congruence. exact P. }
    { unfold s0. rewrite rget_rset_other by discriminate. exact Hh. }
    { intros a. unfold s0. apply hword_rset. }
    assert (E0 : abs_heap F s0 = abs_heap F s).
    { apply abs_heap_ext; unfold s0; [apply heap_rset|apply rget_rset_other; discriminate|apply rget_rset_other; discriminate]. }
    rewrite E0 in EQ.
    exists s'. split; [|split; [exact EQ|split; [exact V|split; [|split; [|split; [exact FR'|split; [exact NB'|split; [exact HH'|split]]]]]]]].
    + eapply exec_app_len; [|exact ST].
      eapply exec_next; [apply (HC1 0%nat); reflexivity| |apply exec_refl].
      apply (step_LDR_h im s TEMP2 r 0 p LK P Ha).
    + intros k Hk'. rewrite O by exact Hk'. apply L0, tpos_not_temp2.
    + rewrite Out. unfold s0. apply out_rset.
    + rewrite FF'. unfold s0. apply rget_rset_other. discriminate.
    + apply (stack_frame_trans s s0); [apply stack_frame_eq; unfold s0; apply stack_rset|exact SF'].
  - (* in a spill slot: first moved to the scratch register *)
    destruct (load_register TEMP (x0 :: r0) existing lc) as [[c1 lc1]|] eqn:Elr; [|discriminate]. cbn [rbind fst snd] in Hx.
    inversion Hx; subst cs lc'. clear Hx.
    change (LDR TEMP SP (stack_offset q) :: LDR TEMP2 TEMP 0 :: c1) with ([LDR TEMP SP (stack_offset q); LDR TEMP2 TEMP 0] ++ c1) in *.
    apply code_at_app2 in HC as [HC1 HC2]. apply labels_at_app2 in HL as [_ HL2].
    set (sT := rset s TEMP (Some p)).
    assert (FRT : frame_ok sT sp) by (apply frame_ok_rset; [discriminate|exact FR]).
    assert (RTp : rget sT TEMP = Some p) by (unfold sT; apply rget_rset_same; exact I).
    set (s0 := rset sT TEMP2 (Some (hword sT (p + 0)))).
    assert (FR0 : frame_ok s0 sp) by (apply frame_ok_rset; [discriminate|exact FRT]).
    assert (L0 : forall l, l <> AR TEMP -> l <> AR TEMP2 -> lget s0 sp l = lget s sp l).
    { intros [r'|q'] Hl Hl2; cbn [lget]; unfold s0, sT; [rewrite !rget_rset_other by congruence; reflexivity|now rewrite !sget_rset]. }
    destruct (Main TEMP c1 _ s0 lc1 Elr HC2 HL2 FR0 I ltac:(discriminate)) as (s' & ST & EQ & V & O & Out & FR' & NB' & HH' & FF' & SF').
    { unfold s0. rewrite rget_rset_other by discriminate. exact RTp. }
    { unfold s0. rewrite Z.add_0_r. unfold sT at 2. rewrite hword_rset. apply rget_rset_same. exact I. }
    { change (lget s0 sp (AS q) = Some p). rewrite L0 by discriminate. exact P. }
    { change (lget s0 sp (AR HEAP) = Some h). rewrite L0 by discriminate. exact Hh. }
    { intros a. unfold s0, sT. now rewrite !hword_rset. }
    assert (E0 : abs_heap F s0 = abs_heap F s).
    { apply abs_heap_ext; [unfold s0, sT; now rewrite !heap_rset| |].
      - change (lget s0 sp (AR HEAP) = lget s sp (AR HEAP)). apply L0; discriminate.
      - change (lget s0 sp (AR FREE) = lget s sp (AR FREE)). apply L0; discriminate. }
    rewrite E0 in EQ.
    exists s'. split; [|split; [exact EQ|split; [exact V|split; [|split; [|split; [exact FR'|split; [exact NB'|split; [exact HH'|split]]]]]]]].
    + eapply exec_app_len; [|exact ST].
      nxt HC1 0%nat. { rewrite (step_LDR_slot im s sp FR) by exact LK. rewrite P. reflexivity. }
      fold sT.
      nxt HC1 1%nat. { apply (step_LDR_h im sT TEMP2 TEMP 0 p I RTp Ha). }
      apply exec_refl.
    + intros k Hk'. rewrite O by exact Hk'. apply L0; [apply tpos_not_temp|apply tpos_not_temp2].
    + rewrite Out. unfold s0, sT. now rewrite !out_rset.
    + rewrite FF'. change (lget s0 sp (AR FREE) = lget s sp (AR FREE)). apply L0; discriminate.
    + apply (stack_frame_trans s s0); [apply stack_frame_eq; unfold s0, sT; now rewrite !stack_rset|exact SF'].
Qed.

(* ---------- a_load of any number of variables = Heap.load_object, with its frame ---------- *)
Theorem a64_load_full pos to_load existing lc cs lc' s sp p h F :
  a_load to_load existing lc = Ok (cs, lc') -> to_load <> [] ->
  code_at im pos cs -> labels_at im pos cs -> frame_ok s sp ->
  lget s sp (tpos (2 * N.of_nat (List.length existing))) = Some p -> is_blk p -> rget s HEAP = Some h ->
  lf_share_ok (S (List.length to_load)) (hword s) to_load XLast p ->
  (forall x, is_blk x -> min_int + 1 <= hword s x /\ hword s x + Z.of_nat (List.length to_load) <= max_int) ->
  exists s', exec_to im pos s (padd pos (List.length cs)) s' /\
    st_eqB (abs_heap F s') (Heap.load_object (Heap.nlinks (List.length to_load)) p (abs_heap F s)) /\
    (forall i b, nth_error to_load i = Some b ->
       let A := lf_addrs (S (List.length to_load)) (hword s) to_load XLast p in
       let a := nth (List.length A - List.length to_load + i) A 0 in
       lget s' sp (tpos (2 * N.of_nat (List.length existing + i) + 1)) = Some (hword s (a + 8)) /\
       (bchi b <> AxSyn.Ext -> lget s' sp (tpos (2 * N.of_nat (List.length existing + i))) = Some (hword s a))) /\
    (forall k, (k < 2 * N.of_nat (List.length existing))%N -> lget s' sp (tpos k) = lget s sp (tpos k)) /\
    out s' = out s /\ frame_ok s' sp /\
    nonblk_same s s' /\ (exists h', rget s' HEAP = Some h') /\ rget s' FREE = rget s FREE /\ stack_frame s s' sp.
Proof.
  intros Hx Hne HC HL FR P Hb Hh OK Room.
  destruct (a64_load_walk_full pos to_load existing lc cs lc' s sp p h F Hx Hne HC HL FR P Hb Hh)
    as (s' & ST & EQ & V & O & Out & FR' & NB & HH & FF & SF).
  { split; [now apply X86MemLoadChain.lf_share_ok_lf_ok|exact Room]. }
  exists s'. split; [exact ST|]. split; [|auto 12].
  eapply st_eqB_trans; [exact EQ|]. unfold Heap.load_object.
  change (Heap.hdr (Heap.m (abs_heap F s) p)) with (hword s p).
  assert (PS : X86MemLoadChain.ps_w (hword s) (abs_heap F s)) by (intros q; reflexivity).
  destruct (hword s p =? 0).
  - rewrite X86MemLoadChain.lf_abs_release_load_object; [apply st_eqB_refl|exact Hne|exact PS].
  - unfold Heap.load_object_share. apply X86MemLoadChain.lf_abs_share_load_object; [exact Hne|apply X86MemLoadChain.ps_w_dec, PS|exact OK].
Qed.
End LoadFull.

Print Assumptions a64_load_full.

(* ====================================================================================== *)
(* the one-block case in the shape of `x86_load_one_block_ok` (C09_x86_load_one_block): a_load of 1..3 variables
   = `Heap.load p` *)
Definition load_pre (s : astate) (p : Z) (E : nat) (to_load : list binding) : Prop :=
  let n := List.length to_load in
  (forall j, (j < 3)%N -> hword s (p + field_offset Fst j) = 0 \/ is_blk (hword s (p + field_offset Fst j))) /\
  (forall j, (j < 3 - N.of_nat n)%N -> hword s (p + field_offset Fst j) = 0) /\
  (forall i b, nth_error to_load i = Some b -> bchi b = Ext -> hword s (p + field_offset Fst (3 - N.of_nat n + N.of_nat i)) = 0) /\
  (forall x, is_blk x -> min_int + 1 <= hword s x <= max_int - 3).

Lemma load_object_0 p a : Heap.load_object 0 p a = Heap.load p a.
Proof.
  unfold Heap.load_object, Heap.load, Heap.load_object_share, Heap.load_share. cbn [Heap.load_object_release Heap.share_walk].
  now rewrite HeapMore.dec_ps.
Qed.
Lemma lf_ptr_nil w p bp : forall fuel, lf_ptr fuel w [] bp p = p.
Proof. destruct fuel; reflexivity. Qed.

Theorem a64_load_one_block_ok im pos to_load existing lc cs lc' s sp p h F :
  a_load to_load existing lc = Ok (cs, lc') -> (1 <= List.length to_load <= 3)%nat ->
  code_at im pos cs -> labels_at im pos cs -> frame_ok s sp ->
  lget s sp (tpos (2 * N.of_nat (List.length existing))) = Some p -> is_blk p -> rget s HEAP = Some h ->
  load_pre s p (List.length existing) to_load ->
  exists s', exec_to im pos s (padd pos (List.length cs)) s' /\
    st_eqB (abs_heap F s') (Heap.load p (abs_heap F s)) /\
    (forall i b, nth_error to_load i = Some b ->
       lget s' sp (tpos (2 * N.of_nat (List.length existing + i) + 1)) =
         Some (hword s (p + field_offset Snd (3 - N.of_nat (List.length to_load) + N.of_nat i))) /\
       (bchi b <> AxSyn.Ext -> lget s' sp (tpos (2 * N.of_nat (List.length existing + i))) =
         Some (hword s (p + field_offset Fst (3 - N.of_nat (List.length to_load) + N.of_nat i))))) /\
    (forall k, (k < 2 * N.of_nat (List.length existing))%N -> lget s' sp (tpos k) = lget s sp (tpos k)) /\
    out s' = out s /\ frame_ok s' sp.
Proof.
  intros Hx Hlen HC HL FR P Hb Hh (Kall & Kz & Ke & Room).
  set (n := List.length to_load) in *.
  assert (Hne : to_load <> []) by (intros ->; cbn in Hlen; lia).
  assert (Hrl : rest_len n 3 = 0%nat) by (rewrite X86MemStoreChain.rest_len_val; lia).
  assert (Hnl : Heap.nlinks n = 0%nat) by (unfold Heap.nlinks; destruct (Nat.leb_spec n 3); [reflexivity|lia]).
  assert (EA : lf_addrs (S n) (hword s) to_load XLast p = [p + 16; p + 32; p + 48]).
  { destruct to_load as [|x r]; [contradiction|]. cbn [X86MemLoadChain.lf_addrs]. change (3 - X86.bp_n XLast)%N with 3%N.
    fold n. rewrite Hrl. cbn [firstn]. rewrite lf_ptr_nil, X86MemLoadFull.lf_addrs_nil. reflexivity. }
  destruct (a64_load_full im pos to_load existing lc cs lc' s sp p h F Hx Hne HC HL FR P Hb Hh)
    as (s' & ST & EQ & V & O & Out & FR' & _).
  - destruct to_load as [|x r]; [contradiction|]. cbn [X86MemLoadChain.lf_share_ok]. change (3 - X86.bp_n XLast)%N with 3%N.
    fold n. rewrite Hrl. cbn [firstn skipn]. rewrite lf_ptr_nil. fo. fold n.
    split; [apply X86MemLoadFull.lf_share_ok_nil|]. split; [exact Hb|]. split; [exact Kall|]. split; [exact Kz|exact Ke].
  - intros x Hx'. destruct (Room x Hx'). fold n. lia.
  - fold n in EQ, V. rewrite Hnl, load_object_0 in EQ. rewrite EA in V.
    exists s'. split; [exact ST|]. split; [exact EQ|]. split; [|auto].
    intros i b Hi. destruct (V i b Hi) as [VS VF]. cbn [List.length] in VS, VF.
    assert (Hi' : (i < n)%nat) by (apply nth_error_Some; congruence).
    set (j := (3 - N.of_nat n + N.of_nat i)%N).
    assert (Ej : nth (3 - n + i) [p + 16; p + 32; p + 48] 0 = p + field_offset Fst j).
    { pose proof (X86MemLoadChain.blk_addrs_nth p 3 j ltac:(auto) ltac:(unfold j; lia)) as BN. fo.
      rewrite <- BN. unfold X86MemLoadChain.blk_addrs. cbn [N.eqb Pos.eqb]. f_equal. unfold j. lia. }
    rewrite Ej in VS, VF.
    replace (p + field_offset Fst j + 8) with (p + field_offset Snd j) in VS by (rewrite !field_offset_val; cbn [tnum_n]; lia).
    auto.
Qed.
Print Assumptions a64_load_one_block_ok.

(* ---------- the hypotheses are satisfiable: a shared two-block object with five fields loaded behind 13 variables
   (positions 0..25 = all registers X4..X29), so its pointer, both block pointers and all loaded variables sit in
   spill slots; TEMPORARY_TEMP = X10 (the first temporary of variable 3) is evacuated and restored ---------- *)
Definition ex_sp : Z := STACK_TOP - 4096.
Definition ex13_existing : ctx :=
  map (fun i => mkb ("v"%string, i) Ext I64) [0; 1; 2; 3; 4; 5; 6; 7; 8; 9; 10; 11; 12]%N.
Definition ex13_state : astate :=
  let r := rset (rset (rset (rset (init_state []) SP (Some ex_sp)) HEAP (Some (HEAP_BASE + 192))) FREE (Some (HEAP_BASE + 256))) (X 10) (Some 777) in
  let st := sset r ex_sp 1 (Some HEAP_BASE) in
  fold_left (fun s (az : Z * Z) => hset s (HEAP_BASE + fst az) (snd az))
            [(0, 1); (24, 11); (32, HEAP_BASE + 128); (40, 22); (48, HEAP_BASE + 64); (64 + 24, 33); (64 + 40, 44); (64 + 56, 55)] st.
Definition ex13_code : list acode := match a_load X86MemStoreChain.ex5_store ex13_existing 0 with Ok (cs, _) => cs | Err _ => [] end.

Example a64_load_example :
  exists lc', a_load X86MemStoreChain.ex5_store ex13_existing 0 = Ok (ex13_code, lc') /\
  hword ex13_state HEAP_BASE = 1 /\ rget ex13_state TEMPORARY_TEMP = Some 777 /\
  exists s', exec_to (mk_image ex13_code) 1 ex13_state (padd 1 (List.length ex13_code)) s' /\
     st_eqB (abs_heap (HEAP_BASE + 256) s') (Heap.load_object 1 HEAP_BASE (abs_heap (HEAP_BASE + 256) ex13_state)) /\
     sget s' ex_sp 2 = Some 11 /\ sget s' ex_sp 3 = Some (HEAP_BASE + 128) /\ sget s' ex_sp 10 = Some 55 /\
     rget s' TEMPORARY_TEMP = Some 777.
Proof.
  assert (Hx : exists lc', a_load X86MemStoreChain.ex5_store ex13_existing 0 = Ok (ex13_code, lc')) by (eexists; vm_compute; reflexivity).
  destruct Hx as [lc' Hx]. exists lc'. split; [exact Hx|]. split; [vm_compute; reflexivity|]. split; [vm_compute; reflexivity|].
  destruct (A64MemTop.mk_image_code_labels ex13_code) as [HC HL]; [apply X86MemStore.nodupb_sound; vm_compute; reflexivity|].
  assert (Bk : forall k, 0 <= k <= 4 -> is_blk (HEAP_BASE + 64 * k)).
  { intros k Hk. exists k. split; [lia|]. split; [reflexivity|]. unfb. lia. }
  assert (W : forall o, hword ex13_state (HEAP_BASE + o) =
     if o =? 120 then 55 else if o =? 104 then 44 else if o =? 88 then 33 else if o =? 48 then HEAP_BASE + 64 else
     if o =? 40 then 22 else if o =? 32 then HEAP_BASE + 128 else if o =? 24 then 11 else if o =? 0 then 1 else 0).
  { intros o. unfold ex13_state. cbn [fold_left fst snd]. rewrite !hword_hset by (vm_compute; reflexivity).
    rewrite hword_sset, !hword_rset. replace (hword (init_state []) (HEAP_BASE + o)) with 0 by (unfold hword, hget, init_state; cbn [heap]; now rewrite PM.gempty).
    unfold HEAP_BASE.
    repeat match goal with |- context [?a =? ?b] => destruct (Z.eqb_spec a b); try lia end; reflexivity. }
  destruct (a64_load_full (mk_image ex13_code) 1 X86MemStoreChain.ex5_store ex13_existing 0 ex13_code lc' ex13_state ex_sp HEAP_BASE (HEAP_BASE + 192) (HEAP_BASE + 256) Hx ltac:(discriminate) HC HL)
    as (s' & ST & EQ & V & O & _).
  - split; [vm_compute; reflexivity|]. repeat split; vm_compute; easy.
  - vm_compute; reflexivity.
  - exact (Bk 0 ltac:(lia)).
  - vm_compute; reflexivity.
  - unfold X86MemStoreChain.ex5_store. cbn [X86MemLoadChain.lf_share_ok List.length]. change (3 - X86.bp_n X86.Last)%N with 3%N. change (3 - X86.bp_n X86.Other)%N with 2%N.
    change (rest_len 5 3) with 2%nat. cbn [firstn skipn List.length]. change (rest_len 2 2) with 0%nat. cbn [firstn skipn List.length X86MemLoadChain.lf_ptr].
    change (rest_len 2 (3 - X86.bp_n X86.Other)) with 0%nat. cbn [firstn X86MemLoadChain.lf_ptr]. fo.
    replace (hword ex13_state (HEAP_BASE + 48)) with (HEAP_BASE + 64 * 1) by (rewrite W; reflexivity).
    split; [split; [exact I|]|].
    + split; [exact (Bk 0 ltac:(lia))|]. split; [|split].
      * intros j Hj. assert (Hc : (j = 0 \/ j = 1)%N) by lia. destruct Hc as [-> | ->]; rewrite ?fo_F0, ?fo_F1, W; cbn; auto.
        right. exact (Bk 2 ltac:(lia)).
      * intros j Hj. cbn in Hj. lia.
      * intros i b Hi Hb. destruct i as [|[|i]]; cbn in Hi; try (destruct i; discriminate); inversion Hi; subst b; cbn in Hb; try discriminate.
        change (hword ex13_state (HEAP_BASE + 16) = 0). rewrite W. reflexivity.
    + split; [exact (Bk 1 ltac:(lia))|]. split; [|split].
      * intros j Hj. assert (Hc : (j = 0 \/ j = 1 \/ j = 2)%N) by lia.
        destruct Hc as [->|[->| ->]]; rewrite ?fo_F0, ?fo_F1, ?fo_F2, <- Z.add_assoc, W; cbn; auto.
      * intros j Hj. cbn in Hj. lia.
      * intros i b Hi Hb. destruct i as [|[|[|i]]]; cbn in Hi; try (destruct i; discriminate); inversion Hi; subst b; cbn in Hb; try discriminate;
          first [change (hword ex13_state (HEAP_BASE + (64 * 1 + 16)) = 0)|change (hword ex13_state (HEAP_BASE + (64 * 1 + 48)) = 0)]; rewrite W; reflexivity.
  - intros x Hx'. destruct Hx' as (k & Hk & -> & Hhi). replace (X86Sem.HEAP_BASE + 64 * k) with (HEAP_BASE + (64 * k)) by (unfb; lia). rewrite W.
    cbn [List.length X86MemStoreChain.ex5_store]. unfold min_int, max_int, two63, HEAP_BASE.
    repeat match goal with |- context [?a =? ?b] => destruct (Z.eqb_spec a b) end; lia.
  - exists s'. split; [exact ST|]. split; [exact EQ|].
    destruct (V 0%nat _ eq_refl) as [V0 _]. destruct (V 1%nat _ eq_refl) as [_ V1]. destruct (V 4%nat _ eq_refl) as [V4 _].
    specialize (V1 ltac:(discriminate)). specialize (O 6%N ltac:(cbn; lia)).
    split; [|split; [|split]].
    + etransitivity; [exact V0|]. vm_compute; reflexivity.
    + etransitivity; [exact V1|]. vm_compute; reflexivity.
    + etransitivity; [exact V4|]. vm_compute; reflexivity.
    + etransitivity; [exact O|]. vm_compute. reflexivity.
Qed.
Print Assumptions a64_load_example.

