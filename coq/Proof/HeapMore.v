(* More operations of the abstract allocator (Model/Heap.v) preserve the counting invariant:
   non-destructive load, objects chained over several blocks (store_fields / load_fields).
   Also explicit-witness versions of erase / release / acquire (the lemmas of Model/Heap.v hide the
   new ghost lists behind an existential; the strengthened invariant of Proof/HeapTrace.v needs
   them). *)
From Coq Require Import List ZArith Lia Bool Permutation.
From SCC Require Import Model.Heap.
Import ListNotations.
Open Scope Z_scope.

(* ---------- small list facts ---------- *)
Lemma nz_app l1 l2 : nz (l1 ++ l2) = nz l1 ++ nz l2.
Proof. unfold nz. apply filter_app. Qed.
Lemma nz_repeat0 k : nz (repeat 0 k) = [].
Proof. induction k; cbn; auto. Qed.
Lemma nz_pad k l : nz (pad k l) = nz l.
Proof. unfold pad. now rewrite nz_app, nz_repeat0. Qed.
Lemma nz_single b : b <> 0 -> nz [b] = [b].
Proof. intros H. cbn. destruct (Z.eqb_spec b 0); [contradiction|reflexivity]. Qed.
Lemma in_nz l b : In b (nz l) <-> In b l /\ b <> 0.
Proof. unfold nz. rewrite filter_In. destruct (Z.eqb_spec b 0); cbn; intuition congruence. Qed.
Lemma butlastn_lastn {A} k (l : list A) : butlastn k l ++ lastn k l = l.
Proof. apply firstn_skipn. Qed.
Lemma length_butlastn {A} k (l : list A) : length (butlastn k l) = (length l - k)%nat.
Proof. unfold butlastn. rewrite firstn_length. lia. Qed.

Lemma in_below_pos s R hl fl cl a : Inv s R hl fl cl -> In a (hl ++ fl ++ cl) -> a <> 0.
Proof. intros I Ha. pose proof (i_below _ _ _ _ _ I a Ha). lia. Qed.
Lemma heap_in_hl s R hl fl cl : Inv s R hl fl cl -> exists hl1, hl = heap s :: hl1.
Proof. intros I. destruct (chain_head _ _ _ _ (i_hl _ _ _ _ _ I) (i_hl_ne _ _ _ _ _ I)) as (l & -> & _). eauto. Qed.
Lemma heap_nonzero s R hl fl cl : Inv s R hl fl cl -> heap s <> 0.
Proof. intros I. destruct (heap_in_hl _ _ _ _ _ I) as (l & E). apply (in_below_pos _ _ _ _ _ _ I). subst. now left. Qed.

Lemma cnt_in_pos l b : In b l -> 0 < cnt l b.
Proof. intros H. unfold cnt. pose proof (proj1 (count_occ_In Z.eq_dec l b) H). lia. Qed.
Lemma cnt_flat_map_in (f : Z -> list Z) l x b : In x l -> In b (f x) -> 0 < cnt (flat_map f l) b.
Proof. intros Hx Hb. apply cnt_in_pos. apply in_flat_map. eauto. Qed.

(* a non-null pointer slot of a counted or deferred block names a counted block *)
Lemma child_counted s R hl fl cl x c :
  Inv s R hl fl cl -> In x (cl ++ fl) -> In c (ps (m s x)) -> c <> 0 -> In c cl.
Proof.
  intros I Hx Hc Hc0. destruct (in_dec Z.eq_dec c cl) as [?|Hn]; auto. exfalso.
  pose proof (i_nr _ _ _ _ _ I c Hc0 Hn) as H0. unfold refs in H0. rewrite cnt_app in H0.
  pose proof (cnt_nonneg R c). pose proof (cnt_flat_map_in (fun x => ps (m s x)) _ x c Hx Hc). lia.
Qed.

(* ---------- share of a counted block (the pointer need not be a root) ---------- *)
Lemma share_counted_inv s R hl fl cl p n :
  Inv s R hl fl cl -> 0 <= n -> In p cl ->
  Inv (share p n s) (repeat p (Z.to_nat n) ++ R) hl fl cl.
Proof.
  intros I Hn Hcl.
  assert (Hp0 : p <> 0) by (apply (in_below_pos _ _ _ _ _ _ I); rewrite !in_app_iff; auto).
  unfold share. destruct (Z.eqb_spec p 0) as [|_]; [contradiction|].
  assert (Hnd := i_nodup _ _ _ _ _ I).
  destruct (proj1 (nodup3 hl fl cl p Hnd) Hcl) as [Hhl Hfl].
  constructor; cbn [m heap free frontier].
  - eapply chain_frame; [apply (i_hl _ _ _ _ _ I)|]. intros x Hx. apply hdr_set_hdr_other. congruence.
  - apply (i_hl_ne _ _ _ _ _ I).
  - eapply chain_frame; [apply (i_fl _ _ _ _ _ I)|]. intros x Hx. apply hdr_set_hdr_other. congruence.
  - exact Hnd.
  - apply (i_below _ _ _ _ _ I).
  - intros a Ha. rewrite set_hdr_other; [apply (i_fresh _ _ _ _ _ I); auto|].
    pose proof (i_below _ _ _ _ _ I p ltac:(rewrite !in_app_iff; auto)). lia.
  - apply (i_front _ _ _ _ _ I).
  - intros b Hb. rewrite refs_set_hdr. unfold refs. rewrite <- app_assoc, cnt_app.
    pose proof (i_rc _ _ _ _ _ I b Hb) as H0. unfold refs in H0.
    destruct (Z.eq_dec b p) as [->|Hne].
    + rewrite hdr_set_hdr_same.
      assert (cnt (repeat p (Z.to_nat n)) p = n).
      { unfold cnt. rewrite count_occ_repeat_eq by reflexivity. lia. }
      lia.
    + rewrite hdr_set_hdr_other by auto.
      assert (cnt (repeat p (Z.to_nat n)) b = 0).
      { unfold cnt. rewrite count_occ_repeat_neq by congruence. lia. }
      lia.
  - intros b Hb0 Hb. rewrite refs_set_hdr. unfold refs. rewrite <- app_assoc, cnt_app.
    pose proof (i_nr _ _ _ _ _ I b Hb0 Hb) as H0. unfold refs in H0.
    assert (b <> p) by congruence.
    assert (cnt (repeat p (Z.to_nat n)) b = 0).
    { unfold cnt. rewrite count_occ_repeat_neq by congruence. lia. }
    lia.
Qed.

Lemma share_ps p n s x : ps (m (share p n s) x) = ps (m s x).
Proof. unfold share. destruct (p =? 0); auto. cbn. unfold set_hdr, upd. destruct (Z.eqb_spec x p); subst; auto. Qed.
Lemma share_list_ps l : forall s x, ps (m (share_list l s) x) = ps (m s x).
Proof. unfold share_list. induction l as [|c l IH]; intros s x; cbn; auto. rewrite IH. apply share_ps. Qed.
Lemma share_frontier p n s : frontier (share p n s) = frontier s.
Proof. unfold share. destruct (p =? 0); auto. Qed.
Lemma share_list_frontier l : forall s, frontier (share_list l s) = frontier s.
Proof. unfold share_list. induction l as [|c l IH]; intros s; cbn; auto. rewrite IH. apply share_frontier. Qed.

(* sharing a list of pointers, each null or counted: they all become roots *)
Lemma share_list_inv : forall l s R hl fl cl,
  Inv s R hl fl cl -> (forall c, In c l -> c = 0 \/ In c cl) ->
  Inv (share_list l s) (nz l ++ R) hl fl cl.
Proof.
  unfold share_list. induction l as [|c l IH]; intros s R hl fl cl I Hl; cbn [fold_left nz filter app]; auto.
  fold (nz l). destruct (Z.eqb_spec c 0) as [->|Hc]; cbn [negb].
  - change (share 0 1 s) with s. apply IH; auto. intros; apply Hl; now right.
  - assert (In c cl) as Hcl by (destruct (Hl c (or_introl eq_refl)); [contradiction|auto]).
    pose proof (share_counted_inv s R hl fl cl c 1 I ltac:(lia) Hcl) as I1. cbn [Z.to_nat Pos.to_nat Pos.iter_op Nat.add repeat app] in I1.
    change (Z.to_nat 1) with 1%nat in I1. cbn [repeat app] in I1.
    eapply inv_perm_R; [|apply (IH _ (c :: R) hl fl cl I1); intros; apply Hl; now right].
    symmetry. apply Permutation_middle.
Qed.

(* ---------- decrementing the count of a shared block: one root less ---------- *)
Lemma dec_inv s R R0 hl fl cl p :
  Inv s R hl fl cl -> p <> 0 -> Permutation R (p :: R0) -> hdr (m s p) <> 0 ->
  Inv (dec p s) R0 hl fl cl.
Proof.
  intros I Hp0 HR Hn0.
  assert (In p R) as HpR by (eapply Permutation_in; [symmetry; eauto|now left]).
  assert (In p cl) as Hcl by (eapply root_counted; eauto).
  assert (Hnd := i_nodup _ _ _ _ _ I).
  destruct (proj1 (nodup3 hl fl cl p Hnd) Hcl) as [Hhl Hfl].
  assert (Hlt := i_below _ _ _ _ _ I p ltac:(rewrite !in_app_iff; auto)).
  assert (Hcnt : forall b, cnt (refs (m s) R cl fl) b = (if Z.eq_dec p b then 1 else 0) + cnt (refs (m s) R0 cl fl) b).
  { intros b. rewrite (refs_perm (m s) R (p :: R0) cl cl fl fl b HR (Permutation_refl _)).
    unfold refs. cbn [app]. now rewrite cnt_cons. }
  unfold dec. constructor; cbn [m heap free frontier].
  + eapply chain_frame; [apply (i_hl _ _ _ _ _ I)|]. intros x Hx. apply hdr_set_hdr_other. congruence.
  + apply (i_hl_ne _ _ _ _ _ I).
  + eapply chain_frame; [apply (i_fl _ _ _ _ _ I)|]. intros x Hx. apply hdr_set_hdr_other. congruence.
  + exact Hnd.
  + apply (i_below _ _ _ _ _ I).
  + intros a Ha. rewrite set_hdr_other by lia. now apply (i_fresh _ _ _ _ _ I).
  + apply (i_front _ _ _ _ _ I).
  + intros b Hb. rewrite refs_set_hdr. pose proof (i_rc _ _ _ _ _ I b Hb) as Hrc. rewrite Hcnt in Hrc.
    destruct (Z.eq_dec p b) as [<-|Hne].
    * rewrite hdr_set_hdr_same. lia.
    * rewrite hdr_set_hdr_other by congruence. lia.
  + intros b Hb0 Hb. rewrite refs_set_hdr. pose proof (i_nr _ _ _ _ _ I b Hb0 Hb) as Hnr. rewrite Hcnt in Hnr.
    destruct (Z.eq_dec p b); [congruence|lia].
Qed.
Lemma erase_is_dec s p : p <> 0 -> hdr (m s p) <> 0 -> erase p s = dec p s.
Proof. intros Hp Hh. unfold erase, dec. destruct (Z.eqb_spec p 0); [contradiction|]. destruct (Z.eqb_spec (hdr (m s p)) 0); [contradiction|reflexivity]. Qed.
Lemma dec_ps p s x : ps (m (dec p s) x) = ps (m s x).
Proof. unfold dec. cbn. unfold set_hdr, upd. destruct (Z.eqb_spec x p); subst; auto. Qed.

(* ---------- 1. non-destructive load of a single block ---------- *)
Lemma load_share_inv s R R0 hl fl cl p :
  Inv s R hl fl cl -> p <> 0 -> Permutation R (p :: R0) -> hdr (m s p) <> 0 ->
  Inv (load_share p s) (nz (ps (m s p)) ++ R0) hl fl cl.
Proof.
  intros I Hp0 HR Hn0.
  assert (In p cl) as Hcl.
  { eapply root_counted; eauto. eapply Permutation_in; [symmetry; eauto|now left]. }
  pose proof (dec_inv s R R0 hl fl cl p I Hp0 HR Hn0) as I1.
  unfold load_share. apply share_list_inv; auto.
  intros c Hc. destruct (Z.eq_dec c 0); [now left|right].
  eapply (child_counted _ _ _ _ _ p c I1); auto.
  - rewrite in_app_iff; auto.
  - now rewrite dec_ps.
Qed.
(* the header of a block named by a root is never negative, so "not 0" is "positive" *)
Lemma load_share_inv_pos s R R0 hl fl cl p :
  Inv s R hl fl cl -> p <> 0 -> Permutation R (p :: R0) -> 0 < hdr (m s p) ->
  Inv (load_share p s) (nz (ps (m s p)) ++ R0) hl fl cl.
Proof. intros. apply load_share_inv with (R := R); auto. lia. Qed.

(* ====================================================================================== *)
(* Explicit-witness versions of the lemmas of Model/Heap.v (same proofs, the new ghost lists
   spelled out). *)

Lemma erase_last_inv s R R0 hl fl cl p :
  Inv s R hl fl cl -> p <> 0 -> Permutation R (p :: R0) -> hdr (m s p) = 0 ->
  exists c1 c2, cl = c1 ++ p :: c2 /\ Inv (erase p s) R0 hl (p :: fl) (c1 ++ c2).
Proof.
  intros I Hp0 HR H0.
  assert (In p R) as HpR by (eapply Permutation_in; [symmetry; eauto|now left]).
  assert (In p cl) as Hcl by (eapply root_counted; eauto).
  assert (Hnd := i_nodup _ _ _ _ _ I).
  destruct (proj1 (nodup3 hl fl cl p Hnd) Hcl) as [Hhl Hfl].
  assert (Hlt := i_below _ _ _ _ _ I p ltac:(rewrite !in_app_iff; auto)).
  assert (Hcnt : forall b, cnt (refs (m s) R cl fl) b = (if Z.eq_dec p b then 1 else 0) + cnt (refs (m s) R0 cl fl) b).
  { intros b. rewrite (refs_perm (m s) R (p :: R0) cl cl fl fl b HR (Permutation_refl _)).
    unfold refs. cbn [app]. now rewrite cnt_cons. }
  unfold erase. destruct (Z.eqb_spec p 0) as [|_]; [contradiction|].
  destruct (Z.eqb_spec (hdr (m s p)) 0) as [_|Hn0]; [|contradiction].
  apply in_split in Hcl as (c1 & c2 & ->).
  exists c1, c2. split; [reflexivity|].
  assert (Permutation ((c1 ++ p :: c2) ++ fl) ((c1 ++ c2) ++ p :: fl)) as HP.
  { rewrite <- !app_assoc. apply Permutation_app_head. cbn. apply Permutation_middle. }
  assert (~ In p (c1 ++ c2)) as Hpc.
  { intro Hin. pose proof (NoDup_app_r _ _ (NoDup_app_r _ _ Hnd)) as Hnd'.
    apply NoDup_remove_2 in Hnd'. contradiction. }
  constructor; cbn [m heap free frontier].
  + eapply chain_frame; [apply (i_hl _ _ _ _ _ I)|]. intros x Hx. apply hdr_set_hdr_other. congruence.
  + apply (i_hl_ne _ _ _ _ _ I).
  + constructor; [lia|]. rewrite hdr_set_hdr_same.
    eapply chain_frame; [apply (i_fl _ _ _ _ _ I)|]. intros x Hx. apply hdr_set_hdr_other. congruence.
  + eapply Permutation_NoDup; [|exact Hnd].
    apply Permutation_app_head. symmetry. cbn [app].
    rewrite (app_assoc fl c1 c2), (app_assoc fl c1 (p :: c2)). apply Permutation_middle.
  + intros a Ha. apply (i_below _ _ _ _ _ I). rewrite !in_app_iff in *. cbn in Ha. cbn. intuition (subst; auto).
  + intros a Ha. rewrite set_hdr_other by lia. now apply (i_fresh _ _ _ _ _ I).
  + apply (i_front _ _ _ _ _ I).
  + intros b Hb. rewrite refs_set_hdr.
    assert (b <> p) by congruence. rewrite hdr_set_hdr_other by auto.
    rewrite <- (refs_perm (m s) R0 R0 (c1 ++ p :: c2) (c1 ++ c2) fl (p :: fl) b (Permutation_refl _) HP).
    pose proof (i_rc _ _ _ _ _ I b ltac:(rewrite in_app_iff in *; cbn; tauto)) as Hrc.
    rewrite Hcnt in Hrc. destruct (Z.eq_dec p b); [congruence|lia].
  + intros b Hb0 Hb. rewrite refs_set_hdr.
    rewrite <- (refs_perm (m s) R0 R0 (c1 ++ p :: c2) (c1 ++ c2) fl (p :: fl) b (Permutation_refl _) HP).
    destruct (Z.eq_dec p b) as [<-|Hne].
    * pose proof (i_rc _ _ _ _ _ I p ltac:(rewrite in_app_iff; cbn; tauto)) as Hrc.
      rewrite Hcnt in Hrc. destruct (Z.eq_dec p p); [lia|congruence].
    * pose proof (i_nr _ _ _ _ _ I b Hb0) as Hnr. rewrite Hcnt in Hnr.
      destruct (Z.eq_dec p b); [congruence|]. apply Hnr. rewrite in_app_iff in *. cbn. intuition congruence.
Qed.

Lemma release_inv s R R0 hl fl cl p :
  Inv s R hl fl cl -> p <> 0 -> Permutation R (p :: R0) -> hdr (m s p) = 0 ->
  exists c1 c2, cl = c1 ++ p :: c2 /\ Inv (release p s) (nz (ps (m s p)) ++ R0) (p :: hl) fl (c1 ++ c2).
Proof.
  intros I Hp0 HR H0.
  assert (In p R) as HpR by (eapply Permutation_in; [symmetry; eauto|now left]).
  assert (In p cl) as Hcl by (eapply root_counted; eauto).
  assert (Hnd := i_nodup _ _ _ _ _ I).
  destruct (proj1 (nodup3 hl fl cl p Hnd) Hcl) as [Hhl Hfl].
  assert (Hlt := i_below _ _ _ _ _ I p ltac:(rewrite !in_app_iff; auto)).
  apply in_split in Hcl as (c1 & c2 & ->). exists c1, c2. split; [reflexivity|].
  assert (~ In p (c1 ++ c2)) as Hpc.
  { intro Hin. pose proof (NoDup_app_r _ _ (NoDup_app_r _ _ Hnd)) as Hnd'. apply NoDup_remove_2 in Hnd'. contradiction. }
  assert (Hfr : forall x, x <> p -> hdr (set_hdr (m s) p (heap s) x) = hdr (m s x)) by (intros; now apply hdr_set_hdr_other).
  assert (Hold : forall b, b <> 0 -> cnt (refs (m s) R (c1 ++ p :: c2) fl) b =
     (if Z.eq_dec p b then 1 else 0) + cnt R0 b + cnt (ps (m s p)) b + cnt (flat_map (fun x => ps (m s x)) ((c1 ++ c2) ++ fl)) b).
  { intros b Hb. rewrite (refs_perm (m s) R (p :: R0) (c1 ++ p :: c2) (p :: c1 ++ c2) fl fl b HR).
    - unfold refs. cbn [app flat_map]. rewrite cnt_cons, !cnt_app. lia.
    - apply Permutation_app_tail. symmetry. apply Permutation_middle. }
  unfold release. constructor; cbn [m heap free frontier].
  - constructor; auto. rewrite hdr_set_hdr_same. eapply chain_frame; [apply (i_hl _ _ _ _ _ I)|]. intros x Hx. apply Hfr. congruence.
  - discriminate.
  - eapply chain_frame; [apply (i_fl _ _ _ _ _ I)|]. intros x Hx. apply Hfr. congruence.
  - eapply Permutation_NoDup; [|exact Hnd]. cbn [app].
    apply (Permutation_trans (l' := hl ++ p :: fl ++ c1 ++ c2)).
    + apply Permutation_app_head. rewrite (app_assoc fl c1 (p :: c2)), (app_assoc fl c1 c2). symmetry. apply Permutation_middle.
    + symmetry. apply Permutation_middle.
  - intros a Ha. apply (i_below _ _ _ _ _ I).
    clear -Ha. rewrite ?in_app_iff in *. cbn [In] in *. rewrite ?in_app_iff in *. cbn [In] in *. intuition (subst; auto).
  - intros a Ha. rewrite set_hdr_other by lia. now apply (i_fresh _ _ _ _ _ I).
  - apply (i_front _ _ _ _ _ I).
  - intros b Hb. rewrite refs_set_hdr. assert (b <> p) by congruence. rewrite Hfr by auto.
    assert (b <> 0) by (intros ->; pose proof (i_below _ _ _ _ _ I 0 ltac:(clear -Hb; rewrite ?in_app_iff in *; cbn [In]; intuition auto)); lia).
    pose proof (i_rc _ _ _ _ _ I b ltac:(clear -Hb; rewrite ?in_app_iff in *; cbn [In]; intuition auto)) as Hrc.
    rewrite Hold in Hrc by auto. unfold refs. rewrite !cnt_app, cnt_nz by auto.
    destruct (Z.eq_dec p b); [congruence|]. lia.
  - intros b Hb0 Hb. rewrite refs_set_hdr. unfold refs. rewrite !cnt_app, cnt_nz by auto.
    destruct (Z.eq_dec p b) as [<-|Hne].
    + pose proof (i_rc _ _ _ _ _ I p ltac:(rewrite in_app_iff; cbn; tauto)) as Hrc. rewrite Hold in Hrc by auto.
      destruct (Z.eq_dec p p); [|congruence]. lia.
    + pose proof (i_nr _ _ _ _ _ I b Hb0 ltac:(clear -Hb Hne; rewrite ?in_app_iff in *; cbn [In]; intuition auto)) as Hnr.
      rewrite Hold in Hnr by auto. destruct (Z.eq_dec p b); [congruence|]. lia.
Qed.

(* acquire, the three cases with their witnesses.  In case 2 the state s1 is the one before the
   lazy erasure of the recycled block's children. *)
Definition acq_s1 (s : st) : st :=
  {| m := set_hdr (m s) (free s) 0; heap := free s; free := hdr (m s (free s)); frontier := frontier s |}.

Lemma acquire_cases s R R0 hl fl cl :
  Inv s R hl fl cl ->
  Permutation R (nz (ps (m s (heap s))) ++ R0) ->
  let r := heap s in
  fst (acquire s) = r /\
  ( (* 1: the reuse list has another element *)
    (hdr (m s r) <> 0 /\ exists hl2, hl = r :: hdr (m s r) :: hl2 /\ frontier (snd (acquire s)) = frontier s /\
       Inv (snd (acquire s)) (r :: R0) (hdr (m s r) :: hl2) fl (r :: cl))
    \/ (* 3: bump *)
    (hdr (m s r) = 0 /\ hl = [r] /\ fl = [] /\ free s = frontier s /\ frontier (snd (acquire s)) = frontier s + BLOCK /\
       Inv (snd (acquire s)) (r :: R0) [frontier s] [] (r :: cl))
    \/ (* 2: recycle the first deferred block *)
    (hdr (m s r) = 0 /\ hl = [r] /\ exists fl2, fl = free s :: fl2 /\
       snd (acquire s) = fold_left (fun s c => erase c s) (ps (m s (free s))) (acq_s1 s) /\
       Inv (acq_s1 s) (nz (ps (m s (free s))) ++ r :: R0) [free s] fl2 (r :: cl)) ).
Proof.
  intros I HR r. unfold r in *; clear r. set (r := heap s) in *.
  destruct (chain_head _ _ _ _ (i_hl _ _ _ _ _ I) (i_hl_ne _ _ _ _ _ I)) as (hl1 & -> & Hr0 & Hch). fold r in Hch.
  assert (Hnd := i_nodup _ _ _ _ _ I).
  assert (Hrhl : In r (r :: hl1)) by now left.
  destruct (proj2 (proj2 (nodup3 (r :: hl1) fl cl r Hnd)) Hrhl) as [Hrfl Hrcl].
  assert (Hrlt := i_below _ _ _ _ _ I r ltac:(rewrite !in_app_iff; auto)).
  assert (Hr_unref := i_nr _ _ _ _ _ I r Hr0 Hrcl).
  rewrite (refs_perm (m s) R _ cl cl fl fl r HR (Permutation_refl _)) in Hr_unref.
  unfold refs in Hr_unref. rewrite !cnt_app, cnt_nz in Hr_unref by auto.
  pose proof (cnt_nonneg (ps (m s r)) r). pose proof (cnt_nonneg R0 r).
  pose proof (cnt_nonneg (flat_map (fun x => ps (m s x)) (cl ++ fl)) r).
  assert (Hold : forall b, b <> 0 -> cnt (refs (m s) R cl fl) b =
            cnt (ps (m s r)) b + cnt R0 b + cnt (flat_map (fun x => ps (m s x)) (cl ++ fl)) b).
  { intros b Hb. rewrite (refs_perm (m s) R _ cl cl fl fl b HR (Permutation_refl _)).
    unfold refs. rewrite !cnt_app, cnt_nz by auto. lia. }
  unfold acquire. fold r. split.
  { destruct (negb (hdr (m s r) =? 0)); [reflexivity|]. destruct (hdr (m s (free s)) =? 0); reflexivity. }
  destruct (Z.eqb_spec (hdr (m s r)) 0) as [Hh0|Hhn]; cbn [negb].
  2:{ left. split; [exact Hhn|].
    cbn [snd].
    destruct (chain_nonstop _ _ _ _ Hch Hhn) as (hl2 & -> & Hch2).
    exists hl2. split; [reflexivity|]. split; [reflexivity|].
    assert (Hfr : forall x, x <> r -> hdr (set_hdr (m s) r 0 x) = hdr (m s x)) by (intros; now apply hdr_set_hdr_other).
    assert (Hrn : ~ In r (hdr (m s r) :: hl2)).
    { assert (NoDup (r :: ((hdr (m s r) :: hl2) ++ fl ++ cl))) as Hnd' by exact Hnd.
      apply NoDup_cons_iff in Hnd' as [Hn _]. intro Hin. apply Hn. apply in_app_iff. now left. }
    constructor; cbn [m heap free frontier].
    - eapply chain_frame; [constructor; eauto|]. intros x Hx. apply Hfr. intros ->. contradiction.
    - discriminate.
    - eapply chain_frame; [apply (i_fl _ _ _ _ _ I)|]. intros x Hx. apply Hfr. congruence.
    - eapply Permutation_NoDup; [|exact Hnd].
      apply (Permutation_trans (l' := r :: ((hdr (m s r) :: hl2) ++ fl) ++ cl)).
      { rewrite <- app_assoc. reflexivity. }
      etransitivity; [apply Permutation_middle|]. rewrite <- ?app_assoc. cbn [app]. reflexivity.
    - intros a Ha. apply (i_below _ _ _ _ _ I).
      clear -Ha. rewrite ?in_app_iff in *. cbn [In] in *. rewrite ?in_app_iff in *. cbn [In] in *. intuition (subst; auto).
    - intros a Ha. rewrite set_hdr_other by lia. now apply (i_fresh _ _ _ _ _ I).
    - apply (i_front _ _ _ _ _ I).
    - intros b Hb. rewrite refs_set_hdr. unfold refs. cbn [app flat_map]. rewrite cnt_cons, !cnt_app.
      destruct Hb as [<-|Hb].
      + rewrite hdr_set_hdr_same. destruct (Z.eq_dec r r); [|congruence]. lia.
      + assert (b <> r) by congruence. assert (b <> 0) by (intros ->; pose proof (i_below _ _ _ _ _ I 0 ltac:(rewrite !in_app_iff; auto)); lia).
        rewrite Hfr by auto. pose proof (i_rc _ _ _ _ _ I b Hb) as Hrc. rewrite Hold in Hrc by auto.
        destruct (Z.eq_dec r b); [congruence|]. lia.
    - intros b Hb0 Hb. rewrite refs_set_hdr. unfold refs. cbn [app flat_map]. rewrite cnt_cons, !cnt_app.
      assert (b <> r) by (intros ->; apply Hb; now left).
      pose proof (i_nr _ _ _ _ _ I b Hb0 ltac:(intro; apply Hb; now right)) as Hnr. rewrite Hold in Hnr by auto.
      destruct (Z.eq_dec r b); [congruence|]. lia. }
  right.
  cbn [snd]. rewrite Hh0 in Hch. apply chain_stop_nil in Hch. subst hl1.
  set (h2 := free s) in *.
  assert (HF := i_front _ _ _ _ _ I).
  assert (Hcnt_new : forall (fl' : list Z) b, b <> 0 ->
     cnt (refs (m s) (r :: R0) (r :: cl) fl') b =
     (if Z.eq_dec r b then 1 else 0) + cnt R0 b + cnt (ps (m s r)) b + cnt (flat_map (fun x => ps (m s x)) (cl ++ fl')) b).
  { intros fl' b Hb. unfold refs. cbn [app flat_map]. rewrite cnt_cons, !cnt_app. lia. }
  destruct (Z.eqb_spec (hdr (m s h2)) 0) as [Hf0|Hfn].
  - left. split; [exact Hh0|]. split; [reflexivity|].
    cbn [snd].
    assert (h2 = frontier s /\ fl = []) as [Hh2 ->].
    { destruct (Z.eq_dec h2 (frontier s)) as [E|E].
      - split; auto. pose proof (i_fl _ _ _ _ _ I) as Hc. fold h2 in Hc. rewrite E in Hc. now apply chain_stop_nil in Hc.
      - exfalso. destruct (chain_nonstop _ _ _ _ (i_fl _ _ _ _ _ I) E) as (fl2 & -> & Hc2). fold h2 in Hc2.
        rewrite Hf0 in Hc2. assert (0 <> frontier s) by lia.
        destruct (chain_nonstop _ _ _ _ Hc2 H2) as (fl3 & -> & _).
        pose proof (i_below _ _ _ _ _ I 0 ltac:(rewrite !in_app_iff; cbn; auto)). lia. }
    split; [reflexivity|]. split; [exact Hh2|]. rewrite Hh2 in *. split; [reflexivity|]. set (F := frontier s) in *.
    assert (HmF : m s F = zero_block) by (apply (i_fresh _ _ _ _ _ I); lia).
    constructor; cbn [m heap free frontier].
    + constructor; [lia|]. rewrite HmF. cbn. constructor.
    + discriminate.
    + constructor.
    + cbn [app]. constructor.
      * intros Hin. pose proof (i_below _ _ _ _ _ I F ltac:(cbn [app]; cbn; tauto)). lia.
      * exact Hnd.
    + intros a Ha. cbn [app] in Ha. destruct Ha as [<-|Ha]; [unfold BLOCK; lia|].
      pose proof (i_below _ _ _ _ _ I a Ha). unfold BLOCK. lia.
    + intros a Ha. apply (i_fresh _ _ _ _ _ I). unfold BLOCK in Ha. lia.
    + unfold BLOCK. lia.
    + intros b Hb.
      assert (b <> 0) by (intros ->; pose proof (i_below _ _ _ _ _ I 0 ltac:(cbn [app]; cbn; tauto)); lia).
      rewrite Hcnt_new by auto. destruct Hb as [<-|Hb].
      * destruct (Z.eq_dec r r); [|congruence]. lia.
      * pose proof (i_rc _ _ _ _ _ I b Hb) as Hrc. rewrite Hold in Hrc by auto.
        destruct (Z.eq_dec r b); [subst; contradiction|]. lia.
    + intros b Hb0 Hb. rewrite Hcnt_new by auto.
      assert (b <> r) by (intros ->; apply Hb; now left).
      pose proof (i_nr _ _ _ _ _ I b Hb0 ltac:(intro; apply Hb; now right)) as Hnr. rewrite Hold in Hnr by auto.
      destruct (Z.eq_dec r b); [congruence|]. lia.
  - right. split; [exact Hh0|]. split; [reflexivity|].
    cbn [snd].
    assert (h2 <> frontier s) as Hh2f.
    { intros E. rewrite E, (i_fresh _ _ _ _ _ I (frontier s)) in Hfn by lia. now cbn in Hfn. }
    destruct (chain_nonstop _ _ _ _ (i_fl _ _ _ _ _ I) Hh2f) as (fl2 & -> & Hc2). fold h2 in Hc2.
    exists fl2. split; [reflexivity|]. split; [reflexivity|].
    assert (Hh2lt := i_below _ _ _ _ _ I h2 ltac:(rewrite !in_app_iff; cbn; auto)).
    assert (Hh2n : ~ In h2 fl2 /\ ~ In h2 cl /\ h2 <> r).
    { assert (NoDup (r :: h2 :: fl2 ++ cl)) as Hnd' by exact Hnd.
      apply NoDup_cons_iff in Hnd' as [Hr' Hnd']. apply NoDup_cons_iff in Hnd' as [Hh' _].
      rewrite in_app_iff in Hh'. repeat split; try tauto. intros ->. apply Hr'. now left. }
    destruct Hh2n as (Hh2fl & Hh2cl & Hh2r).
    unfold acq_s1. fold h2.
    assert (Hfr : forall x, x <> h2 -> hdr (set_hdr (m s) h2 0 x) = hdr (m s x)) by (intros; now apply hdr_set_hdr_other).
    constructor; cbn [m heap free frontier].
    + constructor; [lia|]. rewrite hdr_set_hdr_same. constructor.
    + discriminate.
    + eapply chain_frame; [exact Hc2|]. intros x Hx. apply Hfr. congruence.
    + eapply Permutation_NoDup; [|exact Hnd]. cbn [app].
      apply (Permutation_trans (l' := h2 :: r :: fl2 ++ cl)); [apply perm_swap|]. apply perm_skip.
      apply Permutation_middle.
    + intros a Ha. apply (i_below _ _ _ _ _ I).
      clear -Ha. rewrite ?in_app_iff in *. cbn [In] in *. rewrite ?in_app_iff in *. cbn [In] in *. intuition (subst; auto).
    + intros a Ha. rewrite set_hdr_other by lia. now apply (i_fresh _ _ _ _ _ I).
    + exact HF.
    + intros b Hb. rewrite refs_set_hdr.
      assert (b <> 0) by (intros ->; pose proof (i_below _ _ _ _ _ I 0 ltac:(clear -Hb; rewrite ?in_app_iff; cbn [In] in *; rewrite ?in_app_iff; cbn [In]; intuition auto)); lia).
      assert (b <> h2) by (destruct Hb as [<-|Hb]; congruence).
      rewrite Hfr by auto.
      unfold refs. rewrite <- app_assoc, !cnt_app, cnt_nz by auto. cbn [app flat_map]. rewrite cnt_cons, !cnt_app.
      rewrite flat_map_app, cnt_app.
      destruct Hb as [<-|Hb].
      * rewrite Hh0. destruct (Z.eq_dec r r); [|congruence].
        rewrite flat_map_app, cnt_app in Hr_unref, H1. cbn [flat_map] in Hr_unref. rewrite cnt_app in Hr_unref.
        pose proof (cnt_nonneg (ps (m s h2)) r). pose proof (cnt_nonneg (flat_map (fun x => ps (m s x)) fl2) r).
        pose proof (cnt_nonneg (flat_map (fun x => ps (m s x)) cl) r). unfold h2 in *. lia.
      * pose proof (i_rc _ _ _ _ _ I b Hb) as Hrc. rewrite Hold in Hrc by auto.
        rewrite flat_map_app, cnt_app in Hrc. cbn [flat_map] in Hrc. rewrite cnt_app in Hrc.
        destruct (Z.eq_dec r b); [subst; contradiction|]. unfold h2 in *. lia.
    + intros b Hb0 Hb. rewrite refs_set_hdr.
      unfold refs. rewrite <- app_assoc, !cnt_app, cnt_nz by auto. cbn [app flat_map]. rewrite cnt_cons, !cnt_app.
      rewrite flat_map_app, cnt_app.
      assert (b <> r) by (intros ->; apply Hb; now left).
      pose proof (i_nr _ _ _ _ _ I b Hb0 ltac:(intro; apply Hb; now right)) as Hnr. rewrite Hold in Hnr by auto.
      rewrite flat_map_app, cnt_app in Hnr. cbn [flat_map] in Hnr. rewrite cnt_app in Hnr.
      destruct (Z.eq_dec r b); [congruence|]. unfold h2 in *. lia.
Qed.

(* ====================================================================================== *)
(* The strengthened invariant InvA = Inv + (SZ) the three ghost lists are exactly the blocks below
   the frontier, (AL) block alignment, (TOT) totality, (POS) a counted block has a non-negative
   header (so it is referenced: no leak), (AC) acyclicity of the pointer slots of counted and
   deferred blocks by a rank. *)
Definition blk (base a : Z) : Prop := exists k, 0 <= k /\ a = base + k * BLOCK.

Record Ext (base : Z) (s : st) (hl fl cl : list Z) : Prop := {
  x_sz : Z.of_nat (length (hl ++ fl ++ cl)) * BLOCK = frontier s - base;
  x_al : forall a, In a (hl ++ fl ++ cl) -> blk base a;
  x_tot : forall a, blk base a -> a < frontier s -> In a (hl ++ fl ++ cl);
  x_pos : forall b, In b cl -> 0 <= hdr (m s b);
  x_ac : exists rank : Z -> nat,
           forall x, In x (cl ++ fl) -> forall b, In b (ps (m s x)) -> b <> 0 -> (rank b < rank x)%nat;
}.
Definition InvA (base : Z) (s : st) (R hl fl cl : list Z) : Prop := Inv s R hl fl cl /\ Ext base s hl fl cl.

Lemma invA_inv base s R hl fl cl : InvA base s R hl fl cl -> Inv s R hl fl cl.
Proof. now intros [I _]. Qed.
Lemma invA_perm_R base s R R' hl fl cl : Permutation R R' -> InvA base s R hl fl cl -> InvA base s R' hl fl cl.
Proof. intros HP [I E]. split; auto. eapply inv_perm_R; eauto. Qed.

Fixpoint lmax (f : Z -> nat) (l : list Z) : nat :=
  match l with [] => O | x :: r => Nat.max (f x) (lmax f r) end.
Lemma lmax_ge f l x : In x l -> (f x <= lmax f l)%nat.
Proof. induction l as [|a l IH]; cbn; [tauto|]. intros [->|H]; [lia|]. specialize (IH H). lia. Qed.

(* transfer of the extra clauses: the frontier stays or moves by one block (then the old frontier
   block joins the lists); slots of counted/deferred blocks are unchanged; at most one block r
   (0 if none) joins the counted/deferred blocks, and nothing points to it *)
Lemma ext_transfer base s s' hl fl cl hl' fl' cl' r :
  Ext base s hl fl cl ->
  ((frontier s' = frontier s /\ Permutation (hl' ++ fl' ++ cl') (hl ++ fl ++ cl)) \/
   (frontier s' = frontier s + BLOCK /\ Permutation (hl' ++ fl' ++ cl') (frontier s :: hl ++ fl ++ cl))) ->
  (forall b, In b cl' -> 0 <= hdr (m s' b)) ->
  (forall x, In x (cl' ++ fl') -> ps (m s' x) = ps (m s x) /\ (x = r \/ In x (cl ++ fl))) ->
  (forall x, In x (cl ++ fl) \/ x = r -> forall b, In b (ps (m s x)) -> b <> 0 -> b <> r) ->
  Ext base s' hl' fl' cl'.
Proof.
  intros E HF HPOS HPS HR. destruct E as [SZ AL TOT POS [rank AC]].
  assert (HFB : frontier s = base + Z.of_nat (length (hl ++ fl ++ cl)) * BLOCK) by lia.
  constructor.
  - destruct HF as [[-> HP]|[-> HP]]; rewrite (Permutation_length HP); [exact SZ|]. cbn [length]. unfold BLOCK in *. lia.
  - intros a Ha. destruct HF as [[_ HP]|[_ HP]]; apply (Permutation_in _ HP) in Ha; [now apply AL|].
    destruct Ha as [<-|Ha]; [|now apply AL]. exists (Z.of_nat (length (hl ++ fl ++ cl))). split; [lia|exact HFB].
  - intros a Hb Ha. destruct HF as [[E HP]|[E HP]]; apply (Permutation_in _ (Permutation_sym HP)).
    + apply TOT; auto. lia.
    + destruct (Z_lt_le_dec a (frontier s)) as [Hlt|Hge]; [right; now apply TOT|left].
      destruct Hb as (k & Hk & ->). rewrite E, HFB in Ha. rewrite HFB in Hge |- *. unfold BLOCK in *. lia.
  - exact HPOS.
  - exists (fun x => if x =? r then S (lmax rank (ps (m s r))) else rank x).
    intros x Hx b Hb Hb0. destruct (HPS x Hx) as [Eps Hx']. rewrite Eps in Hb.
    assert (b <> r) as Hbr.
    { apply (HR x); auto. destruct Hx'; auto. }
    destruct (Z.eqb_spec b r); [contradiction|].
    destruct (Z.eqb_spec x r) as [->|Hxr].
    + pose proof (lmax_ge rank _ _ Hb). lia.
    + destruct Hx' as [|Hx']; [contradiction|]. now apply (AC x).
Qed.

(* nothing points to a block that is not counted *)
Lemma unref_facts s R hl fl cl r :
  Inv s R hl fl cl -> r <> 0 -> ~ In r cl ->
  ~ In r R /\ forall x, In x (cl ++ fl) -> ~ In r (ps (m s x)).
Proof.
  intros I Hr0 Hrc. pose proof (i_nr _ _ _ _ _ I r Hr0 Hrc) as H0. unfold refs in H0. rewrite cnt_app in H0.
  pose proof (cnt_nonneg R r). pose proof (cnt_nonneg (flat_map (fun x => ps (m s x)) (cl ++ fl)) r).
  split.
  - intro Hin. apply cnt_in_pos in Hin. lia.
  - intros x Hx Hin. pose proof (cnt_flat_map_in (fun x => ps (m s x)) _ x r Hx Hin). lia.
Qed.

Lemma erase_ps p s x : ps (m (erase p s) x) = ps (m s x).
Proof. unfold erase. destruct (p =? 0); auto. destruct (hdr (m s p) =? 0); cbn; unfold set_hdr, upd; destruct (Z.eqb_spec x p); subst; auto. Qed.
Lemma erase_hdr_other p s x : x <> p -> hdr (m (erase p s) x) = hdr (m s x).
Proof. intros H. unfold erase. destruct (p =? 0); auto. destruct (hdr (m s p) =? 0); cbn; now rewrite hdr_set_hdr_other. Qed.
Lemma erase_frontier p s : frontier (erase p s) = frontier s.
Proof. unfold erase. destruct (p =? 0); auto. destruct (hdr (m s p) =? 0); reflexivity. Qed.
Lemma release_ps p s x : ps (m (release p s) x) = ps (m s x).
Proof. unfold release. cbn. unfold set_hdr, upd. destruct (Z.eqb_spec x p); subst; auto. Qed.
Lemma share_hdr_other p n s x : x <> p -> hdr (m (share p n s) x) = hdr (m s x).
Proof. intros H. unfold share. destruct (p =? 0); auto. cbn. now rewrite hdr_set_hdr_other. Qed.

Ltac in_lists := rewrite ?in_app_iff in *; cbn [In] in *; rewrite ?in_app_iff in *; cbn [In] in *; intuition (subst; auto).

(* ---------- share ---------- *)
Lemma share_counted_invA base s R hl fl cl p n :
  InvA base s R hl fl cl -> 0 <= n -> In p cl ->
  InvA base (share p n s) (repeat p (Z.to_nat n) ++ R) hl fl cl.
Proof.
  intros [I E] Hn Hcl. split; [now apply share_counted_inv|].
  apply (ext_transfer base s _ hl fl cl hl fl cl 0 E).
  - left. split; [apply share_frontier|reflexivity].
  - intros b Hb. pose proof (x_pos _ _ _ _ _ E b Hb).
    destruct (Z.eq_dec b p) as [->|Hne]; [|now rewrite share_hdr_other].
    assert (p <> 0) by (apply (in_below_pos _ _ _ _ _ _ I); in_lists).
    unfold share. destruct (Z.eqb_spec p 0); [contradiction|]. cbn. rewrite hdr_set_hdr_same. lia.
  - intros x Hx. split; [apply share_ps|now right].
  - intros; congruence.
Qed.
Lemma share_invA base s R hl fl cl p n :
  InvA base s R hl fl cl -> 0 <= n -> (p = 0 \/ In p R) ->
  InvA base (share p n s) (if p =? 0 then R else repeat p (Z.to_nat n) ++ R) hl fl cl.
Proof.
  intros IA Hn Hp. destruct (Z.eqb_spec p 0) as [->|Hp0]; [exact IA|].
  apply share_counted_invA; auto. destruct Hp; [contradiction|]. eapply root_counted; eauto. apply IA.
Qed.
Lemma share_list_invA base : forall l s R hl fl cl,
  InvA base s R hl fl cl -> (forall c, In c l -> c = 0 \/ In c cl) ->
  InvA base (share_list l s) (nz l ++ R) hl fl cl.
Proof.
  unfold share_list. induction l as [|c l IH]; intros s R hl fl cl I Hl; cbn [fold_left nz filter app]; auto.
  fold (nz l). destruct (Z.eqb_spec c 0) as [->|Hc]; cbn [negb].
  - change (share 0 1 s) with s. apply IH; auto. intros; apply Hl; now right.
  - assert (In c cl) as Hcl by (destruct (Hl c (or_introl eq_refl)); [contradiction|auto]).
    pose proof (share_counted_invA base s R hl fl cl c 1 I ltac:(lia) Hcl) as I1.
    change (Z.to_nat 1) with 1%nat in I1. cbn [repeat app] in I1.
    eapply invA_perm_R; [|apply (IH _ (c :: R) hl fl cl I1); intros; apply Hl; now right].
    symmetry. apply Permutation_middle.
Qed.

(* ---------- dec / erase ---------- *)
Lemma dec_invA base s R R0 hl fl cl p :
  InvA base s R hl fl cl -> p <> 0 -> Permutation R (p :: R0) -> hdr (m s p) <> 0 ->
  InvA base (dec p s) R0 hl fl cl.
Proof.
  intros [I E] Hp0 HR Hn0. split; [eapply dec_inv; eauto|].
  assert (In p cl) as Hcl.
  { eapply root_counted; eauto. eapply Permutation_in; [symmetry; eauto|now left]. }
  apply (ext_transfer base s _ hl fl cl hl fl cl 0 E).
  - left. split; reflexivity.
  - intros b Hb. pose proof (x_pos _ _ _ _ _ E b Hb). unfold dec; cbn.
    destruct (Z.eq_dec b p) as [->|Hne]; [rewrite hdr_set_hdr_same; lia|now rewrite hdr_set_hdr_other].
  - intros x Hx. split; [apply dec_ps|now right].
  - intros; congruence.
Qed.

Lemma erase_invA base s R R0 hl fl cl p :
  InvA base s R hl fl cl -> p <> 0 -> Permutation R (p :: R0) ->
  exists fl' cl', InvA base (erase p s) R0 hl fl' cl' /\
                  (length cl' + length fl' = length cl + length fl)%nat.
Proof.
  intros [I E] Hp0 HR. destruct (Z.eq_dec (hdr (m s p)) 0) as [H0|Hn0].
  - destruct (erase_last_inv s R R0 hl fl cl p I Hp0 HR H0) as (c1 & c2 & -> & I1).
    exists (p :: fl), (c1 ++ c2). split; [split; [exact I1|]|rewrite !app_length; cbn; lia].
    apply (ext_transfer base s _ hl fl (c1 ++ p :: c2) hl (p :: fl) (c1 ++ c2) 0 E).
    + left. split; [apply erase_frontier|]. apply Permutation_app_head. cbn [app].
      rewrite (app_assoc fl c1 c2), (app_assoc fl c1 (p :: c2)). apply Permutation_middle.
    + intros b Hb. rewrite erase_hdr_other.
      * apply (x_pos _ _ _ _ _ E). in_lists.
      * intros ->. pose proof (i_nodup _ _ _ _ _ I1) as Hnd. apply NoDup_app_r in Hnd.
        apply (NoDup_app_disj (p :: fl) (c1 ++ c2) p Hnd); [now left|exact Hb].
    + intros x Hx. split; [apply erase_ps|right]. in_lists.
    + intros; congruence.
  - rewrite erase_is_dec by auto. exists fl, cl. split; [|reflexivity]. eapply dec_invA; eauto. split; auto.
Qed.

Lemma erase_list_frontier l : forall s, frontier (fold_left (fun s c => erase c s) l s) = frontier s.
Proof. induction l as [|c l IH]; intros s; cbn; auto. rewrite IH. apply erase_frontier. Qed.

Lemma erase_list_invA base : forall l s R hl fl cl,
  InvA base s (nz l ++ R) hl fl cl ->
  exists fl' cl', InvA base (fold_left (fun s c => erase c s) l s) R hl fl' cl' /\
                  (length cl' + length fl' = length cl + length fl)%nat.
Proof.
  induction l as [|c l IH]; intros s R hl fl cl I; cbn [fold_left nz filter app] in *; [eauto|].
  destruct (Z.eqb_spec c 0) as [->|Hc]; cbn [negb] in I.
  - change (erase 0 s) with s. fold (nz l) in I. eauto.
  - fold (nz l) in I. cbn [app] in I.
    destruct (erase_invA base s (c :: nz l ++ R) (nz l ++ R) hl fl cl c I Hc (Permutation_refl _)) as (fl1 & cl1 & I1 & L1).
    destruct (IH _ _ _ _ _ I1) as (fl2 & cl2 & I2 & L2). exists fl2, cl2. split; auto. lia.
Qed.

(* ---------- release (destructive load of one block) ---------- *)
Lemma release_invA base s R R0 hl fl cl p :
  InvA base s R hl fl cl -> p <> 0 -> Permutation R (p :: R0) -> hdr (m s p) = 0 ->
  exists cl', InvA base (release p s) (nz (ps (m s p)) ++ R0) (p :: hl) fl cl' /\ Permutation cl (p :: cl').
Proof.
  intros [I E] Hp0 HR H0.
  destruct (release_inv s R R0 hl fl cl p I Hp0 HR H0) as (c1 & c2 & -> & I1).
  exists (c1 ++ c2). split; [split; [exact I1|]|symmetry; apply Permutation_middle].
  apply (ext_transfer base s _ hl fl (c1 ++ p :: c2) (p :: hl) fl (c1 ++ c2) 0 E).
  - left. split; [reflexivity|]. cbn [app].
    apply (Permutation_trans (l' := hl ++ p :: fl ++ c1 ++ c2)).
    + apply Permutation_middle.
    + apply Permutation_app_head. rewrite (app_assoc fl c1 (p :: c2)), (app_assoc fl c1 c2). apply Permutation_middle.
  - intros b Hb. unfold release; cbn. rewrite hdr_set_hdr_other.
    + apply (x_pos _ _ _ _ _ E). in_lists.
    + intros ->. pose proof (i_nodup _ _ _ _ _ I1) as Hnd.
      apply (NoDup_app_disj (p :: hl) (fl ++ c1 ++ c2) p Hnd); [now left|]. rewrite in_app_iff. now right.
  - intros x Hx. split; [apply release_ps|right]. in_lists.
  - intros; congruence.
Qed.

(* ---------- writing the slots of the reserved block ---------- *)
Lemma set_ps_hl_invA base s R hl fl cl a p :
  InvA base s R hl fl cl -> In a hl ->
  InvA base {| m := set_ps (m s) a p; heap := heap s; free := free s; frontier := frontier s |} R hl fl cl.
Proof.
  intros [I E] Ha. split; [now apply set_ps_hl_inv|].
  assert (Hnd := i_nodup _ _ _ _ _ I).
  destruct (proj2 (proj2 (nodup3 hl fl cl a Hnd)) Ha) as [Hfl Hcl].
  apply (ext_transfer base s _ hl fl cl hl fl cl 0 E).
  - left. split; reflexivity.
  - intros b Hb. cbn. unfold set_ps, upd. destruct (Z.eqb_spec b a); [subst; contradiction|]. now apply (x_pos _ _ _ _ _ E).
  - intros x Hx. split; [|now right]. cbn. unfold set_ps. rewrite upd_other; auto. intros ->. in_lists.
  - intros; congruence.
Qed.

(* ---------- acquire ---------- *)
(* how the frontier and the length of the reuse list change: the frontier moves only when the
   reuse list has length 1, and then (and in case 2) the new reuse list has length 1 again *)
Definition fr_rel (s : st) (hl : list Z) (s' : st) (hl' : list Z) : Prop :=
  (frontier s' = frontier s /\ (length hl = 1 -> length hl' = 1)%nat) \/
  (frontier s < frontier s' /\ length hl' = 1%nat).
Lemma fr_rel_trans s hl s1 hl1 s2 hl2 : fr_rel s hl s1 hl1 -> fr_rel s1 hl1 s2 hl2 -> fr_rel s hl s2 hl2.
Proof. unfold fr_rel. intros [[A1 A2]|[A1 A2]] [[B1 B2]|[B1 B2]]; [left|right|right|right]; split; try lia; auto. Qed.
Lemma fr_rel_refl s hl : fr_rel s hl s hl.
Proof. left; split; auto. Qed.

Lemma acquire_invA base s R R0 hl fl cl :
  InvA base s R hl fl cl ->
  Permutation R (nz (ps (m s (heap s))) ++ R0) ->
  fst (acquire s) = heap s /\
  exists hl' fl' cl', InvA base (snd (acquire s)) (heap s :: R0) hl' fl' cl' /\ fr_rel s hl (snd (acquire s)) hl' /\
    (length cl + length fl <= length cl' + length fl')%nat.
Proof.
  intros [I E] HR. destruct (acquire_cases s R R0 hl fl cl I HR) as [Hfst Hc]. split; [exact Hfst|].
  set (r := heap s) in *.
  assert (Hr0 : r <> 0) by (eapply heap_nonzero; eauto).
  assert (Hrhl : In r hl) by (destruct (heap_in_hl _ _ _ _ _ I) as (l & ->); now left).
  assert (Hnd := i_nodup _ _ _ _ _ I).
  destruct (proj2 (proj2 (nodup3 hl fl cl r Hnd)) Hrhl) as [Hrfl Hrcl].
  destruct (unref_facts s R hl fl cl r I Hr0 Hrcl) as [HrR Hrps].
  assert (Hrself : ~ In r (ps (m s r))).
  { intro Hin. apply HrR. eapply Permutation_in; [symmetry; exact HR|]. rewrite in_app_iff. left. apply in_nz. auto. }
  assert (HRr : forall x, In x (cl ++ fl) \/ x = r -> forall b, In b (ps (m s x)) -> b <> 0 -> b <> r).
  { intros x [Hx| ->] b Hb _ ->; [eapply Hrps; eauto|contradiction]. }
  destruct Hc as [(Hhn & hl2 & -> & HF & I1)|[(Hh0 & -> & -> & Hfree & HF & I1)|(Hh0 & -> & fl2 & -> & Hs' & I1)]].
  - exists (hdr (m s r) :: hl2), fl, (r :: cl). split; [split; [exact I1|]|split].
    + apply (ext_transfer base s _ _ _ _ _ _ _ r E).
      * left. split; [exact HF|]. cbn [app]. etransitivity; [|apply perm_swap]. apply perm_skip.
        rewrite !app_assoc. symmetry. apply Permutation_middle.
      * intros b Hb. unfold acquire. fold r. destruct (Z.eqb_spec (hdr (m s r)) 0); [contradiction|]. cbn.
        destruct Hb as [<-|Hb]; [rewrite hdr_set_hdr_same; lia|].
        rewrite hdr_set_hdr_other by (intros ->; contradiction). now apply (x_pos _ _ _ _ _ E).
      * intros x Hx. split.
        -- unfold acquire. fold r. destruct (Z.eqb_spec (hdr (m s r)) 0); [contradiction|]. cbn.
           unfold set_hdr, upd. destruct (Z.eqb_spec x r); subst; auto.
        -- in_lists.
      * exact HRr.
    + left. split; [exact HF|]. cbn. intros; lia.
    + cbn. lia.
  - exists [frontier s], [], (r :: cl). split; [split; [exact I1|]|split].
    + apply (ext_transfer base s _ _ _ _ _ _ _ r E).
      * right. split; [exact HF|]. cbn [app]. reflexivity.
      * intros b Hb. unfold acquire. fold r. rewrite Hh0. cbn [Z.eqb negb]. rewrite Hfree.
        rewrite (i_fresh _ _ _ _ _ I (frontier s)) by lia. cbn.
        destruct Hb as [<-|Hb]; [lia|]. now apply (x_pos _ _ _ _ _ E).
      * intros x Hx. split.
        -- unfold acquire. fold r. rewrite Hh0. cbn [Z.eqb negb]. rewrite Hfree.
           rewrite (i_fresh _ _ _ _ _ I (frontier s)) by lia. reflexivity.
        -- in_lists.
      * exact HRr.
    + right. split; [unfold BLOCK in HF; lia|reflexivity].
    + cbn. lia.
  - assert (E1 : Ext base (acq_s1 s) [free s] fl2 (r :: cl)).
    { apply (ext_transfer base s _ _ _ _ _ _ _ r E).
      - left. split; [reflexivity|]. cbn [app]. apply (Permutation_trans (l' := free s :: r :: fl2 ++ cl)); [|apply perm_swap].
        apply perm_skip. symmetry. apply Permutation_middle.
      - intros b Hb. unfold acq_s1; cbn.
        assert (b <> free s).
        { intros ->. pose proof (i_nodup _ _ _ _ _ I1) as Hnd1. apply (NoDup_app_disj [free s] (fl2 ++ r :: cl) (free s) Hnd1); [now left|].
          rewrite in_app_iff. now right. }
        rewrite hdr_set_hdr_other by auto. destruct Hb as [<-|Hb]; [lia|]. now apply (x_pos _ _ _ _ _ E).
      - intros x Hx. split; [unfold acq_s1; cbn; unfold set_hdr, upd; destruct (Z.eqb_spec x (free s)); subst; auto|]. in_lists.
      - exact HRr. }
    destruct (erase_list_invA base (ps (m s (free s))) (acq_s1 s) (r :: R0) [free s] fl2 (r :: cl) (conj I1 E1)) as (fl' & cl' & I2 & L2).
    rewrite Hs'. exists [free s], fl', cl'. split; [exact I2|split].
    + left. split; [rewrite erase_list_frontier; reflexivity|auto].
    + cbn in *. lia.
Qed.

Lemma alloc_invA base s R R0 hl fl cl p :
  InvA base s R hl fl cl -> Permutation R (nz p ++ R0) ->
  fst (alloc p s) = heap s /\
  exists hl' fl' cl', InvA base (snd (alloc p s)) (heap s :: R0) hl' fl' cl' /\ fr_rel s hl (snd (alloc p s)) hl' /\
    (length cl + length fl <= length cl' + length fl')%nat.
Proof.
  intros IA HR. unfold alloc.
  assert (In (heap s) hl) as Hh by (destruct (heap_in_hl _ _ _ _ _ (proj1 IA)) as (l & ->); now left).
  pose proof (set_ps_hl_invA base s R hl fl cl (heap s) p IA Hh) as I'.
  set (s' := {| m := set_ps (m s) (heap s) p; heap := heap s; free := free s; frontier := frontier s |}) in *.
  apply (acquire_invA base s' R R0 hl fl cl I'). unfold s'; cbn [m heap]. unfold set_ps. now rewrite upd_same.
Qed.

(* ---------- non-destructive load of one block ---------- *)
Lemma load_share_invA base s R R0 hl fl cl p :
  InvA base s R hl fl cl -> p <> 0 -> Permutation R (p :: R0) -> hdr (m s p) <> 0 ->
  InvA base (load_share p s) (nz (ps (m s p)) ++ R0) hl fl cl.
Proof.
  intros IA Hp0 HR Hn0.
  assert (In p cl) as Hcl.
  { eapply root_counted; eauto. apply IA. eapply Permutation_in; [symmetry; eauto|now left]. }
  pose proof (dec_invA base s R R0 hl fl cl p IA Hp0 HR Hn0) as I1.
  unfold load_share. apply share_list_invA; auto.
  intros c Hc. destruct (Z.eq_dec c 0); [now left|right].
  eapply (child_counted _ _ _ _ _ p c (proj1 I1)); auto.
  - rewrite in_app_iff; auto.
  - now rewrite dec_ps.
Qed.

(* ---------- the initial state ---------- *)
Lemma init_invA base : 0 < base -> InvA base (init base) [] [base] [] [].
Proof.
  intros Hb. split; [now apply init_inv|]. constructor; cbn.
  - unfold BLOCK. lia.
  - intros a [<-|[]]. exists 0. lia.
  - intros a (k & Hk & ->) Ha. left. unfold BLOCK in *. lia.
  - tauto.
  - exists (fun _ => O). tauto.
Qed.

(* ====================================================================================== *)
(* 2. Objects chained over several blocks *)
Lemma perm_of_cnt l1 l2 : (forall b, cnt l1 b = cnt l2 b) -> Permutation l1 l2.
Proof. intros H. apply (Permutation_count_occ Z.eq_dec). intros b. specialize (H b). unfold cnt in H. lia. Qed.
Ltac pcnt := apply perm_of_cnt; intros ?b; repeat (rewrite ?cnt_app, ?cnt_cons); change (cnt [] _) with 0; try lia.

Lemma nz_split_last k l : Permutation (nz l) (nz (lastn k l) ++ nz (butlastn k l)).
Proof. rewrite <- (butlastn_lastn k l) at 1. rewrite nz_app. apply Permutation_app_comm. Qed.

(* ---------- allocation ---------- *)
Definition alloc_post base (s : st) (hl fl cl : list Z) (r : Z * st) (R0 : list Z) : Prop :=
  exists hl' fl' cl', InvA base (snd r) (fst r :: R0) hl' fl' cl' /\ fst r <> 0 /\ fr_rel s hl (snd r) hl' /\
    (length cl + length fl <= length cl' + length fl')%nat.

Lemma store_other_invA base : forall fuel rest link s R0 hl fl cl,
  (length rest <= fuel)%nat -> link <> 0 ->
  InvA base s (link :: nz rest ++ R0) hl fl cl ->
  alloc_post base s hl fl cl (store_other fuel rest link s) R0.
Proof.
  induction fuel as [|f IH]; intros rest link s R0 hl fl cl Hlen Hl IA.
  - destruct rest; [|cbn in Hlen; lia]. cbn. exists hl, fl, cl. split; [exact IA|split; [auto|split; [apply fr_rel_refl|lia]]].
  - destruct rest as [|x rest'].
    + cbn. exists hl, fl, cl. split; [exact IA|split; [auto|split; [apply fr_rel_refl|lia]]].
    + set (rest := x :: rest') in *. cbn [store_other]. fold rest.
      change (match rest with [] => (link, s) | _ => let '(b, s1) := alloc (pad 2 (lastn 2 rest) ++ [link]) s in store_other f (butlastn 2 rest) b s1 end)
        with (let '(b, s1) := alloc (pad 2 (lastn 2 rest) ++ [link]) s in store_other f (butlastn 2 rest) b s1).
      assert (HP : Permutation (link :: nz rest ++ R0) (nz (pad 2 (lastn 2 rest) ++ [link]) ++ (nz (butlastn 2 rest) ++ R0))).
      { rewrite nz_app, nz_pad, nz_single by auto.
        pose proof (nz_split_last 2 rest) as HS. apply perm_of_cnt. intros b.
        pose proof (cnt_perm _ _ b HS) as HC. rewrite cnt_app in HC.
        repeat (rewrite ?cnt_app, ?cnt_cons). change (cnt [] b) with 0. lia. }
      destruct (alloc_invA base s _ _ hl fl cl _ IA HP) as [Hfst (hl1 & fl1 & cl1 & I1 & F1 & L1)].
      destruct (alloc (pad 2 (lastn 2 rest) ++ [link]) s) as [b s1]. cbn [fst snd] in *. subst b.
      assert (Hh : heap s <> 0) by (eapply heap_nonzero; apply IA).
      assert (Hlen' : (length (butlastn 2 rest) <= f)%nat).
      { rewrite length_butlastn. unfold rest in *. cbn [length] in *. lia. }
      destruct (IH (butlastn 2 rest) (heap s) s1 R0 hl1 fl1 cl1 Hlen' Hh I1) as (hl2 & fl2 & cl2 & I2 & N2 & F2 & L2).
      exists hl2, fl2, cl2. split; [exact I2|split; [auto|split; [eapply fr_rel_trans; eauto|lia]]].
Qed.

Lemma alloc_object_invA base s R R0 hl fl cl fields :
  InvA base s R hl fl cl -> Permutation R (nz fields ++ R0) -> fields <> [] ->
  alloc_post base s hl fl cl (alloc_object fields s) R0.
Proof.
  intros IA HR Hne. destruct fields as [|x f']; [congruence|]. set (fields := x :: f') in *.
  unfold alloc_object. fold fields.
  change (match fields with [] => (0, s) | _ => let '(b, s1) := alloc (pad 3 (lastn 3 fields)) s in store_other (length fields) (butlastn 3 fields) b s1 end)
    with (let '(b, s1) := alloc (pad 3 (lastn 3 fields)) s in store_other (length fields) (butlastn 3 fields) b s1).
  assert (HP : Permutation R (nz (pad 3 (lastn 3 fields)) ++ (nz (butlastn 3 fields) ++ R0))).
  { etransitivity; [exact HR|]. rewrite nz_pad, app_assoc. apply Permutation_app_tail. apply nz_split_last. }
  destruct (alloc_invA base s _ _ hl fl cl _ IA HP) as [Hfst (hl1 & fl1 & cl1 & I1 & F1 & L1)].
  destruct (alloc (pad 3 (lastn 3 fields)) s) as [b s1]. cbn [fst snd] in *. subst b.
  assert (Hh : heap s <> 0) by (eapply heap_nonzero; apply IA).
  assert (Hlen' : (length (butlastn 3 fields) <= length fields)%nat) by (rewrite length_butlastn; lia).
  destruct (store_other_invA base _ _ _ _ R0 hl1 fl1 cl1 Hlen' Hh I1) as (hl2 & fl2 & cl2 & I2 & N2 & F2 & L2).
  exists hl2, fl2, cl2. split; [exact I2|split; [auto|split; [eapply fr_rel_trans; eauto|lia]]].
Qed.

(* ---------- the blocks of an object ---------- *)
Lemma obj_blocks_ext mm mm' : (forall x, ps (mm' x) = ps (mm x)) -> forall k p, obj_blocks k mm' p = obj_blocks k mm p.
Proof. intros H. induction k as [|k IH]; intros p; cbn; auto. unfold link_of. rewrite H, IH. reflexivity. Qed.
Lemma obj_fields_ext mm mm' : (forall x, ps (mm' x) = ps (mm x)) -> forall k p, obj_fields k mm' p = obj_fields k mm p.
Proof. intros H. induction k as [|k IH]; intros p; cbn; auto. unfold link_of, fields_of. rewrite !H, IH. reflexivity. Qed.

Lemma nth_split_ps (l : list Z) : nth 2 l 0 <> 0 -> l = firstn 2 l ++ nth 2 l 0 :: skipn 3 l.
Proof.
  intros H. destruct l as [|a [|b [|c r]]]; cbn in *; try congruence.
Qed.
Lemma link_in mm p : link_of mm p <> 0 -> In (link_of mm p) (ps (mm p)).
Proof. unfold link_of. intros H. rewrite (nth_split_ps _ H) at 2. rewrite in_app_iff. right. now left. Qed.
Lemma fields_in mm p c : In c (fields_of mm p) -> In c (ps (mm p)).
Proof.
  unfold fields_of. rewrite in_app_iff. intros [H|H].
  - rewrite <- (firstn_skipn 2). rewrite in_app_iff. now left.
  - rewrite <- (firstn_skipn 3). rewrite in_app_iff. now right.
Qed.
Lemma nz_ps_link mm p : link_of mm p <> 0 -> Permutation (nz (ps (mm p))) (link_of mm p :: nz (fields_of mm p)).
Proof.
  intros H. unfold fields_of. rewrite (nth_split_ps _ H) at 1. fold (link_of mm p).
  rewrite !nz_app. cbn [nz filter]. destruct (Z.eqb_spec (link_of mm p) 0); [contradiction|]. cbn [negb].
  fold (nz (skipn 3 (ps (mm p)))). symmetry. apply Permutation_middle.
Qed.

Definition links_ok (k : nat) (mm : mem) (p : Z) : Prop := forall b, In b (obj_blocks k mm p) -> b <> 0.
Definition obj_ok (k : nat) (mm : mem) (p : Z) : Prop := forall b, In b (obj_blocks k mm p) -> b <> 0 /\ hdr (mm b) = 0.

(* every continuation block is a pointer slot of a counted block *)
Lemma obj_blocks_children s R hl fl cl : Inv s R hl fl cl -> forall k q,
  In q cl -> links_ok k (m s) (link_of (m s) q) ->
  forall b, In b (obj_blocks k (m s) (link_of (m s) q)) -> exists x, In x cl /\ In b (ps (m s x)).
Proof.
  intros I. induction k as [|k IH]; intros q Hq HL b Hb.
  - cbn in Hb. destruct Hb as [<-|[]]. exists q. split; auto. apply link_in. apply HL. now left.
  - cbn [obj_blocks] in Hb. destruct Hb as [<-|Hb].
    + exists q. split; auto. apply link_in. apply HL. now left.
    + assert (Hl0 : link_of (m s) q <> 0) by (apply HL; now left).
      apply (IH (link_of (m s) q)); auto.
      * eapply (child_counted _ _ _ _ _ q); eauto; [rewrite in_app_iff; auto|now apply link_in].
      * intros b' Hb'. apply HL. cbn [obj_blocks]. now right.
Qed.

(* ---------- destructive load ---------- *)
Lemma load_object_release_invA base : forall k p s R R0 hl fl cl,
  InvA base s R hl fl cl -> Permutation R (p :: R0) -> obj_ok k (m s) p ->
  exists hl' cl', InvA base (load_object_release k p s) (nz (obj_fields k (m s) p) ++ R0) hl' fl cl' /\
                  frontier (load_object_release k p s) = frontier s.
Proof.
  induction k as [|k IH]; intros p s R R0 hl fl cl IA HR HO.
  - destruct (HO p (or_introl eq_refl)) as [Hp0 Hh0].
    destruct (release_invA base s R R0 hl fl cl p IA Hp0 HR Hh0) as (cl' & I1 & _). cbn. eauto.
  - destruct (HO p (or_introl eq_refl)) as [Hp0 Hh0].
    destruct (release_invA base s R R0 hl fl cl p IA Hp0 HR Hh0) as (cl1 & I1 & Hcl1).
    cbn [load_object_release obj_fields]. set (q := link_of (m s) p) in *.
    assert (Hq0 : q <> 0) by (apply (HO q); cbn [obj_blocks]; right; destruct k; now left).
    pose proof (proj1 IA) as I.
    assert (HpR : In p R) by (eapply Permutation_in; [symmetry; eauto|now left]).
    assert (Hpcl : In p cl) by (eapply root_counted; eauto).
    (* p is referenced once, by the root: it is no pointer slot of a counted block *)
    assert (Hpslot : forall x, In x cl -> ~ In p (ps (m s x))).
    { intros x Hx Hin. pose proof (i_rc _ _ _ _ _ I p Hpcl) as Hrc. unfold refs in Hrc. rewrite cnt_app, Hh0 in Hrc.
      pose proof (cnt_in_pos _ _ HpR).
      pose proof (cnt_flat_map_in (fun x => ps (m s x)) (cl ++ fl) x p ltac:(rewrite in_app_iff; auto) Hin). lia. }
    assert (HL : links_ok k (m s) q).
    { intros b Hb. apply (HO b). cbn [obj_blocks]. now right. }
    assert (Hne : forall b, In b (obj_blocks k (m s) q) -> b <> p).
    { intros b Hb ->. destruct (obj_blocks_children s R hl fl cl I k p Hpcl HL p Hb) as (x & Hx & Hin).
      eapply Hpslot; eauto. }
    assert (HO1 : obj_ok k (m (release p s)) q).
    { intros b Hb. rewrite (obj_blocks_ext (m s)) in Hb by (intros; apply release_ps).
      destruct (HO b ltac:(cbn [obj_blocks]; now right)) as [Hb0 Hbh]. split; auto.
      unfold release; cbn. rewrite hdr_set_hdr_other; auto. }
    assert (HP1 : Permutation (nz (ps (m s p)) ++ R0) (q :: nz (fields_of (m s) p) ++ R0)).
    { change (q :: nz (fields_of (m s) p) ++ R0) with ((q :: nz (fields_of (m s) p)) ++ R0).
      apply Permutation_app_tail. now apply nz_ps_link. }
    destruct (IH q (release p s) _ _ (p :: hl) fl cl1 I1 HP1 HO1) as (hl2 & cl2 & I2 & F2).
    exists hl2, cl2. split; [|rewrite F2; reflexivity].
    eapply invA_perm_R; [|exact I2].
    rewrite (obj_fields_ext (m s)) by (intros; apply release_ps).
    rewrite nz_app. rewrite <- !app_assoc. apply Permutation_app_swap_app.
Qed.

(* ---------- non-destructive load ---------- *)
Lemma share_walk_invA base : forall k p s R hl fl cl,
  InvA base s R hl fl cl -> In p cl -> links_ok k (m s) p ->
  InvA base (share_walk k p s) (nz (obj_fields k (m s) p) ++ R) hl fl cl.
Proof.
  induction k as [|k IH]; intros p s R hl fl cl IA Hp HL; cbn [share_walk obj_fields].
  - apply share_list_invA; auto. intros c Hc. destruct (Z.eq_dec c 0); [now left|right].
    eapply (child_counted _ _ _ _ _ p c (proj1 IA)); auto. rewrite in_app_iff; auto.
  - set (q := link_of (m s) p) in *.
    assert (Hq0 : q <> 0) by (apply (HL q); cbn [obj_blocks]; right; destruct k; now left).
    assert (Hq : In q cl).
    { eapply (child_counted _ _ _ _ _ p q (proj1 IA)); auto; [rewrite in_app_iff; auto|now apply link_in]. }
    assert (I1 : InvA base (share_list (fields_of (m s) p) s) (nz (fields_of (m s) p) ++ R) hl fl cl).
    { apply share_list_invA; auto. intros c Hc. destruct (Z.eq_dec c 0); [now left|right].
      eapply (child_counted _ _ _ _ _ p c (proj1 IA)); auto; [rewrite in_app_iff; auto|now apply fields_in]. }
    assert (HL1 : links_ok k (m (share_list (fields_of (m s) p) s)) q).
    { intros b Hb. rewrite (obj_blocks_ext (m s)) in Hb by (intros; apply share_list_ps). apply HL. cbn [obj_blocks]. now right. }
    pose proof (IH q _ _ hl fl cl I1 Hq HL1) as I2.
    eapply invA_perm_R; [|exact I2].
    rewrite (obj_fields_ext (m s)) by (intros; apply share_list_ps).
    rewrite nz_app. rewrite <- !app_assoc. apply Permutation_app_swap_app.
Qed.

Lemma load_object_share_invA base k p s R R0 hl fl cl :
  InvA base s R hl fl cl -> p <> 0 -> Permutation R (p :: R0) -> hdr (m s p) <> 0 -> links_ok k (m s) p ->
  InvA base (load_object_share k p s) (nz (obj_fields k (m s) p) ++ R0) hl fl cl.
Proof.
  intros IA Hp0 HR Hn0 HL.
  assert (In p cl) as Hcl.
  { eapply root_counted; eauto. apply IA. eapply Permutation_in; [symmetry; eauto|now left]. }
  pose proof (dec_invA base s R R0 hl fl cl p IA Hp0 HR Hn0) as I1.
  unfold load_object_share.
  rewrite <- (obj_fields_ext (m s) (m (dec p s))) by (intros; apply dec_ps).
  apply share_walk_invA; auto.
  intros b Hb. rewrite (obj_blocks_ext (m s)) in Hb by (intros; apply dec_ps). now apply HL.
Qed.

Lemma share_walk_frontier : forall k p s, frontier (share_walk k p s) = frontier s.
Proof. induction k as [|k IH]; intros p s; cbn [share_walk]; [apply share_list_frontier|]. rewrite IH. apply share_list_frontier. Qed.
