(* More operations of the abstract allocator (Model/Heap.v) preserve the counting invariant:
   non-destructive load, objects chained over several blocks (store_fields / load_fields).
   Also explicit-witness versions of erase / release / acquire (the lemmas of Model/Heap.v hide the
   new ghost lists behind an existential; the strengthened invariant of Proof/HeapTrace.v needs
   them). *)
From Coq Require Import List ZArith Lia Bool Permutation.
From SCC Require Import Model.Heap.
Import ListNotations.
Open Scope Z_scope.

(* ---------- small list facts ---------- *)
Lemma nz_app l1 l2 : nz (l1 ++ l2) = nz l1 ++ nz l2.
Proof. unfold nz. apply filter_app. Qed.
Lemma nz_repeat0 k : nz (repeat 0 k) = [].
Proof. induction k; cbn; auto. Qed.
Lemma nz_pad k l : nz (pad k l) = nz l.
Proof. unfold pad. now rewrite nz_app, nz_repeat0. Qed.
Lemma nz_single b : b <> 0 -> nz [b] = [b].
Proof. intros H. cbn. destruct (Z.eqb_spec b 0); [contradiction|reflexivity]. Qed.
Lemma in_nz l b : In b (nz l) <-> In b l /\ b <> 0.
Proof. unfold nz. rewrite filter_In. destruct (Z.eqb_spec b 0); cbn; intuition congruence. Qed.
Lemma butlastn_lastn {A} k (l : list A) : butlastn k l ++ lastn k l = l.
Proof. apply firstn_skipn. Qed.
Lemma length_butlastn {A} k (l : list A) : length (butlastn k l) = (length l - k)%nat.
Proof. unfold butlastn. rewrite firstn_length. lia. Qed.

Lemma in_below_pos s R hl fl cl a : Inv s R hl fl cl -> In a (hl ++ fl ++ cl) -> a <> 0.
Proof. intros I Ha. pose proof (i_below _ _ _ _ _ I a Ha). lia. Qed.
Lemma heap_in_hl s R hl fl cl : Inv s R hl fl cl -> exists hl1, hl = heap s :: hl1.
Proof. intros I. destruct (chain_head _ _ _ _ (i_hl _ _ _ _ _ I) (i_hl_ne _ _ _ _ _ I)) as (l & -> & _). eauto. Qed.
Lemma heap_nonzero s R hl fl cl : Inv s R hl fl cl -> heap s <> 0.
Proof. intros I. destruct (heap_in_hl _ _ _ _ _ I) as (l & E). apply (in_below_pos _ _ _ _ _ _ I). subst. now left. Qed.

Lemma cnt_in_pos l b : In b l -> 0 < cnt l b.
Proof. intros H. unfold cnt. pose proof (proj1 (count_occ_In Z.eq_dec l b) H). lia. Qed.
Lemma cnt_flat_map_in (f : Z -> list Z) l x b : In x l -> In b (f x) -> 0 < cnt (flat_map f l) b.
Proof. intros Hx Hb. apply cnt_in_pos. apply in_flat_map. eauto. Qed.

(* a non-null pointer slot of a counted or deferred block names a counted block *)
Lemma child_counted s R hl fl cl x c :
  Inv s R hl fl cl -> In x (cl ++ fl) -> In c (ps (m s x)) -> c <> 0 -> In c cl.
Proof.
  intros I Hx Hc Hc0. destruct (in_dec Z.eq_dec c cl) as [?|Hn]; auto. exfalso.
  pose proof (i_nr _ _ _ _ _ I c Hc0 Hn) as H0. unfold refs in H0. rewrite cnt_app in H0.
  pose proof (cnt_nonneg R c). pose proof (cnt_flat_map_in (fun x => ps (m s x)) _ x c Hx Hc). lia.
Qed.

(* ---------- share of a counted block (the pointer need not be a root) ---------- *)
Lemma share_counted_inv s R hl fl cl p n :
  Inv s R hl fl cl -> 0 <= n -> In p cl ->
  Inv (share p n s) (repeat p (Z.to_nat n) ++ R) hl fl cl.
Proof.
  intros I Hn Hcl.
  assert (Hp0 : p <> 0) by (apply (in_below_pos _ _ _ _ _ _ I); rewrite !in_app_iff; auto).
  unfold share. destruct (Z.eqb_spec p 0) as [|_]; [contradiction|].
  assert (Hnd := i_nodup _ _ _ _ _ I).
  destruct (proj1 (nodup3 hl fl cl p Hnd) Hcl) as [Hhl Hfl].
  constructor; cbn [m heap free frontier].
  - eapply chain_frame; [apply (i_hl _ _ _ _ _ I)|]. intros x Hx. apply hdr_set_hdr_other. congruence.
  - apply (i_hl_ne _ _ _ _ _ I).
  - eapply chain_frame; [apply (i_fl _ _ _ _ _ I)|]. intros x Hx. apply hdr_set_hdr_other. congruence.
  - exact Hnd.
  - apply (i_below _ _ _ _ _ I).
  - intros a Ha. rewrite set_hdr_other; [apply (i_fresh _ _ _ _ _ I); auto|].
    pose proof (i_below _ _ _ _ _ I p ltac:(rewrite !in_app_iff; auto)). lia.
  - apply (i_front _ _ _ _ _ I).
  - intros b Hb. rewrite refs_set_hdr. unfold refs. rewrite <- app_assoc, cnt_app.
    pose proof (i_rc _ _ _ _ _ I b Hb) as H0. unfold refs in H0.
    destruct (Z.eq_dec b p) as [->|Hne].
    + rewrite hdr_set_hdr_same.
      assert (cnt (repeat p (Z.to_nat n)) p = n).
      { unfold cnt. rewrite count_occ_repeat_eq by reflexivity. lia. }
      lia.
    + rewrite hdr_set_hdr_other by auto.
      assert (cnt (repeat p (Z.to_nat n)) b = 0).
      { unfold cnt. rewrite count_occ_repeat_neq by congruence. lia. }
      lia.
  - intros b Hb0 Hb. rewrite refs_set_hdr. unfold refs. rewrite <- app_assoc, cnt_app.
    pose proof (i_nr _ _ _ _ _ I b Hb0 Hb) as H0. unfold refs in H0.
    assert (b <> p) by congruence.
    assert (cnt (repeat p (Z.to_nat n)) b = 0).
    { unfold cnt. rewrite count_occ_repeat_neq by congruence. lia. }
    lia.
Qed.

Lemma share_ps p n s x : ps (m (share p n s) x) = ps (m s x).
Proof. unfold share. destruct (p =? 0); auto. cbn. unfold set_hdr, upd. destruct (Z.eqb_spec x p); subst; auto. Qed.
Lemma share_list_ps l : forall s x, ps (m (share_list l s) x) = ps (m s x).
Proof. unfold share_list. induction l as [|c l IH]; intros s x; cbn; auto. rewrite IH. apply share_ps. Qed.
Lemma share_frontier p n s : frontier (share p n s) = frontier s.
Proof. unfold share. destruct (p =? 0); auto. Qed.
Lemma share_list_frontier l : forall s, frontier (share_list l s) = frontier s.
Proof. unfold share_list. induction l as [|c l IH]; intros s; cbn; auto. rewrite IH. apply share_frontier. Qed.

(* sharing a list of pointers, each null or counted: they all become roots *)
Lemma share_list_inv : forall l s R hl fl cl,
  Inv s R hl fl cl -> (forall c, In c l -> c = 0 \/ In c cl) ->
  Inv (share_list l s) (nz l ++ R) hl fl cl.
Proof.
  unfold share_list. induction l as [|c l IH]; intros s R hl fl cl I Hl; cbn [fold_left nz filter app]; auto.
  fold (nz l). destruct (Z.eqb_spec c 0) as [->|Hc]; cbn [negb].
  - change (share 0 1 s) with s. apply IH; auto. intros; apply Hl; now right.
  - assert (In c cl) as Hcl by (destruct (Hl c (or_introl eq_refl)); [contradiction|auto]).
    pose proof (share_counted_inv s R hl fl cl c 1 I ltac:(lia) Hcl) as I1. cbn [Z.to_nat Pos.to_nat Pos.iter_op Nat.add repeat app] in I1.
    change (Z.to_nat 1) with 1%nat in I1. cbn [repeat app] in I1.
    eapply inv_perm_R; [|apply (IH _ (c :: R) hl fl cl I1); intros; apply Hl; now right].
    symmetry. apply Permutation_middle.
Qed.

(* ---------- decrementing the count of a shared block: one root less ---------- *)
Lemma dec_inv s R R0 hl fl cl p :
  Inv s R hl fl cl -> p <> 0 -> Permutation R (p :: R0) -> hdr (m s p) <> 0 ->
  Inv (dec p s) R0 hl fl cl.
Proof.
  intros I Hp0 HR Hn0.
  assert (In p R) as HpR by (eapply Permutation_in; [symmetry; eauto|now left]).
  assert (In p cl) as Hcl by (eapply root_counted; eauto).
  assert (Hnd := i_nodup _ _ _ _ _ I).
  destruct (proj1 (nodup3 hl fl cl p Hnd) Hcl) as [Hhl Hfl].
  assert (Hlt := i_below _ _ _ _ _ I p ltac:(rewrite !in_app_iff; auto)).
  assert (Hcnt : forall b, cnt (refs (m s) R cl fl) b = (if Z.eq_dec p b then 1 else 0) + cnt (refs (m s) R0 cl fl) b).
  { intros b. rewrite (refs_perm (m s) R (p :: R0) cl cl fl fl b HR (Permutation_refl _)).
    unfold refs. cbn [app]. now rewrite cnt_cons. }
  unfold dec. constructor; cbn [m heap free frontier].
  + eapply chain_frame; [apply (i_hl _ _ _ _ _ I)|]. intros x Hx. apply hdr_set_hdr_other. congruence.
  + apply (i_hl_ne _ _ _ _ _ I).
  + eapply chain_frame; [apply (i_fl _ _ _ _ _ I)|]. intros x Hx. apply hdr_set_hdr_other. congruence.
  + exact Hnd.
  + apply (i_below _ _ _ _ _ I).
  + intros a Ha. rewrite set_hdr_other by lia. now apply (i_fresh _ _ _ _ _ I).
  + apply (i_front _ _ _ _ _ I).
  + intros b Hb. rewrite refs_set_hdr. pose proof (i_rc _ _ _ _ _ I b Hb) as Hrc. rewrite Hcnt in Hrc.
    destruct (Z.eq_dec p b) as [<-|Hne].
    * rewrite hdr_set_hdr_same. lia.
    * rewrite hdr_set_hdr_other by congruence. lia.
  + intros b Hb0 Hb. rewrite refs_set_hdr. pose proof (i_nr _ _ _ _ _ I b Hb0 Hb) as Hnr. rewrite Hcnt in Hnr.
    destruct (Z.eq_dec p b); [congruence|lia].
Qed.
Lemma erase_is_dec s p : p <> 0 -> hdr (m s p) <> 0 -> erase p s = dec p s.
Proof. intros Hp Hh. unfold erase, dec. destruct (Z.eqb_spec p 0); [contradiction|]. destruct (Z.eqb_spec (hdr (m s p)) 0); [contradiction|reflexivity]. Qed.
Lemma dec_ps p s x : ps (m (dec p s) x) = ps (m s x).
Proof. unfold dec. cbn. unfold set_hdr, upd. destruct (Z.eqb_spec x p); subst; auto. Qed.

(* ---------- 1. non-destructive load of a single block ---------- *)
Lemma load_share_inv s R R0 hl fl cl p :
  Inv s R hl fl cl -> p <> 0 -> Permutation R (p :: R0) -> hdr (m s p) <> 0 ->
  Inv (load_share p s) (nz (ps (m s p)) ++ R0) hl fl cl.
Proof.
  intros I Hp0 HR Hn0.
  assert (In p cl) as Hcl.
  { eapply root_counted; eauto. eapply Permutation_in; [symmetry; eauto|now left]. }
  pose proof (dec_inv s R R0 hl fl cl p I Hp0 HR Hn0) as I1.
  unfold load_share. apply share_list_inv; auto.
  intros c Hc. destruct (Z.eq_dec c 0); [now left|right].
  eapply (child_counted _ _ _ _ _ p c I1); auto.
  - rewrite in_app_iff; auto.
  - now rewrite dec_ps.
Qed.
(* the header of a block named by a root is never negative, so "not 0" is "positive" *)
Lemma load_share_inv_pos s R R0 hl fl cl p :
  Inv s R hl fl cl -> p <> 0 -> Permutation R (p :: R0) -> 0 < hdr (m s p) ->
  Inv (load_share p s) (nz (ps (m s p)) ++ R0) hl fl cl.
Proof. intros. apply load_share_inv with (R := R); auto. lia. Qed.

(* ====================================================================================== *)
(* Explicit-witness versions of the lemmas of Model/Heap.v (same proofs, the new ghost lists
   spelled out). *)

Lemma erase_last_inv s R R0 hl fl cl p :
  Inv s R hl fl cl -> p <> 0 -> Permutation R (p :: R0) -> hdr (m s p) = 0 ->
  exists c1 c2, cl = c1 ++ p :: c2 /\ Inv (erase p s) R0 hl (p :: fl) (c1 ++ c2).
Proof.
  intros I Hp0 HR H0.
  assert (In p R) as HpR by (eapply Permutation_in; [symmetry; eauto|now left]).
  assert (In p cl) as Hcl by (eapply root_counted; eauto).
  assert (Hnd := i_nodup _ _ _ _ _ I).
  destruct (proj1 (nodup3 hl fl cl p Hnd) Hcl) as [Hhl Hfl].
  assert (Hlt := i_below _ _ _ _ _ I p ltac:(rewrite !in_app_iff; auto)).
  assert (Hcnt : forall b, cnt (refs (m s) R cl fl) b = (if Z.eq_dec p b then 1 else 0) + cnt (refs (m s) R0 cl fl) b).
  { intros b. rewrite (refs_perm (m s) R (p :: R0) cl cl fl fl b HR (Permutation_refl _)).
    unfold refs. cbn [app]. now rewrite cnt_cons. }
  unfold erase. destruct (Z.eqb_spec p 0) as [|_]; [contradiction|].
  destruct (Z.eqb_spec (hdr (m s p)) 0) as [_|Hn0]; [|contradiction].
  apply in_split in Hcl as (c1 & c2 & ->).
  exists c1, c2. split; [reflexivity|].
  assert (Permutation ((c1 ++ p :: c2) ++ fl) ((c1 ++ c2) ++ p :: fl)) as HP.
  { rewrite <- !app_assoc. apply Permutation_app_head. cbn. apply Permutation_middle. }
  assert (~ In p (c1 ++ c2)) as Hpc.
  { intro Hin. pose proof (NoDup_app_r _ _ (NoDup_app_r _ _ Hnd)) as Hnd'.
    apply NoDup_remove_2 in Hnd'. contradiction. }
  constructor; cbn [m heap free frontier].
  + eapply chain_frame; [apply (i_hl _ _ _ _ _ I)|]. intros x Hx. apply hdr_set_hdr_other. congruence.
  + apply (i_hl_ne _ _ _ _ _ I).
  + constructor; [lia|]. rewrite hdr_set_hdr_same.
    eapply chain_frame; [apply (i_fl _ _ _ _ _ I)|]. intros x Hx. apply hdr_set_hdr_other. congruence.
  + eapply Permutation_NoDup; [|exact Hnd].
    apply Permutation_app_head. symmetry. cbn [app].
    rewrite (app_assoc fl c1 c2), (app_assoc fl c1 (p :: c2)). apply Permutation_middle.
  + intros a Ha. apply (i_below _ _ _ _ _ I). rewrite !in_app_iff in *. cbn in Ha. cbn. intuition (subst; auto).
  + intros a Ha. rewrite set_hdr_other by lia. now apply (i_fresh _ _ _ _ _ I).
  + apply (i_front _ _ _ _ _ I).
  + intros b Hb. rewrite refs_set_hdr.
    assert (b <> p) by congruence. rewrite hdr_set_hdr_other by auto.
    rewrite <- (refs_perm (m s) R0 R0 (c1 ++ p :: c2) (c1 ++ c2) fl (p :: fl) b (Permutation_refl _) HP).
    pose proof (i_rc _ _ _ _ _ I b ltac:(rewrite in_app_iff in *; cbn; tauto)) as Hrc.
    rewrite Hcnt in Hrc. destruct (Z.eq_dec p b); [congruence|lia].
  + intros b Hb0 Hb. rewrite refs_set_hdr.
    rewrite <- (refs_perm (m s) R0 R0 (c1 ++ p :: c2) (c1 ++ c2) fl (p :: fl) b (Permutation_refl _) HP).
    destruct (Z.eq_dec p b) as [<-|Hne].
    * pose proof (i_rc _ _ _ _ _ I p ltac:(rewrite in_app_iff; cbn; tauto)) as Hrc.
      rewrite Hcnt in Hrc. destruct (Z.eq_dec p p); [lia|congruence].
    * pose proof (i_nr _ _ _ _ _ I b Hb0) as Hnr. rewrite Hcnt in Hnr.
      destruct (Z.eq_dec p b); [congruence|]. apply Hnr. rewrite in_app_iff in *. cbn. intuition congruence.
Qed.

Lemma release_inv s R R0 hl fl cl p :
  Inv s R hl fl cl -> p <> 0 -> Permutation R (p :: R0) -> hdr (m s p) = 0 ->
  exists c1 c2, cl = c1 ++ p :: c2 /\ Inv (release p s) (nz (ps (m s p)) ++ R0) (p :: hl) fl (c1 ++ c2).
Proof.
  intros I Hp0 HR H0.
  assert (In p R) as HpR by (eapply Permutation_in; [symmetry; eauto|now left]).
  assert (In p cl) as Hcl by (eapply root_counted; eauto).
  assert (Hnd := i_nodup _ _ _ _ _ I).
  destruct (proj1 (nodup3 hl fl cl p Hnd) Hcl) as [Hhl Hfl].
  assert (Hlt := i_below _ _ _ _ _ I p ltac:(rewrite !in_app_iff; auto)).
  apply in_split in Hcl as (c1 & c2 & ->). exists c1, c2. split; [reflexivity|].
  assert (~ In p (c1 ++ c2)) as Hpc.
  { intro Hin. pose proof (NoDup_app_r _ _ (NoDup_app_r _ _ Hnd)) as Hnd'. apply NoDup_remove_2 in Hnd'. contradiction. }
  assert (Hfr : forall x, x <> p -> hdr (set_hdr (m s) p (heap s) x) = hdr (m s x)) by (intros; now apply hdr_set_hdr_other).
  assert (Hold : forall b, b <> 0 -> cnt (refs (m s) R (c1 ++ p :: c2) fl) b =
     (if Z.eq_dec p b then 1 else 0) + cnt R0 b + cnt (ps (m s p)) b + cnt (flat_map (fun x => ps (m s x)) ((c1 ++ c2) ++ fl)) b).
  { intros b Hb. rewrite (refs_perm (m s) R (p :: R0) (c1 ++ p :: c2) (p :: c1 ++ c2) fl fl b HR).
    - unfold refs. cbn [app flat_map]. rewrite cnt_cons, !cnt_app. lia.
    - apply Permutation_app_tail. symmetry. apply Permutation_middle. }
  unfold release. constructor; cbn [m heap free frontier].
  - constructor; auto. rewrite hdr_set_hdr_same. eapply chain_frame; [apply (i_hl _ _ _ _ _ I)|]. intros x Hx. apply Hfr. congruence.
  - discriminate.
  - eapply chain_frame; [apply (i_fl _ _ _ _ _ I)|]. intros x Hx. apply Hfr. congruence.
  - eapply Permutation_NoDup; [|exact Hnd]. cbn [app].
    apply (Permutation_trans (l' := hl ++ p :: fl ++ c1 ++ c2)).
    + apply Permutation_app_head. rewrite (app_assoc fl c1 (p :: c2)), (app_assoc fl c1 c2). symmetry. apply Permutation_middle.
    + symmetry. apply Permutation_middle.
  - intros a Ha. apply (i_below _ _ _ _ _ I).
    clear -Ha. rewrite ?in_app_iff in *. cbn [In] in *. rewrite ?in_app_iff in *. cbn [In] in *. intuition (subst; auto).
  - intros a Ha. rewrite set_hdr_other by lia. now apply (i_fresh _ _ _ _ _ I).
  - apply (i_front _ _ _ _ _ I).
  - intros b Hb. rewrite refs_set_hdr. assert (b <> p) by congruence. rewrite Hfr by auto.
    assert (b <> 0) by (intros ->; pose proof (i_below _ _ _ _ _ I 0 ltac:(clear -Hb; rewrite ?in_app_iff in *; cbn [In]; intuition auto)); lia).
    pose proof (i_rc _ _ _ _ _ I b ltac:(clear -Hb; rewrite ?in_app_iff in *; cbn [In]; intuition auto)) as Hrc.
    rewrite Hold in Hrc by auto. unfold refs. rewrite !cnt_app, cnt_nz by auto.
    destruct (Z.eq_dec p b); [congruence|]. lia.
  - intros b Hb0 Hb. rewrite refs_set_hdr. unfold refs. rewrite !cnt_app, cnt_nz by auto.
    destruct (Z.eq_dec p b) as [<-|Hne].
    + pose proof (i_rc _ _ _ _ _ I p ltac:(rewrite in_app_iff; cbn; tauto)) as Hrc. rewrite Hold in Hrc by auto.
      destruct (Z.eq_dec p p); [|congruence]. lia.
    + pose proof (i_nr _ _ _ _ _ I b Hb0 ltac:(clear -Hb Hne; rewrite ?in_app_iff in *; cbn [In]; intuition auto)) as Hnr.
      rewrite Hold in Hnr by auto. destruct (Z.eq_dec p b); [congruence|]. lia.
Qed.

(* acquire, the three cases with their witnesses.  In case 2 the state s1 is the one before the
   lazy erasure of the recycled block's children. *)
Definition acq_s1 (s : st) : st :=
  {| m := set_hdr (m s) (free s) 0; heap := free s; free := hdr (m s (free s)); frontier := frontier s |}.

Lemma acquire_cases s R R0 hl fl cl :
  Inv s R hl fl cl ->
  Permutation R (nz (ps (m s (heap s))) ++ R0) ->
  let r := heap s in
  fst (acquire s) = r /\
  ( (* 1: the reuse list has another element *)
    (hdr (m s r) <> 0 /\ exists hl2, hl = r :: hdr (m s r) :: hl2 /\ frontier (snd (acquire s)) = frontier s /\
       Inv (snd (acquire s)) (r :: R0) (hdr (m s r) :: hl2) fl (r :: cl))
    \/ (* 3: bump *)
    (hdr (m s r) = 0 /\ hl = [r] /\ fl = [] /\ free s = frontier s /\ frontier (snd (acquire s)) = frontier s + BLOCK /\
       Inv (snd (acquire s)) (r :: R0) [frontier s] [] (r :: cl))
    \/ (* 2: recycle the first deferred block *)
    (hdr (m s r) = 0 /\ hl = [r] /\ exists fl2, fl = free s :: fl2 /\
       snd (acquire s) = fold_left (fun s c => erase c s) (ps (m s (free s))) (acq_s1 s) /\
       Inv (acq_s1 s) (nz (ps (m s (free s))) ++ r :: R0) [free s] fl2 (r :: cl)) ).
Proof.
  intros I HR r. unfold r in *; clear r. set (r := heap s) in *.
  destruct (chain_head _ _ _ _ (i_hl _ _ _ _ _ I) (i_hl_ne _ _ _ _ _ I)) as (hl1 & -> & Hr0 & Hch). fold r in Hch.
  assert (Hnd := i_nodup _ _ _ _ _ I).
  assert (Hrhl : In r (r :: hl1)) by now left.
  destruct (proj2 (proj2 (nodup3 (r :: hl1) fl cl r Hnd)) Hrhl) as [Hrfl Hrcl].
  assert (Hrlt := i_below _ _ _ _ _ I r ltac:(rewrite !in_app_iff; auto)).
  assert (Hr_unref := i_nr _ _ _ _ _ I r Hr0 Hrcl).
  rewrite (refs_perm (m s) R _ cl cl fl fl r HR (Permutation_refl _)) in Hr_unref.
  unfold refs in Hr_unref. rewrite !cnt_app, cnt_nz in Hr_unref by auto.
  pose proof (cnt_nonneg (ps (m s r)) r). pose proof (cnt_nonneg R0 r).
  pose proof (cnt_nonneg (flat_map (fun x => ps (m s x)) (cl ++ fl)) r).
  assert (Hold : forall b, b <> 0 -> cnt (refs (m s) R cl fl) b =
            cnt (ps (m s r)) b + cnt R0 b + cnt (flat_map (fun x => ps (m s x)) (cl ++ fl)) b).
  { intros b Hb. rewrite (refs_perm (m s) R _ cl cl fl fl b HR (Permutation_refl _)).
    unfold refs. rewrite !cnt_app, cnt_nz by auto. lia. }
  unfold acquire. fold r. split.
  { destruct (negb (hdr (m s r) =? 0)); [reflexivity|]. destruct (hdr (m s (free s)) =? 0); reflexivity. }
  destruct (Z.eqb_spec (hdr (m s r)) 0) as [Hh0|Hhn]; cbn [negb].
  2:{ left. split; [exact Hhn|].
    cbn [snd].
    destruct (chain_nonstop _ _ _ _ Hch Hhn) as (hl2 & -> & Hch2).
    exists hl2. split; [reflexivity|]. split; [reflexivity|].
    assert (Hfr : forall x, x <> r -> hdr (set_hdr (m s) r 0 x) = hdr (m s x)) by (intros; now apply hdr_set_hdr_other).
    assert (Hrn : ~ In r (hdr (m s r) :: hl2)).
    { assert (NoDup (r :: ((hdr (m s r) :: hl2) ++ fl ++ cl))) as Hnd' by exact Hnd.
      apply NoDup_cons_iff in Hnd' as [Hn _]. intro Hin. apply Hn. apply in_app_iff. now left. }
    constructor; cbn [m heap free frontier].
    - eapply chain_frame; [constructor; eauto|]. intros x Hx. apply Hfr. intros ->. contradiction.
    - discriminate.
    - eapply chain_frame; [apply (i_fl _ _ _ _ _ I)|]. intros x Hx. apply Hfr. congruence.
    - eapply Permutation_NoDup; [|exact Hnd].
      apply (Permutation_trans (l' := r :: ((hdr (m s r) :: hl2) ++ fl) ++ cl)).
      { rewrite <- app_assoc. reflexivity. }
      etransitivity; [apply Permutation_middle|]. rewrite <- ?app_assoc. cbn [app]. reflexivity.
    - intros a Ha. apply (i_below _ _ _ _ _ I).
      clear -Ha. rewrite ?in_app_iff in *. cbn [In] in *. rewrite ?in_app_iff in *. cbn [In] in *. intuition (subst; auto).
    - intros a Ha. rewrite set_hdr_other by lia. now apply (i_fresh _ _ _ _ _ I).
    - apply (i_front _ _ _ _ _ I).
    - intros b Hb. rewrite refs_set_hdr. unfold refs. cbn [app flat_map]. rewrite cnt_cons, !cnt_app.
      destruct Hb as [<-|Hb].
      + rewrite hdr_set_hdr_same. destruct (Z.eq_dec r r); [|congruence]. lia.
      + assert (b <> r) by congruence. assert (b <> 0) by (intros ->; pose proof (i_below _ _ _ _ _ I 0 ltac:(rewrite !in_app_iff; auto)); lia).
        rewrite Hfr by auto. pose proof (i_rc _ _ _ _ _ I b Hb) as Hrc. rewrite Hold in Hrc by auto.
        destruct (Z.eq_dec r b); [congruence|]. lia.
    - intros b Hb0 Hb. rewrite refs_set_hdr. unfold refs. cbn [app flat_map]. rewrite cnt_cons, !cnt_app.
      assert (b <> r) by (intros ->; apply Hb; now left).
      pose proof (i_nr _ _ _ _ _ I b Hb0 ltac:(intro; apply Hb; now right)) as Hnr. rewrite Hold in Hnr by auto.
      destruct (Z.eq_dec r b); [congruence|]. lia. }
  right.
  cbn [snd]. rewrite Hh0 in Hch. apply chain_stop_nil in Hch. subst hl1.
  set (h2 := free s) in *.
  assert (HF := i_front _ _ _ _ _ I).
  assert (Hcnt_new : forall (fl' : list Z) b, b <> 0 ->
     cnt (refs (m s) (r :: R0) (r :: cl) fl') b =
     (if Z.eq_dec r b then 1 else 0) + cnt R0 b + cnt (ps (m s r)) b + cnt (flat_map (fun x => ps (m s x)) (cl ++ fl')) b).
  { intros fl' b Hb. unfold refs. cbn [app flat_map]. rewrite cnt_cons, !cnt_app. lia. }
  destruct (Z.eqb_spec (hdr (m s h2)) 0) as [Hf0|Hfn].
  - left. split; [exact Hh0|]. split; [reflexivity|].
    cbn [snd].
    assert (h2 = frontier s /\ fl = []) as [Hh2 ->].
    { destruct (Z.eq_dec h2 (frontier s)) as [E|E].
      - split; auto. pose proof (i_fl _ _ _ _ _ I) as Hc. fold h2 in Hc. rewrite E in Hc. now apply chain_stop_nil in Hc.
      - exfalso. destruct (chain_nonstop _ _ _ _ (i_fl _ _ _ _ _ I) E) as (fl2 & -> & Hc2). fold h2 in Hc2.
        rewrite Hf0 in Hc2. assert (0 <> frontier s) by lia.
        destruct (chain_nonstop _ _ _ _ Hc2 H2) as (fl3 & -> & _).
        pose proof (i_below _ _ _ _ _ I 0 ltac:(rewrite !in_app_iff; cbn; auto)). lia. }
    split; [reflexivity|]. split; [exact Hh2|]. rewrite Hh2 in *. split; [reflexivity|]. set (F := frontier s) in *.
    assert (HmF : m s F = zero_block) by (apply (i_fresh _ _ _ _ _ I); lia).
    constructor; cbn [m heap free frontier].
    + constructor; [lia|]. rewrite HmF. cbn. constructor.
    + discriminate.
    + constructor.
    + cbn [app]. constructor.
      * intros Hin. pose proof (i_below _ _ _ _ _ I F ltac:(cbn [app]; cbn; tauto)). lia.
      * exact Hnd.
    + intros a Ha. cbn [app] in Ha. destruct Ha as [<-|Ha]; [unfold BLOCK; lia|].
      pose proof (i_below _ _ _ _ _ I a Ha). unfold BLOCK. lia.
    + intros a Ha. apply (i_fresh _ _ _ _ _ I). unfold BLOCK in Ha. lia.
    + unfold BLOCK. lia.
    + intros b Hb.
      assert (b <> 0) by (intros ->; pose proof (i_below _ _ _ _ _ I 0 ltac:(cbn [app]; cbn; tauto)); lia).
      rewrite Hcnt_new by auto. destruct Hb as [<-|Hb].
      * destruct (Z.eq_dec r r); [|congruence]. lia.
      * pose proof (i_rc _ _ _ _ _ I b Hb) as Hrc. rewrite Hold in Hrc by auto.
        destruct (Z.eq_dec r b); [subst; contradiction|]. lia.
    + intros b Hb0 Hb. rewrite Hcnt_new by auto.
      assert (b <> r) by (intros ->; apply Hb; now left).
      pose proof (i_nr _ _ _ _ _ I b Hb0 ltac:(intro; apply Hb; now right)) as Hnr. rewrite Hold in Hnr by auto.
      destruct (Z.eq_dec r b); [congruence|]. lia.
  - right. split; [exact Hh0|]. split; [reflexivity|].
    cbn [snd].
    assert (h2 <> frontier s) as Hh2f.
    { intros E. rewrite E, (i_fresh _ _ _ _ _ I (frontier s)) in Hfn by lia. now cbn in Hfn. }
    destruct (chain_nonstop _ _ _ _ (i_fl _ _ _ _ _ I) Hh2f) as (fl2 & -> & Hc2). fold h2 in Hc2.
    exists fl2. split; [reflexivity|]. split; [reflexivity|].
    assert (Hh2lt := i_below _ _ _ _ _ I h2 ltac:(rewrite !in_app_iff; cbn; auto)).
    assert (Hh2n : ~ In h2 fl2 /\ ~ In h2 cl /\ h2 <> r).
    { assert (NoDup (r :: h2 :: fl2 ++ cl)) as Hnd' by exact Hnd.
      apply NoDup_cons_iff in Hnd' as [Hr' Hnd']. apply NoDup_cons_iff in Hnd' as [Hh' _].
      rewrite in_app_iff in Hh'. repeat split; try tauto. intros ->. apply Hr'. now left. }
    destruct Hh2n as (Hh2fl & Hh2cl & Hh2r).
    unfold acq_s1. fold h2.
    assert (Hfr : forall x, x <> h2 -> hdr (set_hdr (m s) h2 0 x) = hdr (m s x)) by (intros; now apply hdr_set_hdr_other).
    constructor; cbn [m heap free frontier].
    + constructor; [lia|]. rewrite hdr_set_hdr_same. constructor.
    + discriminate.
    + eapply chain_frame; [exact Hc2|]. intros x Hx. apply Hfr. congruence.
    + eapply Permutation_NoDup; [|exact Hnd]. cbn [app].
      apply (Permutation_trans (l' := h2 :: r :: fl2 ++ cl)); [apply perm_swap|]. apply perm_skip.
      apply Permutation_middle.
    + intros a Ha. apply (i_below _ _ _ _ _ I).
      clear -Ha. rewrite ?in_app_iff in *. cbn [In] in *. rewrite ?in_app_iff in *. cbn [In] in *. intuition (subst; auto).
    + intros a Ha. rewrite set_hdr_other by lia. now apply (i_fresh _ _ _ _ _ I).
    + exact HF.
    + intros b Hb. rewrite refs_set_hdr.
      assert (b <> 0) by (intros ->; pose proof (i_below _ _ _ _ _ I 0 ltac:(clear -Hb; rewrite ?in_app_iff; cbn [In] in *; rewrite ?in_app_iff; cbn [In]; intuition auto)); lia).
      assert (b <> h2) by (destruct Hb as [<-|Hb]; congruence).
      rewrite Hfr by auto.
      unfold refs. rewrite <- app_assoc, !cnt_app, cnt_nz by auto. cbn [app flat_map]. rewrite cnt_cons, !cnt_app.
      rewrite flat_map_app, cnt_app.
      destruct Hb as [<-|Hb].
      * rewrite Hh0. destruct (Z.eq_dec r r); [|congruence].
        rewrite flat_map_app, cnt_app in Hr_unref, H1. cbn [flat_map] in Hr_unref. rewrite cnt_app in Hr_unref.
        pose proof (cnt_nonneg (ps (m s h2)) r). pose proof (cnt_nonneg (flat_map (fun x => ps (m s x)) fl2) r).
        pose proof (cnt_nonneg (flat_map (fun x => ps (m s x)) cl) r). unfold h2 in *. lia.
      * pose proof (i_rc _ _ _ _ _ I b Hb) as Hrc. rewrite Hold in Hrc by auto.
        rewrite flat_map_app, cnt_app in Hrc. cbn [flat_map] in Hrc. rewrite cnt_app in Hrc.
        destruct (Z.eq_dec r b); [subst; contradiction|]. unfold h2 in *. lia.
    + intros b Hb0 Hb. rewrite refs_set_hdr.
      unfold refs. rewrite <- app_assoc, !cnt_app, cnt_nz by auto. cbn [app flat_map]. rewrite cnt_cons, !cnt_app.
      rewrite flat_map_app, cnt_app.
      assert (b <> r) by (intros ->; apply Hb; now left).
      pose proof (i_nr _ _ _ _ _ I b Hb0 ltac:(intro; apply Hb; now right)) as Hnr. rewrite Hold in Hnr by auto.
      rewrite flat_map_app, cnt_app in Hnr. cbn [flat_map] in Hnr. rewrite cnt_app in Hnr.
      destruct (Z.eq_dec r b); [congruence|]. unfold h2 in *. lia.
Qed.
