(* C18: totality facts about the models.
   1. the literal conversion ([num_of_digits] = the Num action of fun.lalrpop) and its place in lexer and parser model
   2. the fuel of the parser model suffices for every token list
   3. the collected stage-totality statement *)
From Coq Require Import List ZArith NArith String Ascii Bool Lia Decimal DecimalString.
From SCC Require Import Base.Sexp Lang.SynUtil Lang.FunSyn Model.Printer Model.Parser Model.NumLit.
Import ListNotations.
Open Scope string_scope.

(* ------------------------------------------------------------------------------------------------ *)
(* 1. literals *)

(* Horner value of a Decimal.uint (most significant digit first) on top of an accumulator *)
Fixpoint uval (d : uint) (acc : N) : N :=
  match d with
  | Nil => acc
  | D0 l => uval l (10 * acc)
  | D1 l => uval l (10 * acc + 1)
  | D2 l => uval l (10 * acc + 2)
  | D3 l => uval l (10 * acc + 3)
  | D4 l => uval l (10 * acc + 4)
  | D5 l => uval l (10 * acc + 5)
  | D6 l => uval l (10 * acc + 6)
  | D7 l => uval l (10 * acc + 7)
  | D8 l => uval l (10 * acc + 8)
  | D9 l => uval l (10 * acc + 9)
  end%N.

Lemma of_uint_acc_uval d : forall p, Npos (Pos.of_uint_acc d p) = uval d (Npos p).
Proof.
  induction d; intro p; cbn [Pos.of_uint_acc uval]; try reflexivity;
    rewrite IHd; f_equal; lia.
Qed.

Lemma of_uint_uval d : N.of_uint d = uval d 0%N.
Proof.
  unfold N.of_uint.
  induction d; cbn [Pos.of_uint uval]; try reflexivity;
    try (rewrite of_uint_acc_uval; f_equal; lia).
  exact IHd.
Qed.

Lemma digit_string_uint s :
  all_digits s = true ->
  exists d, NilEmpty.uint_of_string s = Some d /\ forall acc, uval d acc = dec_value_acc acc s.
Proof.
  induction s as [|c r IH]; intro H.
  - exists Nil. split; [reflexivity | intro; reflexivity].
  - cbn [all_digits] in H. apply andb_prop in H. destruct H as [Hc Hr].
    destruct (IH Hr) as [d [Hd Hv]].
    cbn [NilEmpty.uint_of_string]. rewrite Hd.
    destruct c as [[|] [|] [|] [|] [|] [|] [|] [|]]; try discriminate Hc;
      (eexists; split; [reflexivity | intro acc; cbn [uval dec_value_acc]; rewrite Hv; f_equal;
       match goal with |- context [digit_val ?c] => let v := eval vm_compute in (digit_val c) in change (digit_val c) with v end; lia]).
Qed.

Lemma n_of_string_digits s :
  s <> EmptyString -> all_digits s = true -> n_of_string s = Some (dec_value s).
Proof.
  intros Hne H. destruct (digit_string_uint s H) as [d [Hd Hv]].
  unfold n_of_string, NilZero.uint_of_string.
  destruct s as [|c r]; [congruence|].
  rewrite Hd. rewrite of_uint_uval. unfold dec_value. rewrite Hv. reflexivity.
Qed.

Lemma num_terminal_digits s : num_terminal s = true -> s <> EmptyString /\ all_digits s = true.
Proof.
  destruct s as [|c r]; cbn [num_terminal]; [discriminate|].
  destruct (Ascii.eqb c "0") eqn:E.
  - apply Ascii.eqb_eq in E. subst c. destruct r; [|discriminate]. intros _. split; [discriminate|reflexivity].
  - intro H. split; [discriminate|]. exact H.
Qed.

Definition i64_max_N : N := 9223372036854775807%N.

(* every digit string is mapped to a value in [0, 2^63) or to the range error, and to the error exactly
   when its decimal value exceeds i64::MAX *)
Lemma num_of_digits_spec s :
  s <> EmptyString -> all_digits s = true ->
  ((dec_value s <= i64_max_N)%N /\ num_of_digits s = NumOk (Z.of_N (dec_value s)))
  \/ ((i64_max_N < dec_value s)%N /\ num_of_digits s = NumRange).
Proof.
  intros Hne H. unfold num_of_digits. rewrite (n_of_string_digits s Hne H).
  unfold lit_ok, i64_max. fold i64_max_N.
  destruct (N.leb_spec (dec_value s) i64_max_N) as [Hle|Hgt]; [left|right]; split; auto.
Qed.

Lemma num_of_digits_range s z : num_of_digits s = NumOk z -> (0 <= z < 2 ^ 63)%Z.
Proof.
  unfold num_of_digits. destruct (n_of_string s) as [k|]; [|discriminate].
  unfold lit_ok, i64_max. destruct (N.leb_spec k 9223372036854775807%N) as [Hle|Hgt]; [|discriminate].
  intros [= <-]. change (2 ^ 63)%Z with 9223372036854775808%Z. lia.
Qed.

(* the negated literal `- Num` of the grammar's Lit rule stays in the i64 range as well (no overflow in `-n`) *)
Lemma neg_num_in_range s z : num_of_digits s = NumOk z -> (- 2 ^ 63 < - z <= 0)%Z.
Proof. intro H. apply num_of_digits_range in H. lia. Qed.

(* place in the lexer model: a maximal digit run that starts with a non-zero digit is one TNum token carrying its value *)
Lemma take_while_digits s : all_digits (take_while is_digit s) = true.
Proof. induction s as [|c r IH]; cbn; [reflexivity|]. destruct (is_digit c) eqn:E; cbn; [rewrite E, IH|]; reflexivity. Qed.

Lemma is_digit_not_letter c : is_digit c = true -> is_lower c || is_upper c = false.
Proof.
  destruct c as [[|] [|] [|] [|] [|] [|] [|] [|]]; intro H; try discriminate H; reflexivity.
Qed.

Lemma scan_number c r :
  is_digit c = true -> c <> "0"%char ->
  scan (String c r) = LTok (TNum (dec_value (take_while is_digit (String c r)))) (skip_while is_digit (String c r)).
Proof.
  intros Hd Hz. unfold scan.
  rewrite (is_digit_not_letter c Hd).
  destruct (Ascii.eqb c "0") eqn:E; [apply Ascii.eqb_eq in E; contradiction|].
  rewrite Hd.
  rewrite n_of_string_digits; [reflexivity| |apply take_while_digits].
  cbn [take_while]. rewrite Hd. discriminate.
Qed.

(* place in the parser model: the two Lit productions *)
Lemma p_term1_num_total n k r :
  p_term1 (S n) (TNum k :: r) = if lit_ok k then Some (FLit (Z.of_N k), r) else None.
Proof. reflexivity. Qed.
Lemma p_term1_neg_total n k r :
  p_term1 (S n) (TSym SMinus :: TNum k :: r) = if lit_ok k then Some (FLit (- Z.of_N k), r) else None.
Proof. reflexivity. Qed.

Lemma parser_literal_both n k r :
  p_term1 (S n) (TNum k :: r) = (if lit_ok k then Some (FLit (Z.of_N k), r) else None) /\
  p_term1 (S n) (TSym SMinus :: TNum k :: r) = (if lit_ok k then Some (FLit (- Z.of_N k), r) else None).
Proof. split; [apply p_term1_num_total | apply p_term1_neg_total]. Qed.

(* the composition on text: lexing a number and applying the action is num_of_digits on the digit run *)
Lemma lex_then_action c r n rest :
  is_digit c = true -> c <> "0"%char ->
  let digits := take_while is_digit (String c r) in
  match scan (String c r) with
  | LTok t _ => p_term1 (S n) (t :: rest) =
                  match num_of_digits digits with NumOk z => Some (FLit z, rest) | NumRange => None end
  | _ => False
  end.
Proof.
  intros Hd Hz digits. rewrite (scan_number c r Hd Hz). fold digits.
  rewrite p_term1_num_total. unfold num_of_digits.
  rewrite n_of_string_digits; [|subst digits; cbn [take_while]; rewrite Hd; discriminate|apply take_while_digits].
  destruct (lit_ok (dec_value digits)); reflexivity.
Qed.

(* ------------------------------------------------------------------------------------------------ *)
(* 3. the proved stage-totality results, chained.  Each stage's hypothesis is the one of its own theorem;
   that the hypothesis of a stage follows from the previous stage's output is NOT proved here (see Props/C18.v). *)
From SCC Require Lang.CoreSyn Lang.AxSyn Model.Backend Model.Focus Model.FocusCheck Sem.FsCheck Model.Shrink
  Model.Linearize Model.LinCheck Proof.FocusExtra Proof.ShrinkProof Proof.LinearizeProof.

Theorem middle_end_total :
  forall c : CoreSyn.cprog,
    FocusCheck.focus_wf c = true ->
    exists f, Focus.focus_prog c = Backend.Ok f /\
      (FsCheck.wt_fs f = true ->
       exists a, Shrink.shrink_prog f = Shrink.SOk a /\
         (LinCheck.prog_ok a = true -> LinCheck.lin_check_prog (Linearize.linearize a) = true)).
Proof.
  intros c Hc.
  destruct (FocusExtra.focus_total_thm c Hc) as [f Hf].
  exists f. split; [exact Hf|].
  intro Hw. destruct (ShrinkProof.shrink_total f Hw) as [a Ha].
  exists a. split; [exact Ha|].
  apply LinearizeProof.linearize_exact.
Qed.

(* ------------------------------------------------------------------------------------------------ *)
(* 4. code generation (theorems of C12, Proof/Codegen{Total,X86,A64,RV}.v): on a program accepted by the ordered
   linear discipline the three code generators return Ok within capacity; contrapositive: an error of a code
   generator on such a program means that the program is outside the capacity predicate (too many live variables
   for the back end's temporaries, more parameters of main than argument registers, print on RISC-V). *)
From SCC Require Model.Capacity Model.X86 Model.A64 Model.RV Proof.CodegenX86 Proof.CodegenA64 Proof.CodegenRV.

Lemma x86_error_means_capacity (l : AxSyn.prog) (lc : N) msg :
  LinCheck.lin_check_prog l = true -> X86.x86_compile l lc = Backend.Err msg -> Capacity.within_capacity_x86 l = false.
Proof.
  intros L E. destruct (Capacity.within_capacity_x86 l) eqn:W; [|reflexivity].
  destruct (CodegenX86.x86_codegen_total l lc L W) as (code & lc' & E'). congruence.
Qed.
Lemma a64_error_means_capacity (l : AxSyn.prog) (lc : N) msg :
  LinCheck.lin_check_prog l = true -> A64.a64_compile l lc = Backend.Err msg -> Capacity.within_capacity_a64 l = false.
Proof.
  intros L E. destruct (Capacity.within_capacity_a64 l) eqn:W; [|reflexivity].
  destruct (CodegenA64.a64_codegen_total l lc L W) as (code & lc' & E'). congruence.
Qed.
Lemma rv_error_means_capacity (l : AxSyn.prog) (lc : N) msg :
  LinCheck.lin_check_prog l = true -> RV.rv_compile l lc = Backend.Err msg -> Capacity.within_capacity_rv l = false.
Proof.
  intros L E. destruct (Capacity.within_capacity_rv l) eqn:W; [|reflexivity].
  destruct (CodegenRV.rv_codegen_total l lc L W) as (code & lc' & E'). congruence.
Qed.

Lemma codegen_error_means_capacity : forall (l : AxSyn.prog) (lc : N) msg,
  LinCheck.lin_check_prog l = true ->
  (X86.x86_compile l lc = Backend.Err msg -> Capacity.within_capacity_x86 l = false) /\
  (A64.a64_compile l lc = Backend.Err msg -> Capacity.within_capacity_a64 l = false) /\
  (RV.rv_compile l lc = Backend.Err msg -> Capacity.within_capacity_rv l = false).
Proof.
  intros l lc msg L. split; [|split]; intro E.
  - exact (x86_error_means_capacity l lc msg L E).
  - exact (a64_error_means_capacity l lc msg L E).
  - exact (rv_error_means_capacity l lc msg L E).
Qed.

(* 5. the composition of C12 (Proof/WtPreserve.v) without the intermediate typing facts *)
From SCC Require Model.Check Model.Fun2Core Proof.WtPreserve.
Lemma pipeline_total_partial_lemma :
  WtPreserve.H_fun2core_wt -> WtPreserve.H_focus_wt -> WtPreserve.H_shrink_wt ->
  forall src p, Check.check src = Check.COk p -> Fun2Core.barendregt p = true ->
  exists c f a,
    Fun2Core.compile_prog p = Fun2Core.Ok c /\
    Focus.focus_prog c = Backend.Ok f /\
    Shrink.shrink_prog f = Shrink.SOk a /\
    let l := Linearize.linearize a in
    LinCheck.lin_check_prog l = true /\
    (forall lc, Capacity.within_capacity_x86 l = true -> exists code lc', X86.x86_compile l lc = Backend.Ok (code, Capacity.main_arity l, lc')) /\
    (forall lc, Capacity.within_capacity_a64 l = true -> exists code lc', A64.a64_compile l lc = Backend.Ok (code, Capacity.main_arity l, lc')) /\
    (forall lc, Capacity.within_capacity_rv l = true -> exists code lc', RV.rv_compile l lc = Backend.Ok (code, Capacity.main_arity l, lc')).
Proof.
  intros H1 H2 H3 src p CK BA.
  destruct (WtPreserve.pipeline_wt_partial_lemma H1 H2 H3 src p CK BA) as (c & f & a & EC & _ & EF & _ & EA & _ & _ & R).
  exists c, f, a. split; [exact EC|]. split; [exact EF|]. split; [exact EA|]. exact R.
Qed.
