(* C07, heap statements: non-vacuity of a64_codegen_simulates on the example program of Proof/AxHeapExample.v (lists -
   let / switch -, a five-field record in two chained blocks, shared and dropped objects, a closure that captures an
   integer, calls between two definitions): all hypotheses evaluated, the theorem applied, both machines computed. *)
From Coq Require Import List ZArith NArith String Bool Lia.
From SCC Require Import Base.Sexp Lang.AxSyn Sem.AxSem Sem.AxHeap Model.Backend Model.A64 Sem.A64Sem Sem.A64Wf
     Model.Linearize Model.LinCheck Proof.SimFrag Proof.A64SimAddr Proof.X86HAnn Proof.A64HSimTop Proof.A64HSimCor
     Proof.AxHeapExample.
From SCC Require Model.Heap Proof.AxHeapTyping Proof.X86HSimExample.
Import ListNotations.
Open Scope Z_scope.

Definition hxa_code : list acode := match a64_compile hx_lin 0 with Ok (cs, _, _) => cs | Err _ => [] end.

Lemma hxa_hypotheses :
  lin_check_prog hx_lin = true /\ ann_check_prog hx_lin = true /\ AxHeapTyping.entry_ext hx_lin = true /\
  plain_names hx_lin = true /\ plain_types hx_lin = true /\ lits_i64 hx_lin = true /\ tags_i64 hx_lin = true /\
  (exists lc', a64_compile hx_lin 0 = Ok (hxa_code, 2%nat, lc')) /\ asm_wf hxa_code = None /\ code_small hxa_code = true /\
  args_i64 [3; 100] = true /\ X86HSimExample.fits_run 2000 hx_lin [3; 100] = true.
Proof.
  split; [vm_compute; reflexivity|]. split; [vm_compute; reflexivity|]. split; [vm_compute; reflexivity|].
  split; [vm_compute; reflexivity|]. split; [vm_compute; reflexivity|]. split; [vm_compute; reflexivity|].
  split; [vm_compute; reflexivity|].
  split; [eexists; vm_compute; reflexivity|]. split; [vm_compute; reflexivity|]. split; [vm_compute; reflexivity|].
  split; [vm_compute; reflexivity|]. vm_compute. reflexivity.
Qed.

(* the theorem applies: there are step counts for which the AArch64 run gives the observation of the linear machine ... *)
Lemma hxa_simulated : exists outer inner, fst (run_a64 outer inner hxa_code [3; 100]) = run_linear 2000 hx_lin [3; 100].
Proof.
  destruct hxa_hypotheses as (H1 & H2 & H3 & H4 & H5 & HL & HT & (lc' & H6) & H7 & H8 & HA & H9).
  eapply (a64_codegen_simulates hx_lin 0 hxa_code 2 lc' [3; 100] 2000); eauto.
  - now apply fits_run_sound with (fuel := 2000%nat).
  - vm_compute. discriminate.
Qed.
(* ... and, evaluated, both sides: three iterations, each allocating, sharing, loading and dropping objects; the
   closure adds the captured 100 *)
Lemma hxa_runs :
  run_linear 2000 hx_lin [3; 100] = ([(true, 106)], OExit 106) /\
  fst (run_a64 20 2000 hxa_code [3; 100]) = ([(true, 106)], OExit 106).
Proof. split; vm_compute; reflexivity. Qed.
