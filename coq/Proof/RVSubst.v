(* C11 on RISC-V: the move code of an explicit substitution performs the simultaneous assignment on
   the ISA semantics Sem/RVSem.v (all temporaries are registers; cycles are broken through X1), and a
   whole `Substitute` = reference-count updates (Proof/RVSel.v: rv_share_block_n_refines,
   rv_erase_block_refines) followed by the moves.  Same structure as Proof/X86Subst.v. *)
From Coq Require Import List ZArith NArith String Bool Lia FMapPositive Permutation Sorted.
From SCC Require Import Base.Sexp Lang.AxSyn Sem.AxSem Model.ParMoves Model.Backend Model.RV Sem.RVSem
     Generated.Constants Proof.RVSel Proof.SubstGraph Proof.SubstBackends.
From SCC Require Proof.A64PM.
Import ListNotations.
Local Open Scope list_scope.
Local Open Scope Z_scope.

Definition rv_teqb := teqb rv_backend.
Lemma rv_teqb_spec a b : reflect (a = b) (rv_teqb a b).
Proof.
  unfold rv_teqb, teqb. cbn [b_tcompare rv_backend].
  destruct (N.compare a b) eqn:E; constructor.
  - now apply N.compare_eq_iff.
  - intros ->. rewrite N.compare_refl in E. discriminate.
  - intros ->. rewrite N.compare_refl in E. discriminate.
Qed.

(* a register the moves may name: not x0, not the scratch register X1 *)
Definition rv_operand_ok (t : rtemp) : Prop := t <> ZERO /\ t <> TEMP.

(* straight-line execution of a list of register moves (the step of MV depends on nothing else) *)
Fixpoint run_mvs (cs : list rcode) (s : rstate) : option rstate :=
  match cs with
  | [] => Some s
  | MV x y :: r => run_mvs r (rset s x (rget s y))
  | _ => None
  end.
Lemma run_mvs_app a b s : run_mvs (a ++ b) s = match run_mvs a s with Some s' => run_mvs b s' | None => None end.
Proof. revert s; induction a as [|c a IH]; intros s; cbn [app run_mvs]; [reflexivity|]. destruct c; auto. Qed.
Lemma padd_S i n : padd i (S n) = padd (Pos.succ i) n. Proof. reflexivity. Qed.
Lemma run_mvs_star im cs : forall i s s',
  at_code im i cs -> run_mvs cs s = Some s' -> star im i s (padd i (List.length cs)) s'.
Proof.
  induction cs as [|c cs IH]; intros i s s' AC E.
  - cbn in E. inversion E; subst. apply star_refl.
  - destruct c; cbn [run_mvs] in E; try discriminate.
    destruct (AC 0%nat _ eq_refl) as [Hc [a Ha]]. cbn [padd] in Hc, Ha.
    eapply star_step; [eapply one_next; [exact Hc|exact Ha|apply step_MV]|].
    cbn [List.length]. rewrite padd_S. apply IH; [|exact E].
    intros n c Hn. apply (AC (S n) c Hn).
Qed.

Section Sim.
Definition V := option Z.
Definition abs_state : Type := ((rtemp -> V) * V)%type.
Definition represents_pm (s : rstate) (c : abs_state) : Prop :=
  (forall t, rv_operand_ok t -> rget s t = fst c t) /\ rget s TEMP = snd c.

Lemma TEMP_nz : TEMP <> 0%N. Proof. vm_compute; discriminate. Qed.

Lemma sim_pinstr s c i :
  represents_pm s c -> A64PM.pinstr_ok rtemp rv_operand_ok i ->
  exists s', run_mvs (emit_pinstr rv_backend false i) s = Some s' /\ heap s' = heap s /\ hw s' = hw s /\
             represents_pm s' (ParMoves.step rtemp rv_teqb V c i).
Proof.
  intros (R1 & R2) OK.
  destruct i as [d src|t|t]; cbn [A64PM.pinstr_ok] in OK;
    cbn [emit_pinstr b_mov b_store_temporary b_restore_temporary rv_backend r_mov run_mvs ParMoves.step].
  - destruct OK as ((Dz & Dt) & Os).
    eexists. split; [reflexivity|]. split; [apply heap_rset|]. split; [apply rset_spec; exact 0%N|].
    split; cbn [fst snd].
    + intros t Ot. unfold ParMoves.upd. destruct (rv_teqb_spec t d) as [->|NE].
      * rewrite rget_rset_same by exact Dz. apply R1; exact Os.
      * rewrite rget_rset_other by congruence. apply R1; exact Ot.
    + rewrite rget_rset_other by congruence. exact R2.
  - eexists. split; [reflexivity|]. split; [apply heap_rset|]. split; [apply rset_spec; exact 0%N|].
    split; cbn [fst snd].
    + intros u (Uz & Ut). rewrite rget_rset_other by congruence. apply R1. split; assumption.
    + rewrite rget_rset_same by exact TEMP_nz. apply R1; exact OK.
  - destruct OK as (Tz & Tt).
    eexists. split; [reflexivity|]. split; [apply heap_rset|]. split; [apply rset_spec; exact 0%N|].
    split; cbn [fst snd].
    + intros u Ou. unfold ParMoves.upd. destruct (rv_teqb_spec u t) as [->|NE].
      * rewrite rget_rset_same by exact Tz. exact R2.
      * rewrite rget_rset_other by congruence. apply R1; exact Ou.
    + rewrite rget_rset_other by congruence. exact R2.
Qed.

Lemma sim_exec is : forall s c,
  represents_pm s c -> Forall (A64PM.pinstr_ok rtemp rv_operand_ok) is ->
  exists s', run_mvs (flat_map (emit_pinstr rv_backend false) is) s = Some s' /\ heap s' = heap s /\ hw s' = hw s /\
             represents_pm s' (ParMoves.exec rtemp rv_teqb V is c).
Proof.
  induction is as [|i r IH]; intros s c R OK; cbn [flat_map].
  - exists s. cbn. repeat split; auto; apply R.
  - inversion OK as [|? ? Oi Or]; subst.
    destruct (sim_pinstr s c i R Oi) as (s1 & E1 & H1 & W1 & R1).
    destruct (IH s1 _ R1 Or) as (s2 & E2 & H2 & W2 & R2).
    exists s2. rewrite run_mvs_app, E1. split; [exact E2|]. split; [congruence|]. split; [congruence|exact R2].
Qed.
End Sim.

(* explicit substitution on RISC-V: the emitted move code, placed anywhere in a program, is the
   simultaneous assignment; only registers change (the heap and its high-water mark do not) *)
Theorem rv_parallel_moves_ok im i (am : amap rtemp) (code : list rcode) s :
  indeg1 rtemp rv_teqb am -> nodup_targets rtemp rv_teqb am -> A64PM.amap_ok rtemp rv_operand_ok am ->
  parallel_moves_code rv_backend am = Ok code ->
  at_code im i code ->
  exists s', star im i s (padd i (List.length code)) s' /\ heap s' = heap s /\ hw s' = hw s /\
             (forall a b, edge rtemp rv_teqb am a b -> rget s' b = rget s a) /\
             (forall u, rv_operand_ok u -> (forall a, ~ edge rtemp rv_teqb am a u) -> rget s' u = rget s u).
Proof.
  intros ID NT OK E AC. unfold parallel_moves_code in E. fold rv_teqb in E.
  destruct (spanning_forest rtemp rv_teqb (List.length (all_targets rtemp am) + 2) am) as [forest|] eqn:SF; [|discriminate].
  injection E as <-.
  assert (PM : parallel_moves rtemp rv_teqb (List.length (all_targets rtemp am) + 2) am = Some (flat_map (root_moves rtemp) forest))
    by (unfold parallel_moves; now rewrite SF).
  assert (CODE : flat_map (emit_root rv_backend) forest = flat_map (emit_pinstr rv_backend false) (flat_map (root_moves rtemp) forest)).
  { rewrite A64PM.flat_map_flat_map. reflexivity. }
  rewrite CODE in *.
  pose proof (A64PM.parallel_moves_mentions rtemp rv_teqb rv_teqb_spec rv_operand_ok _ am _ OK PM) as MEN.
  destruct (sim_exec _ s (rget s, rget s TEMP) (conj (fun t _ => eq_refl) eq_refl) MEN) as (s' & R & H' & W' & (V1 & _)).
  destruct (parallel_moves_correct rtemp rv_teqb rv_teqb_spec V _ am _ (rget s) (rget s TEMP) ID NT PM) as (C1 & C2).
  exists s'. split; [apply run_mvs_star; assumption|]. split; [exact H'|]. split; [exact W'|]. split.
  - intros a b Eab. rewrite <- (C1 a b Eab). apply V1.
    destruct Eab as (ts & L & I). destruct (A64PM.lookup_in rtemp rv_teqb rv_teqb_spec am a ts L) as (k & -> & Iam).
    destruct (OK _ _ Iam) as (_ & Fts). rewrite Forall_forall in Fts. auto.
  - intros u Ou NE. rewrite <- (C2 u NE). apply V1; auto.
Qed.

Theorem rv_parallel_moves_total (am : amap rtemp) :
  indeg1 rtemp rv_teqb am -> exists code, parallel_moves_code rv_backend am = Ok code.
Proof.
  intros ID. unfold parallel_moves_code. fold rv_teqb.
  pose proof (parallel_moves_terminates rtemp rv_teqb rv_teqb_spec am ID) as H. unfold parallel_moves in H.
  destruct (spanning_forest rtemp rv_teqb _ am); [eexists; reflexivity|]. exfalso. apply H. reflexivity.
Qed.

(* ================= the whole Substitute ================= *)
Notation rtpos := (tpos rv_backend).

Lemma rtpos_ok n i t : rtpos n i = Ok t -> (4 <= t)%N.
Proof.
  unfold tpos. cbn [b_temporary_from_position rv_backend]. unfold temporary_from_position. change RESERVED with 4%N.
  destruct (N.ltb _ _); [|discriminate]. intros E; inversion E; lia.
Qed.
Lemma four_le t : (4 <= t)%N -> t <> ZERO /\ t <> TEMP /\ t <> HEAP /\ t <> FREE.
Proof. change ZERO with 0%N. change TEMP with 1%N. change HEAP with 2%N. change FREE with 3%N. lia. Qed.

Definition a_count (p : Z) (k : nat) (h : aheap) : aheap :=
  match k with
  | O => a_erase p h
  | S O => h
  | S (S n) => a_share p (Z.of_nat (S n)) h
  end.

Definition ptr_of (s : rstate) (t : rtemp) : Z := match rget s t with Some p => p | None => 0 end.
Definition rc_temp (o : @rc_op rtemp) : rtemp := match o with RcErase t => t | RcShare t _ => t end.
Definition rc_ok (s0 : rstate) (o : @rc_op rtemp) : Prop :=
  (4 <= rc_temp o)%N /\
  (exists p, rget s0 (rc_temp o) = Some p /\ (p = 0 \/ valid_addr p)) /\
  match o with RcShare _ n => fits12 (Z.of_N n) = true | RcErase _ => True end.
Definition rc_a (s0 : rstate) (o : @rc_op rtemp) (h : aheap) : aheap :=
  match o with
  | RcErase t => a_erase (ptr_of s0 t) h
  | RcShare t n => a_share (ptr_of s0 t) (Z.of_N n) h
  end.

Lemma rv_emit_rc_ok im s0 : forall ops i lc s h,
  Forall (rc_ok s0) ops ->
  (forall r, r <> TEMP -> r <> FREE -> rget s r = rget s0 r) ->
  placed im i (fst (emit_rc rv_backend ops lc)) ->
  represents s h ->
  exists s', star im i s (padd i (List.length (fst (emit_rc rv_backend ops lc)))) s' /\
    represents s' (fold_left (fun h o => rc_a s0 o h) ops h) /\
    (forall r, r <> TEMP -> r <> FREE -> rget s' r = rget s0 r).
Proof.
  induction ops as [|o ops IH]; intros i lc s h OK R PL RP.
  - exists s. cbn. repeat split; auto; try apply RP. apply star_refl.
  - inversion OK as [|? ? Oo Or]; subst.
    cbn [emit_rc] in *. destruct (emit_rc_op rv_backend o lc) as [c1 lc1] eqn:E1.
    destruct (emit_rc rv_backend ops lc1) as [c2 lc2] eqn:E2. cbn [fst] in *.
    apply placed_app in PL as [PL1 PL2].
    destruct Oo as (T4 & (p & Hp & Vp) & Ho). destruct (four_le _ T4) as (N0 & N1 & N2 & N3).
    assert (Hp' : rget s (rc_temp o) = Some p) by (rewrite R by assumption; exact Hp).
    assert (PO : ptr_of s0 (rc_temp o) = p) by (unfold ptr_of; now rewrite Hp).
    assert (STEP : exists s1, star im i s (padd i (List.length c1)) s1 /\ represents s1 (rc_a s0 o h) /\
                              (forall r, r <> TEMP -> r <> FREE -> rget s1 r = rget s r)).
    { destruct o as [t|t n]; cbn [emit_rc_op b_erase b_share_n rv_backend rc_temp rc_a] in *.
      - replace c1 with (fst (r_erase_block t lc)) in * by (now rewrite E1).
        destruct (rv_erase_block_refines im i t lc s h p PL1 N0 N1 N2 N3 RP Hp' Vp) as (s1 & X1 & X2 & X3).
        exists s1. rewrite PO. auto.
      - replace c1 with (fst (r_share_block_n t n lc)) in * by (now rewrite E1).
        destruct (rv_share_block_n_refines im i t n lc s h p PL1 N0 N1 N2 N3 RP Hp' Vp Ho) as (s1 & X1 & X2 & X3).
        exists s1. rewrite PO. split; [exact X1|]. split; [exact X2|]. intros r A _. apply X3; exact A. }
    destruct STEP as (s1 & X1 & X2 & X3).
    destruct (IH (padd i (List.length c1)) lc1 s1 (rc_a s0 o h) Or) as (s2 & Y1 & Y2 & Y3).
    { intros r A B. rewrite X3; auto. }
    { now rewrite E2. }
    { exact X2. }
    rewrite E2 in *. cbn [fst] in *.
    exists s2. split; [|split; [exact Y2|exact Y3]].
    rewrite app_length, padd_add. eapply star_trans; eauto.
Qed.

Lemma count_targets_le re b : (count_targets re b <= List.length re)%nat.
Proof. unfold count_targets. induction re as [|x re IH]; cbn; [lia|]. destruct (N.eqb _ _); cbn; lia. Qed.

Lemma lookup_of_In (am : amap rtemp) k ts :
  NoDup (map fst am) -> In (k, ts) am -> lookup rtemp rv_teqb am k = Some ts.
Proof.
  induction am as [|[k1 t1] am IH]; cbn; intros ND Hin; [destruct Hin|].
  inversion ND as [|? ? Hn ND']; subst. destruct Hin as [E|Hin].
  - inversion E; subst. destruct (rv_teqb_spec k k); congruence.
  - destruct (rv_teqb_spec k k1) as [->|N]; [|auto]. exfalso. apply Hn. apply in_map_iff. exists (k1, ts); auto.
Qed.

Theorem rv_substitute_ok im i types ctx re l args lc code lc' s h :
  NoDup (ids ctx) -> NoDup (new_ids re) ->
  Z.of_nat (List.length re) <= 2048 ->
  code_statement rv_backend types (Substitute re (Call l args)) ctx lc = Ok (code, lc') ->
  placed im i code ->
  represents s h ->
  (* every object variable holds a null pointer or a pointer to a heap block *)
  (forall k b t, nth_error ctx k = Some b -> is_obj b = true -> rtpos Fst k = Ok t ->
     exists p, rget s t = Some p /\ (p = 0 \/ valid_addr p)) ->
  exists (s' : rstate) (order : list (nat * binding)) (ptr : nat -> Z),
    (* control arrives at the final jump to the callee *)
    star im i s (padd i (List.length code - 1)) s' /\
    nth_error code (List.length code - 1) = Some (JAL ZERO (show_ident l +++ "_")) /\
    (* ONE simultaneous assignment: new variable j gets what its source k held *)
    (forall k j bk pj n a b, nth_error ctx k = Some bk -> nth_error re j = Some pj -> idn (snd pj) = idn (bvar bk) ->
       (n = Snd \/ bchi bk <> Ext) -> rtpos n k = Ok a -> rtpos n j = Ok b -> rget s' b = rget s a) /\
    (* reference counts: every object variable exactly once, k targets: erase / nothing / share (k-1) *)
    Permutation (map snd order) (filter is_obj ctx) /\
    (forall k b, In (k, b) order -> nth_error ctx k = Some b /\ exists t, rtpos Fst k = Ok t /\ rget s t = Some (ptr k)) /\
    represents s' (fold_left (fun h kb => a_count (ptr (fst kb)) (count_targets re (snd kb)) h) order h) /\
    (* nothing else: every register but X1 (scratch), FREE and the new variables' registers *)
    (forall u, u <> TEMP -> u <> FREE -> (forall j n, rtpos n j = Ok u -> (List.length re <= j)%nat) -> rget s' u = rget s u).
Proof.
  intros NDc NDn LEN CS PL RP PTR.
  cbn [code_statement] in CS.
  destruct (code_weakening_contraction rv_backend (transpose re ctx) ctx lc) as [[c1 lc1]|e] eqn:WC; [|discriminate].
  cbn [rbind] in CS. unfold code_exchange in CS.
  destruct (connections rv_backend (transpose re ctx) ctx (map fst re)) as [am|e] eqn:CN; [|discriminate].
  cbn [rbind] in CS. destruct (parallel_moves_code rv_backend am) as [c2|e] eqn:PMC; [|discriminate].
  cbn [rbind] in CS. inversion CS; subst code lc'; clear CS.
  cbn [b_jump_label b_mark rv_backend app fst snd] in *. unfold r_jump_label in *.
  set (jmp := JAL ZERO (show_ident l +++ "_")) in *.
  apply placed_app in PL as [PL1 PL23]. apply placed_app in PL23 as [[CA2 _] _].
  (* phase 1: reference counts *)
  destruct (weakening_contraction_counts rv_backend ctx re lc c1 lc1 NDc WC) as (order & PERM & _ & ORD & ops & F2 & EM).
  set (ptr := fun k : nat => match rtpos Fst k with Ok t => ptr_of s t | Err _ => 0 end).
  assert (OBJ : forall k b, In (k, b) order -> is_obj b = true).
  { intros k b Hin. assert (In b (map snd order)) as Hb by (apply in_map_iff; exists (k, b); auto).
    eapply Permutation_in in Hb; [|exact PERM]. apply filter_In in Hb. tauto. }
  assert (RCOK : Forall (rc_ok s) (List.concat ops)).
  { apply Forall_concat. clear EM PERM. induction F2 as [|[k b] o order' ops' (t & Ht & ->) _ IHF]; constructor.
    - cbn [fst snd] in *. pose proof (ORD k b (or_introl eq_refl)) as Hnth.
      pose proof (rtpos_ok Fst k t Ht) as T4.
      destruct (PTR k b t Hnth (OBJ k b (or_introl eq_refl)) Ht) as (p & Hp & Vp).
      pose proof (count_targets_le re b) as LE.
      destruct (count_targets re b) as [|[|m]]; cbn [rc_op_for].
      + constructor; [|constructor]. unfold rc_ok; cbn [rc_temp]. split; [exact T4|split; [exists p; auto|exact I]].
      + constructor.
      + constructor; [|constructor]. unfold rc_ok; cbn [rc_temp]. split; [exact T4|split; [exists p; auto|]].
        unfold fits12. apply andb_true_iff. split; apply Z.leb_le; lia.
    - apply IHF; intros; [apply ORD|eapply OBJ]; right; eauto. }
  assert (EMc : c1 = fst (emit_rc rv_backend (List.concat ops) lc)) by (now rewrite <- EM).
  rewrite EMc in PL1.
  destruct (rv_emit_rc_ok im s (List.concat ops) i lc s h RCOK (fun r _ _ => eq_refl) PL1 RP) as (s1 & X1 & X2 & X4).
  rewrite <- EMc in X1.
  (* phase 2: the parallel moves *)
  destruct (transpose_connections_indeg1 rv_backend rv_backend_ok ctx re am NDc NDn CN) as (ID & NT & SRT & KEYS).
  pose proof (connections_edges rv_backend rv_backend_ok ctx re am NDc NDn CN) as EDG.
  assert (NDK : NoDup (map fst am)).
  { apply (sorted_nodup N.compare (cmp_eq rv_backend rv_backend_ok)). exact SRT. }
  assert (VTam : forall t, In t (map fst am) \/ In t (all_targets rtemp am) -> (4 <= t)%N).
  { intros t [Hk|Ht].
    - destruct (KEYS t Hk) as (k & bk & n & _ & _ & Hp). apply (rtpos_ok n k t Hp).
    - unfold all_targets in Ht. apply in_flat_map in Ht as ([k ts] & Hin & Ht). cbn [snd] in Ht.
      assert (edge rtemp rv_teqb am k t) as E.
      { exists ts. split; [|exact Ht]. apply lookup_of_In; auto. }
      apply EDG in E as (k' & j & bk & pj & n & _ & _ & _ & _ & _ & Hb). apply (rtpos_ok n j t Hb). }
  assert (AMOK : A64PM.amap_ok rtemp rv_operand_ok am).
  { intros k ts Hin. split.
    - assert (4 <= k)%N as K4 by (apply VTam; left; apply in_map_iff; exists (k, ts); auto).
      destruct (four_le k K4) as (A & B & _). split; assumption.
    - apply Forall_forall. intros t Ht.
      assert (4 <= t)%N as T4 by (apply VTam; right; unfold all_targets; apply in_flat_map; exists (k, ts); auto).
      destruct (four_le t T4) as (A & B & _). split; assumption. }
  destruct (rv_parallel_moves_ok im (padd i (List.length c1)) am c2 s1 ID NT AMOK PMC CA2) as (s2 & E2 & H2 & W2 & P1 & P2).
  exists s2, order, ptr.
  assert (LENc : (List.length (c1 ++ c2 ++ [jmp]) - 1 = List.length c1 + List.length c2)%nat).
  { rewrite !app_length. cbn [List.length]. lia. }
  assert (NOEDGE : forall u, (forall j n, rtpos n j = Ok u -> False) -> forall a, ~ edge rtemp rv_teqb am a u).
  { intros u NO a E. apply EDG in E as (k & j & bk & pj & n & _ & _ & _ & _ & _ & Hb). eapply NO; eauto. }
  assert (OKu : forall u, (2 <= u)%N -> rv_operand_ok u).
  { intros u Hu. change ZERO with 0%N. change TEMP with 1%N. unfold rv_operand_ok. change ZERO with 0%N. change TEMP with 1%N. lia. }
  assert (KEEP : forall u, (u = HEAP \/ u = FREE) -> rget s2 u = rget s1 u).
  { intros u Hu. apply P2; [apply OKu; change HEAP with 2%N in Hu; change FREE with 3%N in Hu; lia|].
    apply NOEDGE. intros j n Hb. apply rtpos_ok in Hb. change HEAP with 2%N in Hu; change FREE with 3%N in Hu. lia. }
  split; [|split; [|split; [|split; [|split; [|split]]]]].
  - rewrite LENc, padd_add. eapply star_trans; eauto.
  - rewrite LENc. rewrite nth_error_app2 by lia. rewrite nth_error_app2 by lia.
    replace (List.length c1 + List.length c2 - List.length c1 - List.length c2)%nat with 0%nat by lia. reflexivity.
  - intros k j bk pj n a b Hk Hj Hid Hn Ha Hb.
    assert (edge rtemp rv_teqb am a b) as E by (apply EDG; exists k, j, bk, pj, n; auto 10).
    rewrite (P1 a b E). destruct (four_le a (rtpos_ok n k a Ha)) as (_ & A1 & _ & A3). apply X4; assumption.
  - exact PERM.
  - intros k b Hin. split; [apply ORD; exact Hin|].
    assert (exists t, rtpos Fst k = Ok t) as (t & Ht).
    { clear -F2 Hin. induction F2 as [|x o order' ops' (t & Ht & _) _ IHF]; [destruct Hin|].
      destruct Hin as [->|Hin]; [exists t; exact Ht|auto]. }
    exists t. split; [exact Ht|]. destruct (PTR k b t (ORD k b Hin) (OBJ k b Hin) Ht) as (p & Hp & _).
    unfold ptr, ptr_of. rewrite Ht, Hp. reflexivity.
  - (* the abstract heap: the moves change no heap word, HEAP or FREE *)
    assert (FOLD : fold_left (fun h o => rc_a s o h) (List.concat ops) h =
                   fold_left (fun h kb => a_count (ptr (fst kb)) (count_targets re (snd kb)) h) order h).
    { clear -F2. generalize h. induction F2 as [|[k b] o order' ops' (t & Ht & ->) _ IHF]; intros h0; [reflexivity|].
      cbn [List.concat fold_left fst snd]. rewrite fold_left_app, <- IHF. f_equal.
      cbn [fst] in Ht. unfold ptr. rewrite Ht. destruct (count_targets re b) as [|[|m]]; cbn [rc_op_for fold_left rc_a a_count]; auto. }
    rewrite <- FOLD. destruct X2 as (Hw & Hhp & Hfp). split; [|split].
    + intros a. unfold hword. rewrite H2. apply Hw.
    + rewrite KEEP by auto. exact Hhp.
    + rewrite KEEP by auto. exact Hfp.
  - intros u NT1 NF NEW. destruct (N.eq_dec u 0) as [->|NZ]; [reflexivity|].
    rewrite <- (X4 u NT1 NF). apply P2; [split; [exact NZ|exact NT1]|].
    intros a E. apply EDG in E as (k & j & bk & pj & n & _ & Hj & _ & _ & _ & Hb).
    specialize (NEW j n Hb). assert (j < List.length re)%nat by (apply nth_error_Some; congruence). lia.
Qed.

(* ---------- the hypotheses of rv_substitute_ok are satisfiable (same substitution as for AArch64) ---------- *)
Definition ex_T : ty := Decl ("T"%string, 0%N).
Definition ex_ctx : ctx := [mkb ("a"%string, 1%N) Prd ex_T; mkb ("b"%string, 2%N) Ext I64; mkb ("c"%string, 3%N) Prd ex_T].
Definition ex_re : list (binding * ident) :=
  [(mkb ("b"%string, 4%N) Ext I64, ("b"%string, 2%N)); (mkb ("a"%string, 5%N) Prd ex_T, ("a"%string, 1%N));
   (mkb ("a"%string, 6%N) Prd ex_T, ("a"%string, 1%N))].
Definition ex_code : list rcode :=
  match code_statement rv_backend [] (Substitute ex_re (Call ("f"%string, 0%N) [])) ex_ctx 0 with Ok (c, _) => c | Err _ => [] end.
Definition ex_state : rstate :=
  {| regs := PM.add (N.succ_pos 4) (HEAP_BASE + 64) (PM.add (N.succ_pos 8) 0
               (PM.add (N.succ_pos 2) (HEAP_BASE + 192) (PM.add (N.succ_pos 3) (HEAP_BASE + 128) (PM.empty Z))));
     heap := PM.empty Z; hw := HEAP_BASE - 8 |}.
Definition ex_heap : aheap := {| words := fun _ => 0; hp := HEAP_BASE + 192; fp := HEAP_BASE + 128 |}.
Example rv_substitute_hyps_satisfiable :
  NoDup (ids ex_ctx) /\ NoDup (new_ids ex_re) /\ Z.of_nat (List.length ex_re) <= 2048 /\
  code_statement rv_backend [] (Substitute ex_re (Call ("f"%string, 0%N) [])) ex_ctx 0 = Ok (ex_code, 4%N) /\
  List.length ex_code = 23%nat /\
  placed (mk_image ([] ++ ex_code ++ [])) 1 ex_code /\
  represents ex_state ex_heap /\
  (forall k b t, nth_error ex_ctx k = Some b -> is_obj b = true -> rtpos Fst k = Ok t ->
     exists p, rget ex_state t = Some p /\ (p = 0 \/ valid_addr p)).
Proof.
  split; [vm_compute; repeat constructor; cbn; intuition discriminate|].
  split; [vm_compute; repeat constructor; cbn; intuition discriminate|].
  split; [vm_compute; discriminate|].
  split; [vm_compute; reflexivity|]. split; [vm_compute; reflexivity|].
  split; [apply (placed_mk_image [] ex_code []); vm_compute; repeat constructor; cbn; intuition discriminate|].
  split; [split; [intros a; unfold hword, ex_state; cbn [heap]; rewrite PM.gempty; reflexivity|split; reflexivity]|].
  intros k b t Hk Ho Ht. destruct k as [|[|[|k]]]; cbn in Hk; try (destruct k; discriminate); inversion Hk; subst; try discriminate.
  - vm_compute in Ht. inversion Ht; subst t. exists (HEAP_BASE + 64). split; [reflexivity|]. right. split; reflexivity.
  - vm_compute in Ht. inversion Ht; subst t. exists 0. split; [reflexivity|]. left; reflexivity.
Qed.
